"""C04 - framed substream messages round-trip exactly within configured limits.

Specs: FramedPipe.tla (Prop layer), SubstreamPipe.tla / SubstreamPipeMC.tla (Impl layer: Sink API and
send_framed over a credit-window carrier, receiver per codec), FramedPipeTrace.tla.
Harness: harness/src/bin/substream/ (real `substream::Substream` on both ends of an in-memory yamux stream).
"""
import concurrent.futures
import json
import os
import random
import re
import time
from vlib import *

ASSUME = [
    "carrier = yamux 0.13 stream (default config, 256 KiB initial window) of an in-memory connection pair; no transport faults",
    "quiescence is decided by the hand-polled executor (no task holds a wake-up flag), never by wall-clock time; at a "
    "`quiesce` event the sender has not been polled since its last call returned",
    "Identity(0) is excluded (no message can be told from none); a program switches between the Sink API and send_framed only "
    "after a send/flush/send_framed completed (a fed but unflushed message followed by send_framed is API misuse)",
    "UnsignedVarint(None) with an incoming length of 2^62 (allocation failure aborts the process) is not executed; lengths >= 2^63 are",
    "message content is pseudo-random; equality of messages is decided by length + 31-bit FNV-1a digest computed by the harness",
    "TLC results hold for the stated small constants (window 2 units, sizes {0,1,3,4} units, <= 3 calls); the TLC-generated schedules "
    "are replayed as poll orders (sender / connection drivers / receiver / settle), not in byte-level lockstep",
]

W = lambda: min(12, int(os.environ.get("VERIF_WORKERS", "12")))
# Fixed = TRUE is the code as it is now (fix commits 4ba5020, 781835c, cd03d13); Fixed = FALSE is the pinned-tree
# behaviour, kept only as a negative model for the self-test.
MC_BASE = {"W": 2, "B": 2, "RBuf": 2, "Fixed": True, "Record": False, "Quotas": {0, 1, 9}, "Mut": "none",
           "Cfgs": "<- CfgsDef", "Sizes": {0, 1, 3, 4}, "MaxOps": 2}
MC_LINES = ["SPECIFICATION Spec", "INVARIANTS NoKF", "PROPERTIES StepOK", "VIEW View", "CHECK_DEADLOCK FALSE"]
STRICT_LINES = ["SPECIFICATION Spec", "INVARIANTS NoKF", "PROPERTIES StrictOK", "VIEW View", "CHECK_DEADLOCK FALSE"]
LIVE_LINES = ["SPECIFICATION FairSpec", "PROPERTIES Completes2", "CHECK_DEADLOCK FALSE"]
GEN_LINES = ["SPECIFICATION Spec", "VIEW View", "ACTION_CONSTRAINT Emit", "CHECK_DEADLOCK FALSE"]

KIB = 1024
SINK_BUDGET = 240 * KIB
PROFILES = [1, 400, 100 * KIB]          # bytes per model size unit
MALFORMED = ["overlong", "nonminimal", "nonminimal3", "overflow10"]
OVERSIZE = ["oversize", "oversize2x", "huge63", "huge62"]

SIG_D7 = "identity-gt-1024-recv-panic"
SIG_D8 = "sink-flush-ok-with-frames-withheld"
SIG_D12 = "varint-nomax-length-ge-2pow63-recv-panic"


def is_reset(ln):
    return '"e":"reset"' in ln


def valid(codec, n, ln):
    return ln == n if codec == "id" else (n < 0 or ln <= n)


def concretise(beh, i):
    """TLC behaviour (abstract sizes, poll schedule) -> harness job."""
    u = PROFILES[i % len(PROFILES)]
    codec, n = beh["codec"], beh["n"]
    rn = n * u if n > 0 else n
    steps = beh["steps"]
    inject = [s for s in steps if s[0] == "inject"]
    prog, sched = [], []
    rnd = random.Random(i)
    if inject:
        keep = []
        for op in beh["prog"]:
            ok = op["api"] != "flush" and valid(codec, n, op["len"])
            keep.append(ok)
            if ok:
                prog.append(["rawmsg", op["len"] * u])
        kind = inject[0][1]
        cls = rnd.choice(MALFORMED if kind == "malformed" else OVERSIZE)
        if rn < 0 and cls in ("overflow10", "huge63", "huge62"):
            cls = "overlong"
        prog.append(["inject", cls])
        nop = 0
        for s in steps:
            if s[0] == "op":
                if nop < len(keep) and keep[nop]:
                    sched += [["drv"], ["op"]]
                nop += 1
            elif s[0] == "inject":
                sched.append(["op"])
            elif s[0] == "pr":
                sched += [["drv"], ["pr", s[1]]]
            elif s[0] == "settle":
                sched.append(["settle"])
    else:
        prog = [[op["api"], op["len"] * u] if op["api"] != "flush" else ["flush"] for op in beh["prog"]]
        for s in steps:
            if s[0] in ("op", "ps"):
                sched += ([["drv"]] if s[1] > 0 else []) + [[s[0]]]
            elif s[0] == "pr":
                sched += [["drv"], ["pr", s[1]]]
            elif s[0] == "settle":
                sched.append(["settle"])
    sink_bytes = sum(p[1] + 10 for p in prog if p[0] in ("send", "feed") and valid(codec, rn, p[1]))
    any_sink = any(p[0] in ("send", "feed", "flush") for p in prog)
    probe = (codec == "id" and rn > 1024) or (any_sink and sink_bytes > SINK_BUDGET)
    big = u > 1000
    return {"codec": codec, "n": rn, "group": "probe" if probe else "main", "sender_opens": i % 2 == 0, "raw": bool(inject),
            "prog": prog, "sched": sched, "pipe": [65536, 65536] if big else rnd.choice([[256, 13], [4096, 512], [65536, 4096]]),
            "seed": i}


def handwritten_probes():
    """Executions aimed at the regions where the pinned tree is known to break (and a fixed tree must not)."""
    stall = [["op"]] + [["drv"], ["ps"]] * 40
    out = []
    for n in (1025, 2048, 4096, 300 * KIB):
        for api in ("send", "framed"):
            out.append({"codec": "id", "n": n, "prog": [[api, n], [api, n]], "sched": [], "pipe": [65536, 65536]})
    out.append({"codec": "id", "n": 1025, "prog": [["send", 1025]], "sched": [["drv"], ["pr", 1], ["op"], ["settle"]], "pipe": [4096, 512]})
    for n, ln in ((-1, 300 * KIB), (1 << 20, 1 << 20), (-1, 256 * KIB), (-1, 262142)):
        out.append({"codec": "uv", "n": n, "prog": [["send", ln]], "sched": stall + [["settle"]], "pipe": [1 << 20, 1 << 20]})
    out.append({"codec": "uv", "n": -1, "prog": [["feed", 200 * KIB], ["feed", 200 * KIB], ["flush"]],
                "sched": [["op"], ["op"]] + stall + [["settle"]], "pipe": [1 << 20, 65536]})
    out.append({"codec": "uv", "n": -1, "prog": [["send", 300 * KIB], ["send", 5]], "sched": stall, "pipe": [65536, 4096]})
    out.append({"codec": "id", "n": 1024, "prog": [["feed", 1024]] * 300 + [["flush"]], "sched": [["op"]] * 300 + stall + [["settle"]],
                "pipe": [1 << 20, 65536]})
    out.append({"codec": "uv", "n": 1 << 20, "prog": [["send", 1 << 20], ["send", 1 << 20]], "sched": [], "pipe": [65536, 65536]})
    for cls in ("overflow10", "huge63"):
        out.append({"codec": "uv", "n": -1, "raw": True, "prog": [["rawmsg", 7], ["inject", cls]], "sched": [], "pipe": [4096, 512]})
    for j, o in enumerate(out):
        o.setdefault("raw", False)
        o.update(group="probe", sender_opens=j % 2 == 0, seed=1000 + j)
    return out


def classify(seg, idx):
    hdr = json.loads(seg[0])
    ev = json.loads(seg[idx - 1])
    evs = [json.loads(x) for x in seg[1:idx]]
    if ev.get("e") == "recv" and ev.get("r") == "panic":
        if hdr["codec"] == "id" and hdr["n"] > 1024 and "out of range for slice of length 1024" in ev.get("msg", ""):
            return SIG_D7
        if hdr["codec"] == "uv" and hdr["n"] < 0 and any(e.get("e") == "inject" and e.get("class") in ("overflow10", "huge63") for e in evs):
            return SIG_D12
    if ev.get("e") == "quiesce" and any(e.get("e") == "ret" and e.get("api") in ("send", "flush") and e.get("r") == "ok"
                                        and e.get("pending") and e.get("pob", 0) > 0 for e in evs):
        return SIG_D8
    parts = [hdr["codec"], "max" if hdr["n"] >= 0 else "nomax", "raw" if hdr.get("raw") else "api", ev.get("e", "?")]
    for k in ("api", "r", "class"):
        if k in ev:
            parts.append(str(ev[k]))
    return "-".join(parts)


_RE_REJ = re.compile(r'<<"TRACE_REJECTED_AT", (\d+)>>')
_RE_OK = re.compile(r'<<"TRACE_OK", (\d+)>>')


def validate_each(ctx, segs, tag):
    """One TLC run per segment, in parallel (for the small probe group where most segments may be rejected)."""
    jobs = []
    for i, s in enumerate(segs):
        p = ctx.path("%s_%d.ndjson" % (tag, i))
        with open(p, "w") as f:
            f.write("\n".join(s) + "\n")
        jobs.append((i, p, ctx.metadir()))

    def one(job):
        i, p, md = job
        cmd = ["tlc", "-workers", "1", "-metadir", md, "-cleanup", "-noGenerateSpecTE", "-config",
               os.path.join(SPEC, "FramedPipeTrace.cfg"), os.path.join(SPEC, "FramedPipeTrace.tla")]
        rc, out = run(cmd, env={"TRACE": p, "JAVA_TOOL_OPTIONS": "-Xss256m -Xmx1g"}, timeout=300, cwd=ctx.work)
        if _RE_OK.search(out):
            return i, None
        m = _RE_REJ.search(out)
        if not m:
            raise ToolError("trace validation of %s failed to run:\n%s" % (p, out[-2000:]))
        return i, int(m.group(1))

    with concurrent.futures.ThreadPoolExecutor(max_workers=min(6, W())) as ex:
        res = list(ex.map(one, jobs))
    return [(segs[i], idx) for i, idx in res if idx is not None]


SIG_ABORT = "harness-process-aborted"


def run_harness(ctx, args, njobs_hint=None):
    """Run the harness; if the *process* dies (e.g. the code under test asks the allocator for terabytes after a
    corrupted length and the runtime aborts), find one execution that kills it by bisection over the job list and
    return it as a violation instead of a tool error.  Returns (summary, crash_violation | None)."""
    try:
        summ, _ = harness(ctx, "substream", args)
        return summ, None
    except ToolError as e:
        msg = str(e)
        if "rc=-" not in msg and "memory allocation" not in msg:
            raise
        first = msg
    # number of jobs: ask the harness to only write the job list
    base = [a for a in args]
    harness(ctx, "substream", base + ["--from", 0, "--to", 0])
    n = len(read_lines(ctx.path("jobs_out.jsonl")))
    lo, hi = 0, n                       # invariant: running [lo, hi) crashes
    def crashes(a, b):
        try:
            harness(ctx, "substream", base + ["--from", a, "--to", b, "--threads", 4 if b - a > 64 else 1])
            return False
        except ToolError as e2:
            return "rc=-" in str(e2) or "memory allocation" in str(e2)
    while hi - lo > 1:
        mid = (lo + hi) // 2
        if crashes(lo, mid):
            hi = mid
        elif crashes(mid, hi):
            lo = mid
        else:
            raise ToolError("harness crash is not reproducible on a sub-range of jobs:\n" + first[-1500:])
    job = json.loads(read_lines(ctx.path("jobs_out.jsonl"))[lo])
    return None, {"sig": SIG_ABORT, "what": "the harness process was killed while executing job %d (%s): %s"
                                            % (lo, json.dumps(job)[:300], first[-300:].replace("\n", " ")),
                  "replay_obj": {"property": "C04", "job": job, "segment": [], "aborts_process": True}}


def run_mc(ctx, name, consts, lines, timeout=1500):
    r = tlc_mc(ctx, "SubstreamPipeMC.tla", write_cfg(ctx, "mc_%s.cfg" % name, consts, lines), workers=W(), timeout=timeout)
    if not r["ok"]:
        raise ToolError("SubstreamPipe (Impl layer) violates the Prop layer in config %s (model error, not a code verdict):\n%s"
                        % (name, r.get("error", r["out"][-3000:])))
    out = {k: r[k] for k in ("transitions", "distinct", "depth", "wall_s") if k in r}
    out["cfg"] = name
    log("MC %s: %s" % (name, out))
    return out


def mk_violations(rejects, jobs_of, what):
    out = []
    for seg, idx in rejects:
        hdr = json.loads(seg[0])
        out.append({"sig": classify(seg, idx),
                    "what": "%s: event %d (%s) is not allowed by the Prop layer; config %s" % (what, idx, seg[idx - 1][:200], seg[0][:300]),
                    "replay_obj": {"property": "C04", "rejected_event_index": idx, "job": jobs_of.get(hdr.get("job")),
                                   "segment": [json.loads(x) for x in seg]}})
    return out


def check(ctx):
    quick = ctx.quick()
    known = load_known("C04")
    mc = [run_mc(ctx, "strict", dict(MC_BASE, MaxOps=3), STRICT_LINES),
          run_mc(ctx, "live", MC_BASE, LIVE_LINES)]
    if not quick:
        mc.append(run_mc(ctx, "w3", dict(MC_BASE, W=3, B=1, Sizes={0, 2, 4, 5}, Cfgs="<- CfgsW3", MaxOps=3), STRICT_LINES))
    behs, gstats = tlc_generate(ctx, "SubstreamPipeMC.tla", write_cfg(
        ctx, "gen.cfg", dict(MC_BASE, Record=True, MaxOps=2 if quick else 3, Cfgs="<- CfgsDef" if quick else "<- CfgsSmall"), GEN_LINES),
        timeout=1500)
    log("GEN: %s" % gstats)
    jobs = [concretise(b, i) for i, b in enumerate(behs)]
    del behs
    probes = [j for j in jobs if j["group"] == "probe"]
    mains = [j for j in jobs if j["group"] == "main"]
    rnd = random.Random(ctx.seed)
    if known:
        # the pinned tree is known to break in the probe region: keep that group small (one TLC run per execution)
        probes = rnd.sample(probes, min(len(probes), 8 if quick else 60))
    else:
        for j in probes:
            j["group"] = "main"
        mains, probes = mains + probes, []
    hand = handwritten_probes()
    if not known:
        for j in hand:
            j["group"] = "main"
    write_jsonl(ctx.path("jobs.jsonl"), mains + probes + hand)
    n_tlc_jobs = len(mains) + len(probes)
    build_s = cargo_build(ctx, ["substream"])
    nrand, nraw = (70000, 20000) if quick else (1200000, 300000)
    wide = ",".join(w for w, sig in (("id", SIG_D7), ("sink", SIG_D8), ("nomax", SIG_D12)) if sig not in known) or "none"
    summ, crash = run_harness(ctx, ["--jobs", ctx.path("jobs.jsonl"), "--wide", wide, "--random", nrand, "--random-raw", nraw, "--seed", ctx.seed,
                                    "--threads", min(10, W()), "--out", ctx.path("trace.ndjson"), "--jobs-out", ctx.path("jobs_out.jsonl")])
    if crash:
        log("the harness process aborted; localised to one execution (reported as a violation, remaining executions not judged)")
        return conclude(ctx, "model_checking", {"states": sum(m["distinct"] for m in mc), "transitions": sum(m["transitions"] for m in mc),
                                                "traces_validated_against_impl": 0, "samples": [crash["replay_obj"]["job"]], "evaluations": 1,
                                                "distinct_nontrivial": 1, "rule": "run cut short: the harness process was killed by the code under test",
                                                "model_runs": mc, "generation": gstats}, [crash], ASSUME)
    log("HARNESS: %s (build %ss; %d TLC-generated schedules, %d hand-written probes)" % (summ, build_s, n_tlc_jobs, len(hand)))
    lines = read_lines(ctx.path("trace.ndjson"))
    segs = split_segments(lines, is_reset)
    main_lines = [ln for s in segs if '"group":"main"' in s[0] for ln in s]
    probe_segs = [s for s in segs if '"group":"probe"' in s[0]]
    t0 = time.time()
    rejects = []
    nev = 0
    CH = 400000
    start = 0
    while start < len(main_lines):
        end = min(len(main_lines), start + CH)
        while end < len(main_lines) and not is_reset(main_lines[end]):
            end += 1
        part = main_lines[start:end]
        nev += len(part)
        _, _, rej = validate_segments(ctx, "FramedPipeTrace.tla", "FramedPipeTrace.cfg", part, tag="m%d" % start, is_reset=is_reset)
        rejects += rej
        start = end
    prej = validate_each(ctx, probe_segs, "p") if probe_segs else []
    nev += sum(len(s) for s in probe_segs)
    log("TV: %d executions (%d in the probe group), %d events, %d + %d rejected, %.0fs"
        % (len(segs), len(probe_segs), nev, len(rejects), len(prej), time.time() - t0))
    jobs_of = {}
    if rejects or prej:
        want = {json.loads(seg[0]).get("job") for seg, _ in rejects + prej}
        for i, ln in enumerate(read_lines(ctx.path("jobs_out.jsonl"))):
            if i in want:
                jobs_of[i] = json.loads(ln)
    violations = mk_violations(rejects, jobs_of, "real Substream pair") + mk_violations(prej, jobs_of, "real Substream pair (probe group)")
    sig_counts = {}
    for v in violations:
        sig_counts[v["sig"]] = sig_counts.get(v["sig"], 0) + 1
    if sig_counts:
        log("rejections by signature: %s" % sig_counts)
    distinct = len({json.dumps([json.loads(s[0])[k] for k in ("codec", "n", "prog", "raw")]) + "|" + "".join(json.loads(x)["e"][0] for x in s[1:]) for s in segs})
    samples = [json.loads(x) for x in lines[:6]]
    cov = {
        "states": sum(m["distinct"] for m in mc),
        "transitions": sum(m["transitions"] for m in mc),
        "traces_validated_against_impl": len(segs),
        "events_validated": nev,
        "samples": samples,
        "evaluations": len(segs),
        "distinct_nontrivial": distinct,
        "rule": "a case is one execution of a sender program (Sink send/feed/flush, send_framed, or raw frames + a malformed prefix) "
                "against a receiver over the real yamux pair under one poll schedule, recorded until quiescence; distinct = distinct "
                "(codec, program, event-kind sequence); every execution is validated by TLC against the Prop layer",
        "model_runs": mc,
        "generation": gstats,
        "harness": summ,
        "tlc_generated_schedules": n_tlc_jobs,
        "probe_group_executions": len(probe_segs),
        "rejections_by_signature": sig_counts,
        "exhaustive": False,
    }
    ctx.notes.append("lockstep comparison with the Impl layer is not possible through yamux (real chunking / window updates differ from "
                     "the abstract units); TLC behaviours drive the poll order only, so no drift count is reported")
    # last clause of the statement at system level ("reported complete => the peer receives it without further action
    # by the sender"): responses written after the responder's keep-alive downgrade on real two-node networks
    import reqresp_util
    lv, lcov = reqresp_util.late_response_part(ctx)
    violations += lv
    cov["late_response_networks"] = lcov
    return conclude(ctx, "model_checking", cov, violations, ASSUME + [
        "system-level part of 'reported complete => delivered': real two-node networks (tcp, ws, quic), the responder answers 0.5/1.5/3.5 "
        "keep-alive periods after the request with 32 B / 64 KiB / 1 MiB responses; a response whose send was reported complete on a "
        "link without injected fault, with the requester still waiting, must arrive byte-identically (monitor rule of ReqResp, c04 mode)"])


def selftest(ctx):
    ok = True
    cargo_build(ctx, ["substream"])
    harness(ctx, "substream", ["--random", 400, "--random-raw", 100, "--seed", ctx.seed, "--threads", 2, "--out", ctx.path("t.ndjson")])
    lines = read_lines(ctx.path("t.ndjson"))
    if tlc_trace(ctx, "FramedPipeTrace.tla", "FramedPipeTrace.cfg", ctx.path("t.ndjson")) is not None:
        log("selftest: baseline trace rejected")
        ok = False
    rnd = random.Random(ctx.seed)
    done = {"recv-digest": 0, "ret-flip": 0, "drop-recv": 0}
    for _ in range(2000):
        if all(v >= 2 for v in done.values()):
            break
        i = rnd.randrange(len(lines))
        ev = json.loads(lines[i])
        bad, what, expect = None, None, i + 1
        if ev["e"] == "recv" and ev["r"] == "msg" and done["recv-digest"] < 2:
            ev["h"] ^= 1
            what = "recv-digest"
            bad = lines[:i] + [json.dumps(ev, separators=(",", ":"))] + lines[i + 1:]
        elif ev["e"] == "ret" and ev["r"] in ("ok", "refused") and ev["api"] != "flush" and done["ret-flip"] < 2:
            ev["r"] = "refused" if ev["r"] == "ok" else "ok"
            what = "ret-flip"
            bad = lines[:i] + [json.dumps(ev, separators=(",", ":"))] + lines[i + 1:]
        elif ev["e"] == "recv" and ev["r"] == "msg" and done["drop-recv"] < 2:
            # dropping a received message: the next recv (or the quiesce) no longer fits
            what = "drop-recv"
            bad = lines[:i] + lines[i + 1:]
            expect = None
        if not bad:
            continue
        done[what] += 1
        p = ctx.path("mut.ndjson")
        open(p, "w").write("\n".join(bad) + "\n")
        r = tlc_trace(ctx, "FramedPipeTrace.tla", "FramedPipeTrace.cfg", p)
        log("selftest corrupt %s at line %d -> %s" % (what, i + 1, "rejected at %s" % r if r else "ACCEPTED"))
        ok &= (r is not None) and (expect is None or r == expect)
    ok &= all(v >= 1 for v in done.values())
    # the defects of the pinned tree are visible in the model without the exemption
    r = tlc_mc(ctx, "SubstreamPipeMC.tla", write_cfg(ctx, "neg_strict.cfg", dict(MC_BASE, Fixed=False), STRICT_LINES), workers=4, expect_violation=True)
    bad = "StrictOK is violated" in r["out"]
    log("selftest model of the defective (pre-fix) code -> %s" % ("StrictOK violated (as expected)" if bad else "NOT DETECTED"))
    ok &= bad
    for mut in ("framedearly", "nosizecheck", "droplast"):
        r = tlc_mc(ctx, "SubstreamPipeMC.tla", write_cfg(ctx, "neg_%s.cfg" % mut, dict(MC_BASE, Mut=mut), STRICT_LINES),
                   workers=4, expect_violation=True)
        bad = "is violated" in r["out"] and not r["ok"]
        log("selftest mutant model %s -> %s" % (mut, "property violated (as expected)" if bad else "NOT DETECTED"))
        ok &= bad
    for fault in ("acceptall", "flipdigest"):
        harness(ctx, "substream", ["--random", 300, "--seed", ctx.seed, "--threads", 2, "--out", ctx.path("f.ndjson")],
                env={"VERIF_FAULT": fault})
        _, _, rej = validate_segments(ctx, "FramedPipeTrace.tla", "FramedPipeTrace.cfg", read_lines(ctx.path("f.ndjson")), tag="f", is_reset=is_reset)
        log("selftest harness fault `%s`: >= %d executions rejected, e.g. %s" % (fault, len(rej), classify(*rej[0]) if rej else "-"))
        ok &= len(rej) > 0
    log("SELFTEST %s" % ("ok" if ok else "FAILED"))
    return 0 if ok else 2


def replay(ctx, path):
    obj = json.load(open(path))
    cargo_build(ctx, ["substream"])
    if obj.get("job"):
        write_jsonl(ctx.path("job.jsonl"), [obj["job"]])
        try:
            harness(ctx, "substream", ["--jobs", ctx.path("job.jsonl"), "--threads", 1, "--out", ctx.path("r.ndjson")])
        except ToolError as e:
            if "rc=-" in str(e) or "memory allocation" in str(e):
                log("replay: the harness process is killed by this execution: %s" % str(e)[-300:].replace("\n", " "))
                return 1
            raise
        lines = read_lines(ctx.path("r.ndjson"))
        log("replayed execution:")
    else:
        lines = [json.dumps(x, separators=(",", ":")) for x in obj["segment"]]
        log("recorded execution (no job attached):")
    for ln in lines:
        log("  " + ln[:300])
    rej = validate_each(ctx, [lines], "r")
    if rej:
        log("replay: rejected at event %d, signature %s" % (rej[0][1], classify(*rej[0])))
    else:
        log("replay: accepted")
    return 1 if rej else 0
