//! C20: drive the real Bitswap helpers of litep2p.
//!  * `cert`: every abstract (prefix, payload) class enumerated by TLC is concretised with
//!    seeded byte strings and handed to the real `block_to_response` and, inside whole wire
//!    messages, to the real `Bitswap::on_message_received`; the reported CID is compared with
//!    a recomputation that never looks at the claimed one.
//!  * `fn`: response sets (TLC-enumerated size sequences, random ones) are pushed through the
//!    real `extract_next_batch` / `blocks_message`.
//!  * `e2e`: response sets are sent with the real `send_response` over a real `Substream`
//!    (in-memory yamux); the messages are read back from the raw end.
//! Everything observed is written as NDJSON for validation against `BitswapTrace.tla`.
#[path = "../wire_common/mod.rs"]
mod wire;

use cid::Cid;
use futures::StreamExt;
use litep2p::{
    verif::{
        bitswap as bs,
        decoders::{substream_over_yamux, ProtocolCodec},
    },
    PeerId,
};
use multihash_codetable::MultihashDigest;
use rand::{rngs::StdRng, seq::SliceRandom, Rng};
use serde_json::{json, Value};
use std::collections::{HashMap, VecDeque};
use tokio::io::AsyncReadExt;
use vharness::*;
use wire::*;

type Mh = multihash::Multihash<64>;

fn fault(name: &str) -> bool {
    std::env::var("VERIF_FAULT").map(|f| f == name).unwrap_or(false)
}

// ------------------------------------------------------------------------------ certification

/// (multihash code, digest) of `data` for an abstract hash class, computed without litep2p.
/// `None` when this harness cannot compute the function (then nothing can vouch for a CID).
fn independent_digest(hash: &str, data: &[u8], rng_code: u64) -> (u64, Option<Vec<u8>>) {
    use sha2::Digest;
    let ct = |code: u64| {
        let c = multihash_codetable::Code::try_from(code).ok();
        (code, c.map(|c| c.digest(data).digest().to_vec()))
    };
    match hash {
        "sha2_256" => (0x12, Some(sha2::Sha256::digest(data).to_vec())),
        "sha2_512" => (0x13, Some(sha2::Sha512::digest(data).to_vec())),
        "sha3_224" => ct(0x17),
        "sha3_256" => ct(0x16),
        "sha3_384" => ct(0x15),
        "sha3_512" => ct(0x14),
        "keccak_224" => ct(0x1a),
        "keccak_256" => ct(0x1b),
        "keccak_384" => ct(0x1c),
        "keccak_512" => ct(0x1d),
        "blake2b_256" => ct(0xb220),
        "blake2b_512" => ct(0xb240),
        "identity" => (0x00, (data.len() <= 64).then(|| data.to_vec())),
        "sha1" => ct(0x11),
        "unassigned" => (rng_code, None),
        other => panic!("unknown hash class {other}"),
    }
}

fn digest_size(hash: &str, data_len: usize) -> u64 {
    match hash {
        "sha2_256" | "sha3_256" | "keccak_256" | "blake2b_256" | "unassigned" => 32,
        "sha2_512" | "sha3_512" | "keccak_512" | "blake2b_512" => 64,
        "sha3_224" | "keccak_224" => 28,
        "sha3_384" | "keccak_384" => 48,
        "sha1" => 20,
        "identity" => data_len as u64,
        other => panic!("unknown hash class {other}"),
    }
}

/// CID bytes from its parts, by hand.
fn cid_bytes(version: u64, codec: u64, code: u64, digest: &[u8]) -> Vec<u8> {
    let mut mh = uvarint(code);
    mh.extend(uvarint(digest.len() as u64));
    mh.extend_from_slice(digest);
    if version == 0 {
        return mh;
    }
    let mut out = uvarint(version);
    out.extend(uvarint(codec));
    out.extend(mh);
    out
}

struct Instance {
    class: Value,
    prefix: Vec<u8>,
    received: Vec<u8>,
    /// CID bytes recomputed from the received bytes (None: no CID can be vouched for)
    expect_cid: Option<Vec<u8>>,
    /// CID bytes of the untampered payload (what the requester asked for)
    wanted_cid: Option<Vec<u8>>,
}

fn concretise(class: &Value, rng: &mut StdRng) -> Instance {
    let s = |k: &str| class[k].as_str().unwrap_or_else(|| panic!("class field {k}")).to_string();
    let (pfx, ver, codec, hash, mhlen, dlen, payload) =
        (s("pfx"), s("ver"), s("codec"), s("hash"), s("mhlen"), s("dlen"), s("payload"));
    let n = match dlen.as_str() {
        "d0" => 0,
        "d1" => 1,
        "small" => rng.gen_range(2..64),
        "d64" => 64,
        "d65" => 65,
        "large" => {
            if rng.gen_range(0..40) == 0 {
                rng.gen_range(4097..200_000)
            } else {
                rng.gen_range(66..4097)
            }
        }
        other => panic!("dlen {other}"),
    };
    let original = rand_bytes(rng, n);
    let received = if payload == "tampered" {
        let mut t = original.clone();
        match (t.len(), rng.gen_range(0..4)) {
            (0, _) | (_, 0) => t.push(rng.gen()),
            (_, 1) => {
                t.pop();
            }
            (l, 2) => t[rng.gen_range(0..l)] ^= 1 << rng.gen_range(0..8),
            (l, _) => {
                let i = rng.gen_range(0..l);
                t[i] = t[i].wrapping_add(1 + rng.gen_range(0..255))
            }
        }
        t
    } else {
        original.clone()
    };
    let version: u64 = match ver.as_str() {
        "v0" => 0,
        "v1" => 1,
        "v2" => 2,
        "v3" => 3,
        _ => *[4u64, 5, 127, 128, 255, 256, 1 << 32, u64::MAX, rng.gen_range(4..u64::MAX)].choose(rng).unwrap(),
    };
    let codec_v: u64 = match codec.as_str() {
        "dagpb" => 0x70,
        "raw" => 0x55,
        _ => *[0x71u64, 0x0129, 0x00, 0x7f, 0x80, 0xffff_ffff, u64::MAX, rng.gen_range(0x200..u64::MAX)]
            .choose(rng)
            .unwrap(),
    };
    let unassigned: u64 =
        *[0x7777u64, 0x01, 0x3f_ffff, 0xdead_beef, u64::MAX, 0x1f, 0xb221_0000].choose(rng).unwrap();
    let (code, _) = independent_digest(&hash, &received, unassigned);
    let true_len = digest_size(&hash, received.len());
    let len_field: u64 = match mhlen.as_str() {
        "true" => true_len,
        "lying" => loop {
            let v = rng.gen_range(0..=255u64);
            if v != true_len {
                break v;
            }
        },
        _ => *[256u64, 257, 0xffff, 1 << 32, u64::MAX, rng.gen_range(256..u64::MAX)].choose(rng).unwrap(),
    };
    let fields = [version, codec_v, code, len_field];
    let enc: Vec<Vec<u8>> = fields.iter().map(|v| uvarint(*v)).collect();
    let full: Vec<u8> = enc.concat();
    let start_of = |k: usize| enc[..k].iter().map(|e| e.len()).sum::<usize>();
    let prefix = match pfx.as_str() {
        "ok" => full,
        "empty" => vec![],
        "trunc1" | "trunc2" | "trunc3" | "trunc4" => {
            // field k is missing or cut inside its varint (continuation bit left set)
            let k = pfx[5..].parse::<usize>().unwrap() - 1;
            let (a, l) = (start_of(k), enc[k].len());
            full[..a + rng.gen_range(0..l)].to_vec()
        }
        "trailing" => {
            let mut p = full;
            // the trailing bytes must not be mistaken for anything else: any byte will do,
            // `from_bytes` demands that nothing follows the fourth varint
            let extra = rng.gen_range(1..4);
            p.extend(rand_bytes(rng, extra));
            p
        }
        "nonminimal" => {
            let k = rng.gen_range(0..4);
            let mut e = enc.clone();
            e[k] = uvarint_padded(fields[k], rng.gen_range(1..4));
            e.concat()
        }
        "toolong" => {
            // more than ten bytes: no u64 reader accepts it
            let k = rng.gen_range(0..4);
            let mut e = enc.clone();
            let mut v = vec![0x80u8 | (fields[k] as u8 & 0x7f); 10 + rng.gen_range(0..3)];
            v.push(0x01);
            e[k] = v;
            e.concat()
        }
        "overflow" => {
            // ten bytes whose low 64 bits spell the intended value, with bits beyond 2^64 set
            // in the tenth byte
            let k = rng.gen_range(0..4);
            let mut e = enc.clone();
            let mut v: Vec<u8> = (0..9).map(|i| 0x80 | ((fields[k] >> (7 * i)) & 0x7f) as u8).collect();
            v.push(((fields[k] >> 63) as u8 & 1) | *[0x02u8, 0x04, 0x7e, 0x40].choose(rng).unwrap());
            e[k] = v;
            e.concat()
        }
        other => panic!("pfx {other}"),
    };
    let vouch = |data: &[u8]| -> Option<Vec<u8>> {
        if version > 1 {
            return None;
        }
        let (code, digest) = independent_digest(&hash, data, unassigned);
        let digest = digest?;
        if version == 0 && !(codec_v == 0x70 && code == 0x12 && digest.len() == 32) {
            return None;
        }
        Some(cid_bytes(version, codec_v, code, &digest))
    };
    Instance {
        class: class.clone(),
        expect_cid: vouch(&received),
        wanted_cid: vouch(&original),
        prefix,
        received,
    }
}

fn cert_event(inst: &Instance, via: &str, result: Result<Option<(Vec<u8>, Vec<u8>)>, String>) -> Value {
    let (verdict, cid_ok, data_ok, detail) = match result {
        Err(p) => ("panic", false, false, json!(p)),
        Ok(None) => ("drop", false, false, json!("")),
        Ok(Some((mut cid, data))) => {
            if fault("cert-claimed-cid") && inst.class["payload"] == "tampered" {
                if let Some(w) = &inst.wanted_cid {
                    cid = w.clone(); // emulate an implementation that trusts the requested CID
                }
            }
            let cid_ok = inst.expect_cid.as_ref() == Some(&cid);
            ("deliver", cid_ok, data == inst.received, json!(hex::encode(&cid)))
        }
    };
    json!({"e": "cert", "via": via, "c": inst.class, "verdict": verdict, "cid_ok": cid_ok, "data_ok": data_ok,
           "prefix": hex::encode(&inst.prefix), "dlen": inst.received.len(), "cid": detail})
}

fn response_parts(r: bs::ResponseType) -> Option<(Vec<u8>, Vec<u8>)> {
    match r {
        bs::ResponseType::Block { cid, block } => Some((cid.to_bytes(), block)),
        bs::ResponseType::Presence { .. } => None,
    }
}

/// All instances through `block_to_response`; a third of them additionally inside wire
/// messages through `on_message_received`.
fn run_cert(classes: &[Value], per_class: usize, seed: u64, lines: &mut Vec<String>, stats: &mut HashMap<String, u64>) {
    let peer = PeerId::random();
    let (mut proto, mut handle) = bs::BitswapHarness::new();
    let mut pending: Vec<Instance> = vec![];
    for (ci, class) in classes.iter().enumerate() {
        // the rng stream is the class index of the full enumeration (kept in replay files)
        let ci = class["ci"].as_u64().map(|x| x as usize).unwrap_or(ci);
        let mut rng = rng_for(seed, ci as u64);
        // one segment per class: a rejected class does not hide the others
        lines.push(jline(json!({"e": "reset", "kind": "cert", "B": 0, "M": 0, "sizes": [], "pfx": class["c"]["pfx"], "ci": ci})));
        for k in 0..per_class {
            let inst = concretise(&class["c"], &mut rng);
            let (p, d) = (inst.prefix.clone(), inst.received.clone());
            let r = catch(|| bs::block_to_response(&peer, p, d)).map(|r| r.and_then(response_parts));
            let ev = cert_event(&inst, "fn", r);
            *stats.entry(format!("fn_{}", ev["verdict"].as_str().unwrap())).or_default() += 1;
            lines.push(jline(ev));
            if k % 3 == 0 && !pending.iter().any(|o| o.received == inst.received) {
                pending.push(inst);
            }
            if pending.len() >= 7 || k + 1 == per_class {
                flush_message(&mut proto, &mut handle, peer, std::mem::take(&mut pending), &mut rng, lines, stats);
            }
        }
    }
}

fn flush_message(
    proto: &mut bs::BitswapHarness,
    handle: &mut bs::BitswapHandle,
    peer: PeerId,
    insts: Vec<Instance>,
    rng: &mut StdRng,
    lines: &mut Vec<String>,
    stats: &mut HashMap<String, u64>,
) {
    if insts.is_empty() {
        return;
    }
    // wire message written by hand: optional empty wantlist, payload blocks, sometimes a
    // block presence in between (must not disturb the pairing)
    let mut msg = vec![];
    if rng.gen() {
        msg.extend(pb_bytes(1, &[]));
    }
    for i in &insts {
        let mut blk = vec![];
        if !i.prefix.is_empty() || rng.gen() {
            blk.extend(pb_bytes(1, &i.prefix));
        }
        blk.extend(pb_bytes(2, &i.received));
        msg.extend(pb_bytes(3, &blk));
    }
    let r = catch(|| futures::executor::block_on(proto.on_message_received(peer, &msg)));
    let mut delivered: Vec<(Vec<u8>, Vec<u8>)> = vec![];
    let panicked = match r {
        Err(p) => Some(p),
        Ok(Err(e)) => panic!("harness bug: hand-written bitswap message rejected: {e}"),
        Ok(Ok(())) => None,
    };
    while let Some(Some(ev)) = futures::FutureExt::now_or_never(handle.next()) {
        if let bs::BitswapEvent::Response { responses, .. } = ev {
            delivered.extend(responses.into_iter().filter_map(response_parts));
        }
    }
    // payloads inside one message are pairwise different, so delivery is attributed by
    // content; order must be the wire order
    let mut order_ok = true;
    let mut last = 0usize;
    for (_, data) in &delivered {
        match insts.iter().position(|i| &i.received == data) {
            Some(p) if p + 1 > last => last = p + 1,
            Some(_) => order_ok = false,
            None => order_ok = false,
        }
    }
    for i in &insts {
        let got: Vec<_> = delivered.iter().filter(|(_, d)| d == &i.received).cloned().collect();
        let r = match (&panicked, got.len()) {
            (Some(p), _) => Err(p.clone()),
            (None, 0) => Ok(None),
            (None, 1) if order_ok => Ok(Some(got[0].clone())),
            // delivered twice or out of order: reported as a delivery whose data pairing is broken
            (None, _) => Ok(Some((got[0].0.clone(), vec![0xde, 0xad]))),
        };
        let ev = cert_event(i, "msg", r);
        *stats.entry(format!("msg_{}", ev["verdict"].as_str().unwrap())).or_default() += 1;
        lines.push(jline(ev));
    }
}

/// Certification per message: blocks of the given verdict kinds in one hand-written wire
/// message through the real `Bitswap::on_message_received`; every delivered (cid, data) pair
/// is attributed to the block whose bytes it carries (`d`) and to the block from whose own
/// prefix and bytes the reported CID follows by independent recomputation (`c`).
fn run_certmsg(behs: &[Value], per: usize, seed: u64, lines: &mut Vec<String>, stats: &mut HashMap<String, u64>) {
    let peer = PeerId::random();
    let (mut proto, mut handle) = bs::BitswapHarness::new();
    for (bi, b) in behs.iter().enumerate() {
        let bi = b["bi"].as_u64().map(|x| x as usize).unwrap_or(bi);
        let mut rng = rng_for(seed, 40_000 + bi as u64);
        lines.push(jline(json!({"e": "reset", "kind": "certmsg", "B": 0, "M": 0, "sizes": [], "bi": bi})));
        let kinds: Vec<String> = b["kinds"].as_array().unwrap().iter().map(|k| k.as_str().unwrap().to_string()).collect();
        for _ in 0..per {
            let mut insts: Vec<Instance> = vec![];
            for (k, class) in kinds.iter().zip(b["classes"].as_array().unwrap()) {
                let inst = loop {
                    let mut c = class.clone();
                    c["dlen"] = json!(*["d1", "small", "d64", "d65", "large"].choose(&mut rng).unwrap());
                    c["payload"] = json!("intact");
                    if k == "drop_malformed" {
                        c["pfx"] = json!(*["empty", "trunc1", "trunc2", "trunc3", "trunc4", "trailing", "nonminimal", "toolong"].choose(&mut rng).unwrap());
                    }
                    if k == "drop_badversion" {
                        c["ver"] = json!(*["v2", "v3", "vbig"].choose(&mut rng).unwrap());
                    }
                    let i = concretise(&c, &mut rng);
                    if !insts.iter().any(|o| o.received == i.received) {
                        break i;
                    }
                };
                insts.push(inst);
            }
            let mut msg = vec![];
            if rng.gen() {
                msg.extend(pb_bytes(1, &[]));
            }
            for i in &insts {
                let mut blk = vec![];
                if !i.prefix.is_empty() || rng.gen() {
                    blk.extend(pb_bytes(1, &i.prefix));
                }
                blk.extend(pb_bytes(2, &i.received));
                msg.extend(pb_bytes(3, &blk));
            }
            let r = catch(|| futures::executor::block_on(proto.on_message_received(peer, &msg)));
            let out = match r {
                Err(_) => "panic",
                Ok(Err(e)) => panic!("harness bug: hand-written bitswap message rejected: {e}"),
                Ok(Ok(())) => "ok",
            };
            let mut delivered: Vec<(Vec<u8>, Vec<u8>)> = vec![];
            while let Some(Some(ev)) = futures::FutureExt::now_or_never(handle.next()) {
                if let bs::BitswapEvent::Response { responses, .. } = ev {
                    delivered.extend(responses.into_iter().filter_map(response_parts));
                }
            }
            if fault("msg-zip") {
                // emulate "collect the CIDs of the verified blocks, then pair them with the payload by position"
                let cids: Vec<Vec<u8>> = delivered.iter().map(|(c, _)| c.clone()).collect();
                delivered = cids.into_iter().zip(insts.iter().map(|i| i.received.clone())).collect();
            }
            let pairs: Vec<Value> = delivered
                .iter()
                .map(|(cid, data)| {
                    let d = insts.iter().position(|i| &i.received == data).map(|p| p + 1).unwrap_or(0);
                    let own = d > 0 && insts[d - 1].expect_cid.as_ref() == Some(cid);
                    let c = if own { d } else { insts.iter().position(|i| i.expect_cid.as_ref() == Some(cid)).map(|p| p + 1).unwrap_or(0) };
                    json!({"d": d, "c": c})
                })
                .collect();
            *stats.entry("certmsg".into()).or_default() += 1;
            lines.push(jline(json!({"e": "certmsg", "kinds": kinds, "out": out, "delivered": pairs,
                                    "message": hex::encode(&msg[..msg.len().min(400)])})));
        }
    }
}

// ------------------------------------------------------------------------------ batching

fn fake_cid(id: usize) -> Cid {
    let d = sha256(&(id as u64).to_be_bytes());
    Cid::new_v1(0x55, Mh::wrap(0x12, &d).unwrap())
}

/// Payload of block `id`: self-identifying when it has room for it.
fn block_data(id: usize, size: usize) -> Vec<u8> {
    let mut v = vec![0u8; size];
    if size >= 4 {
        v[..4].copy_from_slice(&(id as u32).to_be_bytes());
        if size > 4 {
            v[size - 1] = id as u8 ^ 0x5a;
        }
    }
    v
}

/// Decode a bitswap wire message by hand: `(prefix, data)` of every payload block.
fn payload_of(msg: &[u8]) -> Option<Vec<(Vec<u8>, Vec<u8>)>> {
    let mut out = vec![];
    for (f, v) in pb_parse(msg)? {
        if let (3, PbVal::Bytes(b)) = (f, v) {
            let (mut prefix, mut data) = (vec![], vec![]);
            for (bf, bv) in pb_parse(&b)? {
                match (bf, bv) {
                    (1, PbVal::Bytes(x)) => prefix = x,
                    (2, PbVal::Bytes(x)) => data = x,
                    _ => {}
                }
            }
            out.push((prefix, data));
        }
    }
    Some(out)
}

/// One response set through the real `extract_next_batch` (+ `blocks_message`).
fn run_fn(sizes: &[usize], b: usize, with_enc: bool, lines: &mut Vec<String>) -> Result<(), String> {
    let n = sizes.len();
    lines.push(jline(json!({"e": "reset", "kind": "fn", "B": b, "M": bs::MAX_MESSAGE_SIZE, "sizes": sizes})));
    let cids: Vec<Cid> = (1..=n).map(fake_cid).collect();
    let id_of: HashMap<Cid, i64> = cids.iter().enumerate().map(|(i, c)| (*c, i as i64 + 1)).collect();
    let mut q: VecDeque<(Cid, Vec<u8>)> = (0..n).map(|i| (cids[i], block_data(i + 1, sizes[i]))).collect();
    let ids = |it: &mut dyn Iterator<Item = &(Cid, Vec<u8>)>| -> Vec<i64> { it.map(|(c, _)| *id_of.get(c).unwrap_or(&0)).collect() };
    for _round in 0..n + 2 {
        let r = catch(|| bs::extract_next_batch(&mut q, b))?;
        let rest = ids(&mut q.iter());
        match r {
            None => {
                lines.push(jline(json!({"e": "extract", "some": false, "batch": [], "rest": rest})));
                return Ok(());
            }
            Some(batch) => {
                let bids = ids(&mut batch.iter());
                lines.push(jline(json!({"e": "extract", "some": true, "batch": bids, "rest": rest})));
                if with_enc {
                    let expect: Vec<(Vec<u8>, Vec<u8>)> = batch.iter().map(|(c, d)| (bs::prefix_of(c), d.clone())).collect();
                    match catch(|| bs::blocks_message(batch))? {
                        None => lines.push(jline(json!({"e": "enc", "ids": [], "len": 0}))),
                        Some((msg, count)) => {
                            let got = payload_of(&msg).ok_or("blocks_message produced an undecodable message")?;
                            let mids: Vec<i64> = (0..got.len())
                                .map(|i| if expect.get(i) == Some(&got[i]) { bids[i] } else { 0 })
                                .collect();
                            if count != got.len() {
                                return Err(format!("blocks_message count {count} != {} blocks in the message", got.len()));
                            }
                            lines.push(jline(json!({"e": "enc", "ids": mids, "len": msg.len()})));
                        }
                    }
                }
            }
        }
    }
    // no progress: the last logged `extract` already violates the progress clause
    Ok(())
}

/// One response set through the real `send_response` over a real substream.
/// `Ok(false)`: the run hit the write timeout of the code under test and is not judged.
async fn run_e2e(sizes: &[usize], presences: usize, lines: &mut Vec<String>) -> Result<bool, String> {
    let n = sizes.len();
    let mut entries: Vec<bs::ResponseType> = vec![];
    let datas: Vec<Vec<u8>> = (0..n).map(|i| block_data(i + 1, sizes[i])).collect();
    // presences beyond one per block go first (send_response puts them all into one message)
    for i in n..presences {
        entries.push(bs::ResponseType::Presence { cid: fake_cid(1_000_000 + i), presence: bs::BlockPresenceType::Have });
    }
    for i in 0..n {
        if i < presences {
            entries.push(bs::ResponseType::Presence { cid: fake_cid(1_000_000 + i), presence: bs::BlockPresenceType::Have });
        }
        entries.push(bs::ResponseType::Block { cid: fake_cid(i + 1), block: datas[i].clone() });
    }
    let (mut substream, mut raw, guard) =
        substream_over_yamux(ProtocolCodec::UnsignedVarint(Some(bs::MAX_MESSAGE_SIZE)), true).await;
    let reader = tokio::spawn(async move {
        // frames as written: unsigned-varint length, then the message
        let mut frames: Vec<Vec<u8>> = vec![];
        loop {
            let mut len: u64 = 0;
            let mut shift = 0;
            loop {
                let mut b = [0u8; 1];
                match raw.read(&mut b).await {
                    Ok(1) => {}
                    _ => return (frames, shift == 0),
                }
                len |= ((b[0] & 0x7f) as u64) << shift;
                shift += 7;
                if b[0] & 0x80 == 0 {
                    break;
                }
                if shift > 63 {
                    return (frames, false);
                }
            }
            let mut m = vec![0u8; len as usize];
            if raw.read_exact(&mut m).await.is_err() {
                return (frames, false);
            }
            frames.push(m);
        }
    });
    let sent = bs::send_response(&mut substream, entries).await;
    substream.close().await;
    let (frames, clean) = reader.await.map_err(|e| format!("reader task: {e}"))?;
    drop(guard);
    if let Err(e) = &sent {
        if e.contains("Timeout") {
            return Ok(false);
        }
    }
    lines.push(jline(json!({"e": "reset", "kind": "e2e", "B": bs::MAX_BATCH_SIZE, "M": bs::MAX_MESSAGE_SIZE,
                            "sizes": sizes, "presences": presences})));
    let mut ptr = 0usize; // greedy in-order attribution of payloads to block ids
    for (fi, f) in frames.iter().enumerate() {
        let blocks = payload_of(f).ok_or("undecodable message on the wire")?;
        let mut ids: Vec<i64> = vec![];
        for (_, data) in &blocks {
            let hit = (ptr..n).find(|&j| &datas[j] == data);
            match hit {
                Some(j) => {
                    ids.push(j as i64 + 1);
                    ptr = j + 1;
                }
                None => ids.push((0..ptr.min(n)).find(|&j| &datas[j] == data).map(|j| j as i64 + 1).unwrap_or(0)),
            }
        }
        if fault("batch-drop-one") && fi == 0 && !ids.is_empty() {
            ids.remove(0);
        }
        if fault("batch-dup") && fi == 0 && !ids.is_empty() {
            ids.push(ids[0]);
        }
        let len = if fault("msg-oversize") && fi == 0 { bs::MAX_MESSAGE_SIZE + 1 } else { f.len() };
        lines.push(jline(json!({"e": "msg", "r": ranges(&ids), "len": len, "blocks": blocks.len()})));
    }
    match sent {
        Ok(()) if clean => lines.push(jline(json!({"e": "done"}))),
        // the in-memory transport never fails on its own: an error of send_response (other than
        // the write timeout handled above) comes from what the library itself tried to write,
        // e.g. a message the substream refuses as over the limit; no action of the trace spec
        // explains it
        other => lines.push(jline(json!({"e": "abort", "why": format!("{other:?} clean={clean}")}))),
    }
    Ok(true)
}

const UNIT: usize = 512 * 1024;

fn main() {
    quiet_panics();
    let args = Args::parse();
    let seed = args.u64("seed", 1);
    let out = args.str("out", "trace.ndjson");
    let mut lines: Vec<String> = vec![];
    let mut stats: HashMap<String, u64> = HashMap::new();
    let rt = tokio::runtime::Builder::new_multi_thread().worker_threads(4).enable_all().build().unwrap();

    // ---- certification
    if let Some(p) = args.get("classes") {
        let classes = read_jsonl(p);
        // outside the tokio runtime: the protocol instance is polled by a plain executor
        run_cert(&classes, args.u64("per-class", 10) as usize, seed, &mut lines, &mut stats);
        stats.insert("cert_classes".into(), classes.len() as u64);
    }

    if let Some(p) = args.get("messages") {
        let behs = read_jsonl(p);
        run_certmsg(&behs, args.u64("per-msg", 4) as usize, seed, &mut lines, &mut stats);
        stats.insert("certmsg_sequences".into(), behs.len() as u64);
    }

    // ---- batching, function level: every TLC response set at byte scale; a sample at
    //      512 KiB scale with the real 2 MiB constant
    let mut fn_sets = 0u64;
    let mut e2e_sets = 0u64;
    let mut skipped_timing = 0u64;
    let mut errors: Vec<String> = vec![];
    let behs = args.get("behaviours").map(read_jsonl).unwrap_or_default();
    let mut rng = rng_for(seed, 777);
    for (i, b) in behs.iter().enumerate() {
        let sizes: Vec<usize> = b["sizes"].as_array().unwrap().iter().map(|x| x.as_u64().unwrap() as usize).collect();
        let cap = b["B"].as_u64().unwrap() as usize;
        if let Err(e) = run_fn(&sizes, cap, true, &mut lines) {
            // no action of the trace spec explains a panic: the segment is rejected here
            lines.push(jline(json!({"e": "panic", "what": e, "sizes": sizes})));
        }
        fn_sets += 1;
        let _ = i;
    }
    let big_fn = args.u64("fn-real-scale", 0) as usize;
    let mut idx: Vec<usize> = (0..behs.len()).collect();
    idx.shuffle(&mut rng);
    for &i in idx.iter().take(big_fn) {
        let sizes: Vec<usize> = behs[i]["sizes"].as_array().unwrap().iter().map(|x| x.as_u64().unwrap() as usize * UNIT).collect();
        assert_eq!(behs[i]["B"].as_u64().unwrap() as usize * UNIT, bs::MAX_BATCH_SIZE, "unit scale must map B to the real constant");
        if let Err(e) = run_fn(&sizes, bs::MAX_BATCH_SIZE, sizes.iter().sum::<usize>() < 6 * UNIT, &mut lines) {
            lines.push(jline(json!({"e": "panic", "what": e, "sizes": sizes})));
        }
        fn_sets += 1;
    }
    // random response sets, byte granular, small and real caps
    for r in 0..args.u64("random", 0) {
        let mut rng = rng_for(seed, 10_000 + r);
        let (cap, n) = if r % 4 == 0 { (bs::MAX_BATCH_SIZE, rng.gen_range(1..8)) } else { (rng.gen_range(0..40usize), rng.gen_range(0..args.u64("len", 24) as usize)) };
        let sizes: Vec<usize> = (0..n)
            .map(|_| match rng.gen_range(0..6) {
                0 => cap,
                1 => cap + 1,
                2 => cap.saturating_sub(1),
                3 => cap / 2 + rng.gen_range(0..2),
                4 => 0,
                _ => rng.gen_range(0..=cap + cap / 4 + 1),
            })
            .collect();
        if let Err(e) = run_fn(&sizes, cap, cap < 1000, &mut lines) {
            lines.push(jline(json!({"e": "panic", "what": e, "sizes": sizes})));
        }
        fn_sets += 1;
    }

    // ---- end to end with the real constants
    let mut e2e: Vec<(Vec<usize>, usize)> = vec![];
    for &i in idx.iter().rev().take(args.u64("e2e-sample", 0) as usize) {
        let sizes: Vec<usize> = behs[i]["sizes"].as_array().unwrap().iter().map(|x| x.as_u64().unwrap() as usize * UNIT).collect();
        e2e.push((sizes, 0));
    }
    for r in 0..args.u64("e2e-random", 0) {
        let mut rng = rng_for(seed, 20_000 + r);
        let b = bs::MAX_BATCH_SIZE;
        let n = rng.gen_range(1..9);
        let sizes: Vec<usize> = (0..n)
            .map(|_| match rng.gen_range(0..9) {
                0 => b,
                1 => b + 1,
                2 => b - 1,
                3 => b / 2,
                4 => b / 2 + 1,
                5 => rng.gen_range(0..8),
                6 => bs::MAX_MESSAGE_SIZE - rng.gen_range(0..64),
                _ => rng.gen_range(0..b + b / 3),
            })
            .collect();
        let p = rng.gen_range(0..3);
        e2e.push((sizes, p.min(n)));
    }
    for e in args.get("e2e-file").map(read_jsonl).unwrap_or_default() {
        let sizes: Vec<usize> = e["sizes"].as_array().unwrap().iter().map(|x| x.as_u64().unwrap() as usize).collect();
        e2e.push((sizes, e["presences"].as_u64().unwrap_or(0) as usize));
    }
    // presence message at / over the message limit next to blocks (a presence of a CIDv1
    // sha2-256 encodes to 40 bytes, the message to 40 * n + 2)
    for t in 0..args.u64("e2e-presence", 0) {
        let per = 40;
        let under = (bs::MAX_MESSAGE_SIZE - 2) / per;
        let (p, sizes): (usize, Vec<usize>) = match t {
            0 => (130_000, vec![1024]),
            1 => (under, vec![1024, 7]),
            2 => (under + 1, vec![1024, bs::MAX_BATCH_SIZE, 7]),
            _ => (under + 1 + (t as usize * 7919) % 50_000, vec![9; (t as usize % 5) + 1]),
        };
        e2e.push((sizes, p));
    }
    // many small blocks: payload well inside one batch, encoding overhead dominates
    for t in 0..args.u64("e2e-tiny", 0) {
        let mut rng = rng_for(seed, 30_000 + t);
        let (count, size) = match t {
            0 => (200_000usize, 9usize), // control: one message just below the limit
            1 => (221_000, 9),           // one batch (1.9 MiB of payload) that encodes to > 4 MiB
            2 => (120_000, 16),          // control: two ordinary messages
            _ => (rng.gen_range(50_000..400_000), rng.gen_range(0..14)),
        };
        let mut sizes = vec![size; count];
        if t >= 3 {
            for _ in 0..rng.gen_range(0..3) {
                let at = rng.gen_range(0..sizes.len());
                sizes.insert(at, rng.gen_range(UNIT..bs::MAX_BATCH_SIZE + UNIT));
            }
        }
        e2e.push((sizes, 0));
    }
    for (sizes, p) in &e2e {
        match rt.block_on(run_e2e(sizes, *p, &mut lines)) {
            Ok(true) => e2e_sets += 1,
            Ok(false) => skipped_timing += 1,
            Err(e) => errors.push(e),
        }
    }

    write_lines(&out, &lines);
    if !errors.is_empty() {
        eprintln!("harness errors: {:?}", &errors[..errors.len().min(5)]);
        std::process::exit(3);
    }
    println!(
        "SUMMARY {}",
        json!({"events": lines.len(), "fn_sets": fn_sets, "e2e_sets": e2e_sets, "skipped_timing": skipped_timing, "stats": stats})
    );
}
