#!/bin/bash
# Run checks against a scratch copy of /repo with a patch applied (seeded-change experiments).
# usage: tools/mutant.sh <patch.diff> <check-id> [tier]      (never touches /repo itself)
# VERIF_CMD='<shell command>' replaces the ./check invocation (it sees VERIF_HARNESS)
S=${VERIF_SCRATCH:-/tmp/verif-scratch}
set -e
mkdir -p $S
if [ ! -d $S/repo ]; then git -C /repo worktree add -q --detach $S/repo HEAD; fi
git -C $S/repo checkout -q -- .
git -C $S/repo checkout -q --detach "$(git -C /repo rev-parse HEAD)"
rsync -a --delete --exclude target /verif/harness/ $S/harness/
sed -i "s#path = \"/repo\"#path = \"$S/repo\"#" $S/harness/Cargo.toml
git -C $S/repo apply "$(realpath "$1")"
set +e
cd /verif
if [ -n "$VERIF_CMD" ]; then VERIF_HARNESS=$S/harness bash -c "$VERIF_CMD"; else VERIF_HARNESS=$S/harness ./check "$2" "${3:-quick}"; fi
rc=$?
git -C $S/repo checkout -q -- .
git -C /verif checkout -q -- "evidence/$2.json" 2>/dev/null
exit $rc
