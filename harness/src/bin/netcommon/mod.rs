//! Shared pieces of the real-network harnesses (C07 `connlife`, C09 `keepalive`): real `Litep2p`
//! nodes over loopback TCP driven through the public API only, a seeded schedule-perturbing
//! executor, a byte-level TCP proxy that can stall / cut a stream, and a per-scenario event log.
//!
//! Ordering discipline: every observer (application event loop of a node, each user protocol,
//! the proxy, the scenario driver) appends to ONE per-scenario log under a mutex.  The position
//! of a line is the moment it was *recorded*, which is never earlier than the moment the event
//! happened.  Rules may therefore only use "X was recorded before the driver *began* Y" (then X
//! really happened before Y) and deadlines with generous slack; wall-clock values of different
//! observers are never compared (the `t` field is informational).
#![allow(dead_code)]

pub mod exec;
pub mod node;
pub mod proxy;
pub mod tracelog;

use serde_json::{json, Value};
use std::{
    sync::{Arc, Mutex},
    time::{Duration, Instant},
};
use tokio::sync::Notify;

struct LogInner {
    lines: Vec<Value>,
}

/// Per-scenario totally ordered event log.
#[derive(Clone)]
pub struct Log {
    inner: Arc<Mutex<LogInner>>,
    notify: Arc<Notify>,
    pub t0: Instant,
}

impl Log {
    pub fn new() -> Self {
        Log { inner: Arc::new(Mutex::new(LogInner { lines: Vec::new() })), notify: Arc::new(Notify::new()), t0: Instant::now() }
    }

    /// Milliseconds since the scenario started, as f64 (informational / same-observer arithmetic).
    pub fn now_ms(&self) -> f64 {
        self.t0.elapsed().as_secs_f64() * 1000.0
    }

    /// Append an event; returns its index.
    pub fn push(&self, mut v: Value) -> usize {
        let i;
        {
            let mut g = self.inner.lock().unwrap();
            i = g.lines.len();
            v["t"] = json!(self.now_ms().ceil() as u64);
            g.lines.push(v);
        }
        self.notify.notify_waiters();
        i
    }

    pub fn len(&self) -> usize {
        self.inner.lock().unwrap().lines.len()
    }

    pub fn snapshot(&self) -> Vec<Value> {
        self.inner.lock().unwrap().lines.clone()
    }

    /// Evaluate `f` over the lines recorded so far.
    pub fn with<R>(&self, f: impl FnOnce(&[Value]) -> R) -> R {
        f(&self.inner.lock().unwrap().lines)
    }

    /// Wait until `pred(lines)` holds or the deadline passes; returns whether it held.
    pub async fn wait(&self, deadline: Duration, pred: impl Fn(&[Value]) -> bool) -> bool {
        let end = Instant::now() + deadline;
        loop {
            let n = self.notify.notified();
            tokio::pin!(n);
            // register interest before checking so that no push is missed
            n.as_mut().enable();
            if self.with(|l| pred(l)) {
                return true;
            }
            let now = Instant::now();
            if now >= end {
                return false;
            }
            let _ = tokio::time::timeout((end - now).min(Duration::from_millis(250)), n).await;
        }
    }

    /// Number of lines from index `from` on that satisfy `f`.
    pub fn count_from(&self, from: usize, f: impl Fn(&Value) -> bool) -> usize {
        self.with(|l| l.iter().skip(from).filter(|v| f(v)).count())
    }
}

pub fn is(v: &Value, e: &str) -> bool {
    v["e"] == e
}

/// Scheduling-latency probe: a task that sleeps 20 ms in a loop and remembers the worst overshoot.
/// A scenario whose probe saw a large overshoot ran on an overloaded machine; its deadlines are
/// not trustworthy and the scenario is discarded and re-run instead of being judged.
pub struct LoadProbe {
    max_ms: Arc<Mutex<f64>>,
    task: tokio::task::JoinHandle<()>,
}

impl LoadProbe {
    pub fn start() -> Self {
        let max_ms = Arc::new(Mutex::new(0f64));
        let m = max_ms.clone();
        let task = tokio::spawn(async move {
            loop {
                let t = Instant::now();
                tokio::time::sleep(Duration::from_millis(20)).await;
                let over = t.elapsed().as_secs_f64() * 1000.0 - 20.0;
                let mut g = m.lock().unwrap();
                if over > *g {
                    *g = over;
                }
            }
        });
        LoadProbe { max_ms, task }
    }
    pub fn max_ms(&self) -> f64 {
        *self.max_ms.lock().unwrap()
    }
}

impl Drop for LoadProbe {
    fn drop(&mut self) {
        self.task.abort();
    }
}

/// Global list of panics raised by the code under test inside executor tasks (panics are data).
pub static PANICS: Mutex<Vec<String>> = Mutex::new(Vec::new());

pub fn install_panic_recorder() {
    let default = std::panic::take_hook();
    std::panic::set_hook(Box::new(move |info| {
        let msg = format!("{info}");
        let quiet = exec::IN_TASK.with(|c| c.get());
        PANICS.lock().unwrap().push(msg);
        if !quiet {
            default(info);
        }
    }));
}
