#!/usr/bin/env python3
"""Regenerate /verif/MANIFEST.json from the table below (single source of truth)."""
import json
import os

V = os.path.dirname(os.path.dirname(os.path.abspath(__file__)))
props = [json.loads(l) for l in open(os.path.join(V, "properties.jsonl"))]

# property id -> (level, technique, text, note, design_ref)
CLAIMED = {
    "C17": ("model_checking",
            "TLA+ spec KadStore (Impl+Prop layers) checked by TLC; TLC-generated and random histories replayed into the real MemoryStore; recorded calls validated by TLC against the Prop layer",
            "TLC exhaustively shows the implementation-shaped store model refines the property-level step relation for small bounds (incl. bounds 0/1); every transition of a bounded graph plus seeded random histories are executed on the real MemoryStore and each recorded call+state is validated by TLC against the property-level relation (bounds, no expired result, no earlier-expiry replacement, sorted/closest-kept/in-place providers).",
            "small-scope constants; logical time realised with short real sleeps (runs that miss their window are discarded, not judged); sha2/XOR of the harness trusted for ranks",
            "DESIGN.md 4/C17"),
}

CLAIMED["C05"] = ("model_checking",
    "TLA+ spec ConnMgr (property monitor) + ConnMgrMC (implementation-shaped manager model) checked by TLC; one behaviour per transition of the bounded model and seeded random histories replayed into the real TransportManager through one or two scripted transports (TCP, TCP+WebSocket); recorded steps validated by TLC against the monitor (and against the model for drift); the same ledger (spec NetDial) validates logs of real 3-node networks over loopback TCP / WebSocket / QUIC driven through the public API",
    "TLC explores every interleaving of dial requests, transport outcomes, inbound connections, accept results and closures for 2 peers / 3-4 connection ids / several limit configurations on a model transcribed handler by handler from the manager; each transition of the bounded graph (plus wedge probes at quiescence) and long random histories over 3 peers are executed on the real TransportManager and every step is validated by TLC against the property-level ledger: one outcome per attempt, failures name dialed addresses, no silence at quiescence, no wedge, no panic. Real tcp worlds also dial live nodes under adversarial forms of their address (unspecified ip, port 0) before the redial probe.",
    "legal scripted transport(s) at the trait boundary (legality of the in-tree TCP/WebSocket/QUIC transports is checked separately by ./check tcplegal, see DESIGN 10.5); one stimulus at a time; small-scope constants; address-shape quantifier covered by the shape driver (see evidence); real-network runs judge at quiescence with 8 s slack",
    "DESIGN.md 4/C05")
CLAIMED["C06"] = ("model_checking",
    "same ConnMgr TLA+ specs and conformance pipeline as C05; the monitor's cap rules decide; counter abstraction ConnCaps.tla: TLC checks ConnMgrMC => ConnCaps as an action property (refinement) and Apalache proves ConnCaps!IndInv inductive (caps for histories of any length)",
    "the property monitor counts connections from the manager's accept() call until closure and checks after every recorded step of the real TransportManager: at most 2 per peer, incoming/outgoing never above the configured maxima, pending inbound sockets refused only at the limit, and a connection from an unconnected peer is accepted whenever the node is below its limits (capacity released exactly on close / accept failure); TLC checks the same rules plus exactness of the limit sets on the bounded model. Unbounded histories: the inductive invariant of ConnCaps (caps, exact limit sets, PeerState = open connections) is discharged by Apalache for 2x4 (quick) up to 4 peers x 6 reusable connection ids (thorough), and every transition of the bound model is checked to be a ConnCaps step.",
    "legal scripted transport(s) (TCP, TCP+WebSocket); limits in {none,0,1,2} combinations incl. one-direction-only; 2 peers in TLC, 3 in random runs",
    "DESIGN.md 4/C06")

CLAIMED["C10"] = ("model_checking",
    "TLA+ spec AddrBook (Impl transcription with nondeterministic minimum eviction + Prop predicates + filter decision table) checked by TLC; TLC behaviours and random histories replayed into the real AddressStore, add_known_address filter and TransportManager::dial; recorded calls validated by TLC",
    "TLC shows the store transcription refines the property-level insert/list relations for all histories up to 4-5 operations (K=2,3) and that the filter decision table only admits attributable, non-local, TCP-dialable shapes; every transition of the K=2 graph (embedded in the real 64-slot store), random 300-op histories over >64 addresses, every constructible multiaddress shape class and dial/re-score rounds on the real manager are recorded and validated by TLC: bound 64, a displaced record is a minimum, results re-score exactly the dialed addresses and survive rediscovery, dial tries the best addresses in score order within free outbound capacity. Dial-by-address rounds whose negotiated connection the manager rejects must still re-score the address used.",
    "TCP is the only enabled transport in the pinned build; shape classes sampled with seeded instances; small-scope constants in TLC",
    "DESIGN.md 4/C10")

CLAIMED["C01"] = ("model_checking",
  "TLA+ spec NoiseHS (symbolic Dolev-Yao Impl layer of XX + libp2p payload, Prop layer Allowed/Auth) explored completely by TLC; every scenario concretised against the real noise::handshake over an in-memory duplex with a scripted MITM (peer: real handshake, libp2p-noise, or a snow-based rogue with hand-encoded payloads), dialed-peer cases (none / same key / other key x inline / SHA-256 form x dialed address form ip4 / ip6 / dns / dns4 / dns6) through two real Litep2p nodes over TCP and WebSocket and through the real negotiate_connection of both transports; recorded outcomes validated by TLC against Allowed",
  "TLC enumerates the whole symbolic scenario space (MITM corrupt/truncate/extend/substitute/replay/drop on each field of the 3 messages, 11 rogue payloads, dial expectations, 4 fragmentations) and checks Auth/NoHang/Agreement; each scenario is executed on the real code at every byte offset of the field (thorough; quick samples offsets) and each observed outcome must be allowed by the property-level verdict: ok only with exactly the proven peer, err whenever a visible byte was altered, the payload is forged/unbound, or the dialed id differs; honest runs must succeed.",
  "ideal cryptography assumed; one MITM move or one rogue per handshake; deadlocks resolved by closing the pipe (no timers); small-order identity keys are accepted like the reference implementation does (recorded, not judged); QUIC authenticates with TLS and is outside C01",
  "DESIGN.md 4/C01, 10")
CLAIMED["C02"] = ("model_checking",
  "TLA+ spec NoisePipe (Impl transcription of NoiseSocket poll_write/poll_flush/poll_read, scale-parametric; Prop monitor) checked by TLC unit-scaled; TLC behaviours, a systematic size/buffer/chunking/config sweep, all attack kinds and seeded random schedules executed on two real NoiseSockets (real handshake) around a scripted carrier with attacks on real ciphertext; every call validated by TLC against the Prop monitor and, at real scale, against the Impl layer",
  "TLC checks for all bounded schedules of writes, carrier room, chunkings, Pending, read buffers and every single-frame attack that the transcription delivers exactly the written prefix, nothing of or after the first affected frame, errors after an attack, never a spurious error/Pending, frames <= 65535 and everything at quiescence; thousands (quick) / ~90k (thorough) real connections with write sizes up to 5*65520+3, read buffers 1..70000, read-ahead 1/2/5, write buffer 1/2, chunkings 1/2/frame+-1/random with Pending are recorded and each event is accepted by TLC.",
  "ideal AEAD in the model; one attack per connection; settings >= 1; panic on re-poll after an error recorded, not judged",
  "DESIGN.md 4/C02, 10")
CLAIMED["C03"] = ("model_checking",
  "TLA+ specs Multistream/MultistreamImpl/MultistreamMsg checked by TLC; io scripts of every transition of a bounded graph replayed in lockstep into the real dialer_select_proto/listener_select_proto (litep2p vs litep2p, and against multistream-select 0.13 in either role) and into WebRtcDialerState/webrtc_listener_negotiate; seeded random schedules; recorded outcomes validated by TLC against the Prop layer",
  "TLC exhaustively shows the implementation-shaped negotiation model (both versions, all fragmentations, all message groupings) satisfies agreement on the dialer's first common name, failure iff disjoint, termination and transparency for small scopes; hundreds of thousands of real negotiations incl. interop with the reference are validated against the same property-level spec",
  "honest peers, valid names, V1Lazy payload restriction, quiescence instead of time; small-scope constants",
  "DESIGN.md 4/C03, 10")
CLAIMED["C04"] = ("model_checking",
  "TLA+ specs FramedPipe/SubstreamPipe checked by TLC; TLC-generated and seeded poll schedules executed on the real Substream pair over an in-memory yamux connection (Sink API, send_framed, raw malformed prefixes); every recorded execution validated by TLC against the Prop layer",
  "in-order exact delivery, refusal of out-of-limit messages, error (never panic) on bad lengths, and 'flush complete => delivered without further sender action' checked at every quiescence point, for the TLC-enumerated schedules of a credit-window carrier and for seeded schedules with real sizes up to 1 MiB",
  "known findings on the pinned tree are reported as KNOWN-FINDING (see known_findings.txt); no byte-level lockstep through yamux; small-scope constants",
  "DESIGN.md 4/C04, 10")
CLAIMED["C08"] = ("model_checking",
  "TLA+ spec SvcLife (property monitor) + SvcLifeMC (implementation-shaped model of TransportService/ConnectionHandle/ProtocolSet with scripted connections) checked by TLC; behaviours per transition, hand-written and seeded random histories replayed into real TransportServices and real ProtocolSets through the in-crate ServiceHarness; runs of two real nodes over loopback TCP / WebSocket / QUIC incl. substream-open timeouts against a held remote, and deliveries of substream results into a full protocol inbox; every recorded step validated by TLC against the monitor (and against the model for drift); open-answer ledger of ConnLifeNet.tla on the real TCP connection task with a scripted yamux remote (serve / refuse / stall / abort mid-frame)",
  "TLC explores every interleaving of establishment/closure of up to two overlapping connections (plus an offered third), inbox polling, open_substream, force_close, connection-side reads/answers/failures, inbound substreams, keep-alive downgrades and the close/task-end window for 1-2 peers, up to 3 connection ids per peer and up to 3 requests; sampled (quick) / all budgeted (thorough) maximal behaviours plus random histories over 3 peers run on the real code and each step is validated: established/closed alternate per protocol and peer, substream events only while connected, each accepted id answered at most once with the matching outcome and exactly once at quiescence unless its connection ended, ids never reused across protocols, report_connection_closed tells protocols before the manager (blocked-call probe). On the real TcpConnection::start() an accepted open_substream id is answered exactly once while the connection stays up, for a remote that serves, refuses, never answers or aborts the negotiation of that one substream with an I/O error inside a multistream-select frame.",
  "scope: at most two overlapping connections per peer (third-connection runs judged for alternation/at-most-once/ids only); scripted legal connections; keep-alive expiry by clock-shift hook; NET exactly-once only on single-connection links with 6x timeout slack; small-scope constants",
  "DESIGN.md 4/C08, 10")
CLAIMED["C13"] = ("model_checking",
  "TLA+ monitor ReqResp + implementation-shaped model ReqRespMC checked by TLC; scripts derived from TLC behaviours, fixed shapes and seeded random scripts executed on networks of real litep2p nodes over loopback TCP / WebSocket / QUIC under a seeded schedule-perturbing executor with a proxy that cuts or stalls a direction at a byte offset (tcp, ws; on quic the remote node is dropped or frozen instead), incl. the manager-hold close window and requests whose write stalls; every recorded network validated by TLC against the monitor",
  "TLC explores all interleavings of user commands (<=3 requests incl. two to a peer still being dialed, cancel), protocol loop, dial/connection/substream outcomes and responder behaviours for 1-2 peers and checks exactly-one-terminal, payload provenance, seen-once, the inbound bound and quiescence; ~500 (quick) / ~4600 (thorough) real multi-node executions are judged event by event by the same monitor Floods of 4200 failing requests (more than the handle's event channel holds) issued before the user polls: every one still gets its terminal event.",
  "silence judged with >=3x slack on the configured timeouts, lagging networks discarded and re-run; small-scope TLC constants; MODE=impl drift validation not feasible (silent-step blow-up); environment = manager guarantees of C05/C07/C08",
  "DESIGN.md 4/C13, 10")
CLAIMED["C14"] = ("model_checking",
  "TLA+ spec KadRouting (Impl transcription of KBucket::entry/add_known_peer/ClosestBucketsIter + Prop layer) checked by TLC on W-bit XOR models; behaviours per transition and seeded random histories replayed into the real 256-bit K=20 RoutingTable (bucket indices and distance orders computed by the harness's own SHA-256/XOR); recorded calls validated by TLC",
  "TLC shows for all small tables/histories/targets that placement, bucket bound, no displacement of connected peers and closest = first min(k,n) of the distance order hold on the transcription; per-transition behaviours concretised on real hashes (ballast-filled buckets so eviction/NoSlot run at K=20) and random histories over 100-250 real peers with crafted local keys/targets across all 256 indices are validated call by call",
  "XOR/SHA-256 arithmetic of the harness trusted; peer keys cannot be chosen (hashes), low buckets reached by crafting the local key; small-scope constants",
  "DESIGN.md 4/C14, 10")
CLAIMED["C15"] = ("model_checking",
  "TLA+ spec KadQuery (Impl contexts FindNode/GetRecord/GetProviders/PutToTargetPeers + Prop monitor) checked by TLC over every reply/failure/ordering pattern of small networks with liars; per-transition behaviours and random schedules replayed on the real QueryEngine; recorded actions validated by TLC; quiescence-based termination",
  "never local / never twice / fresh in-flight < alpha / exactly one terminal / result sorted, answered, <= replication and closer learned peers contacted / each item once / stop at quorum are checked by TLC on the model for N<=8 peers and on every recorded step of the real engine (7 start_* entry points, 4-30 peer random networks, two lookups sharing an engine, a real-time stale-request scenario) Every third failed response is delivered as a decodable reply of the wrong message kind.",
  "distances only as an order (ranks bound to real peer ids by real distance); real 10 s peer timeout scenario discarded when timing assumptions fail; small-scope constants",
  "DESIGN.md 4/C15, 10")
CLAIMED["C18"] = ("exploration",
  "PeerIdRules decision tables (TLA+) enumerated completely by TLC as input classes with expected verdicts; each class concretised with seeded byte strings and run through the real PeerId parsers/derivation/round trips, differentially against libp2p-identity 0.2.14; observations validated by TLC against the tables",
  "551 abstract classes (multihash code x digest length x declared length x varint form x text form), all key-encoding lengths 0..100, ed25519 keys from seeds; verdict = real equals reference equals table, same bytes, all round trips (bytes, base58, multiaddr, serde), no panic",
  "for-all-bytes is sampled within classes, not decided; crates shared by litep2p and the reference are invisible to the differential check",
  "DESIGN.md 4/C18, 10")
CLAIMED["C19"] = ("exploration",
  "Decoders.tla (LengthDelimited / payload-size / Message::decode / webrtc negotiation state machines and a decoder x mutation-operator plan) enumerated by TLC; concretised into the real decoders with a counting global allocator, child-process probes and a watchdog; observations validated by TLC",
  "byte-class sequences up to length 6 x 3 chunkings for the stateful decoders with the exact expected outcome per class (drift) and the property-level outcome (no panic/hang/abort, largest single allocation <= limit + 64 KiB, Decode(Encode(v)) = v); tens of thousands of damaged encodings of every protobuf message kind incl. recursive field damage",
  "totality over all byte strings is sampled, not decided; Noise transport framing is covered by C02; known findings reported as KNOWN-FINDING",
  "DESIGN.md 4/C19, 10")
CLAIMED["C20"] = ("model_checking",
  "TLA+ spec Bitswap (Impl transcription of extract_next_batch/send_response + Prop; certification decision table) checked by TLC; size sequences and the class table replayed into the real extract_next_batch / blocks_message / send_response over a real Substream / block_to_response / on_message_received; traces validated by TLC against Prop",
  "batching: TLC exhaustive for small constants incl. termination; every bounded response set executed on the real functions at byte scale and sampled at the real 2 MiB/4 MiB scale, end to end over a real substream; certification: every class of {prefix shape x version x codec x 15 hashes x lengths x intact/tampered} through the real functions with the reported CID compared to an independent recomputation from the received bytes",
  "certification half is exploration-level (classes sampled with instances); 'fits' = <= MAX_BATCH_SIZE; known findings reported as KNOWN-FINDING",
  "DESIGN.md 4/C20, 10")

CLAIMED["C11"] = ("model_checking",
  "TLA+ monitor Notif + implementation-shaped two-endpoint model NotifMC checked by TLC; TLC behaviours, scenario families and a seeded random driver executed on real 2-3 node litep2p networks over loopback TCP / WebSocket / QUIC (public API, schedule-perturbing executor, TCP proxy faults incl. one-direction stalls that make a pending outbound substream time out while the connection stays up); every endpoint's command/event log validated by TLC against the monitor",
  "TLC explores all interleavings of open/close/validation commands, handshake steps, connection-task steps, cuts, reconnects and substream failures on a model transcribed handler by handler (incl. panic arms); the user-visible grammar (alternation, no failure while open, consent before Opened, one answer per obligated open at quiescence, closed after connection loss, no panic, bystander still served) is checked in the model and on each real endpoint log. Scenario families include a re-open issued at once after a remote close while the protocol loop is held (shutdown notice and open command waiting together).",
  "obligations only for opens issued in a clean, connected view (faults/rejections void them); quiescence = 60 s silence, runs with a starved driver not judged; small-scope constants; 5 s no-inbound timer covered in the model only",
  "DESIGN.md 4/C11, 10")
CLAIMED["C12"] = ("model_checking",
  "TLA+ ledger NotifStream + data-plane model NotifStreamMC checked by TLC; bursts, stalls, size classes, close/reopen and cuts executed on real litep2p networks over TCP / WebSocket / QUIC; each direction's sends and deliveries validated by TLC against the ledger",
  "per mode: deliveries are an in-order, at-most-once subsequence of the accepted notifications with no gap inside an open period, nothing above the maximum, sync send never blocks and clogs only at capacity, async send waits, nothing lost in a stream that stays open; checked exhaustively for capacities {1,2} and on real payload-coded traffic. While the sender's Connection tasks are held (no consumer) the synchronous channel may accept at most its capacity: every further synchronous send must report the clog (hold generation recorded with each send).",
  "deliveries spilling into the receiver's next period tolerated; transport backpressure cannot reach the sender so waits are provoked by starving the connection task",
  "DESIGN.md 4/C12, 10")

CLAIMED["C16"] = ("model_checking",
    "TLA+ spec KadOps (property monitor) + KadOpsMC (implementation-shaped model of the Kademlia orchestration around the abstract query engine) checked by TLC; fault placements enumerated by TLC plus seeded random ones executed as networks of real litep2p nodes over loopback TCP / WebSocket / QUIC / mixed-transport networks through the public API; every recorded execution validated by TLC against the monitor",
    "TLC explores every interleaving of open_substream_or_dial outcomes, dial failure / establishment, substream open / failure, executor send / read results and disconnects for 3 target peers x one operation of every kind x quorums One/N(2)/All (and 2 concurrent operations on 2 peers); the per-(query,peer) ledger shows every failure path reports to the owning query. 83 (quick) / ~520 (thorough) real networks with undialable, refusing, address-less, non-Kademlia, killed (before / at connection / at receipt), silent, inbound-only peers and a local connection limit run 126 / ~850 monitored operations; each trace is checked for exactly one terminal event per query id within a 3x-slack deadline and success only with the quorum of confirmed receipts put_record_to_peers whose every target is unusable (address-less unknown peer, own id, empty list) must not report success.",
    "real time: silent placements cost 15-35 s each (2 in quick, ~60 in thorough, concurrent); number of addressed peers observable only for put_record_to_peers (closest-peer puts demand >= 1 receipt); engine abstracted to the C15 guarantee; the on_connection_established open-substream error window is reached on real nodes through a 300-operation burst behind a gated dial (ChannelClogged), the check exits 2 when a transport never hits it",
    "DESIGN.md 4/C16, 10")

CLAIMED["C07"] = ("model_checking",
    "TLA+ monitor ConnLifeNet + implementation-shaped model ConnLifeNetMC (manager loop, connection task incl. error exits, protocol loops over bounded channels, protocol shutdown) checked by TLC; TLC-simulated stimulus schedules and a scenario catalogue run on real two-node litep2p networks (TCP, WebSocket through the byte proxy, QUIC) over loopback TCP (proxy, perturbing executor); every recorded execution validated by TLC against the monitor; manager-level close bursts on the real TransportManager judged by per-peer ledgers of the same monitor",
    "TLC explores all interleavings of manager, connection task, protocol loops and environment for 1 peer / 2 overlapping connections / 2 protocols + 1 that shuts down / all termination causes and shows the monitor rules hold outside two tagged defect paths (and everywhere once both are repaired); the same monitor validates the application and per-protocol event streams of real node pairs for remote crash, network cut at any byte, force_close, idle expiry, stalled/pending opens, paused protocol, protocol shutdown, simultaneous dials, connect/disconnect cycles and redial probes. Close reports of several connections queued in the real manager's channel before it is polled again (400 quick / 6000 thorough bursts over 3 peers x 1-2 connections): every peer whose last connection is among them is reported closed to the application exactly once.",
    "public API only; ordering from one recorded log + 10 s deadlines with load probe; really full channels only in the model; protocols-before-manager at model level (and by the blocked-call probe of C08)",
    "DESIGN.md 4/C07, 10")
CLAIMED["C09"] = ("model_checking",
    "TLA+ timed monitor KeepAlive + model KeepAliveMC (per-protocol tracker, handles, permits) checked by TLC; one activity schedule per transition of the bounded graph + timing catalogue executed in real time on concurrent real two-node networks over TCP / WebSocket / QUIC (T = 150/400/1000 ms), plus a unit-level part driving the real TransportService with mocked time (handle states after each expiry); timed logs validated by TLC",
    "TLC shows NotBefore / never-while-held-or-opening / closed-by-T for all activity schedules of the bounded model incl. non-keep-alive protocol activity; real networks (single and double connection, with/without ping+identify, local and remote opens, failing opens, opens around expiry) are judged with before/after stamping so NotBefore can only err leniently and Eventually has slack max(1 s, T).",
    "only A's idle mechanism can close (remote timeout 120 s, no faults); 'activity' = establishing / opening a keep-alive substream (the end of a hold is not counted as activity: the stricter literal reading is reported as a note only)",
    "DESIGN.md 4/C09, 10")

# harness binaries each claimed property needs (setup builds exactly these)
BINS = {"C17": ["store"], "C05": ["connmgr", "netdial"], "C06": ["connmgr"], "C10": ["addrbook"],
        "C01": ["noisehs"], "C02": ["noisepipe"], "C03": ["mss"], "C04": ["substream", "reqresp"], "C08": ["svc", "connunit"], "C13": ["reqresp"],
        "C14": ["routing"], "C15": ["query"], "C18": ["peerid"], "C19": ["decoders"], "C20": ["bitswap"], "C11": ["notif"], "C12": ["notif"], "C16": ["kadops"], "C07": ["connlife", "svc", "connunit", "connmgr"], "C09": ["keepalive", "kasvc"]}

NOT_YET = "check not built yet (work in progress, see DESIGN.md build order)"
NA = {}

checks = []
for p in props:
    pid = p["id"]
    if pid in CLAIMED:
        lvl, tech, text, note, ref = CLAIMED[pid]
        checks.append({
            "property_id": pid,
            "quick_cmd": "./check %s quick" % pid,
            "thorough_cmd": "./check %s thorough" % pid,
            "evidence_file": "/verif/evidence/%s.json" % pid,
            "replay_cmd_template": "./check %s quick --replay {path}" % pid,
            "engine": "tlc+vharness",
            "level_claimed": {"category": lvl, "text": text, "design_ref": ref},
            "level_note": note,
            "technique": tech,
        })

hooks_commits = os.popen("git -C /repo log --format=%H --grep='^verif hooks' 2>/dev/null").read().split()
m = {
    "version": 1,
    "setup_cmd": "cd /verif/harness && CARGO_NET_OFFLINE=true cargo build --offline " + " ".join("--bin " + b for b in sorted({b for p in CLAIMED for b in BINS.get(p, [])})),
    "hooks": {
        "guard": "litep2p_verif",
        "enable": "rustflags --cfg litep2p_verif in /verif/harness/.cargo/config.toml (the harness crate has a path dependency on /repo)",
        "baseline_off_cmd": "cd /repo && cargo nextest run --workspace --no-fail-fast --tool-config-file pb:/w/lib/nextest.toml --profile pb --test-threads 8 --offline",
        "source_commits": hooks_commits,
        "add_only": True,
    },
    "engines": [
        {"name": "tlc+vharness", "path": "/verif/check", "serves_properties": sorted(CLAIMED),
         "kind_free_text": "TLA+ specs in /verif/spec checked by TLC (exhaustive model checking, behaviour generation, trace validation) + Rust conformance harness /verif/harness driving the real litep2p code; orchestrated by /verif/tools"},
    ],
    "checks": checks,
    "notes": "See DESIGN.md. Exit codes: 0 held, 1 VIOLATION, 2 tool error. Known findings: /verif/known_findings.txt.",
    "not_applicable": [{"property_id": p["id"], "reason": NA.get(p["id"], NOT_YET)} for p in props if p["id"] not in CLAIMED],
}
json.dump(m, open(os.path.join(V, "MANIFEST.json"), "w"), indent=1)
print("claimed:", sorted(CLAIMED))
