//! A peer built directly on `snow` (independent of litep2p's Noise code) that completes a valid
//! Noise XX session but sends a hand-encoded, possibly forged libp2p identity payload.
use ed25519_dalek::{Signer, SigningKey};
use futures::io::{AsyncRead, AsyncReadExt, AsyncWrite, AsyncWriteExt};
use rand::{rngs::StdRng, Rng, RngCore, SeedableRng};
use snow::{
    params::{CipherChoice, DHChoice, HashChoice},
    resolvers::{CryptoResolver, RingResolver},
    types::{Cipher, Dh, Hash, Random},
};

pub const PREFIX: &[u8] = b"noise-libp2p-static-key:";

// ---- X25519 for snow (the ring resolver has no DH)
#[derive(Default)]
struct X25519 {
    sk: [u8; 32],
    pk: [u8; 32],
}
impl Dh for X25519 {
    fn name(&self) -> &'static str {
        "25519"
    }
    fn pub_len(&self) -> usize {
        32
    }
    fn priv_len(&self) -> usize {
        32
    }
    fn set(&mut self, privkey: &[u8]) {
        self.sk.copy_from_slice(&privkey[..32]);
        self.pk = x25519_dalek::x25519(self.sk, x25519_dalek::X25519_BASEPOINT_BYTES);
    }
    fn generate(&mut self, rng: &mut dyn Random) {
        let mut sk = [0u8; 32];
        rng.fill_bytes(&mut sk);
        self.set(&sk);
    }
    fn pubkey(&self) -> &[u8] {
        &self.pk
    }
    fn privkey(&self) -> &[u8] {
        &self.sk
    }
    fn dh(&self, pubkey: &[u8], out: &mut [u8]) -> Result<(), snow::Error> {
        let mut pk = [0u8; 32];
        pk.copy_from_slice(&pubkey[..32]);
        out[..32].copy_from_slice(&x25519_dalek::x25519(self.sk, pk));
        Ok(())
    }
}
struct SnowRng(StdRng);
impl RngCore for SnowRng {
    fn next_u32(&mut self) -> u32 {
        self.0.next_u32()
    }
    fn next_u64(&mut self) -> u64 {
        self.0.next_u64()
    }
    fn fill_bytes(&mut self, d: &mut [u8]) {
        self.0.fill_bytes(d)
    }
    fn try_fill_bytes(&mut self, d: &mut [u8]) -> Result<(), rand::Error> {
        self.0.try_fill_bytes(d)
    }
}
impl rand::CryptoRng for SnowRng {}
impl Random for SnowRng {}
struct Resolver;
impl CryptoResolver for Resolver {
    fn resolve_rng(&self) -> Option<Box<dyn Random>> {
        Some(Box::new(SnowRng(StdRng::from_entropy())))
    }
    fn resolve_dh(&self, c: &DHChoice) -> Option<Box<dyn Dh>> {
        matches!(c, DHChoice::Curve25519).then(|| Box::new(X25519::default()) as Box<dyn Dh>)
    }
    fn resolve_hash(&self, c: &HashChoice) -> Option<Box<dyn Hash>> {
        RingResolver.resolve_hash(c)
    }
    fn resolve_cipher(&self, c: &CipherChoice) -> Option<Box<dyn Cipher>> {
        RingResolver.resolve_cipher(c)
    }
}

// ---- protobuf by hand
fn pb_bytes(field: u8, data: &[u8]) -> Vec<u8> {
    let mut v = vec![(field << 3) | 2];
    let mut n = data.len();
    loop {
        let b = (n & 0x7f) as u8;
        n >>= 7;
        if n == 0 {
            v.push(b);
            break;
        }
        v.push(b | 0x80);
    }
    v.extend_from_slice(data);
    v
}
/// canonical libp2p PublicKey protobuf of an ed25519 key
pub fn key_pb(pk: &[u8; 32]) -> Vec<u8> {
    let mut v = vec![0x08, 0x01];
    v.extend(pb_bytes(2, pk));
    v
}
/// non-canonical encodings of the same key that protobuf decoders accept
pub fn key_pb_noncanon(pk: &[u8; 32], which: usize) -> Vec<u8> {
    match which % 4 {
        0 => {
            let mut v = pb_bytes(2, pk); // data before type
            v.extend([0x08, 0x01]);
            v
        }
        1 => {
            let mut v = vec![0x08, 0x81, 0x00]; // over-long varint for type = 1
            v.extend(pb_bytes(2, pk));
            v
        }
        2 => {
            let mut v = key_pb(pk); // unknown trailing field 3 = 0
            v.extend([0x18, 0x00]);
            v
        }
        _ => {
            let mut v = key_pb(pk); // unknown 40-byte field: > 42 bytes, hashed with sha2-256
            v.extend(pb_bytes(3, &[0x55; 40]));
            v
        }
    }
}

fn hex32(h: &str) -> [u8; 32] {
    let v = hex::decode(h).expect("hex");
    let mut o = [0u8; 32];
    o.copy_from_slice(&v);
    o
}

/// Encodings of the 8 small-order points of edwards25519 (canonical, first 8) and non-canonical
/// encodings of some of them (y >= p, or x = 0 with the sign bit set).
pub fn small_order_keys() -> Vec<[u8; 32]> {
    [
        "0100000000000000000000000000000000000000000000000000000000000000", // order 1 (neutral element)
        "ecffffffffffffffffffffffffffffffffffffffffffffffffffffffffffff7f", // order 2
        "0000000000000000000000000000000000000000000000000000000000000000", // order 4
        "0000000000000000000000000000000000000000000000000000000000000080", // order 4
        "26e8958fc2b227b045c3f489f2ef98f0d5dfac05d3c63339b13802886d53fc05", // order 8
        "26e8958fc2b227b045c3f489f2ef98f0d5dfac05d3c63339b13802886d53fc85", // order 8
        "c7176a703d4dd84fba3c0b760d10670f2a2053fa2c39ccc64ec7fd7792ac037a", // order 8
        "c7176a703d4dd84fba3c0b760d10670f2a2053fa2c39ccc64ec7fd7792ac03fa", // order 8
        "0100000000000000000000000000000000000000000000000000000000000080", // neutral, sign bit set
        "ecffffffffffffffffffffffffffffffffffffffffffffffffffffffffffffff", // order 2, sign bit set
        "eeffffffffffffffffffffffffffffffffffffffffffffffffffffffffffff7f", // y = p + 1 (neutral)
        "eeffffffffffffffffffffffffffffffffffffffffffffffffffffffffffffff", // y = p + 1, sign bit set
        "edffffffffffffffffffffffffffffffffffffffffffffffffffffffffffff7f", // y = p (order 4)
        "edffffffffffffffffffffffffffffffffffffffffffffffffffffffffffffff", // y = p, sign bit set
    ]
    .iter()
    .map(|h| hex32(h))
    .collect()
}

/// Identity payload advertising small-order key number `which` with a forged signature (R, S = 0)
/// over prefix + static key: such a pair satisfies the cofactorless verification equation iff
/// R = -[k]A, k = H(R, A, M); the attacker tries every small-order R (and, through the caller, new
/// static keys) with the public verification algorithm as its oracle.  `None`: no forgery for this
/// static key.  Keys the decoder rejects are sent with R = neutral element anyway.
pub fn weak_payload(which: usize, static_pk: &[u8]) -> Option<Vec<u8>> {
    use ed25519_dalek::Verifier;
    let keys = small_order_keys();
    let a = keys[which % keys.len()];
    let msg = [PREFIX, static_pk].concat();
    let mk = |r: &[u8; 32]| {
        let mut sig = [0u8; 64];
        sig[..32].copy_from_slice(r);
        sig
    };
    let sig = match ed25519_dalek::VerifyingKey::from_bytes(&a) {
        Err(_) => mk(&keys[0]),
        Ok(vk) => {
            let hit = keys.iter().find(|r| vk.verify(&msg, &ed25519_dalek::Signature::from_bytes(&mk(r))).is_ok())?;
            mk(hit)
        }
    };
    Some([pb_bytes(1, &key_pb(&a)), pb_bytes(2, &sig)].concat())
}

pub struct Ids {
    pub rogue: SigningKey,
    pub victim: SigningKey,
}

/// Build the identity payload for variant `pv` given the rogue's own static DH public key.
pub fn payload(pv: &str, conc: usize, ids: &Ids, static_pk: &[u8], rng: &mut StdRng) -> Vec<u8> {
    let rpk = ids.rogue.verifying_key().to_bytes();
    let vpk = ids.victim.verifying_key().to_bytes();
    let msg = |s: &[u8]| [PREFIX, s].concat();
    let sig_r = ids.rogue.sign(&msg(static_pk)).to_bytes().to_vec();
    let mut other_static = [0u8; 32];
    rng.fill(&mut other_static);
    let other_static = x25519_dalek::x25519(other_static, x25519_dalek::X25519_BASEPOINT_BYTES);
    match pv {
        "asR" => [pb_bytes(1, &key_pb(&rpk)), pb_bytes(2, &sig_r)].concat(),
        "noKey" => {
            if conc % 2 == 0 {
                pb_bytes(2, &sig_r)
            } else {
                vec![]
            }
        }
        "noSig" => pb_bytes(1, &key_pb(&rpk)),
        "sigByOther" => [pb_bytes(1, &key_pb(&vpk)), pb_bytes(2, &sig_r)].concat(),
        "sigOverOtherStatic" => {
            let s = ids.rogue.sign(&msg(&other_static)).to_bytes().to_vec();
            [pb_bytes(1, &key_pb(&rpk)), pb_bytes(2, &s)].concat()
        }
        "sigNoPrefix" => {
            let s = match conc % 2 {
                0 => ids.rogue.sign(static_pk).to_bytes().to_vec(),
                _ => ids.rogue.sign(&[b"noise-libp2p-static-key".as_slice(), static_pk].concat()).to_bytes().to_vec(),
            };
            [pb_bytes(1, &key_pb(&rpk)), pb_bytes(2, &s)].concat()
        }
        "stolen" => {
            // a genuine payload of the victim (made for the victim's own static key in another session)
            let s = ids.victim.sign(&msg(&other_static)).to_bytes().to_vec();
            [pb_bytes(1, &key_pb(&vpk)), pb_bytes(2, &s)].concat()
        }
        "unknownType" => {
            let k = match conc % 3 {
                0 => {
                    let mut v = vec![0x08, 0x09];
                    v.extend(pb_bytes(2, &rpk));
                    v
                }
                1 => {
                    let mut v = vec![0x08, 0x02]; // secp256k1: not supported by litep2p
                    v.extend(pb_bytes(2, &rpk));
                    v
                }
                _ => vec![1, 2, 3, 4],
            };
            [pb_bytes(1, &k), pb_bytes(2, &sig_r)].concat()
        }
        "garbageSig" => {
            let mut s = match conc % 4 {
                0 => (0..64).map(|_| rng.gen()).collect::<Vec<u8>>(),
                1 => sig_r[..63].to_vec(),
                2 => vec![],
                _ => {
                    let mut s = sig_r.clone();
                    s[rng.gen_range(0..64)] ^= 1 << rng.gen_range(0..8);
                    s
                }
            };
            if conc % 4 == 0 {
                s[63] &= 0x0f;
            }
            [pb_bytes(1, &key_pb(&rpk)), pb_bytes(2, &s)].concat()
        }
        "extraField" => {
            let ext = pb_bytes(2, b"/yamux/1.0.0"); // NoiseExtensions.stream_muxers
            let mut v = [pb_bytes(1, &key_pb(&rpk)), pb_bytes(2, &sig_r), pb_bytes(4, &ext)].concat();
            if conc % 2 == 1 {
                v.extend([0x78, 0x01]); // unknown varint field 15
            }
            v
        }
        "noncanonKey" => [pb_bytes(1, &key_pb_noncanon(&rpk, conc)), pb_bytes(2, &sig_r)].concat(),
        other => panic!("unknown payload variant {other}"),
    }
}

async fn read_msg<S: AsyncRead + Unpin>(io: &mut S) -> Result<Vec<u8>, String> {
    let mut l = [0u8; 2];
    io.read_exact(&mut l).await.map_err(|e| e.to_string())?;
    let mut m = vec![0u8; u16::from_be_bytes(l) as usize];
    io.read_exact(&mut m).await.map_err(|e| e.to_string())?;
    Ok(m)
}
async fn write_msg<S: AsyncWrite + Unpin>(io: &mut S, m: &[u8]) -> Result<(), String> {
    let mut v = (m.len() as u16).to_be_bytes().to_vec();
    v.extend_from_slice(m);
    io.write_all(&v).await.map_err(|e| e.to_string())?;
    io.flush().await.map_err(|e| e.to_string())
}

/// What a snow-based endpoint sends as its identity payload.
pub enum Pl {
    /// forged / odd payload variant `pv` (see [`payload`])
    Variant(String, usize, Ids),
    /// these exact bytes (a payload observed elsewhere)
    Fixed(Vec<u8>),
    /// the honest payload of this identity for the session's static key
    HonestFor(SigningKey),
}

pub struct Spec {
    /// static DH private key to use (peers like rust-libp2p keep theirs for their lifetime); fresh if None
    pub static_priv: Option<[u8; 32]>,
    pub pl: Pl,
}

fn builder<'a>() -> snow::Builder<'a> {
    snow::Builder::with_resolver("Noise_XX_25519_ChaChaPoly_SHA256".parse().unwrap(), Box::new(Resolver))
}

pub fn static_public(private: &[u8; 32]) -> [u8; 32] {
    x25519_dalek::x25519(*private, x25519_dalek::X25519_BASEPOINT_BYTES)
}

pub fn honest_payload(id: &SigningKey, static_pk: &[u8]) -> Vec<u8> {
    let sig = id.sign(&[PREFIX, static_pk].concat()).to_bytes().to_vec();
    [pb_bytes(1, &key_pb(&id.verifying_key().to_bytes())), pb_bytes(2, &sig)].concat()
}

/// A complete Noise XX handshake of a snow-based endpoint over `io`.
/// Returns (remote payload as received, not verified; transport state; own payload as sent).
pub async fn handshake_snow<S: AsyncRead + AsyncWrite + Unpin>(
    io: &mut S,
    dialer: bool,
    spec: Spec,
    seed: u64,
) -> Result<(Vec<u8>, snow::TransportState, Vec<u8>), String> {
    let mut rng = StdRng::seed_from_u64(seed);
    let mut kp = match spec.static_priv {
        Some(sk) => snow::Keypair { private: sk.to_vec(), public: static_public(&sk).to_vec() },
        None => builder().generate_keypair().map_err(|e| e.to_string())?,
    };
    let pl = match spec.pl {
        Pl::Fixed(b) => b,
        Pl::HonestFor(id) => honest_payload(&id, &kp.public),
        Pl::Variant(pv, conc, ids) =>
            if pv == "weakKey" {
                // grind static keys until a forgery exists for the advertised small-order key
                let mut tries = 0;
                loop {
                    if let Some(p) = weak_payload(conc, &kp.public) {
                        break p;
                    }
                    tries += 1;
                    if tries > 2000 {
                        return Err("no forgery found".into());
                    }
                    kp = builder().generate_keypair().map_err(|e| e.to_string())?;
                }
            } else {
                payload(&pv, conc, &ids, &kp.public, &mut rng)
            },
    };
    let b = builder().local_private_key(&kp.private);
    let mut buf = vec![0u8; 4096];
    let mut out = vec![0u8; 4096];
    if dialer {
        let mut hs = b.build_initiator().map_err(|e| e.to_string())?;
        let n = hs.write_message(&[], &mut buf).map_err(|e| e.to_string())?;
        write_msg(io, &buf[..n]).await?;
        let m2 = read_msg(io).await?;
        let n = hs.read_message(&m2, &mut out).map_err(|e| e.to_string())?;
        let remote = out[..n].to_vec();
        let n = hs.write_message(&pl, &mut buf).map_err(|e| e.to_string())?;
        write_msg(io, &buf[..n]).await?;
        Ok((remote, hs.into_transport_mode().map_err(|e| e.to_string())?, pl))
    } else {
        let mut hs = b.build_responder().map_err(|e| e.to_string())?;
        let m1 = read_msg(io).await?;
        hs.read_message(&m1, &mut out).map_err(|e| e.to_string())?;
        let n = hs.write_message(&pl, &mut buf).map_err(|e| e.to_string())?;
        write_msg(io, &buf[..n]).await?;
        let m3 = read_msg(io).await?;
        let n = hs.read_message(&m3, &mut out).map_err(|e| e.to_string())?;
        Ok((out[..n].to_vec(), hs.into_transport_mode().map_err(|e| e.to_string())?, pl))
    }
}

/// Run the rogue side. Returns the remote payload it received (not verified).
pub async fn run<S: AsyncRead + AsyncWrite + Unpin>(mut io: S, dialer: bool, pv: String, conc: usize, ids: Ids, seed: u64) -> Result<Vec<u8>, String> {
    handshake_snow(&mut io, dialer, Spec { static_priv: None, pl: Pl::Variant(pv, conc, ids) }, seed).await.map(|r| r.0)
}

// ---- the rest of litep2p's connection negotiation, spoken by the snow endpoint over TCP:
// multistream-select (`/noise` in clear, `/yamux/1.0.0` inside the Noise transport)

const MSS: &[u8] = b"/multistream/1.0.0\n";

fn mss_msg(p: &[u8]) -> Vec<u8> {
    let mut v = vec![p.len() as u8]; // all messages are < 128 bytes: one varint byte
    v.extend_from_slice(p);
    v
}

/// plain or Noise-transport byte channel
pub enum Chan<'a, S> {
    Plain(&'a mut S),
    Noise(&'a mut S, &'a mut snow::TransportState),
}

impl<S: AsyncRead + AsyncWrite + Unpin> Chan<'_, S> {
    async fn send(&mut self, data: &[u8]) -> Result<(), String> {
        match self {
            Chan::Plain(io) => {
                io.write_all(data).await.map_err(|e| e.to_string())?;
                io.flush().await.map_err(|e| e.to_string())
            }
            Chan::Noise(io, ts) => {
                let mut ct = vec![0u8; data.len() + 16];
                let n = ts.write_message(data, &mut ct).map_err(|e| e.to_string())?;
                write_msg(*io, &ct[..n]).await
            }
        }
    }
    async fn recv(&mut self) -> Result<Vec<u8>, String> {
        match self {
            Chan::Plain(io) => {
                let mut b = vec![0u8; 256];
                let n = io.read(&mut b).await.map_err(|e| e.to_string())?;
                if n == 0 {
                    return Err("eof".into());
                }
                b.truncate(n);
                Ok(b)
            }
            Chan::Noise(io, ts) => {
                let ct = read_msg(*io).await?;
                let mut pt = vec![0u8; ct.len()];
                let n = ts.read_message(&ct, &mut pt).map_err(|e| e.to_string())?;
                pt.truncate(n);
                Ok(pt)
            }
        }
    }
    /// receive until `n` complete multistream messages are buffered; returns them
    async fn recv_msgs(&mut self, acc: &mut Vec<u8>, n: usize) -> Result<Vec<Vec<u8>>, String> {
        loop {
            let mut msgs = vec![];
            let mut i = 0;
            while i < acc.len() {
                let l = acc[i] as usize;
                if i + 1 + l > acc.len() {
                    break;
                }
                msgs.push(acc[i + 1..i + 1 + l].to_vec());
                i += 1 + l;
            }
            if msgs.len() >= n {
                return Ok(msgs);
            }
            let more = self.recv().await?;
            acc.extend_from_slice(&more);
        }
    }
}

/// multistream-select for exactly one protocol
pub async fn mss<S: AsyncRead + AsyncWrite + Unpin>(mut ch: Chan<'_, S>, dialer: bool, proto: &str) -> Result<(), String> {
    let line = format!("{proto}\n").into_bytes();
    let mut acc = vec![];
    if dialer {
        ch.send(&[mss_msg(MSS), mss_msg(&line)].concat()).await?;
        let msgs = ch.recv_msgs(&mut acc, 2).await?;
        if msgs[0] != MSS || msgs[1] != line {
            return Err(format!("multistream-select: unexpected reply {:?}", msgs));
        }
    } else {
        let msgs = ch.recv_msgs(&mut acc, 1).await?;
        if msgs[0] != MSS {
            return Err("multistream-select: bad header".into());
        }
        ch.send(&mss_msg(MSS)).await?;
        let msgs = ch.recv_msgs(&mut acc, 2).await?;
        if msgs[1] != line {
            return Err(format!("multistream-select: unexpected proposal {:?}", msgs[1]));
        }
        ch.send(&mss_msg(&line)).await?;
    }
    Ok(())
}

/// The whole connection negotiation of a snow-based peer towards a real litep2p `negotiate_connection`.
pub async fn negotiate_snow<S: AsyncRead + AsyncWrite + Unpin>(mut io: S, dialer: bool, spec: Spec, seed: u64) -> Result<(), String> {
    mss(Chan::Plain(&mut io), dialer, "/noise").await?;
    let (_, mut ts, _) = handshake_snow(&mut io, dialer, spec, seed).await?;
    mss(Chan::Noise(&mut io, &mut ts), dialer, "/yamux/1.0.0").await?;
    // keep the socket open until the other side is done with it
    let mut b = [0u8; 1];
    let _ = io.read(&mut b).await;
    Ok(())
}
