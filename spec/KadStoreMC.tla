----------------------------- MODULE KadStoreMC -----------------------------
(* Bounded model of the store for TLC: exhaustive check that the Impl layer *)
(* satisfies the Prop layer (C17), and behaviour generation for replay.     *)
EXTENDS KadStore, TLC, Json, Bitwise

CONSTANTS Keys, Provs, Sizes, Exps, MaxNow, MaxOps,
          CMaxRecords, CMaxSize, CMaxProvKeys, CMaxProvPerKey, CMaxAddrs, NAddrs

C == [maxRecords |-> CMaxRecords, maxSize |-> CMaxSize, maxProvKeys |-> CMaxProvKeys,
      maxProvPerKey |-> CMaxProvPerKey, maxAddrs |-> CMaxAddrs]

\* Hashed ids are 3-bit numbers; the rank of provider p w.r.t. key k is its position in
\* the order of XOR distances, exactly as in the code (only the order matters there).
\* The harness picks real peer ids / record keys whose SHA-256 starts with these 3 bits.
ProvHash == ("p0" :> 1 @@ "p1" :> 6 @@ "p2" :> 3 @@ "local" :> 4)
KeyHash == ("k0" :> 0 @@ "k1" :> 5 @@ "k2" :> 7)
Rank(k, p) == 1 + Cardinality({q \in DOMAIN ProvHash : (ProvHash[q] ^^ KeyHash[k]) < (ProvHash[p] ^^ KeyHash[k])})

ExpsDef == {Never, 0, 1, 2, 5}
ExpsNever == {Never}

VARIABLES st, last, hist, nops
vars == <<st, last, hist, nops>>

Ops ==
       [op : {"get"}, k : Keys]
  \cup [op : {"put"}, k : Keys, size : Sizes, exp : Exps]
  \cup [op : {"get_providers"}, k : Keys]
  \cup {[op |-> "put_provider", k |-> k, p |-> p, rank |-> Rank(k, p), naddr |-> n] :
          k \in Keys, p \in Provs, n \in NAddrs}
  \cup {[op |-> "put_local", k |-> k, rank |-> Rank(k, "local")] : k \in Keys}
  \cup [op : {"remove_local"}, k : Keys]
  \cup [op : {"tick"}]

Init == /\ st = InitState(Keys)
        /\ last = [o |-> [op |-> "init"], ret |-> "ok", pre |-> InitState(Keys)]
        /\ hist = <<>>
        /\ nops = 0

Do(o) == LET r == ImplStep(C, st, o) IN
           /\ st' = r.st
           /\ last' = [o |-> o, ret |-> r.ret, pre |-> st]
           /\ hist' = Append(hist, o)
           /\ nops' = nops + 1

Next == /\ nops < MaxOps
        /\ \E o \in Ops : (o.op = "tick" => st.now < MaxNow) /\ Do(o)

Spec == Init /\ [][Next]_vars

\* C17 on the model: every step of the implementation-shaped spec is a step
\* the property-level relation allows.
StepOK == [][PropStep(C, st, last'.o, last'.ret, st')]_vars
StateInv == StateOK(C, st)
NoPanic == last.ret # "panic"

View == <<st, nops>>
\* generation: one behaviour per transition of the bounded graph
AllProvs == Provs \cup {"local"}
Emit == PrintT(<<"B", ToJson([cfg |-> C, nkeys |-> Cardinality(Keys), nprovs |-> Cardinality(Provs),
                               ranks |-> [k \in Keys |-> [p \in AllProvs |-> Rank(k, p)]],
                               phash |-> ProvHash, khash |-> KeyHash, bits |-> 3,
                               ops |-> hist'])>>)
=============================================================================
