"""Shared pipeline for C11 / C12: Notif*.tla specs, harness bin `notif` (real litep2p nodes over loopback TCP).

Scenario scripts (one JSON object per network) come from three sources:
  * TLC behaviours of NotifMC (user / environment actions of the bounded model, eager and paced variants),
  * hand-written families that pin down the obligations (solo opens, rejections, ignored validations that
    wait for litep2p's 10 s negotiation timeout, cuts, reconnects, clogging, bystander service),
  * a seeded random driver.
"""
import json
import random
from vlib import *

EPS = ["X", "Y"]


def other(e):
    return "Y" if e == "X" else "X"


def cfg(seed, auto=(), dial=False, sync=16, asyn=8, mx=256, perturb=1, bystander=False, tq_ms=60000):
    return {"auto": list(auto), "dial": dial, "sync": sync, "async": asyn, "max": mx, "perturb": perturb,
            "seed": seed, "bystander": bystander, "tq_ms": tq_ms}


def op(o, **kw):
    d = {"op": o}
    d.update(kw)
    return d


def open_(e, to=None):
    return op("open", ep=e, to=to or other(e))


def close_(e, to=None):
    return op("close", ep=e, to=to or other(e))


def val(e, v, frm=None, wait=3000):
    return op("val", ep=e, **{"from": frm or other(e)}, v=v, wait_ms=wait)


def policy(e, v):
    return op("policy", ep=e, v=v)


def await_(e, k, p=None, ms=8000):
    return op("await", ep=e, p=p or other(e), k=k, ms=ms)


def send(e, m, cnt, sz="min", to=None):
    return op("send", ep=e, to=to or other(e), m=m, cnt=cnt, sz=sz)


def serve_check():
    """the bystander Z and X open a stream and exchange notifications: X keeps serving other peers"""
    return [policy("X", "accept"), policy("Z", "accept"), op("settle", quiet=200, ms=3000),
            open_("Z", "X"), await_("Z", "open", "X"), await_("X", "open", "Z"),
            send("Z", "s", 2, to="X"), send("X", "a", 2, to="Z"), op("pump", ms=150)]


# ----------------------------------------------------------------------------- families

def families(seed, tier):
    """deterministic scenario families; a few wait for the compile-time timeouts of litep2p"""
    out = []
    n = 0

    def add(name, c, steps, bys=False):
        nonlocal n
        n += 1
        c = dict(c)
        c["seed"] = seed * 1000 + n
        if bys:
            c["bystander"] = True
            steps = steps + serve_check()
        out.append({"id": "fam-%s-%d" % (name, n), "cfg": c, "steps": steps + [op("quiesce")]})

    reps = 1 if tier == "quick" else 3
    for r in range(reps):
        for pert in (0, 1, 2):
            for auto in ((), ("X",), ("X", "Y")):
                base = cfg(0, auto=auto, perturb=pert)
                # solo open, everybody accepts; traffic; close; reopen from the other side
                add("solo-accept", base, [policy("X", "accept"), policy("Y", "accept"), open_("X"), await_("X", "open"), await_("Y", "open"),
                                          send("X", "s", 3), send("Y", "a", 3), op("pump", ms=100), close_("X"),
                                          await_("X", "closed"), await_("Y", "closed"), op("settle", quiet=200, ms=3000),
                                          open_("Y"), await_("Y", "open"), await_("X", "open")], bys=(pert == 1))
                # solo open, remote rejects
                add("solo-reject", base, [policy("Y", "reject"), open_("X"), await_("X", "answered"), op("settle", quiet=200, ms=3000),
                                          policy("Y", "accept"), policy("X", "accept"), open_("X"), await_("X", "open")])
                # simultaneous opens
                add("simul", base, [policy("X", "accept"), policy("Y", "accept"), open_("X"), open_("Y"), await_("X", "answered"),
                                    await_("Y", "answered"), op("pump", ms=100), close_("Y"), close_("X")], bys=(pert == 2))
                # simultaneous opens, one side rejects the other's half
                add("simul-reject", base, [policy("X", "accept"), policy("Y", "reject"), open_("X"), open_("Y"), op("pump", ms=300),
                                           policy("Y", "accept"), open_("X"), op("pump", ms=300)])
                # cut while open, stream must be reported closed; reconnect and reopen
                add("cut-open", base, [policy("X", "accept"), policy("Y", "accept"), open_("X"), await_("X", "open"), await_("Y", "open"),
                                       send("X", "s", 2), op("cut"), await_("X", "closed"), await_("Y", "closed"), await_("X", "down"),
                                       await_("Y", "down"), op("dial"), await_("X", "up"), await_("Y", "up"),
                                       op("settle", quiet=200, ms=3000), open_("Y"), await_("Y", "open")])
                # cut during the negotiation
                add("cut-negotiating", base, [policy("Y", "accept"), policy("X", "accept"), open_("X"), op("pump", ms=r + 1), op("cut"),
                                              op("pump", ms=300), op("dial"), await_("X", "up"), await_("Y", "up"), op("settle", quiet=200, ms=3000),
                                              open_("X"), await_("X", "answered")])
                # both close at once, immediate reopen with traffic in flight (Connection task vs protocol loop races)
                add("close-close-reopen", base, [policy("X", "accept"), policy("Y", "accept"), open_("X"), await_("X", "open"), await_("Y", "open"),
                                                 send("X", "s", 14), send("Y", "s", 14), close_("X"), close_("Y"), await_("Y", "closed", ms=3000),
                                                 open_("Y"), op("pump", ms=400), open_("X"), op("pump", ms=300)])
        # validation kept pending across a disconnect (PeerState::ValidationPending)
        for acc in ("accept", "reject"):
            add("validation-pending", cfg(0, perturb=1), [open_("X"), await_("Y", "asked"), op("cut"), await_("Y", "down"), op("dial"),
                                                          await_("X", "up"), await_("Y", "up"), open_("Y"), op("pump", ms=200), val("Y", acc),
                                                          op("pump", ms=200), policy("X", "accept"), policy("Y", "accept"),
                                                          op("settle", quiet=300, ms=3000), open_("Y"), await_("Y", "answered")])
        # a validation left unanswered across TWO cut / redial cycles (ValidationPending must follow the connection state),
    # with and without a late answer, then a third connection and opens from both sides
    def redial():
        return [op("cut"), await_("X", "down"), await_("Y", "down"), op("dial"), await_("X", "up"), await_("Y", "up"), op("pump", ms=60)]

    def third(answer):
        late = [val("Y", answer, wait=0), op("pump", ms=150)] if answer else []
        return ([op("cut"), await_("X", "down"), await_("Y", "down")] + late +
                [op("dial"), await_("X", "up"), await_("Y", "up"), op("settle", quiet=200, ms=2000), policy("X", "accept"), policy("Y", "accept"),
                 open_("X"), op("pump", ms=200), open_("Y"), await_("X", "answered", ms=4000), await_("Y", "answered", ms=4000), op("pump", ms=200)])
    for i, answer in enumerate(("accept", "reject", None, "accept") if tier == "quick" else ("accept", "reject", None) * 4):
        add("validation-pending-twice", cfg(0, perturb=i % 3, auto=(("X",) if i % 2 else ())),
            [open_("X"), await_("Y", "asked")] + redial() + third(answer), bys=(i == 0))
        # ... three cycles, the answer arrives while the third connection is up
        add("validation-pending-thrice", cfg(0, perturb=(i + 1) % 3),
            [open_("X"), await_("Y", "asked")] + redial() + redial() + ([val("Y", answer, wait=0)] if answer else []) + third(None))
    # variant: the remote's first attempt times out (10 s) while the user is still thinking, it opens a second substream
    # (ValidationPending with the connection up), then the connection drops and comes back
    for i, answer in enumerate(("accept", None) if tier == "quick" else ("accept", "reject", None, "accept")):
        add("second-inbound-while-validating", cfg(0, perturb=i % 3),
            [open_("X"), await_("Y", "asked"), await_("X", "answered", ms=15000), open_("X"), op("pump", ms=400)] + third(answer))
    # a dial that this protocol did not start (or started and saw overtaken by an inbound connection) fails while the peer is
    # connected: TransportManager broadcasts the DialFailure to every protocol, whatever state the peer is in there.
    # D dials a dead address of O (tar pit) while disconnected, O connects to D first, the dial fails ~2 s (quic 5 s) later.
    def fdf_prefix(d, o, known=False, block=False):
        return [op("cut", block=block), await_("X", "down"), await_("Y", "down"), op("dialdead", ep=d, to=o, known=known)]

    def fdf_connect(d, o):
        return [op("dialdirect", ep=o, to=d), await_("X", "up"), await_("Y", "up")]
    for i, (d, o) in enumerate((("X", "Y"), ("Y", "X")) * (1 if tier == "quick" else 3)):
        pert = i % 3
        # ... while D's outbound substream waits for O's validation
        add("dialfail-while-negotiating", cfg(0, perturb=pert),
            [policy(o, "manual"), policy(d, "accept")] + fdf_prefix(d, o) + fdf_connect(d, o) +
            [open_(d), await_(o, "asked"), await_(d, "dialfail", p=o, ms=6000), op("pump", ms=150), val(o, "accept"),
             await_(d, "answered", p=o), await_(o, "open", p=d, ms=3000), send(d, "s", 2), op("pump", ms=200)])
        # ... while the stream is open: it must stay open
        add("dialfail-while-open", cfg(0, perturb=pert, auto=((d,) if i % 2 else ())),
            [policy(o, "accept"), policy(d, "accept")] + fdf_prefix(d, o) + fdf_connect(d, o) +
            # (traffic keeps a QUIC connection alive: its idle timeout equals the time the dead dial needs to fail)
            [open_(d), await_(d, "open", p=o), await_(o, "open", p=d)] + [x for _ in range(7) for x in (send(d, "s", 1), send(o, "a", 1), op("pump", ms=800))] +
            [await_(d, "dialfail", p=o, ms=1000), op("pump", ms=400), send(d, "s", 2), send(o, "a", 2), op("pump", ms=300)], bys=(i == 0))
        # ... the dial was started by the notification protocol itself (open while disconnected, dialing enabled): the
        # working route is blocked, the dead address keeps the dial pending, O connects meanwhile
        add("own-dial-overtaken", cfg(0, perturb=pert, dial=True),
            [policy(o, "manual"), policy(d, "accept")] + fdf_prefix(d, o, known=True, block=True) + [open_(d), op("pump", ms=100)] +
            fdf_connect(d, o) + [await_(o, "asked", ms=4000), await_(d, "dialfail", p=o, ms=2500), op("pump", ms=150), val(o, "accept"),
                                 await_(d, "answered", p=o), op("pump", ms=200)])
        # ... while D holds an unanswered validation of a connection that is gone (ValidationPending), then a new connection
        add("dialfail-while-validation-pending", cfg(0, perturb=pert),
            [policy(d, "manual"), open_(o), await_(d, "asked"), op("cut"), await_("X", "down"), await_("Y", "down"),
             op("dialdead", ep=d, to=o), await_(d, "dialfail", p=o, ms=6000), op("pump", ms=100), op("dialdirect", ep=d, to=o),
             await_("X", "up"), await_("Y", "up"), op("settle", quiet=200, ms=2000), val(d, "accept", wait=0), policy("X", "accept"),
             policy("Y", "accept"), op("pump", ms=200), open_(o), await_(o, "answered", p=d), op("pump", ms=200)])
    # the local user's send races with the remote's close: the first thing the held Connection task of D notices is the
    # failed write on its outbound substream (not the end of the inbound one); the connection stays up; both users
    # see Closed; then D opens again (must be answered) / O opens first (must be served), then D
    nsr = 0
    for r2 in range(1 if tier == "quick" else 3):
        for (d, o) in (("X", "Y"), ("Y", "X")):
            for (m, sz, cnt) in (("s", "min", 2), ("a", "1k", 2), ("s", "40k", 3), ("a", "40k", 2)):
                nsr += 1
                mirror = nsr % 2 == 0
                # Over yamux (tcp / ws) a write to a stream the remote has closed and dropped is silently discarded (yamux 0.13
                # sends no reset for it), so there the end of the inbound substream is what the task sees; over QUIC the
                # remote's dropped receive half stops the stream and the write fails first.
                # (no cut in this family: a long QUIC idle timeout keeps the connection up while an answer is awaited)
                add("send-races-remote-close", dict(cfg(0, sync=16, asyn=8, mx=262144, perturb=nsr % 3), quic_idle=900),
                    [policy("X", "accept"), policy("Y", "accept"), open_(d), await_(d, "open", p=o), await_(o, "open", p=d),
                     send(d, "s", 1, "min"), op("pump", ms=100),
                     op("stall", ep=d, cls="conn", on=True), send(d, m, cnt, sz), close_(o), op("pump", ep=o, ms=150), op("pump", ms=50 + 50 * (nsr % 3)),
                     op("stall", ep=d, cls="conn", on=False), await_(d, "closed", p=o, ms=4000), await_(o, "closed", p=d, ms=4000),
                     op("settle", quiet=300, ms=3000)] +
                    ([open_(o), await_(o, "answered", p=d, ms=4000), op("pump", ms=200), close_(o), close_(d), op("settle", quiet=300, ms=3000)] if mirror else []) +
                    [open_(d), await_(d, "answered", p=o, ms=4000), await_(d, "open", p=o, ms=1500), send(d, "s", 1, "min"), op("pump", ms=200)])
    # an outbound substream fails to open while the connection stays up (one direction of the link is stalled, so the
    # opener's multistream negotiation times out; the peers have different substream open timeouts):
    # X opens (OutboundInitiated), Y opens too; Y's attempt times out first, X's read of its handshake fails ->
    # Closed{pending_open: Some(id)}; then X's own id fails; the link recovers; X opens again: must be answered.
    for i in range(2 if tier == "quick" else 6):
        add("outbound-fails-after-inbound-died", dict(cfg(0, perturb=i % 3), sot_x=4000, sot_y=1500),
            [policy("X", "accept"), policy("Y", "accept"), op("freeze", dir="fwd", on=True), open_("X"), op("pump", ms=100 + 50 * i), open_("Y"),
             await_("Y", "answered", ms=5000), await_("X", "answered", ms=5000), op("pump", ms=3300), op("freeze", dir="fwd", on=False),
             op("settle", quiet=300, ms=3000), open_("X"), await_("X", "answered", ms=4000), await_("X", "open", ms=2000), op("pump", ms=200)])
    # ... the other order (X has the shorter timeout): X's own id fails while Y's substream is still being read
    # (Validating with outbound OutboundInitiated): the failure is reported, the dead id is kept as pending_open
    # (recorded finding open-reuses-failed-pending-substream-id) and X's next open reuses it
    for i in range(2 if tier == "quick" else 4):
        add("outbound-fails-while-inbound-pending", dict(cfg(0, perturb=i % 3), sot_x=1500, sot_y=4000),
            [policy("X", "accept"), policy("Y", "accept"), op("freeze", dir="fwd", on=True), open_("X"), op("pump", ms=100 + 50 * i), open_("Y"),
             await_("X", "answered", ms=5000), await_("Y", "answered", ms=6000), op("pump", ms=300), op("freeze", dir="fwd", on=False),
             op("settle", quiet=300, ms=3000), open_("X"), await_("X", "answered", ms=4000), op("pump", ms=200)])
    # dialing on demand / dialing disabled
        add("dial-on-open", cfg(0, dial=True, perturb=1), [policy("X", "accept"), policy("Y", "accept"), op("cut"), await_("X", "down"), await_("Y", "down"),
                                                           open_("X"), await_("X", "open", ms=10000)])
        add("nodial-open", cfg(0, dial=False, perturb=1), [op("cut"), await_("X", "down"), await_("Y", "down"), open_("X"), await_("X", "answered"),
                                                           open_("Y"), await_("Y", "answered")])
        add("dial-refused", cfg(0, dial=True, perturb=1), [op("cut", block=True), await_("X", "down"), await_("Y", "down"), open_("X"),
                                                           await_("X", "answered", ms=10000)])
        # clogged synchronous channel: ForceClose, the open stream must be reported closed
        add("clog", cfg(0, sync=1, asyn=1, perturb=1), [policy("X", "accept"), policy("Y", "accept"), open_("X"), await_("X", "open"), await_("Y", "open"),
                                                        op("stall", ep="X", cls="conn", on=True), send("X", "s", 4), op("stall", ep="X", cls="conn", on=False),
                                                        await_("X", "closed"), await_("Y", "closed")], bys=True)
    # Connection task starved while both users close and one reopens at once (stream task vs protocol loop)
    for i in range(40 if tier == "quick" else 400):
        burst = [20, 60, 126, 127, 200, 400][i % 6]
        add("close-race", cfg(0, sync=2048, mx=1024, perturb=2),
            [policy("X", "accept"), policy("Y", "accept"), open_("X"), await_("X", "open"), await_("Y", "open"),
             op("stall", ep="X", cls="conn", on=True), send("X", "s", burst, "max"), close_("Y"), op("pump", ep="Y", ms=[5, 20, 60][i % 3]),
             op("stall", ep="X", cls="conn", on=False), close_("X"), await_("Y", "closed", ms=2000), open_("Y"), op("pump", ms=500),
             open_("X"), op("pump", ms=300)])
    # an answer to a validation request of a dead connection is applied to the next inbound substream
    for i in range(4 if tier == "quick" else 30):
        add("stale-validation", cfg(0, perturb=i % 3),
            [policy("Y", "accept"), open_("X"), open_("Y"), await_("X", "asked"), op("cut"), await_("X", "down"), await_("Y", "down"),
             op("dial"), await_("X", "up"), await_("Y", "up"), op("settle", quiet=200, ms=2000),
             op("stall", ep="X", cls="proto", on=True), open_("Y"), op("pump", ep="Y", ms=300), val("X", ("accept", "reject")[i % 4 == 3], wait=0),
             op("stall", ep="X", cls="proto", on=False), op("pump", ms=600)])
    # the remote ends the stream; the per-stream Connection task tells the protocol (shutdown notice) and then the user
    # (Closed); the user re-opens at once while the protocol loop has not run in between (its task class is held): the
    # loop then finds the notice and the open command together and must take the notice first (seeded C11g: the notice
    # arm demoted below the command arm of the biased select - the open meets a stale Open state and is dropped)
    for i in range(4 if tier == "quick" else 24):
        d, o = ("X", "Y") if i % 2 == 0 else ("Y", "X")
        add("reopen-at-once-after-remote-close", cfg(0, perturb=i % 3),
            [policy("X", "accept"), policy("Y", "accept"), open_(d), await_("X", "open"), await_("Y", "open"), op("settle", quiet=150, ms=1500),
             op("stall", ep=d, cls="proto", on=True), close_(o), await_(d, "closed", p=o, ms=4000), open_(d),
             op("stall", ep=d, cls="proto", on=False), op("pump", ms=800)])
    # the remote answers Accept after the opener's 10 s timeout; the opener retries while the leftover substream of that
    # late accept is being read: the retry is silently dropped
    nlate = 4 if tier == "quick" else 24
    if os.environ.get("VERIF_NOTIF_REPEAT", "").startswith("late-accept-retry="):
        nlate = int(os.environ["VERIF_NOTIF_REPEAT"].split("=")[1])
    for i in range(nlate):
        k = i % 8
        add("late-accept-retry", cfg(0, perturb=i % 3, tq_ms=30000),
            [open_("X"), await_("Y", "asked"), await_("X", "answered", ms=15000), op("pump", ms=100), val("Y", "accept", wait=0)] +
            ([op("pump", ms=k)] if k else []) + [open_("X"), op("pump", ms=500)])
    # scenarios that wait for litep2p's compile-time timers (10 s negotiation): few in quick
    nslow = 2 if tier == "quick" else 10
    for i in range(nslow):
        auto = ((), ("X",), ("X", "Y"))[i % 3]
        # remote never answers the validation: the opener gets an open failure after 10 s
        add("ignored-validation", cfg(0, auto=auto, perturb=i % 3), [open_("X"), await_("Y", "asked"), op("pump", ms=300)], bys=(i % 2 == 0))
        # both sides open, one never answers
        add("simul-ignored", cfg(0, auto=auto, perturb=i % 3), [policy("X", "accept"), open_("X"), open_("Y"), op("pump", ms=300)])
    return out


# ----------------------------------------------------------------------------- random driver

def random_script(rng, idx, seed):
    auto = [e for e in EPS if rng.random() < 0.35]
    c = cfg(seed * 100000 + idx, auto=auto, dial=rng.random() < 0.4, sync=rng.choice([1, 2, 16]), asyn=rng.choice([1, 2, 8]),
            mx=rng.choice([64, 256, 1024]), perturb=rng.choice([0, 1, 2, 2]), bystander=rng.random() < 0.3)
    steps = []
    pols = ["accept", "accept", "accept", "manual", "reject"]
    # profile "churn" (1 in 5): one side never answers validations on its own, the link is cut and redialled repeatedly
    churn = rng.random() < 0.2
    if churn:
        lazy = rng.choice(EPS)
        steps += [policy(lazy, "manual"), policy(other(lazy), rng.choice(["accept", "manual"])), open_(other(lazy)),
                  await_(lazy, "asked", ms=1500)]
    else:
        for e in EPS:
            steps.append(policy(e, rng.choice(pols)))
    cutdone = False
    for _ in range(rng.randint(6, 26)):
        r = rng.random()
        e = rng.choice(EPS)
        if churn and r < 0.45:
            q = rng.random()
            if q < 0.55:
                steps += [op("cut"), await_("X", "down", ms=3000), await_("Y", "down", ms=3000), op("pump", ms=rng.choice([0, 30, 200])),
                          op("dial"), await_("X", "up", ms=4000), await_("Y", "up", ms=4000), op("pump", ms=rng.choice([20, 100]))]
            elif q < 0.7:
                steps.append(val(lazy, rng.choice(["accept", "accept", "reject"]), wait=0))
            elif q < 0.85:
                steps.append(open_(rng.choice(EPS)))
            else:
                steps.append(op("pump", ms=rng.choice([20, 150])))
        elif r < 0.22:
            steps.append(open_(e))
            if rng.random() < 0.3:
                steps.append(open_(other(e)))
        elif r < 0.34:
            steps.append(close_(e))
            if rng.random() < 0.3:
                steps.append(close_(other(e)))
        elif r < 0.44:
            steps.append(val(e, rng.choice(["accept", "accept", "reject"]), wait=rng.choice([0, 50, 500])))
        elif r < 0.58:
            steps.append(send(e, rng.choice(["s", "a"]), rng.choice([1, 2, 5, 20]), rng.choice(["min", "min", "mid", "max", "tiny", "zero"])))
        elif r < 0.70:
            steps.append(op("pump", ms=rng.choice([1, 5, 20, 60, 200])))
        elif r < 0.76:
            steps.append(op("pump", ep=e, ms=rng.choice([5, 30, 100])))
        elif r < 0.82:
            steps.append(await_(e, rng.choice(["open", "closed", "answered", "asked"]), ms=rng.choice([300, 1500])))
        elif r < 0.86:
            steps.append(policy(e, rng.choice(pols)))
        elif r < 0.90:
            steps.append(op("settle", quiet=200, ms=2000))
        elif r < 0.95:
            if not cutdone or rng.random() < 0.3:
                steps.append(op("cut"))
                cutdone = True
                q = rng.random()
                if q < 0.2:
                    d = rng.choice(EPS)
                    steps += [await_("X", "down", ms=3000), await_("Y", "down", ms=3000), op("dialdead", ep=d, to=other(d)),
                              op("pump", ms=rng.choice([0, 50])), op("dialdirect", ep=other(d), to=d), await_("X", "up", ms=4000), await_("Y", "up", ms=4000)]
                elif q < 0.75:
                    steps += [op("pump", ms=rng.choice([0, 50, 400])), op("dial"), await_("X", "up", ms=4000), await_("Y", "up", ms=4000)]
        else:
            steps.append(send(e, "s", 3, "over" if rng.random() < 0.5 else "max"))
    if churn:
        steps += [op("settle", quiet=200, ms=2000), policy("X", "accept"), policy("Y", "accept"), open_("X"), op("pump", ms=200), open_("Y"),
                  op("pump", ms=400)]
    if c["bystander"]:
        steps += serve_check()
    steps.append(op("quiesce"))
    return {"id": "rnd-%d" % idx, "cfg": c, "steps": steps}


# ----------------------------------------------------------------------------- TLC behaviours -> scripts

def behaviour_key(b):
    return tuple((s["a"], s.get("e"), s.get("v")) for s in b if s["a"] != "pull")


def script_from_behaviour(b, idx, seed, consts, paced):
    steps = []
    for s in b:
        a, e = s["a"], s.get("e")
        if a == "open":
            steps.append(open_(e))
        elif a == "close":
            # the model's user closes only when its handle shows the stream
            steps += [await_(e, "open", ms=3000), close_(e)]
        elif a == "val":
            steps.append(val(e, s["v"], wait=3000))
        elif a == "cut":
            steps.append(op("cut"))
        elif a == "reconnect":
            steps += [op("dial"), await_("X", "up", ms=4000), await_("Y", "up", ms=4000)]
        elif a == "pull":
            if paced:
                steps.append(op("pump", ms=15))
            continue
        elif a == "stall":
            continue
        if paced:
            steps.append(op("pump", ms=40))
    if any(s["a"] == "reconnect" for s in b):
        # does the protocol still serve the peer on the latest connection?
        steps += [op("settle", quiet=200, ms=2000), open_("X"), op("pump", ms=200), open_("Y"), op("pump", ms=400)]
    steps.append(op("quiesce"))
    c = cfg(seed * 100000 + 50000 + idx, auto=sorted(consts.get("AutoSet", [])), dial=consts.get("Dial", False),
            perturb=(idx % 3), tq_ms=60000)
    return {"id": "tlc-%d-%s" % (idx, "p" if paced else "e"), "cfg": c, "steps": steps}


# ----------------------------------------------------------------------------- model checking

TAGS = {"stale-shutdown-notice", "panic-after-stale-shutdown-notice", "report-overtakes-closed", "stale-validation-result",
        "ignored-open-never-answered", "failed-open-id-kept-pending"}
MC_LINES = ["SPECIFICATION Spec", "INVARIANTS MonOK NoUnknownPanic QuiesceOK", "CHECK_DEADLOCK FALSE"]


# recorded finding (signature in known_findings.txt) -> tag of the defect in NotifMC; a tag whose finding line is gone
# (turned into `fixed:`) is modelled as repaired and is no longer tolerated
SIG_TAG = {"open-ignored-during-leftover-substream-of-late-accept": "ignored-open-never-answered",
           "open-reuses-failed-pending-substream-id": "failed-open-id-kept-pending"}


def fixed_tags():
    known = load_known("C11")
    return {tag for sig, tag in SIG_TAG.items() if sig not in known}


def mc_consts(auto=(), dial=False, mo=1, mcl=1, cut=0, rec=0, fail=0, sub=4, stall=0, tags=None, moy=None, mut="none", fixed=None, early=False, fdf=0):
    fixed = fixed_tags() if fixed is None else set(fixed)
    tags = (TAGS if tags is None else set(tags)) - fixed
    return {"AutoSet": set(auto), "Dial": dial, "MaxOpen": mo, "MaxOpenY": mo if moy is None else moy, "MaxClose": mcl, "MaxCut": cut, "MaxRec": rec, "MaxFail": fail,
            "MaxSub": sub, "MaxStall": stall, "MaxFDF": fdf, "KnownTags": set(tags), "Mut": mut, "Fixed": fixed, "EarlyVal": early}


def split_endpoints(lines):
    """segments per endpoint log (each starts with its reset line)"""
    return split_segments(lines, lambda ln: '"e":"reset"' in ln)


def run_scripts_env(ctx, scripts, tag, env, threads=64, timeout=3000):
    p = ctx.path("scripts_%s.jsonl" % tag)
    write_jsonl(p, scripts)
    out = ctx.path("trace_%s.ndjson" % tag)
    summ, _ = harness(ctx, "notif", ["--scripts", p, "--out", out, "--threads", threads], timeout=timeout, env=env)
    return summ, read_lines(out)


def run_scripts(ctx, scripts, tag, threads=64, timeout=3000):
    return run_scripts_env(ctx, scripts, tag, {}, threads=threads, timeout=timeout)


# ----------------------------------------------------------------------------- C12: per-direction traces

HDR = 12


def direction_traces(lines):
    """Build one C12 trace segment per (scenario, sender, receiver) from the endpoint logs.
    Returns (segment_lines, info) where info counts sends / deliveries."""
    segs = split_endpoints(lines)
    by_sc = {}
    for s in segs:
        h = json.loads(s[0])
        by_sc.setdefault(h["sc"], {})[h["ep"]] = (h, [json.loads(x) for x in s[1:]])
    out, nsend, ndlv, ndir = [], 0, 0, 0
    for sc, eps in by_sc.items():
        for a in eps:
            for b in eps:
                if a == b or {a, b} == {"Y", "Z"}:
                    continue
                ha, la = eps[a]
                hb, lb = eps[b]
                tr = [{"e": "reset", "sc": sc, "from": a, "to": b, "sync": ha["sync"], "async": ha["async"], "max": ha["max"],
                       "tr": ha.get("tr", "tcp")}]
                a_open, b_open, na_open, nb_open, sends, dl = False, False, 0, 0, 0, 0
                for d in la:
                    if d.get("p") != b:
                        continue
                    if d["e"] == "ev" and d["k"] == "opened":
                        tr.append({"e": "po", "per": d["per"]})
                        a_open, na_open = True, na_open + 1
                    elif d["e"] == "ev" and d["k"] == "closed":
                        tr.append({"e": "pe"})
                        a_open = False
                    elif d["e"] == "send" and d["r"] != "nostream":
                        tr.append({"e": "s", "m": d["m"], "per": d["per"], "n": d["n"], "len": d["len"], "r": d["r"], "w": d.get("w", 0),
                                   "idn": d["len"] >= HDR, "hg": d.get("hg", 0)})
                        sends += 1
                for d in lb:
                    if d.get("p") != a:
                        continue
                    if d["e"] == "ev" and d["k"] == "opened":
                        tr.append({"e": "ro"})
                        b_open, nb_open = True, nb_open + 1
                    elif d["e"] == "ev" and d["k"] == "closed":
                        tr.append({"e": "rc"})
                        b_open = False
                    elif d["e"] == "ev" and d["k"] == "recv":
                        idn = d["len"] >= HDR
                        tr.append({"e": "d", "m": d["m"] if d["m"] in ("s", "a") else "s", "per": d["per"], "n": d["n"], "len": d["len"],
                                   "ok": bool(d["ok"]) and (d["m"] in ("s", "a") or not idn), "idn": idn})
                        dl += 1
                if sends == 0 and dl == 0:
                    continue
                qa = [d for d in la if d["e"] == "quiesce"]
                qb = [d for d in lb if d["e"] == "quiesce"]
                calm = bool(qa and qb and qa[-1]["stable"] and qb[-1]["stable"]) and not any(d["e"] == "panic" for d in la + lb)
                tr.append({"e": "end", "open": bool(calm and a_open and b_open and na_open == nb_open)})
                out += [json.dumps(x, separators=(",", ":")) for x in tr]
                nsend += sends
                ndlv += dl
                ndir += 1
    return out, {"directions": ndir, "sends": nsend, "deliveries": ndlv}


def stream_families(seed, tier):
    """data-plane scenarios: bursts beyond the channel capacities, reader stalls, size classes, close / reopen"""
    out = []
    n = 0

    def add(name, c, steps):
        nonlocal n
        n += 1
        c = dict(c)
        c["seed"] = seed * 1000 + 500 + n
        out.append({"id": "sfam-%s-%d" % (name, n), "cfg": c, "steps": steps + [op("quiesce")]})

    opened = [policy("X", "accept"), policy("Y", "accept"), open_("X"), await_("X", "open"), await_("Y", "open")]
    reps = 1 if tier == "quick" else 3
    for r in range(reps):
        for (sy, asy) in ((1, 1), (2, 2), (16, 8)):
            for pert in (0, 1, 2):
                base = cfg(0, sync=sy, asyn=asy, mx=(64, 256, 1024)[pert], perturb=pert)
                # bursts 4x capacity in both modes and both directions, all size classes, reader drained
                add("burst", base, opened + [send("X", "s", 4 * sy, "min"), send("X", "a", 4 * asy, "max"), send("Y", "a", 4 * asy, "mid"),
                                             send("Y", "s", 4 * sy, "max"), op("pump", ms=200), send("X", "s", 2, "tiny"), send("X", "a", 2, "zero"),
                                             send("X", "a", 3, "min"), op("pump", ms=200)])
                # reader stall: only the sender is pumped, then the reader catches up
                add("stall", base, opened + [send("X", "a", 3 * asy + 2, "max"), op("pump", ep="X", ms=150), send("X", "s", sy, "min"),
                                             op("pump", ep="X", ms=100), op("pump", ms=300), send("X", "a", 2, "min"), op("pump", ms=100)])
                # oversize: never delivered, ends the stream; reopen works
                add("oversize", base, opened + [send("X", "a", 2, "max"), send("X", "a", 1, "over"), send("X", "a", 2, "min"), op("pump", ms=300),
                                                await_("X", "closed", ms=3000), await_("Y", "closed", ms=3000), op("settle", quiet=200, ms=2000),
                                                open_("Y"), await_("Y", "open"), await_("X", "open"), send("X", "s", 1, "max"), op("pump", ms=100)])
                # close while notifications are in flight, reopen, send again (fresh sequence numbers)
                add("close-reopen", base, opened + [send("X", "a", 2 * asy, "mid"), send("Y", "s", sy, "min"), close_("X"), await_("X", "closed"),
                                                    await_("Y", "closed"), op("settle", quiet=200, ms=2000), open_("Y"), await_("Y", "open"),
                                                    await_("X", "open"), send("X", "a", 3, "min"), send("Y", "a", 3, "max"), op("pump", ms=200)])
                # connection cut under traffic
                add("cut-traffic", base, opened + [send("X", "a", asy, "max"), send("Y", "a", asy, "max"), op("cut"), send("X", "s", 2, "min"),
                                                   await_("X", "closed"), await_("Y", "closed")])
    # capacity waits: the sender's Connection task is starved, so the channels fill: the asynchronous send must wait (and
    # complete after the task runs again), the synchronous one accepts exactly its capacity; nothing lost or reordered
    for i in range(3 if tier == "quick" else 12):
        sy, asy = ((4, 1), (8, 2), (16, 8))[i % 3]
        add("capacity-wait", cfg(0, sync=sy, asyn=asy, mx=256, perturb=i % 3),
            opened + [op("stall", ep="X", cls="conn", on=True), send("X", "a", asy + 3, "max"), send("X", "s", sy, "min"), op("pump", ms=400),
                      op("stall", ep="X", cls="conn", on=False), op("pump", ms=500), send("X", "a", 2, "min"), op("pump", ms=200)])
    # held overflow (seeded C12g): the sender's Connection tasks are held, so nothing leaves the synchronous channel: it
    # accepts its capacity, every further synchronous send must report the clog - also the second, third ... one
    for i in range(3 if tier == "quick" else 12):
        sy, asy = ((4, 1), (1, 1), (16, 8))[i % 3]
        d = ("X", "Y")[i % 2]
        add("held-overflow", cfg(0, sync=sy, asyn=asy, mx=256, perturb=i % 3),
            opened + [op("stall", ep=d, cls="conn", on=True), send(d, "s", sy + 4, "min"), op("stall", ep=d, cls="conn", on=False),
                      op("pump", ms=600)])
    # transport frozen (the proxy stops forwarding) under a large burst, reader stalled, then everything flows again
    for i in range(1 if tier == "quick" else 4):
        add("frozen-transport", cfg(0, sync=16, asyn=8, mx=32768, perturb=i % 3),
            opened + [op("freeze", on=True), send("X", "a", 300, "max"), send("Y", "a", 100, "mid"), op("pump", ep="X", ms=1500),
                      send("X", "s", 10, "min"), op("freeze", on=False), op("pump", ep="X", ms=500), op("pump", ms=3000),
                      send("X", "a", 3, "min"), op("pump", ms=300)])
    # the receiver's user does not poll while > 4096 notifications (capacity of the handle's channel) arrive
    for i in range(1 if tier == "quick" else 3):
        add("reader-stall-4096", cfg(0, sync=16, asyn=8, mx=64, perturb=i % 3),
            opened + [send("X", "a", 4400, "max"), op("pump", ep="X", ms=2500), send("X", "s", 10, "min"), op("pump", ep="X", ms=200),
                      op("pump", ms=3000), send("X", "a", 3, "min"), op("pump", ms=300)])
    # empty notifications (length 0; also 1 byte): alone, between others, in bursts, sync / async, both directions.  They
    # carry no identity: the ledger counts them per length and requires those accepted before a delivered notification of
    # the same mode and period to have been handed over before it, and all of them in a stream that stays open.
    for i in range(4 if tier == "quick" else 12):
        d, o = ("X", "Y") if i % 2 == 0 else ("Y", "X")
        m1, m2 = (("s", "a"), ("a", "s"), ("s", "s"), ("a", "a"))[i % 4]
        add("empty", cfg(0, sync=16, asyn=8, mx=(64, 1024, 262144)[i % 3], perturb=i % 3),
            opened + [send(d, m1, 1, "zero"), op("pump", ms=150), send(d, m1, 1, "min"), send(d, m1, 1, "zero"), send(d, m1, 2, "min"),
                      op("pump", ms=150), send(d, m2, 4, "zero"), send(d, m2, 1, "max"), op("pump", ms=150),
                      op("stall", ep=d, cls="conn", on=True), send(d, m1, 3, "zero"), send(d, m2, 2, "zero"), send(d, m1, 1, "mid"),
                      send(d, m2, 1, "tiny"), send(d, m2, 1, "min"), op("stall", ep=d, cls="conn", on=False), op("pump", ms=300),
                      send(o, m1, 2, "zero"), send(o, m1, 1, "min"), send(o, m2, 1, "zero"), op("pump", ms=300)])
    # size x burst: notifications larger than one write of the transport accepts (yamux splits at 16 KiB, quinn at its own
    # chunk size), several of them queued before the sender's Connection task runs (the task class is held, the burst is
    # queued, the task is released), sync / async / interleaved, both directions; every delivered byte is checked
    BIG = ["40k", "40k", "40k", "40k", "16k-1", "16k", "16k+1", "1k", "100k", "min", "max", "40k", "100k", "16k+1", "max", "1k"]
    nb = 0
    for r2 in range(1 if tier == "quick" else 3):
        for mx in (262144, 1048576):
            for k, burst in enumerate((4, 2, 8, 6)):
                nb += 1
                sizes = [BIG[(nb * 3 + j) % len(BIG)] for j in range(burst)] if k else ["40k"] * 4
                d, o = ("X", "Y") if nb % 2 else ("Y", "X")

                def held(sends, who=d):
                    return [op("stall", ep=who, cls="conn", on=True)] + sends + [op("stall", ep=who, cls="conn", on=False), op("pump", ms=500)]
                sync_burst = held([send(d, "s", 1, z) for z in sizes])
                async_burst = held([send(d, "a", 1, z) for z in sizes[:8]])
                mixed = held([send(d, ("s", "a")[j % 2], 1, z) for j, z in enumerate(sizes)])
                back = held([send(o, "s", 1, z) for z in sizes[:4]], who=o)
                # every second scenario over a slow link (8 KiB per 2 ms): the receiver gets the stream piecemeal, what it is
                # handed is read by its user before the rest (and a possible framing error) arrives
                slow = [op("throttle", bytes=8192)] if nb % 2 == 0 else []
                add("size-burst", cfg(0, sync=16, asyn=8, mx=mx, perturb=nb % 3),
                    opened + slow + sync_burst + [op("pump", ms=300)] + async_burst + mixed + back + [op("throttle", bytes=0)] +
                    [send(d, "s", 2, "min"), send(o, "a", 2, "1k"), op("pump", ms=300)])
    # notifications of a closed stream left in the handle while the stream is reopened (receiver initiates, auto-accept)
    for i in range(2 if tier == "quick" else 8):
        add("stale-reopen", cfg(0, auto=("Y",), sync=2048, asyn=8, mx=64, perturb=i % 3),
            opened + [send("X", "s", 200 + 100 * (i % 3)), op("pump", ep="X", ms=400), close_("X"), op("pump", ep="X", ms=400),
                      op("pull", ep="Y", n=1), op("pull", ep="Y", n=1), open_("Y"), op("pump", ep="X", ms=600), op("pump", ms=300)])
    return out


def stream_random_script(rng, idx, seed):
    sy, asy = rng.choice([(1, 1), (2, 1), (1, 2), (2, 2), (16, 8)])
    large = rng.random() < 0.35
    if large:
        sy, asy = 16, 8
    c = cfg(seed * 100000 + 70000 + idx, auto=[e for e in EPS if rng.random() < 0.5], sync=sy, asyn=asy,
            mx=rng.choice([262144, 1048576]) if large else rng.choice([64, 256, 1024]), perturb=rng.choice([0, 1, 2]))
    bigs = ["1k", "16k-1", "16k", "16k+1", "40k", "100k", "max", "min"]
    steps = [policy("X", "accept"), policy("Y", "accept"), open_(rng.choice(EPS)), await_("X", "open"), await_("Y", "open")]
    for _ in range(rng.randint(5, 22)):
        r = rng.random()
        e = rng.choice(EPS)
        if large and r < 0.5:
            # a burst queued while the sender's Connection task is held
            n = rng.randint(2, 8)
            mode = rng.choice(["s", "a", "mix"])
            steps += ([op("stall", ep=e, cls="conn", on=True)] +
                      [send(e, (mode if mode != "mix" else rng.choice(["s", "a"])), 1, rng.choice(bigs)) for _ in range(n)] +
                      [op("stall", ep=e, cls="conn", on=False), op("pump", ms=rng.choice([50, 300]))])
        elif r < 0.5:
            steps.append(send(e, rng.choice(["s", "a"]), rng.choice([1, 2, 4 * sy, 4 * asy, 9]), rng.choice(["min", "mid", "max", "max", "tiny", "zero"])))
        elif r < 0.53:
            steps.append(send(e, rng.choice(["s", "a"]), 1, "over"))
        elif r < 0.68:
            steps.append(op("pump", ep=e, ms=rng.choice([5, 30, 120])))
        elif r < 0.82:
            steps.append(op("pump", ms=rng.choice([5, 30, 120])))
        elif r < 0.88:
            steps += [close_(e), await_("X", "closed", ms=2000), await_("Y", "closed", ms=2000)]
            if rng.random() < 0.8:
                steps += [open_(rng.choice(EPS)), await_("X", "open", ms=3000), await_("Y", "open", ms=3000)]
        elif r < 0.91:
            steps += [op("cut"), op("pump", ms=100), op("dial"), await_("X", "up", ms=4000), await_("Y", "up", ms=4000),
                      open_(rng.choice(EPS)), await_("X", "open", ms=3000), await_("Y", "open", ms=3000)]
        else:
            steps.append(op("pull", ep=e, n=rng.choice([1, 2, 8])))
    steps.append(op("quiesce"))
    return {"id": "srnd-%d" % idx, "cfg": c, "steps": steps}


def script_from_stream_behaviour(b, idx, seed, consts):
    """NotifStreamMC behaviour (X = sender, Y = receiver) -> scenario"""
    steps = [policy("X", "accept"), policy("Y", "accept"), open_("X"), await_("X", "open"), await_("Y", "open")]
    for s in b:
        a = s["a"]
        if a in ("ssend", "asend"):
            steps.append(send("X", "s" if a == "ssend" else "a", 1, {"over": "over", "big": ("40k", "16k+1", "100k")[idx % 3]}.get(s["sz"], "max" if idx % 2 else "min")))
        elif a == "recv":
            steps += [op("pump", ep="X", ms=10), op("pull", ep="Y", n=1)]
        elif a == "sclose":
            steps.append(close_("X"))
        elif a == "rclose":
            steps.append(close_("Y"))
        elif a == "reopen":
            steps += [await_("X", "closed", ms=2000), await_("Y", "closed", ms=2000), open_("Y" if idx % 3 == 0 else "X"),
                      await_("X", "open", ms=3000), await_("Y", "open", ms=3000)]
    steps.append(op("quiesce"))
    c = cfg(seed * 100000 + 90000 + idx, auto=("X", "Y") if idx % 2 else (), sync=consts["S"], asyn=consts["A"],
            mx=262144 if "big" in consts.get("Sizes", ()) else 64, perturb=idx % 3)
    return {"id": "stlc-%d" % idx, "cfg": c, "steps": steps}


def save_known_repros(ctx, violations):
    """keep one reproduction (scenario script + rejected log) per known signature under replays/"""
    known = load_known(ctx.pid)
    done = set()
    for v in violations:
        sig = v["sig"]
        if sig in known and sig not in done and v["replay_obj"].get("script"):
            done.add(sig)
            p = os.path.join(REPLAYS, "%s_known_%s.json" % (ctx.pid, sig))
            if not os.path.exists(p):
                save_replay(ctx, "known_%s" % sig, v["replay_obj"])


# ----------------------------------------------------------------------------- transport dimension

TRANSPORTS = ("tcp", "ws", "quic")
# families that need a byte-stream proxy (stalling a link without losing bytes): not run over QUIC
NOT_ON_QUIC = ("sfam-frozen-transport", "fam-outbound-fails-after")


def family_of(script):
    return script["id"].rsplit("-", 1)[0]


def with_transport(script, tr):
    """copy of a scenario for another transport (ws: TCP proxy as for tcp; quic: UDP relay, black-hole cuts,
    quinn idle timeout 5 s, so deadlines and the quiescence bound are scaled)"""
    s = json.loads(json.dumps(script))
    s["id"] = "%s@%s" % (s["id"], tr)
    s["cfg"]["transport"] = tr
    if tr == "quic":
        s["cfg"]["tq_ms"] = max(s["cfg"].get("tq_ms", 60000), 70000)
    return s


def on_transport(scripts, tr, per_family=None):
    """all scenarios (or `per_family` of every family) for transport tr; returns (scripts, skipped family names)"""
    out, seen, skipped = [], {}, set()
    for sc in scripts:
        fam = family_of(sc)
        if tr == "quic" and fam.startswith(NOT_ON_QUIC):
            skipped.add(fam)
            continue
        seen[fam] = seen.get(fam, 0) + 1
        if per_family is not None and seen[fam] > per_family:
            continue
        out.append(with_transport(sc, tr) if tr != "tcp" else sc)
    return out, sorted(skipped)


def transport_of(reset_line):
    return json.loads(reset_line).get("tr", "tcp")


def transport_plan(ctx, fams, tlc_scripts, rand_fn, nrand):
    """tcp: everything as before; ws / quic: quick = a sample of every family (2 instances), a few TLC scenarios and
    random ones; thorough = every family and TLC scenario and a third of the random volume each.
    Returns (scripts, {transport: [families not run there]})."""
    scripts = list(fams) + list(tlc_scripts) + [rand_fn(i) for i in range(nrand)]
    skipped = {}
    for k, tr in enumerate(("ws", "quic")):
        if ctx.quick():
            f, sk = on_transport(fams, tr, per_family=2)
            extra = tlc_scripts[k::2][:8] + [rand_fn(nrand + 100 * (k + 1) + i) for i in range(12)]
        else:
            f, sk = on_transport(fams, tr)
            extra = list(tlc_scripts) + [rand_fn(nrand + 100000 * (k + 1) + i) for i in range(nrand // 3)]
        scripts += f + [with_transport(x, tr) for x in extra]
        skipped[tr] = sk
    return scripts, skipped


def run_batches(ctx, scripts, tag, build_s):
    lines, summs = [], []
    batch = 700 if ctx.quick() else 500
    for b in range(0, len(scripts), batch):
        summ, ls = run_scripts(ctx, scripts[b:b + batch], "%s%d" % (tag, b), threads=170 if ctx.quick() else 125)
        summs.append(summ)
        lines += ls
        log("HARNESS batch %d: %s (build %ss)" % (b // batch, summ, build_s))
    if sum(s["harness_panics"] for s in summs) or sum(s["connect_failed"] for s in summs) > len(scripts) // 10:
        raise ToolError("harness trouble: %s" % summs)
    return lines, summs


def discarded_runs(ctx, lines):
    """scenarios whose driver was starved (> 1.5 s): not judged at quiescence; listed with the worst lateness"""
    out, h = {}, {}
    for ln in lines:
        if '"e":"reset"' in ln:
            h = json.loads(ln)
        elif '"e":"quiesce"' in ln and '"stable":false' in ln:
            d = json.loads(ln)
            out[h.get("sc")] = max(out.get(h.get("sc"), 0), d.get("late", 0))
    res = [{"scenario": k, "late_ms": v, "transport": getattr(ctx, "scripts_by_id", {}).get(k, {}).get("cfg", {}).get("transport", "tcp")}
           for k, v in sorted(out.items(), key=lambda kv: -kv[1])]
    if res:
        worst = res[0]
        ctx.notes.append("%d scenario(s) discarded (driver starved, not judged at quiescence); worst: %s %d ms" % (len(res), worst["scenario"], worst["late_ms"]))
        if worst["late_ms"] > 20000:
            save_replay(ctx, "discarded_%s" % re.sub(r"[^A-Za-z0-9]", "_", str(worst["scenario"])),
                        {"property": ctx.pid, "note": "run discarded: scenario driver starved for %d ms" % worst["late_ms"],
                         "script": getattr(ctx, "scripts_by_id", {}).get(worst["scenario"])})
    return res[:20]
