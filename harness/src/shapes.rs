//! Multiaddress shape grammar shared by the C05 and C10 drivers: every abstract shape class of
//! `spec/AddrBook.tla` can be concretised with seeded random instances.
use litep2p::PeerId;
use multiaddr::{Multiaddr, Protocol};
use rand::{rngs::StdRng, Rng};

pub const FIRSTS: [&str; 11] = ["ip4", "ip4_unspec", "ip4_loop", "ip6", "ip6_unspec", "ip6_loop", "dns", "dns4", "dns6", "other", "empty"];
pub const SECONDS: [&str; 4] = ["tcp", "udp", "none", "other"];
pub const TAILS: [&str; 11] = ["none", "own", "foreign", "localnode", "ws", "ws_own", "own_own", "own_foreign", "foreign_own", "own_extra", "extra"];
pub const LOCALS: [&str; 5] = ["no", "exact", "sameport_ip", "unspec_listener_loopback", "loopback_loopback"];

pub fn listen_addrs() -> Vec<Multiaddr> {
    vec!["/ip4/192.168.77.1/tcp/7777".parse().unwrap(), "/ip4/0.0.0.0/tcp/7778".parse().unwrap(), "/ip6/::1/tcp/7779".parse().unwrap()]
}

/// Concretise a shape. Returns None when the combination cannot be built (e.g. a local address
/// with a dns name).
pub fn concretise(first: &str, second: &str, tail: &str, local: &str, own: PeerId, foreign: PeerId, node: PeerId, rng: &mut StdRng) -> Option<Multiaddr> {
    let mut a = Multiaddr::empty();
    let mut port: u16 = rng.gen_range(1025..60000);
    let v4 = |r: &mut StdRng| std::net::Ipv4Addr::new([8, 10, 100, 172, 192][r.gen_range(0..5)], r.gen(), r.gen(), r.gen_range(1..255));
    let v6 = |r: &mut StdRng| std::net::Ipv6Addr::new(0x2001, 0xdb8, r.gen(), r.gen(), 0, 0, r.gen(), r.gen_range(1..0xffff));
    let mut firstp: Option<Protocol> = match first {
        "ip4" => Some(Protocol::Ip4(v4(rng))),
        "ip4_unspec" => Some(Protocol::Ip4(std::net::Ipv4Addr::UNSPECIFIED)),
        "ip4_loop" => Some(Protocol::Ip4(std::net::Ipv4Addr::new(127, 0, 0, rng.gen_range(1..3)))),
        "ip6" => Some(Protocol::Ip6(v6(rng))),
        "ip6_unspec" => Some(Protocol::Ip6(std::net::Ipv6Addr::UNSPECIFIED)),
        "ip6_loop" => Some(Protocol::Ip6(std::net::Ipv6Addr::LOCALHOST)),
        "dns" => Some(Protocol::Dns(format!("host{}.example.org", rng.gen_range(0..100)).into())),
        "dns4" => Some(Protocol::Dns4(format!("v4-{}.example.org", rng.gen_range(0..100)).into())),
        "dns6" => Some(Protocol::Dns6(format!("v6-{}.example.org", rng.gen_range(0..100)).into())),
        "other" => Some([Protocol::Memory(rng.gen()), Protocol::Udp(rng.gen()), Protocol::Tcp(rng.gen())][rng.gen_range(0..3)].clone()),
        "empty" => None,
        _ => unreachable!(),
    };
    // locality overrides ip/port where it makes sense
    match local {
        "no" => {}
        "exact" | "sameport_ip" => {
            if first != "ip4" || second != "tcp" {
                return None;
            }
            firstp = Some(Protocol::Ip4(std::net::Ipv4Addr::new(192, 168, 77, 1)));
            port = 7777;
        }
        "unspec_listener_loopback" => {
            if first != "ip4_loop" || second != "tcp" {
                return None;
            }
            firstp = Some(Protocol::Ip4(std::net::Ipv4Addr::new(127, 0, 0, 1)));
            port = 7778;
        }
        "loopback_loopback" => {
            if first != "ip4_loop" || second != "tcp" {
                return None;
            }
            firstp = Some(Protocol::Ip4(std::net::Ipv4Addr::new(127, 0, 0, 1)));
            port = 7779;
        }
        _ => unreachable!(),
    }
    if first == "empty" && (second != "none" || local != "no") {
        return None;
    }
    if let Some(p) = firstp {
        a.push(p);
    }
    match second {
        "tcp" => a.push(Protocol::Tcp(port)),
        "udp" => a.push(Protocol::Udp(port)),
        "none" => {}
        "other" => a.push([Protocol::Ws("/".into()), Protocol::QuicV1, Protocol::Memory(7)][rng.gen_range(0..3)].clone()),
        _ => unreachable!(),
    }
    let p2p = |p: PeerId| Protocol::P2p(p.into());
    match tail {
        "none" => {}
        "own" => a.push(p2p(own)),
        "foreign" => a.push(p2p(foreign)),
        "localnode" => a.push(p2p(node)),
        "ws" => a.push(Protocol::Ws("/".into())),
        "ws_own" => {
            a.push(Protocol::Ws("/".into()));
            a.push(p2p(own));
        }
        "own_own" => {
            a.push(p2p(own));
            a.push(p2p(own));
        }
        "own_foreign" => {
            a.push(p2p(own));
            a.push(p2p(foreign));
        }
        "foreign_own" => {
            a.push(p2p(foreign));
            a.push(p2p(own));
        }
        "own_extra" => {
            a.push(p2p(own));
            a.push([Protocol::Tcp(1), Protocol::Ws("/".into()), Protocol::P2pCircuit][rng.gen_range(0..3)].clone());
        }
        "extra" => a.push([Protocol::Tcp(1), Protocol::P2pCircuit, Protocol::Udp(9)][rng.gen_range(0..3)].clone()),
        _ => unreachable!(),
    }
    Some(a)
}

