//! C07, unit level: the exits of the real connection task.  Each round builds a real negotiated
//! loopback connection (`litep2p::verif::conn::ConnectionHarness`), with three protocols q1..q3
//! whose inboxes / connection handles the driver owns and a scripted yamux remote, applies a
//! schedule (release handles = idle expiry, drop a protocol, request an outbound substream, remote
//! opens a substream / stalls / refuses, remote closes, force_close, keep an inbox full, run the
//! real `TcpConnection::start()` for some time or some polls) and records what every inbox and the
//! manager channel received.  The log uses the event vocabulary of the two-node driver (node "A"
//! only: p_est / p_closed per protocol, app_est / app_closed for the manager channel, quiesce once
//! the task has returned) plus `snap` lines (was the manager told while a running protocol was not?)
//! and is validated by TLC against the monitor of ConnLifeNet.tla.
use litep2p::verif::conn::{ConnSetup, ConnectionHarness, InboxEvent, RemoteMode};
use serde_json::{json, Value};
use std::{sync::Arc, time::Duration};
use vharness::*;

const Q: [&str; 3] = ["q1", "q2", "q3"];

struct Round {
    h: ConnectionHarness,
    out: Vec<Value>,
    emitted: Vec<usize>,
    mgr_emitted: usize,
    dropped: [bool; 3],
    blocked: [bool; 3],
    cid: usize,
    suspended_reports: usize,
}

impl Round {
    /// turn newly observed inbox / manager events into log lines
    fn flush(&mut self, snap: bool) {
        let r = self.h.report();
        for q in 0..3 {
            for ev in &r.inboxes[q][self.emitted[q]..] {
                let line = match ev {
                    InboxEvent::Established { cid } => json!({"e": "p_est", "n": "A", "q": Q[q], "cid": cid}),
                    InboxEvent::Closed { cid } => json!({"e": "p_closed", "n": "A", "q": Q[q], "cid": cid}),
                    InboxEvent::OpenedInbound => json!({"e": "sub_in", "n": "A", "q": Q[q]}),
                    InboxEvent::OpenedOutbound { id } => json!({"e": "sub_out", "n": "A", "q": Q[q], "id": id}),
                    InboxEvent::OpenFailure { id } => json!({"e": "sub_fail", "n": "A", "q": Q[q], "id": id}),
                    InboxEvent::Filler => json!({"e": "filler", "n": "A", "q": Q[q]}),
                };
                self.out.push(line);
            }
            self.emitted[q] = r.inboxes[q].len();
        }
        for cid in &r.manager[self.mgr_emitted..] {
            if *cid == self.cid {
                self.out.push(json!({"e": "app_closed", "n": "A", "cid": cid}));
            } else {
                // a report of another connection that was already waiting in the manager's channel
                self.out.push(json!({"e": "mgr_other", "n": "A", "cid": -1}));
            }
        }
        self.mgr_emitted = r.manager.len();
        if snap {
            // protocols before manager: once the manager was told, every running protocol that reads its
            // inbox has been told
            let untold: Vec<&str> = (0..3)
                .filter(|q| !self.dropped[*q] && !self.blocked[*q] && !r.inboxes[*q].iter().any(|e| matches!(e, InboxEvent::Closed { .. })))
                .map(|q| Q[q])
                .collect();
            self.out.push(json!({"e": "snap", "n": "A", "mgr": r.manager.contains(&self.cid), "untold": untold, "polls": r.polls}));
        }
    }

    fn qs(&self, v: &Value) -> Vec<usize> {
        match v {
            Value::String(s) if s == "all" => (0..3).collect(),
            Value::Number(n) => vec![n.as_u64().unwrap() as usize],
            _ => vec![],
        }
    }

    async fn step(&mut self, st: &Value) {
        let op = st["op"].as_str().unwrap_or("");
        match op {
            "release" => {
                for q in self.qs(&st["q"]) {
                    self.h.release(q);
                }
            }
            "drop" => {
                for q in self.qs(&st["q"]) {
                    if !self.dropped[q] {
                        self.flush(false);
                        self.h.drop_protocol(q);
                        self.dropped[q] = true;
                        self.out.push(json!({"e": "p_exit", "n": "A", "q": Q[q]}));
                    }
                }
            }
            "open" => {
                let q = st["q"].as_u64().unwrap_or(0) as usize;
                let r = self.h.open(q);
                let id = r.as_ref().map(|i| *i as i64).unwrap_or(-1);
                self.out.push(json!({"e": "open_call", "n": "A", "q": Q[q], "id": id, "ret": r.map(|i| i.to_string()).unwrap_or_else(|e| e)}));
            }
            "fc" => {
                let q = st["q"].as_u64().unwrap_or(0) as usize;
                let r = self.h.force_close(q);
                self.out.push(json!({"e": "fc_begin", "n": "A", "q": Q[q], "ret": r.err().unwrap_or("ok".into())}));
            }
            "remote" => {
                let sup: Vec<usize> = st["supported"].as_array().map(|a| a.iter().map(|x| x.as_u64().unwrap() as usize).collect()).unwrap_or(vec![0, 1, 2]);
                let mode = if st["stall"].as_bool().unwrap_or(false) {
                    RemoteMode::Stall
                } else if st["truncate"].as_bool().unwrap_or(false) {
                    RemoteMode::Truncate
                } else {
                    RemoteMode::Serve
                };
                self.h.remote_mode(&sup, mode);
            }
            "ropen" => {
                let q = st["q"].as_u64().map(|x| x as usize);
                let r = self.h.remote_open(q, st["stall"].as_bool().unwrap_or(false)).await;
                self.out.push(json!({"e": "fire", "n": "B", "q": q.map(|q| Q[q]).unwrap_or("unknown"), "ret": r.err().unwrap_or("ok".into())}));
            }
            "due" => {
                // every accepted open request must have been answered by now unless the connection ended
                self.flush(false);
                let alive = self.h.report().finished.is_none();
                self.out.push(json!({"e": "answers_due", "n": "A", "alive": alive}));
            }
            "rclose" => {
                self.out.push(json!({"e": "cut_begin", "px": "remote", "s": 0}));
                self.h.remote_close();
            }
            "fill" => {
                let q = st["q"].as_u64().unwrap_or(0) as usize;
                self.flush(false);
                let n = self.h.fill_inbox(q);
                self.blocked[q] = true;
                self.out.push(json!({"e": "pause", "n": "A", "q": Q[q], "filler": n}));
            }
            "unblock" => {
                let q = st["q"].as_u64().unwrap_or(0) as usize;
                self.h.unblock(q);
                self.blocked[q] = false;
                self.out.push(json!({"e": "resume", "n": "A", "q": Q[q]}));
                self.flush(false);
            }
            "mfill" => {
                // the manager loop is stalled and its event channel is full
                self.flush(false);
                let n = self.h.fill_manager();
                self.out.push(json!({"e": "mgr_full", "n": "A", "filler": n}));
            }
            "munblock" => {
                // before the manager reads again: the close report must be suspended on the full channel -
                // every running protocol already told, the manager not yet, the task not returned
                let r = self.h.report();
                let told = (0..3).filter(|q| !self.dropped[*q] && !self.blocked[*q]).all(|q| r.inboxes[q].iter().any(|e| matches!(e, InboxEvent::Closed { .. })));
                let suspended = told && r.finished.is_none();
                if suspended {
                    self.suspended_reports += 1;
                }
                self.out.push(json!({"e": "mgr_resume", "n": "A", "report_suspended": suspended, "protocols_told": told, "task_returned": r.finished.is_some()}));
                self.h.unblock_manager();
                self.flush(false);
            }
            "sleep" => tokio::time::sleep(Duration::from_millis(st["ms"].as_u64().unwrap_or(30))).await,
            "run" => {
                let polls = st["polls"].as_u64().map(|p| p as usize);
                self.h.run(Duration::from_millis(st["ms"].as_u64().unwrap_or(30)), polls).await;
                self.flush(true);
            }
            "finish" => {
                // single polls first (intermediate states for the ordering rule), then to completion
                for _ in 0..st["single_polls"].as_u64().unwrap_or(6) {
                    if self.h.run(Duration::from_millis(20), Some(1)).await {
                        break;
                    }
                    self.flush(true);
                }
                let done = self.h.run(Duration::from_millis(st["ms"].as_u64().unwrap_or(4000)), None).await;
                for q in 0..3 {
                    if self.blocked[q] {
                        self.h.unblock(q);
                        self.blocked[q] = false;
                        self.out.push(json!({"e": "resume", "n": "A", "q": Q[q]}));
                    }
                }
                let done = done || self.h.run(Duration::from_millis(1000), None).await;
                self.flush(true);
                let r = self.h.report();
                self.out.push(json!({"e": "task_end", "n": "A", "returned": done, "result": r.finished.map(|x| x.err().unwrap_or("ok".into())).unwrap_or("-".into()), "polls": r.polls}));
                // the connection is over one way or the other: everybody must have been told
                self.out.push(json!({"e": "quiesce", "n": "A"}));
            }
            _ => {}
        }
    }
}

async fn run_round(sc: &Value) -> Result<Vec<Value>, String> {
    let h = ConnectionHarness::new(ConnSetup {
        protocols: 3,
        inbox_capacity: sc["inbox"].as_u64().unwrap_or(16) as usize,
        substream_open_timeout: Duration::from_millis(sc["sub_timeout_ms"].as_u64().unwrap_or(300)),
        manager_capacity: sc["manager_capacity"].as_u64().unwrap_or(256) as usize,
    })
    .await?;
    let cid = h.connection_id();
    let mut r = Round { h, out: vec![], emitted: vec![0; 3], mgr_emitted: 0, dropped: [false; 3], blocked: [false; 3], cid, suspended_reports: 0 };
    r.out.push(json!({"e": "app_est", "n": "A", "cid": cid, "dir": "in"}));
    r.flush(false);
    for st in sc["steps"].as_array().unwrap() {
        r.out.push(json!({"e": "step", "op": st["op"], "arg": st}));
        r.step(st).await;
    }
    if r.suspended_reports > 0 {
        r.out.push(json!({"e": "note", "suspended_reports": r.suspended_reports}));
    }
    Ok(r.out)
}

fn main() {
    let args = Args::parse();
    quiet_panics();
    let scs = read_jsonl(&args.str("scenarios", "unit.jsonl"));
    let out = args.str("out", "unit.ndjson");
    let par = args.u64("par", 32) as usize;
    let rt = tokio::runtime::Builder::new_multi_thread().worker_threads(args.u64("threads", 8) as usize).enable_all().build().unwrap();
    let results = rt.block_on(async move {
        let sem = Arc::new(tokio::sync::Semaphore::new(par));
        let mut hs = Vec::new();
        for sc in scs {
            let sem = sem.clone();
            hs.push(tokio::spawn(async move {
                let _p = sem.acquire_owned().await.unwrap();
                let r = run_round(&sc).await;
                (sc, r)
            }));
        }
        let mut res = Vec::new();
        for h in hs {
            res.push(h.await.map_err(|e| format!("{e}")));
        }
        res
    });
    rt.shutdown_background();
    let mut lines = vec![];
    let (mut rounds, mut failed, mut events, mut panics) = (0usize, 0usize, 0usize, 0usize);
    let mut exits: std::collections::BTreeMap<String, usize> = Default::default();
    let mut suspended = 0usize;
    for r in results {
        match r {
            Ok((sc, Ok(ls))) => {
                rounds += 1;
                *exits.entry(sc["exit"].as_str().unwrap_or("?").to_string()).or_default() += 1;
                lines.push(json!({"e": "reset", "sc": sc["name"], "transport": "unit", "exit": sc["exit"], "seed": sc["seed"], "protos": {"A": Q, "B": []}}).to_string());
                events += ls.len();
                suspended += ls.iter().filter(|l| l["e"] == "mgr_resume" && l["report_suspended"] == true).count();
                for l in ls {
                    lines.push(l.to_string());
                }
            }
            Ok((_, Err(_))) => failed += 1,
            Err(_) => panics += 1,
        }
    }
    write_lines(&out, &lines);
    println!("SUMMARY {}", json!({"rounds": rounds, "setup_failed": failed, "events": events, "panics": panics, "rounds_by_exit": exits, "close_reports_suspended_on_full_manager_channel": suspended}));
}
