--------------------------- MODULE TcpTransportMC ---------------------------
(***************************************************************************)
(* Implementation-shaped model of TcpTransport (src/transport/tcp/mod.rs), *)
(* one action per Transport trait method and per arm of poll_next(),       *)
(* composed with                                                           *)
(*   - an arbitrary caller that keeps the caller side of the interface     *)
(*     (fresh connection ids) but otherwise calls anything on any id at    *)
(*     any time (a superset of what TransportManager does), and            *)
(*   - the network: every future may resolve with any result the code      *)
(*     allows (connect refused / timed out, negotiation failed / timed     *)
(*     out / other identity, success), remotes connect to the listener,    *)
(* and with the interface monitor of TransportIface.tla.                   *)
(*                                                                         *)
(* Bookkeeping variables are the fields of the struct:                     *)
(*   pd    pending_dials                 (keys)                            *)
(*   pin   pending_inbound_connections   (keys)                            *)
(*   pconn pending_connections           (futures: [c, k, peer])           *)
(*   praw  pending_raw_connections       (futures: ids)                    *)
(*   opened, popen (pending_open)        (keys)                            *)
(*   cf    cancel_futures                (id -> aborted?)                  *)
(***************************************************************************)
EXTENDS TransportIface, Integers, SequencesExt, FiniteSetsExt, Json

CONSTANTS Addrs,      \* address names
          Peers,      \* identities a remote may authenticate as
          MaxCid,     \* connection ids that may be allocated
          MaxOpenLen, \* addresses per open()
          Kind,       \* "tcp" | "ws": WebSocketTransport is the same state machine (websocket/mod.rs is a copy of
                      \* tcp/mod.rs); it differs in that an address without /p2p is refused (dial(): Err before any
                      \* bookkeeping, open(): that address can only fail) and in reporting addresses as requested
          Mutant      \* "" or the name of a seeded defect (negative self-test models)

VARIABLES pd, pin, pconn, praw, opened, popen, cf,
          req,     \* id -> [addrs, kind]   what was requested (static)
          auth,    \* id -> [p, a] peer authenticated / address reached while opening
          next,    \* shared connection id allocator
          nconn,   \* remote connections waiting in the listener's accept queue
          mon,     \* interface monitor
          warn,    \* a "without a cancel handle" arm of poll_next was reached
          dconn,   \* futures of pending_connections whose work is finished but that were not polled since: [f, res, p]
          draw,    \* the same for pending_raw_connections: [c, res, a, errs, p]
          awake,   \* the task polling the stream has been woken (or has just issued a command) and will call poll_next
          hist

bvars == <<pd, pin, pconn, praw, opened, popen, cf, req, auth, next, nconn>>
vars == <<pd, pin, pconn, praw, opened, popen, cf, req, auth, next, nconn, mon, warn, dconn, draw, awake, hist>>

\* address a names peer WantOf(a) ("" = no /p2p component); its socket part is SockOf(a)
WantOf(a) == IF a = "a3" THEN "" ELSE "P1"
SockOf(a) == "s" \o a
Reported(a) == IF Kind = "ws" THEN a ELSE SockOf(a)
Dialable(a) == Kind = "tcp" \/ WantOf(a) # ""
Addrs2 == {"a1", "a2"}
Addrs3 == {"a1", "a2", "a3"}
Addrs13 == {"a1", "a3"}
Addrs1 == {"a1"}
PeersDef == {"P1", "P2"}

Init ==
  /\ pd = {} /\ pin = {} /\ pconn = {} /\ praw = {} /\ opened = {} /\ popen = {} /\ cf = <<>>
  /\ req = <<>> /\ auth = <<>> /\ next = 0 /\ nconn = 0
  /\ mon = MonInit /\ warn = FALSE /\ hist = <<>>
  /\ dconn = {} /\ draw = {} /\ awake = TRUE

Ids == 0..(next - 1)
Seq1(S) == {<<a>> : a \in S}
Seq2(S) == {<<a, b>> : a \in S, b \in S} \ {<<a, a>> : a \in S}
OpenArgs == IF MaxOpenLen >= 2 THEN Seq1(Addrs) \cup Seq2(Addrs) ELSE Seq1(Addrs)
Map(f(_), s) == [i \in 1..Len(s) |-> f(s[i])]
Without(f, c) == [x \in DOMAIN f \ {c} |-> f[x]]

Feed(m, h) == /\ mon' = m /\ hist' = Append(hist, h)
\* a command: issued by the polling task itself (the manager), which then goes back to polling
Call(k, h) == Feed(MonCall(mon, k), h) /\ awake' = TRUE /\ UNCHANGED <<dconn, draw>>
Polled == UNCHANGED awake
Event(e, h) == Feed(MonEvent(mon, e), h)

-----------------------------------------------------------------------------
(* impl Transport for TcpTransport                                          *)

\* dial(): the address parses; pending_dials.insert, pending_connections.push
CDial(a) ==
  /\ next < MaxCid /\ Dialable(a)
  /\ LET c == next IN
     /\ next' = next + 1
     /\ pd' = pd \cup {c}
     /\ pconn' = pconn \cup {[c |-> c, k |-> "dial"]}
     /\ req' = (c :> [addrs |-> <<a>>, kind |-> "dial"]) @@ req
     /\ UNCHANGED <<pin, praw, opened, popen, cf, auth, nconn, warn>>
     /\ Call([c |-> "dial", cid |-> c, ret |-> "ok", addrs |-> <<a>>, socks |-> <<SockOf(a)>>, wants |-> <<WantOf(a)>>],
             [a |-> "dial", c |-> c, addr |-> a])

\* dial() with an address TcpAddress::multiaddr_to_socket_address refuses: `?` before any bookkeeping
CDialBad ==
  /\ next < MaxCid
  /\ next' = next + 1
  /\ req' = (next :> [addrs |-> <<"bad">>, kind |-> "bad"]) @@ req
  /\ UNCHANGED <<pd, pin, pconn, praw, opened, popen, cf, auth, nconn, warn>>
  /\ Call([c |-> "dial", cid |-> next, ret |-> "err", addrs |-> <<"bad">>, socks |-> <<"bad">>, wants |-> <<"">>],
          [a |-> "dial_bad", c |-> next])

\* WebSocket dial() of an address without /p2p: multiaddr_into_url()? fails with PeerIdMissing
CDialNoPeer(a) ==
  /\ next < MaxCid /\ ~Dialable(a)
  /\ next' = next + 1
  /\ req' = (next :> [addrs |-> <<a>>, kind |-> "bad"]) @@ req
  /\ UNCHANGED <<pd, pin, pconn, praw, opened, popen, cf, auth, nconn, warn>>
  /\ Call([c |-> "dial", cid |-> next, ret |-> "err", addrs |-> <<a>>, socks |-> <<SockOf(a)>>, wants |-> <<"">>],
          [a |-> "dial", c |-> next, addr |-> a])

\* open(): pending_raw_connections.push(abortable), cancel_futures.insert
COpen(as) ==
  /\ next < MaxCid
  /\ LET c == next IN
     /\ next' = next + 1
     /\ praw' = praw \cup {c}
     /\ cf' = (c :> FALSE) @@ cf
     /\ req' = (c :> [addrs |-> as, kind |-> "open"]) @@ req
     /\ UNCHANGED <<pd, pin, pconn, opened, popen, auth, nconn, warn>>
     /\ Call([c |-> "open", cid |-> c, ret |-> "ok", addrs |-> as, socks |-> Map(SockOf, as), wants |-> Map(WantOf, as)],
             [a |-> "open", c |-> c, addrs |-> as])

\* cancel(): abort the handle if there is one; clean-up happens in poll_next
CCancel(c) ==
  /\ cf' = IF c \in DOMAIN cf THEN [cf EXCEPT ![c] = TRUE] ELSE cf
  /\ UNCHANGED <<pd, pin, pconn, praw, opened, popen, req, auth, next, nconn, warn>>
  /\ Call([c |-> "cancel", cid |-> c, ret |-> "ok"], [a |-> "cancel", c |-> c])

\* negotiate(): opened.remove(id)?  then push a ready future
CNegotiate(c) ==
  /\ IF c \in opened
       THEN /\ opened' = opened \ {c}
            /\ pconn' = pconn \cup {[c |-> c, k |-> "neg"]}
       ELSE UNCHANGED <<opened, pconn>>
  /\ UNCHANGED <<pd, pin, praw, popen, cf, req, auth, next, nconn, warn>>
  /\ Call([c |-> "negotiate", cid |-> c, ret |-> IF c \in opened THEN "ok" ELSE "err"], [a |-> "negotiate", c |-> c])

\* accept() / reject(): pending_open.remove(id)
CDecide(c, what) ==
  /\ popen' = popen \ {c}
  /\ UNCHANGED <<pd, pin, pconn, praw, opened, cf, req, auth, next, nconn, warn>>
  /\ Call([c |-> what, cid |-> c, ret |-> IF c \in popen THEN "ok" ELSE "err"], [a |-> what, c |-> c])

\* accept_pending(): pending_inbound_connections.remove(id)? then on_inbound_connection pushes the negotiation
CAcceptPending(c) ==
  /\ pin' = pin \ {c}
  /\ pconn' = IF c \in pin THEN pconn \cup {[c |-> c, k |-> "in"]} ELSE pconn
  /\ UNCHANGED <<pd, praw, opened, popen, cf, req, auth, next, nconn, warn>>
  /\ Call([c |-> "accept_pending", cid |-> c, ret |-> IF c \in pin THEN "ok" ELSE "err"], [a |-> "accept_pending", c |-> c])

CRejectPending(c) ==
  /\ pin' = pin \ {c}
  /\ UNCHANGED <<pd, pconn, praw, opened, popen, cf, req, auth, next, nconn, warn>>
  /\ Call([c |-> "reject_pending", cid |-> c, ret |-> IF c \in pin THEN "ok" ELSE "err"], [a |-> "reject_pending", c |-> c])

-----------------------------------------------------------------------------
(* the network                                                              *)

RemoteConnect ==
  /\ nconn + next < MaxCid
  /\ nconn' = nconn + 1
  /\ awake' = TRUE                         \* the listener socket becomes readable: its waker fires
  /\ UNCHANGED <<pd, pin, pconn, praw, opened, popen, cf, req, auth, next, warn, dconn, draw>>
  /\ Feed(MonConnect(mon), [a |-> "connect"])

\* The work of a future finishes (socket connected / refused / timer fired / handshake done or failed). Nothing is
\* observable yet: the result is only seen when poll_next polls the future. Several of these may happen before the
\* next poll_next (the application is busy, "hold"); each fires the waker of the polling task.
DoneConn(f) ==
  /\ f \in pconn /\ ~\E d \in dconn : d.f = f
  /\ \E res \in {"ok", "err"} : \E p \in Peers :
       /\ (f.k = "neg" => res = "ok" /\ p = auth[f.c].p)     \* `async { Ok(negotiated) }`
       /\ (f.k = "dial" /\ res = "ok" /\ WantOf(req[f.c].addrs[1]) # "" => p = WantOf(req[f.c].addrs[1]))
       /\ (res = "err" => p = "P1")
       /\ dconn' = dconn \cup {[f |-> f, res |-> res, p |-> p]}
       /\ hist' = Append(hist, [a |-> "done", c |-> f.c, k |-> f.k, res |-> res])
  /\ awake' = TRUE
  /\ UNCHANGED <<pd, pin, pconn, praw, opened, popen, cf, req, auth, next, nconn, mon, warn, draw>>

DoneRaw(c) ==
  /\ c \in praw /\ ~\E d \in draw : d.c = c
  /\ \/ \E i \in 1..Len(req[c].addrs) : \E errset \in SUBSET (ToSetS(req[c].addrs) \ {req[c].addrs[i]}) : \E p \in Peers :
          LET a == req[c].addrs[i] IN
          /\ Dialable(a)
          /\ (WantOf(a) # "" => p = WantOf(a))        \* negotiate_connection: PeerIdMismatch otherwise
          /\ draw' = draw \cup {[c |-> c, res |-> "connected", a |-> a, errs |-> SetToSeq(errset), p |-> p]}
          /\ hist' = Append(hist, [a |-> "done", c |-> c, k |-> "raw", res |-> "connected"])
     \/ \E errset \in SUBSET ToSetS(req[c].addrs) :
          /\ draw' = draw \cup {[c |-> c, res |-> "failed", a |-> "", errs |-> SetToSeq(errset), p |-> "P1"]}
          /\ hist' = Append(hist, [a |-> "done", c |-> c, k |-> "raw", res |-> "failed"])
  /\ awake' = TRUE
  /\ UNCHANGED <<pd, pin, pconn, praw, opened, popen, cf, req, auth, next, nconn, mon, warn, dconn>>

-----------------------------------------------------------------------------
(* impl Stream for TcpTransport: poll_next, called only while the polling task is awake; every arm that   *)
(* returns an event leaves the task awake (the manager polls again), a silent arm continues the loop.      *)

\* listener arm: a socket is accepted, gets an id from the shared allocator and is parked
PListener ==
  /\ awake /\ nconn > 0 /\ next < MaxCid
  /\ LET c == next IN
     /\ next' = next + 1 /\ nconn' = nconn - 1
     /\ pin' = pin \cup {c}
     /\ req' = (c :> [addrs |-> <<>>, kind |-> "in"]) @@ req
     /\ UNCHANGED <<pd, pconn, praw, opened, popen, cf, auth, warn, dconn, draw>> /\ Polled
     /\ Event([k |-> "pending_inbound", cid |-> c], [a |-> "p_listener", c |-> c])

\* pending_raw_connections arm (Abortable: Aborted wins whenever the handle was aborted before the poll)
PRawCanceled(c) ==
  /\ awake /\ c \in praw /\ c \in DOMAIN cf /\ cf[c]
  /\ praw' = praw \ {c}
  /\ draw' = {d \in draw : d.c # c}
  /\ cf' = IF Mutant = "cancel-handle-kept" THEN cf ELSE Without(cf, c)
  /\ UNCHANGED <<pd, pin, pconn, opened, popen, req, auth, next, nconn, warn, dconn>> /\ Polled
  /\ IF Mutant = "cancelled-open-surfaces"
       THEN Event([k |-> "open_failure", cid |-> c, errs |-> <<>>], [a |-> "p_raw", c |-> c, res |-> "canceled"])
       ELSE Feed(mon, [a |-> "p_raw", c |-> c, res |-> "canceled"])

PRawTake(d) ==
  /\ awake /\ d \in draw /\ (d.c \in DOMAIN cf => ~cf[d.c])
  /\ LET c == d.c IN
     /\ praw' = praw \ {c}
     /\ draw' = draw \ {d}
     /\ UNCHANGED <<pd, pin, pconn, popen, req, next, nconn, dconn>> /\ Polled
     /\ IF c \notin DOMAIN cf
          THEN \* "raw connection without a cancel handle": dropped with a warning
               /\ warn' = TRUE /\ UNCHANGED <<cf, opened, auth>>
               /\ Feed(mon, [a |-> "p_raw", c |-> c, res |-> "lost"])
          ELSE /\ cf' = Without(cf, c) /\ warn' = warn
               /\ IF d.res = "connected"
                    THEN /\ opened' = opened \cup {c}
                         /\ auth' = (c :> [p |-> d.p, a |-> d.a]) @@ auth
                         /\ Event([k |-> "opened", cid |-> c, addr |-> Reported(d.a), errs |-> d.errs],
                                  [a |-> "p_raw", c |-> c, res |-> "connected", addr |-> d.a, errs |-> d.errs])
                    ELSE /\ UNCHANGED <<opened, auth>>
                         /\ Event([k |-> "open_failure", cid |-> c, errs |-> d.errs],
                                  [a |-> "p_raw", c |-> c, res |-> "failed", errs |-> d.errs])

\* pending_connections arm
PConnTake(d) ==
  /\ awake /\ d \in dconn
  /\ pconn' = pconn \ {d.f}
  /\ dconn' = dconn \ {d}
  /\ LET c == d.f.c k == d.f.k IN
     /\ UNCHANGED <<pin, praw, opened, cf, req, auth, next, nconn, warn, draw>>
     /\ IF d.res = "ok"
          THEN /\ pd' = pd \ {c}
               /\ popen' = popen \cup {c}
               /\ Polled
               /\ Event([k |-> "est", cid |-> c, dir |-> IF k = "in" THEN "in" ELSE "out", peer |-> d.p,
                         addr |-> IF k = "dial" THEN Reported(req[c].addrs[1]) ELSE IF k = "neg" THEN Reported(auth[c].a) ELSE "remote"],
                        [a |-> "p_conn", c |-> c, res |-> "ok", peer |-> d.p])
          ELSE /\ pd' = IF Mutant = "dial-entry-kept" THEN pd ELSE pd \ {c}
               /\ UNCHANGED popen
               /\ IF c \in pd /\ Mutant # "dial-failure-swallowed"
                    THEN /\ Polled
                         /\ Event([k |-> "dial_failure", cid |-> c, addr |-> req[c].addrs[1]], [a |-> "p_conn", c |-> c, res |-> "err"])
                    ELSE \* "Pending inbound connection failed": logged only, the loop goes on. The seeded defect
                         \* leaves the loop here: poll_next returns Pending although other futures are ready.
                         /\ awake' = (Mutant # "inbound-failure-ends-poll")
                         /\ Feed(mon, [a |-> "p_conn", c |-> c, res |-> "err"])

\* nothing is ready: poll_next returns Pending, the task sleeps until a waker fires
NothingReady == dconn = {} /\ nconn = 0 /\ draw = {} /\ \A c \in praw : ~(c \in DOMAIN cf /\ cf[c])
PollIdle ==
  /\ awake /\ NothingReady
  /\ awake' = FALSE
  /\ UNCHANGED <<pd, pin, pconn, praw, opened, popen, cf, req, auth, next, nconn, mon, warn, dconn, draw, hist>>

Next ==
  \/ \E a \in Addrs : CDial(a) \/ CDialNoPeer(a)
  \/ CDialBad
  \/ \E as \in OpenArgs : COpen(as)
  \/ \E c \in Ids : \/ CCancel(c) \/ CNegotiate(c) \/ CDecide(c, "accept") \/ CDecide(c, "reject")
                    \/ CAcceptPending(c) \/ CRejectPending(c)
                    \/ PRawCanceled(c) \/ DoneRaw(c)
  \/ RemoteConnect \/ PListener \/ PollIdle
  \/ \E f \in pconn : DoneConn(f)
  \/ \E d \in dconn : PConnTake(d)
  \/ \E d \in draw : PRawTake(d)

Spec == Init /\ [][Next]_vars

-----------------------------------------------------------------------------
(* Properties                                                               *)

Bk == [pending_dials |-> SetToSeq(pd), pending_inbound |-> SetToSeq(pin), opened |-> SetToSeq(opened),
       pending_open |-> SetToSeq(popen), cancel_futures |-> SetToSeq(DOMAIN cf),
       pending_connections |-> Cardinality(pconn), pending_raw_connections |-> Cardinality(praw)]

\* the transport keeps the interface (LegalTransport)
LegalTransport == mon.bad = ""
\* abort handles are removed exactly once: the "without a cancel handle" arms are dead code
HandlesExact == ~warn /\ DOMAIN cf = praw
\* bookkeeping is a function of the interface state at every step
BookkeepingExact == /\ BkExact(mon, Bk)
                    /\ pd = IdsIn(mon, {"dialing"})
                    /\ IdsIn(mon, {"dialing", "negotiating"}) \subseteq {f.c : f \in pconn}
                    /\ {f.c : f \in pconn} \subseteq IdsIn(mon, {"dialing", "negotiating", "in_neg"})
\* nothing outstanding in the network  =>  every operation concluded and nothing retained (G7 + L)
\* no lost wake-up: the polling task only sleeps when poll_next has nothing left to report
NoLostWakeup == ~awake => NothingReady
\* the network has finished everything it was asked to do and the polling task sleeps
Quiescent == ~awake /\ nconn = 0 /\ (\A f \in pconn : \E d \in dconn : d.f = f) /\ (\A c \in praw : \E d \in draw : d.c = c)
LeakFree == Quiescent => MonQuiesce(mon, Bk).bad = ""
\* a cancelled open never surfaces (also a monitor rule; stated on the model state as well)
CancelledNeverOpened == \A c \in DOMAIN cf : cf[c] => c \notin opened

View == <<pd, pin, pconn, praw, opened, popen, cf, req, auth, next, nconn, mon, warn, dconn, draw, awake>>
GenView == <<pd, pin, pconn, praw, opened, popen, cf, req, auth, next, nconn, dconn, draw, awake>>
Emit == PrintT(<<"B", ToJson([steps |-> hist'])>>)
=============================================================================
