#!/usr/bin/env python3
"""Regenerate /verif/MANIFEST.json from the table below (single source of truth)."""
import json
import os

V = os.path.dirname(os.path.dirname(os.path.abspath(__file__)))
props = [json.loads(l) for l in open(os.path.join(V, "properties.jsonl"))]

# property id -> (level, technique, text, note, design_ref)
CLAIMED = {
    "C17": ("model_checking",
            "TLA+ spec KadStore (Impl+Prop layers) checked by TLC; TLC-generated and random histories replayed into the real MemoryStore; recorded calls validated by TLC against the Prop layer",
            "TLC exhaustively shows the implementation-shaped store model refines the property-level step relation for small bounds (incl. bounds 0/1); every transition of a bounded graph plus seeded random histories are executed on the real MemoryStore and each recorded call+state is validated by TLC against the property-level relation (bounds, no expired result, no earlier-expiry replacement, sorted/closest-kept/in-place providers).",
            "small-scope constants; logical time realised with short real sleeps (runs that miss their window are discarded, not judged); sha2/XOR of the harness trusted for ranks",
            "DESIGN.md 4/C17"),
}

CLAIMED["C05"] = ("model_checking",
    "TLA+ spec ConnMgr (property monitor) + ConnMgrMC (implementation-shaped manager model) checked by TLC; one behaviour per transition of the bounded model and seeded random histories replayed into the real TransportManager through a scripted transport; recorded steps validated by TLC against the monitor (and against the model for drift)",
    "TLC explores every interleaving of dial requests, transport outcomes, inbound connections, accept results and closures for 2 peers / 3-4 connection ids / several limit configurations on a model transcribed handler by handler from the manager; each transition of the bounded graph (plus wedge probes at quiescence) and long random histories over 3 peers are executed on the real TransportManager and every step is validated by TLC against the property-level ledger: one outcome per attempt, failures name dialed addresses, no silence at quiescence, no wedge, no panic.",
    "legal scripted transport (TCP-like at the trait boundary); one stimulus at a time; small-scope constants; address-shape quantifier covered by the shape driver (see evidence)",
    "DESIGN.md 4/C05")
CLAIMED["C06"] = ("model_checking",
    "same ConnMgr TLA+ specs and conformance pipeline as C05; the monitor's cap rules decide",
    "the property monitor counts connections from the manager's accept() call until closure and checks after every recorded step of the real TransportManager: at most 2 per peer, incoming/outgoing never above the configured maxima, pending inbound sockets refused only at the limit, and a connection from an unconnected peer is accepted whenever the node is below its limits (capacity released exactly on close / accept failure); TLC checks the same rules plus exactness of the limit sets on the bounded model.",
    "legal scripted transport; limits in {none,0,1,2} combinations; 2 peers in TLC, 3 in random runs",
    "DESIGN.md 4/C06")

CLAIMED["C10"] = ("model_checking",
    "TLA+ spec AddrBook (Impl transcription with nondeterministic minimum eviction + Prop predicates + filter decision table) checked by TLC; TLC behaviours and random histories replayed into the real AddressStore, add_known_address filter and TransportManager::dial; recorded calls validated by TLC",
    "TLC shows the store transcription refines the property-level insert/list relations for all histories up to 4-5 operations (K=2,3) and that the filter decision table only admits attributable, non-local, TCP-dialable shapes; every transition of the K=2 graph (embedded in the real 64-slot store), random 300-op histories over >64 addresses, every constructible multiaddress shape class and dial/re-score rounds on the real manager are recorded and validated by TLC: bound 64, a displaced record is a minimum, results re-score exactly the dialed addresses and survive rediscovery, dial tries the best addresses in score order within free outbound capacity.",
    "TCP is the only enabled transport in the pinned build; shape classes sampled with seeded instances; small-scope constants in TLC",
    "DESIGN.md 4/C10")

# harness binaries each claimed property needs (setup builds exactly these)
BINS = {"C17": ["store"], "C05": ["connmgr", "netdial"], "C06": ["connmgr"], "C10": ["addrbook"]}

NOT_YET = "check not built yet (work in progress, see DESIGN.md build order)"
NA = {}

checks = []
for p in props:
    pid = p["id"]
    if pid in CLAIMED:
        lvl, tech, text, note, ref = CLAIMED[pid]
        checks.append({
            "property_id": pid,
            "quick_cmd": "./check %s quick" % pid,
            "thorough_cmd": "./check %s thorough" % pid,
            "evidence_file": "/verif/evidence/%s.json" % pid,
            "replay_cmd_template": "./check %s quick --replay {path}" % pid,
            "engine": "tlc+vharness",
            "level_claimed": {"category": lvl, "text": text, "design_ref": ref},
            "level_note": note,
            "technique": tech,
        })

hooks_commits = os.popen("git -C /repo log --format=%%H --grep='^verif hooks' 2>/dev/null").read().split()
m = {
    "version": 1,
    "setup_cmd": "cd /verif/harness && CARGO_NET_OFFLINE=true cargo build --offline " + " ".join("--bin " + b for b in sorted({b for p in CLAIMED for b in BINS.get(p, [])})),
    "hooks": {
        "guard": "litep2p_verif",
        "enable": "rustflags --cfg litep2p_verif in /verif/harness/.cargo/config.toml (the harness crate has a path dependency on /repo)",
        "baseline_off_cmd": "cd /repo && cargo nextest run --workspace --no-fail-fast --tool-config-file pb:/w/lib/nextest.toml --profile pb --test-threads 8 --offline",
        "source_commits": hooks_commits,
        "add_only": True,
    },
    "engines": [
        {"name": "tlc+vharness", "path": "/verif/check", "serves_properties": sorted(CLAIMED),
         "kind_free_text": "TLA+ specs in /verif/spec checked by TLC (exhaustive model checking, behaviour generation, trace validation) + Rust conformance harness /verif/harness driving the real litep2p code; orchestrated by /verif/tools"},
    ],
    "checks": checks,
    "notes": "See DESIGN.md. Exit codes: 0 held, 1 VIOLATION, 2 tool error. Known findings: /verif/known_findings.txt.",
    "not_applicable": [{"property_id": p["id"], "reason": NA.get(p["id"], NOT_YET)} for p in props if p["id"] not in CLAIMED],
}
json.dump(m, open(os.path.join(V, "MANIFEST.json"), "w"), indent=1)
print("claimed:", sorted(CLAIMED))
