//! Minimal `tracing` subscriber that records a few *call-site markers* of litep2p (which failure
//! path ran) per node.  Every node of every network runs on its own OS thread (current-thread tokio
//! runtime), so a thread-local tag attributes each log line to (network, node).  The markers are
//! diagnostics only (root-cause classification of a monitor rejection); no verdict depends on them.
use std::cell::Cell;
use std::collections::HashMap;
use std::fmt::Write as _;
use std::sync::Mutex;
use tracing::field::{Field, Visit};
use tracing::span::{Attributes, Id, Record};
use tracing::{Event, Level, Metadata, Subscriber};

thread_local! {
    static TAG: Cell<(u64, u32)> = const { Cell::new((u64::MAX, 0)) };
}

/// (network id, node index) -> marker -> the log lines (fields as text)
static SINK: Mutex<Option<HashMap<(u64, u32), HashMap<&'static str, Vec<String>>>>> = Mutex::new(None);

pub fn tag_thread(net: u64, node: u32) {
    TAG.with(|t| t.set((net, node)));
}

pub fn take(net: u64) -> HashMap<u32, HashMap<&'static str, Vec<String>>> {
    let mut g = SINK.lock().unwrap();
    let mut out = HashMap::new();
    if let Some(m) = g.as_mut() {
        let keys: Vec<_> = m.keys().filter(|k| k.0 == net).cloned().collect();
        for k in keys {
            if let Some(v) = m.remove(&k) {
                out.insert(k.1, v);
            }
        }
    }
    out
}

/// (target prefix, substring of message + fields) -> marker name
const MARKERS: &[(&str, &str, &str)] = &[
    ("litep2p::ipfs::kademlia", "failed to put record to peer", "kad_put_target_err_ignored"),
    ("litep2p::ipfs::kademlia", "failed to add provider record to peer", "kad_prov_target_err_ignored"),
    ("litep2p::ipfs::kademlia", "connection established to peer but failed to open substream", "kad_est_open_substream_err"),
    ("litep2p::ipfs::kademlia", "outbound substream failed for non-existent peer", "kad_untracked_substream_failure"),
    ("litep2p::ipfs::kademlia", "connection already exists, discarding opening substreams", "kad_est_peer_occupied"),
    ("litep2p::ipfs::kademlia", "Failed to open substream a second time", "kad_retry_open_failed"),
    ("litep2p::transport-manager", "failed to dial peer", "mgr_dial_command_refused"),
    ("litep2p::transport-manager", "reject connection", "mgr_reject_connection"),
    ("litep2p::transport-manager", "failed to handle established connection", "mgr_established_err"),
];

fn is_transport(t: &str) -> bool {
    t.starts_with("litep2p::quic") || t.starts_with("litep2p::websocket") || t.starts_with("litep2p::tcp")
}

pub struct Cap;

struct V(String);
impl Visit for V {
    fn record_debug(&mut self, field: &Field, value: &dyn std::fmt::Debug) {
        let _ = write!(self.0, " {}={:?}", field.name(), value);
    }
}

impl Subscriber for Cap {
    fn enabled(&self, md: &Metadata<'_>) -> bool {
        if !md.is_event() {
            return false;
        }
        let t = md.target();
        (t == "litep2p::ipfs::kademlia" && *md.level() <= Level::DEBUG)
            || (t == "litep2p::transport-manager" && *md.level() <= Level::TRACE)
            || (is_transport(t) && *md.level() <= Level::DEBUG)
    }
    fn new_span(&self, _: &Attributes<'_>) -> Id {
        Id::from_u64(1)
    }
    fn record(&self, _: &Id, _: &Record<'_>) {}
    fn record_follows_from(&self, _: &Id, _: &Id) {}
    fn event(&self, ev: &Event<'_>) {
        let (net, node) = TAG.with(|t| t.get());
        if net == u64::MAX {
            return;
        }
        let mut v = V(String::new());
        ev.record(&mut v);
        let tgt = ev.metadata().target();
        if is_transport(tgt) {
            // diagnostics only: the first debug lines of the transports of this node
            let mut g = SINK.lock().unwrap();
            let v2 = g.get_or_insert_with(HashMap::new).entry((net, node)).or_default().entry("transport_debug").or_default();
            if v2.len() < 40 {
                let mut line = format!("{}:{}", tgt, v.0);
                line.truncate(600);
                v2.push(line);
            }
            return;
        }
        for (t, pat, name) in MARKERS {
            if tgt == *t && v.0.contains(pat) {
                let name: &'static str = if *name == "mgr_dial_command_refused" {
                    if v.0.contains("ConnectionLimit") {
                        "mgr_dial_command_refused_limit"
                    } else {
                        "mgr_dial_command_refused_other"
                    }
                } else {
                    name
                };
                let mut g = SINK.lock().unwrap();
                let v2 = g.get_or_insert_with(HashMap::new).entry((net, node)).or_default().entry(name).or_default();
                if v2.len() < 64 {
                    let mut line = v.0.clone();
                    line.truncate(3000);
                    v2.push(line);
                }
                break;
            }
        }
    }
    fn enter(&self, _: &Id) {}
    fn exit(&self, _: &Id) {}
}

pub fn install() {
    let _ = tracing::subscriber::set_global_default(Cap);
}
