--------------------------- MODULE KadRoutingTrace ---------------------------
(* Trace validation: every call recorded from the real RoutingTable must be a *)
(* step allowed by the Prop layer of KadRouting (MODE=prop, decides C14) or   *)
(* exactly the step of the Impl layer (MODE=impl, drift detector).            *)
(* Lines: {"e":"reset","K":20,"NB":256,"init":[{"i":b,"b":[entry..]}..]}      *)
(*        {"e":"op","o":{..},"ret":..,"ch":[{"i":b,"b":[entry..]}..]}          *)
(* entry = [id, conn, ha, xb, u]; "ch" lists the buckets whose content differs *)
(* after the call (full new content, stored order).                            *)
EXTENDS KadRouting, TLC, Json, IOUtils

Rec == ndJsonDeserialize(IOEnv.TRACE)
Mode == IOEnv.MODE

VARIABLES l, bk, led, cfg
tvars == <<l, bk, led, cfg>>

ToE(a) == [id |-> a[1], conn |-> a[2], ha |-> a[3], xb |-> a[4], u |-> a[5]]
ToB(b) == [j \in 1..Len(b) |-> ToE(b[j])]
Apply(S, ch) ==
  [i \in DOMAIN S |->
     IF \E n \in 1..Len(ch) : ch[n].i = i
       THEN ToB(ch[CHOOSE n \in 1..Len(ch) : ch[n].i = i].b)
       ELSE S[i]]
ToOp(o) == IF o.op = "closest"
             THEN [op |-> "closest", k |-> o.k, dbits |-> RangeOf(o.dbits), ord |-> o.ord]
             ELSE o

TInit == /\ l = 1
         /\ bk = EmptyTable(1)
         /\ led = {}
         /\ cfg = [K |-> 0, NB |-> 1]

TReset == /\ Rec[l].e = "reset"
          /\ cfg' = [K |-> Rec[l].K, NB |-> Rec[l].NB]
          /\ bk' = Apply(EmptyTable(Rec[l].NB), Rec[l].init)
          /\ StateOK(Rec[l].K, bk')
          \* the pre-filled peers were added as connected where the table says so
          /\ led' = {e.id : e \in {x \in Stored(bk') : x.u = 1 /\ x.conn = "C"}}

TOp == /\ Rec[l].e = "op"
       /\ cfg' = cfg
       /\ LET o == ToOp(Rec[l].o)
              T == Apply(bk, Rec[l].ch)
          IN /\ bk' = T
             /\ led' = LedUpd(led, o, Rec[l].ret, T)
             /\ IF Mode = "impl"
                  THEN LET r == ImplStep(cfg.K, cfg.NB, FALSE, bk, o) IN
                         /\ Norm(r.bk) = Norm(T)
                         /\ RetObservable(o) => r.ret = Rec[l].ret
                  ELSE PropStep(cfg.K, bk, led, o, Rec[l].ret, T)

TNext == /\ l <= Len(Rec)
         /\ l' = l + 1
         /\ (TReset \/ TOp)

TSpec == TInit /\ [][TNext]_tvars

Accepted ==
  LET d == TLCGet("stats").diameter IN
  IF d - 1 = Len(Rec) THEN PrintT(<<"TRACE_OK", Len(Rec)>>)
  ELSE PrintT(<<"TRACE_REJECTED_AT", d>>) /\ FALSE
=============================================================================
