---------------------------- MODULE ConnMgrTrace ----------------------------
(* Trace validation of executions of the real TransportManager.             *)
(*  MODE=prop : every recorded step is fed to the property monitor of       *)
(*              ConnMgr.tla (decides C05 / C06).                            *)
(*  MODE=impl : every recorded step must be exactly the step the            *)
(*              implementation-shaped model ConnMgrMC takes (drift check).  *)
EXTENDS ConnMgrMC, IOUtils

Rec == ndJsonDeserialize(IOEnv.TRACE)
Mode == IOEnv.MODE

VARIABLE l
tvars == <<vars, l>>

Lim(x) == x   \* -1 encodes "no limit" in the trace as in the spec

TInit == /\ l = 1
         /\ ps = [p \in Peers |-> Disc]
         /\ pend = {} /\ tx = <<>> /\ cpeer = <<>> /\ cdir = <<>> /\ caddrs = <<>> /\ otr = <<>> /\ ctr = <<>>
         /\ limIn = {} /\ limOut = {} /\ next = 0
         /\ known = [p \in Peers |-> {}]
         /\ MaxIn = NoLimit /\ MaxOut = NoLimit
         /\ mon = MonInit(NoLimit, NoLimit)
         /\ kf = {} /\ hist = <<>>
         /\ out = [calls |-> <<>>, events |-> <<>>, ret |-> "none"]

TReset == /\ Rec[l].e = "reset"
          /\ ps' = [p \in Peers |-> Disc]
          /\ pend' = {} /\ tx' = <<>> /\ cpeer' = <<>> /\ cdir' = <<>> /\ caddrs' = <<>> /\ otr' = <<>> /\ ctr' = <<>>
          /\ limIn' = {} /\ limOut' = {} /\ next' = 0
          /\ known' = [p \in Peers |-> {}]
          /\ MaxIn' = Rec[l].maxIn /\ MaxOut' = Rec[l].maxOut
          /\ mon' = MonInit(Rec[l].maxIn, Rec[l].maxOut)
          /\ kf' = {} /\ hist' = <<>>
          /\ out' = [calls |-> <<>>, events |-> <<>>, ret |-> "none"]

ImplAct(s) ==
  CASE s.a \in {"dial", "probe"} -> UDial(s.p)
    [] s.a = "hdial" -> HDial(s.p)
    [] s.a = "dial_addr" -> UDialAddr(s.p, s.addr)
    [] s.a = "hdial_addr" -> HDialAddr(s.p, s.addr)
    [] s.a = "add_known" -> AddKnown(s.p, s.addr)
    [] s.a = "dial_fail" -> TDialFail(s.c)
    [] s.a = "established" -> IF "lost" \in DOMAIN s /\ s.lost THEN TEstablishedLost(s.c) ELSE TEstablished(s.c)
    [] s.a = "in_est" -> TInEst(s.c, s.p)
    [] s.a = "accept_ok" -> TAcceptOk(s.c)
    [] s.a = "accept_err" -> TAcceptErr(s.c)
    [] s.a = "opened" -> TOpened(s.c, s.addr)
    [] s.a = "open_fail" -> TOpenFail(s.c, IF "tr" \in DOMAIN s THEN s.tr ELSE "t")
    [] s.a = "inbound" -> TInbound(IF "tr" \in DOMAIN s THEN s.tr ELSE "t")
    [] s.a = "closed" -> ConnClosed(s.c)
    [] s.a = "in_drop" -> TInDrop(s.c)

SameCall(a, b) == /\ a.c = b.c /\ a.cid = b.cid /\ (a.c \in {"dial", "open"} => ToSet(a.addrs) = ToSet(b.addrs))
                  /\ (a.c = "accept" => a.ok = b.ok)
                  /\ (("tr" \in DOMAIN a /\ "tr" \in DOMAIN b) => a.tr = b.tr)
SameEvent(a, b) == /\ a.k = b.k /\ a.cid = b.cid
                   /\ (a.k \in {"dial_failure", "open_failure"} => ToSet(a.addrs) = ToSet(b.addrs))
                   /\ (a.k \in {"est", "closed", "proto_dial_failure"} => a.peer = b.peer)

TStepImpl ==
  LET r == Rec[l] IN
  /\ ImplAct(r.s)
  /\ out'.ret = r.ret
  \* calls are recorded per transport, so their order across transports is not observable
  /\ Len(out'.calls) = Len(r.calls)
  /\ \A i \in 1..Len(r.calls) : \E j \in 1..Len(r.calls) : SameCall(out'.calls[i], r.calls[j])
  /\ \A j \in 1..Len(r.calls) : \E i \in 1..Len(r.calls) : SameCall(out'.calls[i], r.calls[j])
  /\ Len(out'.events) = Len(r.events) /\ \A i \in 1..Len(r.events) : SameEvent(out'.events[i], r.events[i])
  /\ \A p \in Peers : ps'[p] = r.view[p]
  /\ pend' = ToSet(r.pend)
  /\ (MaxIn # NoLimit => limIn' = ToSet(r.lim.i))
  /\ (MaxOut # NoLimit => limOut' = ToSet(r.lim.o))

TStepProp ==
  LET r == Rec[l] IN
  \* a broken rule is reported, then forgiven (see ConnMgr!Forgive) so validation continues
  /\ LET m == MonEnd(FoldLeft(MonEvent, FoldLeft(MonCall, MonStim(mon, r.s), r.calls), r.events), r.ret, r.panic) IN
       /\ mon' = Forgive(m)
       /\ (m.bad # "" => PrintT(<<"BAD", l, m.bad>>))
  /\ UNCHANGED <<ps, pend, tx, cpeer, cdir, caddrs, otr, ctr, limIn, limOut, next, known, kf, hist, MaxIn, MaxOut, out>>

TQuiesce ==
  /\ Rec[l].e = "quiesce"
  /\ IF Mode = "impl" THEN UNCHANGED vars
     ELSE /\ LET m == MonQuiesce(mon) IN
               /\ mon' = Forgive(m)
               /\ (m.bad # "" => PrintT(<<"BAD", l, m.bad>>))
          /\ UNCHANGED <<ps, pend, tx, cpeer, cdir, caddrs, otr, ctr, limIn, limOut, next, known, kf, hist, MaxIn, MaxOut, out>>

TNext == /\ l <= Len(Rec)
         /\ l' = l + 1
         /\ \/ TReset
            \/ (Rec[l].e = "step" /\ IF Mode = "impl" THEN TStepImpl ELSE TStepProp)
            \/ TQuiesce

TSpec == TInit /\ [][TNext]_tvars

Accepted ==
  LET d == TLCGet("stats").diameter IN
  IF d - 1 = Len(Rec) THEN PrintT(<<"TRACE_OK", Len(Rec)>>)
  ELSE PrintT(<<"TRACE_REJECTED_AT", d>>) /\ FALSE
=============================================================================
