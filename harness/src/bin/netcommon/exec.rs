//! Seeded schedule-perturbing executor handed to `ConfigBuilder::with_executor`.
//!
//! Every future litep2p spawns (protocol loops, connection tasks, ...) is wrapped: before a poll
//! reaches the inner future the wrapper may, driven by a per-task seeded RNG, yield (wake itself
//! and return `Pending`) or sleep for a short random time.  This is a legal executor - polls may be
//! late on any loaded machine - and it widens the windows between "a task was woken" and "the
//! task runs", which is where the connection task / manager loop / protocol loop races live.
//! All tasks of a node can be aborted at once (`kill`) to model a crashed remote.
use super::Log;
use litep2p::executor::Executor;
use rand::{rngs::StdRng, Rng, SeedableRng};
use serde_json::json;
use std::{
    cell::Cell,
    future::Future,
    pin::Pin,
    sync::{
        atomic::{AtomicU64, Ordering},
        Mutex,
    },
    task::{Context, Poll},
    time::Duration,
};
use tokio::task::AbortHandle;

thread_local! {
    pub static IN_TASK: Cell<bool> = const { Cell::new(false) };
}

#[derive(Clone, Copy, Debug)]
pub struct Perturb {
    /// probability that a poll yields instead of polling the inner future
    pub yield_p: f64,
    /// probability that a poll first sleeps for a random time below `max_delay_us`
    pub delay_p: f64,
    pub max_delay_us: u64,
}

impl Perturb {
    pub const OFF: Perturb = Perturb { yield_p: 0.0, delay_p: 0.0, max_delay_us: 0 };
    pub fn level(l: u64) -> Perturb {
        match l {
            0 => Perturb::OFF,
            1 => Perturb { yield_p: 0.25, delay_p: 0.05, max_delay_us: 2_000 },
            2 => Perturb { yield_p: 0.3, delay_p: 0.25, max_delay_us: 10_000 },
            _ => Perturb { yield_p: 0.2, delay_p: 0.6, max_delay_us: 40_000 },
        }
    }
}

pub struct PerturbExecutor {
    seed: u64,
    ctr: AtomicU64,
    cfg: Perturb,
    tasks: Mutex<Vec<AbortHandle>>,
    log: Log,
    node: String,
}

impl PerturbExecutor {
    pub fn new(seed: u64, cfg: Perturb, log: Log, node: &str) -> Self {
        PerturbExecutor { seed, ctr: AtomicU64::new(0), cfg, tasks: Mutex::new(Vec::new()), log, node: node.to_string() }
    }

    /// Wrap and spawn a future belonging to this node.
    pub fn spawn(&self, future: Pin<Box<dyn Future<Output = ()> + Send>>) {
        let id = self.ctr.fetch_add(1, Ordering::Relaxed);
        let rng = StdRng::seed_from_u64(self.seed ^ id.wrapping_mul(0x9E37_79B9_7F4A_7C15));
        let h = tokio::spawn(Perturbed { inner: Some(future), rng, cfg: self.cfg, delay: None, log: self.log.clone(), node: self.node.clone() });
        let mut g = self.tasks.lock().unwrap();
        g.retain(|h| !h.is_finished());
        g.push(h.abort_handle());
    }

    /// Abort every task of the node (a crashed process: sockets close, nothing is reported).
    pub fn kill(&self) {
        for h in self.tasks.lock().unwrap().drain(..) {
            h.abort();
        }
    }

    pub fn live_tasks(&self) -> usize {
        self.tasks.lock().unwrap().iter().filter(|h| !h.is_finished()).count()
    }
}

impl Executor for PerturbExecutor {
    fn run(&self, future: Pin<Box<dyn Future<Output = ()> + Send>>) {
        self.spawn(future)
    }
    fn run_with_name(&self, _: &'static str, future: Pin<Box<dyn Future<Output = ()> + Send>>) {
        self.spawn(future)
    }
}

struct Perturbed {
    inner: Option<Pin<Box<dyn Future<Output = ()> + Send>>>,
    rng: StdRng,
    cfg: Perturb,
    delay: Option<Pin<Box<tokio::time::Sleep>>>,
    log: Log,
    node: String,
}

impl Perturbed {
    fn poll_inner(&mut self, cx: &mut Context<'_>) -> Poll<()> {
        let Some(inner) = self.inner.as_mut() else { return Poll::Ready(()) };
        IN_TASK.with(|c| c.set(true));
        let r = std::panic::catch_unwind(std::panic::AssertUnwindSafe(|| inner.as_mut().poll(cx)));
        IN_TASK.with(|c| c.set(false));
        match r {
            Ok(p) => p,
            Err(e) => {
                let msg = if let Some(s) = e.downcast_ref::<&str>() {
                    s.to_string()
                } else if let Some(s) = e.downcast_ref::<String>() {
                    s.clone()
                } else {
                    "panic".to_string()
                };
                self.log.push(json!({"e": "panic", "n": self.node, "msg": msg}));
                self.inner = None;
                Poll::Ready(())
            }
        }
    }
}

impl Future for Perturbed {
    type Output = ();
    fn poll(self: Pin<&mut Self>, cx: &mut Context<'_>) -> Poll<()> {
        let this = self.get_mut();
        if let Some(d) = this.delay.as_mut() {
            if d.as_mut().poll(cx).is_pending() {
                return Poll::Pending;
            }
            this.delay = None;
            return this.poll_inner(cx);
        }
        if this.cfg.yield_p > 0.0 || this.cfg.delay_p > 0.0 {
            let r: f64 = this.rng.gen();
            if r < this.cfg.yield_p {
                cx.waker().wake_by_ref();
                return Poll::Pending;
            }
            if r < this.cfg.yield_p + this.cfg.delay_p && this.cfg.max_delay_us > 0 {
                let us = this.rng.gen_range(0..this.cfg.max_delay_us);
                let mut s = Box::pin(tokio::time::sleep(Duration::from_micros(us)));
                if s.as_mut().poll(cx).is_pending() {
                    this.delay = Some(s);
                    return Poll::Pending;
                }
            }
        }
        this.poll_inner(cx)
    }
}
