------------------------------- MODULE KeepAlive -------------------------------
(***************************************************************************)
(* C09 - idle connections close after the keep-alive timeout, busy ones    *)
(* are kept.  Property-level monitor over timed observations of ONE node   *)
(* (the node whose keep-alive timeout T is under test):                    *)
(*   est(s, t0, t1)        connection s: t0 stamped before the dial began, *)
(*                         t1 after the node reported it established       *)
(*   open_begin(s, t, rem) a keep-alive protocol opens a substream (stamped *)
(*                         BEFORE the call; rem: the remote opens it)      *)
(*   open_ok(s, t, tb, rem) ... it exists now (stamped after; tb = begin)  *)
(*   open_fail(s, t)       ... the open ended without a substream          *)
(*   drop_begin(s, t)      the holder is about to drop it (stamped before) *)
(*   drop_done(s, t)       it is gone (stamped after)                      *)
(*   closed(s, t, by)      the connection ended; t stamped AFTER the end   *)
(*                         was noticed; by = "self" when the node under    *)
(*                         test ended it (nothing else can but idleness:   *)
(*                         no fault is injected, the remote's timeout is   *)
(*                         long), anything else is not judged              *)
(*   check(s, t)           the driver looked at time t                     *)
(* All times are integers (milliseconds for real runs, ticks*1000 in the   *)
(* model).  Stamping activity before and the close after means NotBefore   *)
(* can only err on the lenient side; Eventually has `slack`.               *)
(*                                                                         *)
(* Reading of the statement (most liberal): `activity` for NotBefore is    *)
(* the opening of a keep-alive substream (establishment counts as one);    *)
(* while a keep-alive substream exists or is being opened the connection   *)
(* is never closed by idleness; once nothing exists or is being opened and *)
(* T has elapsed since the end of the last activity (incl. the end of a    *)
(* hold) the connection must be closed within `slack`.  With Strict the    *)
(* end of a hold also counts as activity for NotBefore (the literal        *)
(* reading "T after the last such activity"); the code closes as soon as   *)
(* the last substream is dropped if T has elapsed since the last open, so  *)
(* Strict is reported as a note only.                                      *)
(***************************************************************************)
EXTENDS Naturals, Integers, Sequences, FiniteSets, TLC

Max2(a, b) == IF a >= b THEN a ELSE b

MonInit(T, slack, strict) == [T |-> T, slack |-> slack, strict |-> strict, c |-> <<>>, bad |-> "", bads |-> ""]

NewConn(t0, t1) == [lastAct |-> t0, idleSince |-> t1, held |-> 0, opening |-> 0, dropping |-> 0, ropening |-> 0, closed |-> FALSE, judged |-> TRUE]

Fail(M, s, why) == IF M.bad = "" THEN [M EXCEPT !.bad = why, !.bads = s] ELSE M

Known(M, r) == r.s \in DOMAIN M.c /\ M.c[r.s].judged

MonEv(M, r) ==
  IF r.e = "est" THEN [M EXCEPT !.c = (r.s :> NewConn(r.t0, r.t1)) @@ @]
  ELSE IF r.e \notin {"open_begin", "open_ok", "open_fail", "drop_begin", "drop_done", "closed", "check"} THEN M
  ELSE IF ~Known(M, r) THEN M
  ELSE LET s == r.s c == M.c[s] IN
  \* a local open call that was accepted is activity at once and the substream "is being opened" from then
  \* on; an open by the remote is only known to have reached the node when it succeeded (tb = the stamp
  \* taken before the remote's call), so it counts neither as activity nor as "being opened" before
  \* (while it is unresolved the node may or may not hold a permit for it: Eventually is not judged)
  CASE r.e = "open_begin" -> IF r.rem THEN [M EXCEPT !.c[s].ropening = @ + 1]
                             ELSE [M EXCEPT !.c[s].opening = @ + 1, !.c[s].lastAct = Max2(@, r.t)]
    [] r.e = "open_ok"    -> IF r.rem THEN [M EXCEPT !.c[s].ropening = @ - 1, !.c[s].held = @ + 1, !.c[s].lastAct = Max2(@, r.tb)]
                             ELSE [M EXCEPT !.c[s].opening = @ - 1, !.c[s].held = @ + 1]
    [] r.e = "open_fail"  -> IF r.rem THEN [M EXCEPT !.c[s].ropening = @ - 1, !.c[s].idleSince = Max2(@, r.t)]
                             ELSE [M EXCEPT !.c[s].opening = @ - 1, !.c[s].idleSince = Max2(@, r.t)]
    \* between drop_begin and drop_done the substream may or may not exist any more
    [] r.e = "drop_begin" -> [M EXCEPT !.c[s].held = @ - 1, !.c[s].dropping = @ + 1,
                                       !.c[s].lastAct = IF M.strict THEN Max2(@, r.t) ELSE @]
    [] r.e = "drop_done"  -> [M EXCEPT !.c[s].dropping = @ - 1, !.c[s].idleSince = Max2(@, r.t)]
    [] r.e = "closed" ->
         IF c.closed THEN M
         ELSE IF r.by # "self" THEN [M EXCEPT !.c[s].closed = TRUE, !.c[s].judged = FALSE]
         ELSE LET M1 == [M EXCEPT !.c[s].closed = TRUE] IN
              IF c.held + c.opening > 0
                THEN Fail(M1, s, "closed by idleness while a keep-alive substream exists or is being opened")
              ELSE IF r.t - c.lastAct < M.T
                THEN Fail(M1, s, "closed earlier than the keep-alive timeout after the last keep-alive activity")
              ELSE IF c.dropping = 0 /\ c.ropening = 0 /\ r.t - c.idleSince > M.T + M.slack
                THEN Fail(M1, s, "closed later than the keep-alive timeout plus slack after the connection became idle")
              ELSE M1
    [] r.e = "check" ->
         IF ~c.closed /\ c.held = 0 /\ c.opening = 0 /\ c.dropping = 0 /\ c.ropening = 0 /\ r.t - c.idleSince > M.T + M.slack
           THEN Fail(M, s, "idle connection still open after the keep-alive timeout plus slack")
           ELSE M
    [] OTHER -> M

\* report once per connection, keep judging the others
Forgive(M) == IF M.bad = "" THEN M ELSE [M EXCEPT !.bad = "", !.bads = "", !.c[M.bads].judged = FALSE]
=============================================================================
