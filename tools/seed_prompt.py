#!/usr/bin/env python3
"""Prepare a seeded-change job: scratch worktree of /repo under /tmp/mut/<id> (with a copy of
/repo/target so builds are incremental) and the prompt for a fresh agent that sees only the
property text.  usage: seed_prompt.py <id> <prop> '<tests>' '<extra>'  -> prints prompt path.
The prompt template lives next to this file (seed_prompt_template.txt); nothing from /verif is
shown to the agent except the property statement."""
import json, os, subprocess, sys

HERE = os.path.dirname(os.path.abspath(__file__))


def main():
    mid, pid, tests, extra = sys.argv[1:5]
    root = "/tmp/mut"
    os.makedirs(root, exist_ok=True)
    wt = f"{root}/{mid}"
    if not os.path.isdir(wt):
        subprocess.check_call(["git", "-C", "/repo", "worktree", "add", "-q", "--detach", wt, "HEAD"])
        if os.path.isdir("/repo/target"):
            subprocess.check_call(["cp", "-r", "/repo/target", f"{wt}/target"])
    props = {json.loads(l)["id"]: json.loads(l) for l in open(f"{HERE}/../properties.jsonl")}
    p = props[pid]
    prop = (f"Title: {p['title']}\nStatement: {p['statement']}\nQuantifier: {p['quantifier']['text']}\n"
            f"Relevant files: {', '.join(p['anchors']['files'])}")
    t = open(f"{HERE}/seed_prompt_template.txt").read()
    t = t.replace("@ID@", mid).replace("@PROP@", prop).replace("@TESTS@", tests).replace("@EXTRA@", extra)
    out = f"{root}/prompt_{mid}.txt"
    open(out, "w").write(t)
    print(out)


if __name__ == "__main__":
    main()
