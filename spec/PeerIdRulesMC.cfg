SPECIFICATION Spec
CONSTANTS
  FirstP2p = FALSE
  AppendIfNone = FALSE
INVARIANTS DerivedIdParses TableConsistent MaddrRule RecordNewRule
CHECK_DEADLOCK FALSE
