------------------------------ MODULE KadOpsMC ------------------------------
(***************************************************************************)
(* Implementation-shaped model of the orchestration in                     *)
(* src/protocol/libp2p/kademlia/mod.rs around the query engine:            *)
(*   on_query_action (SendMessage, PutRecordToFoundNodes,                  *)
(*   AddProviderToFoundNodes, terminal actions), open_substream_or_dial,   *)
(*   pending_dials, pending_substreams, peers[..].pending_actions,         *)
(*   on_connection_established, on_dial_failure, on_outbound_substream,    *)
(*   on_substream_open_failure, disconnect_peer and the executor results.  *)
(*                                                                         *)
(* The query engine is abstracted to its guarantee (property C15, checked  *)
(* elsewhere): a lookup ends once it has no candidate left and every       *)
(* contacted peer has been answered or reported failed; the send phase     *)
(* (PutToTargetPeersContext) ends once every target has been reported.     *)
(* So every failure path of the orchestration must feed the engine.        *)
(*                                                                         *)
(* The environment (transport manager, connections, remote peers) is       *)
(* explicit nondeterminism:                                                *)
(*   open_substream_or_dial -> substream being opened / dial started /     *)
(*     immediate error (no address, AlreadyConnected + failed retry,       *)
(*     refused); a dial accepted by the handle but refused inside the      *)
(*     manager (outgoing limit) is reported as a DialFailure since commit  *)
(*     7c774cf of /repo, i.e. it is "dial started" followed by DialFail    *)
(*     (the old behaviour - silently dropped - is the seeded mutation      *)
(*     Mut = "hdial_dropped");                                             *)
(*   then dial failure / established, substream opened / failed,           *)
(*   send ok / fail, read ok / fail / timeout, connection closed.          *)
(* link[p] separates the manager's view from what Kademlia has been told:  *)
(*   down, dialing, estp (established, event not yet delivered), up,       *)
(*   closedp (closed, ConnectionClosed not yet delivered),                 *)
(*   limbo (only with the seeded mutation Mut = "limit_reject_silent", the *)
(*   behaviour before commit 6dd408e of /repo: the negotiated connection   *)
(*   is refused by the outgoing limit and the manager reports nothing;     *)
(*   since that commit the refusal is a DialFailure, i.e. DialFail).       *)
(*                                                                         *)
(* Defect paths of the code before /repo commit f6b26d6 (an Err of         *)
(* open_substream_or_dial ignored in the send phase; the open-substream    *)
(* error branch of on_connection_established reporting FIND_NODE actions   *)
(* only) set a tag in kf (as in ConnMgrMC) when their tag is not in        *)
(* `Fixed`.  The checked configuration is Fixed = AllTags (the code as it  *)
(* is now) with the strict invariants; Fixed = {} is the negative          *)
(* configuration of the self-test.                                         *)
(***************************************************************************)
EXTENDS KadOps, FiniteSetsExt, Json

CONSTANTS Peers,      \* target peers, e.g. {"p1","p2","p3"}
          Qs,         \* query ids the user may issue, e.g. {1}
          Kinds,      \* operation kinds explored
          Quorums,    \* subset of {"one","n2","all"}
          Roles,      \* roles a peer may take ("any" = unconstrained environment)
          Fixed,      \* known-defect tags modelled as repaired
          Limit,      \* the local node may be at its outgoing connection limit
          Inbound,    \* remote peers may connect to / open substreams on the local node
          Discover,   \* lookup responses may name further peers
          Mut         \* "none" or the name of a seeded model mutation (negative configs)

VARIABLES role,    \* peer -> role
          link,    \* peer -> connection state (see above)
          redial,  \* peer -> a dial was accepted while in closedp
          pctx,    \* peer -> entry in Kademlia.peers exists
          pdials,  \* peer -> set of [q,k]: Kademlia.pending_dials
          pacts,   \* peer -> set of [q,k]: Kademlia.peers[p].pending_actions
          osub,    \* substreams being opened: set of [p,q,k,tr]; tr = entry in pending_substreams
          ex,      \* executor futures in flight: set of [p,q,k]
          eng,     \* q -> abstract query engine state
          qc,      \* q -> [kind, quorum]
          mon,     \* property monitor (KadOps!Mon*)
          kf       \* tags of known-defect paths taken

vars == <<role, link, redial, pctx, pdials, pacts, osub, ex, eng, qc, mon, kf>>

None == 0
AllTags == {"put-target-error-ignored", "est-open-substream-err-unreported"}
NoFixed == {}
AllRoles == {"any", "healthy", "undialable", "noaddr", "silent", "nokad", "dropafter"}
AnyOnly == {"any"}
AnyNoAddr == {"any", "noaddr"}

Idle == [ph |-> "idle", cand |-> {}, pend |-> {}, resp |-> {}, failed |-> {}, tpend |-> {}, succ |-> 0, need |-> 0]

Init ==
  /\ role \in [Peers -> Roles]
  /\ link = [p \in Peers |-> "down"]
  /\ redial = [p \in Peers |-> FALSE]
  /\ pctx = [p \in Peers |-> FALSE]
  /\ pdials = [p \in Peers |-> {}]
  /\ pacts = [p \in Peers |-> {}]
  /\ osub = {} /\ ex = {}
  /\ eng = [q \in Qs |-> Idle]
  /\ qc \in [Qs -> [kind : Kinds, quorum : Quorums]]
  /\ \A q \in Qs : qc[q].kind \in PutKinds \/ qc[q].quorum = CHOOSE x \in Quorums : TRUE
  /\ mon = MonInit
  /\ kf = {}

PK(q) == IF qc[q].kind = "provide" THEN "prov" ELSE "put"
MonQuorum(x) == IF x = "n2" THEN "n" ELSE x

\* PutToTargetPeersContext::new
NeedOf(quorum, len) ==
  CASE quorum = "one" -> 1
    [] quorum = "all" -> MaxN(len, 1)
    [] OTHER -> MinN(2, MaxN(len, 1))

-----------------------------------------------------------------------------
(* Query engine (abstract)                                                  *)

\* register_send_failure + register_response_failure for (q,p)
RegFailQ(E, q, p) ==
  IF E[q].ph = "lookup" THEN [E EXCEPT ![q].pend = @ \ {p}, ![q].failed = @ \cup ({p} \cap E[q].pend)]
  ELSE IF E[q].ph = "track" THEN [E EXCEPT ![q].tpend = @ \ {p}]
  ELSE E
RegFailSet(E, QS, p) == [q \in Qs |-> IF q \in QS THEN RegFailQ(E, q, p)[q] ELSE E[q]]

\* register_send_success
RegSendOkQ(E, q, p) ==
  IF E[q].ph = "track" /\ p \in E[q].tpend THEN [E EXCEPT ![q].tpend = @ \ {p}, ![q].succ = @ + 1] ELSE E

Seen(E, q) == E[q].cand \cup E[q].pend \cup E[q].resp \cup E[q].failed
\* register_response
RegRespQ(E, q, p, newc) ==
  IF E[q].ph = "lookup" /\ p \in E[q].pend
    THEN [E EXCEPT ![q].pend = @ \ {p}, ![q].resp = @ \cup {p}, ![q].cand = @ \cup newc]
    ELSE E

\* Kademlia::disconnect_peer(p, query): new engine state
\* (seeded mutation "ctx_gone_no_report": the function returns before telling the engine when the
\* peer's context has already been removed by an earlier disconnect of the same peer)
Disconnect(E, p, qopt) ==
  IF Mut = "ctx_gone_no_report" /\ ~pctx[p] THEN E ELSE
  RegFailSet(E, (IF qopt # None THEN {qopt} ELSE {}) \cup (IF pctx[p] THEN {a.q : a \in pacts[p]} ELSE {}), p)

Terminal(E, q, ok) ==
  /\ eng' = [E EXCEPT ![q].ph = IF Mut = "double_terminal" /\ E[q].ph = "track" THEN "track" ELSE "done"]
  /\ mon' = MonTerm(mon, q, ok)

-----------------------------------------------------------------------------
(* open_substream_or_dial                                                   *)

OODChoices(p) ==
  CASE link[p] = "up" -> {"sub"}
    [] link[p] = "closedp" -> {"sub", "dial", "err"} \cup (IF Mut = "hdial_dropped" THEN {"dialdrop"} ELSE {})
    [] link[p] = "dialing" -> {"dial"}
    [] link[p] = "estp" -> {"err"}      \* AlreadyConnected, second open_substream fails too
    [] OTHER -> IF role[p] = "noaddr" THEN {"err"}
                ELSE {"dial"} \cup (IF Mut = "hdial_dropped" THEN {"dialdrop"} ELSE {})
                              \cup (IF role[p] = "any" THEN {"err"} ELSE {})

ApplyOOD(S, f, a, tags) ==
  /\ link' = [p \in Peers |-> IF p \in S /\ f[p] = "dial" /\ link[p] = "down" THEN "dialing" ELSE link[p]]
  /\ redial' = [p \in Peers |-> IF p \in S /\ f[p] = "dial" /\ link[p] = "closedp" THEN TRUE ELSE redial[p]]
  /\ pdials' = [p \in Peers |-> IF p \in S /\ f[p] \in {"dial", "dialdrop"} THEN pdials[p] \cup {a} ELSE pdials[p]]
  /\ pacts' = [p \in Peers |-> IF p \in S /\ f[p] = "sub" THEN pacts[p] \cup {a} ELSE pacts[p]]
  /\ pctx' = [p \in Peers |-> IF p \in S /\ f[p] = "sub" THEN TRUE ELSE pctx[p]]
  /\ osub' = osub \cup {[p |-> p, q |-> a.q, k |-> a.k, tr |-> TRUE] : p \in {x \in S : f[x] = "sub"}}
  /\ kf' = kf \cup tags

-----------------------------------------------------------------------------
(* User commands and engine actions handled by on_query_action              *)

Start(q) ==
  /\ eng[q].ph = "idle"
  /\ UNCHANGED <<role, link, redial, pctx, pdials, pacts, osub, ex, qc, kf>>
  /\ LET M1 == MonCmd(mon, q, qc[q].kind, MonQuorum(qc[q].quorum), 2, -1) IN
     IF qc[q].kind = "put_to" THEN
          \E T \in SUBSET Peers : /\ eng' = [eng EXCEPT ![q] = [Idle EXCEPT !.ph = "found", !.resp = T]]
                                  /\ mon' = M1
     ELSE \/ \E C \in SUBSET Peers : /\ eng' = [eng EXCEPT ![q] = [Idle EXCEPT !.ph = "lookup", !.cand = C]]
                                     /\ mon' = M1
          \/ \* GetRecord, Quorum::One and a local record: answered at once, no engine query
             /\ qc[q].kind = "get"
             /\ eng' = [eng EXCEPT ![q].ph = "done"]
             /\ mon' = MonTerm(M1, q, TRUE)

\* QueryAction::SendMessage
Schedule(q, p) ==
  /\ eng[q].ph = "lookup" /\ p \in eng[q].cand
  /\ \E r \in OODChoices(p) :
       LET E1 == [eng EXCEPT ![q].cand = @ \ {p}, ![q].pend = @ \cup {p}] IN
       /\ ApplyOOD({p}, [x \in {p} |-> r], [q |-> q, k |-> "find"], {})
       /\ eng' = IF r = "err" THEN RegFailQ(E1, q, p) ELSE E1
  /\ UNCHANGED <<role, ex, qc, mon>>

LookupDone(q) ==
  /\ eng[q].ph = "lookup" /\ eng[q].cand = {} /\ eng[q].pend = {}
  /\ UNCHANGED <<role, link, redial, pctx, pdials, pacts, osub, ex, qc, kf>>
  /\ IF eng[q].resp = {} THEN Terminal(eng, q, FALSE)
     ELSE IF qc[q].kind = "find_node" THEN Terminal(eng, q, TRUE)
     ELSE IF qc[q].kind \in {"get", "get_providers"} THEN \E ok \in BOOLEAN : Terminal(eng, q, ok)
     ELSE eng' = [eng EXCEPT ![q].ph = "found"] /\ mon' = mon

\* GetRecord: enough records found while requests are still outstanding
GetEarly(q) ==
  /\ qc[q].kind = "get" /\ eng[q].ph = "lookup" /\ eng[q].resp # {}
  /\ UNCHANGED <<role, link, redial, pctx, pdials, pacts, osub, ex, qc, kf>>
  /\ Terminal(eng, q, TRUE)

\* QueryAction::PutRecordToFoundNodes / AddProviderToFoundNodes
ToFound(q) ==
  /\ eng[q].ph = "found"
  /\ LET S == eng[q].resp
         a == [q |-> q, k |-> PK(q)] IN
     \E f \in [S -> {"sub", "dial", "dialdrop", "err"}] :
        /\ \A p \in S : f[p] \in OODChoices(p)
        /\ LET errs == {p \in S : f[p] = "err"}
               fixed == "put-target-error-ignored" \in Fixed IN
           /\ ApplyOOD(S, f, a, IF errs # {} /\ ~fixed THEN {"put-target-error-ignored"} ELSE {})
           /\ eng' = [eng EXCEPT ![q].ph = "track", ![q].tpend = IF fixed THEN S \ errs ELSE S,
                                 ![q].succ = 0, ![q].need = NeedOf(qc[q].quorum, Cardinality(S))]
           /\ mon' = MonTargets(mon, q, Cardinality(S))
  /\ UNCHANGED <<role, ex, qc>>

TrackDone(q) ==
  /\ eng[q].ph = "track" /\ eng[q].tpend = {}
  /\ UNCHANGED <<role, link, redial, pctx, pdials, pacts, osub, ex, qc, kf>>
  /\ Terminal(eng, q, IF Mut = "quorum_off_by_one" THEN eng[q].succ + 1 >= eng[q].need ELSE eng[q].succ >= eng[q].need)

-----------------------------------------------------------------------------
(* Transport events                                                         *)

CanEst(p) == role[p] \in {"any", "healthy", "silent", "nokad", "dropafter"}
\* a dial refused inside the manager (outgoing limit) is reported as a dial failure too
CanDialFail(p) == role[p] \in {"any", "undialable"} \/ Limit
CanSubOpen(p) == role[p] \in {"any", "healthy", "silent", "dropafter"}
CanSubFail(p) == role[p] \in {"any", "nokad", "dropafter"} \/ link[p] # "up"
CanExOk(p, k) == role[p] \in {"any", "healthy", "dropafter"} \/ (role[p] = "silent" /\ k # "find")
CanExFail(p, k) == role[p] \in {"any", "dropafter"} \/ (role[p] = "silent" /\ k = "find") \/ link[p] # "up"

\* TransportEvent::DialFailure -> on_dial_failure
DialFail(p) ==
  /\ link[p] = "dialing" /\ CanDialFail(p)
  /\ link' = [link EXCEPT ![p] = "down"]
  /\ pdials' = [pdials EXCEPT ![p] = {}]
  /\ eng' = IF Mut = "dialfail_no_report" THEN eng ELSE RegFailSet(eng, {a.q : a \in pdials[p]}, p)
  /\ UNCHANGED <<role, redial, pctx, pacts, osub, ex, qc, mon, kf>>

\* seeded mutation (the manager before commit 6dd408e): two dials in flight, the outgoing limit is
\* reached by the first connection, the second negotiated connection is rejected and nothing is reported
DialRejectedByLimit(p) ==
  /\ Limit /\ Mut = "limit_reject_silent"
  /\ link[p] = "dialing" /\ CanEst(p)
  /\ \E o \in Peers \ {p} : link[o] \in {"estp", "up"}
  /\ link' = [link EXCEPT ![p] = "limbo"]
  /\ UNCHANGED <<role, redial, pctx, pdials, pacts, osub, ex, eng, qc, mon, kf>>

\* the manager sees the connection; Kademlia's event is in flight
DialOk(p) ==
  /\ link[p] = "dialing" /\ CanEst(p)
  /\ link' = [link EXCEPT ![p] = "estp"]
  /\ UNCHANGED <<role, redial, pctx, pdials, pacts, osub, ex, eng, qc, mon, kf>>

InboundEst(p) ==
  /\ Inbound /\ link[p] = "down" /\ CanEst(p)
  /\ link' = [link EXCEPT ![p] = "estp"]
  /\ UNCHANGED <<role, redial, pctx, pdials, pacts, osub, ex, eng, qc, mon, kf>>

\* the open_substream error branch of on_connection_established for the actions Fs: since /repo commit f6b26d6
\* the owning query of every action is told (send and response failure).  Before, only FIND_NODE style actions
\* were (tag); the seeded mutation registers the send failure only, which lookups ignore.
EstOpenErr(p, Fs) ==
  LET lost == {a \in Fs : a.k # "find"}
      fixed == "est-open-substream-err-unreported" \in Fixed
      told == IF Mut = "est_open_err_send_failure_only" THEN {a \in Fs : a.k # "find"}
              ELSE {a \in Fs : a.k = "find" \/ fixed} IN
  /\ eng' = RegFailSet(eng, {a.q : a \in told}, p)
  /\ kf' = IF lost # {} /\ ~fixed THEN kf \cup {"est-open-substream-err-unreported"} ELSE kf

\* TransportEvent::ConnectionEstablished -> on_connection_established
DeliverEst(p) ==
  /\ link[p] = "estp"
  /\ UNCHANGED <<role, redial, ex, qc, mon>>
  /\ \/ /\ link' = [link EXCEPT ![p] = "up"]
        /\ IF pctx[p] THEN
                \* Entry::Occupied: pending dials are left alone
                /\ kf' = IF pdials[p] # {} THEN kf \cup {"est-peer-occupied"} ELSE kf
                /\ UNCHANGED <<pctx, pdials, pacts, osub, eng>>
           ELSE IF pdials[p] = {} THEN UNCHANGED <<pctx, pdials, pacts, osub, eng, kf>>
           ELSE /\ pctx' = [pctx EXCEPT ![p] = TRUE]
                /\ pacts' = [pacts EXCEPT ![p] = pdials[p]]
                /\ pdials' = [pdials EXCEPT ![p] = {}]
                \* these substream ids are NOT entered into pending_substreams
                /\ osub' = osub \cup {[p |-> p, q |-> a.q, k |-> a.k, tr |-> FALSE] : a \in pdials[p]}
                /\ UNCHANGED <<eng, kf>>
     \/ \* the connection is already closing when the event is handled: open_substream fails
        /\ role[p] \in {"any", "dropafter"} /\ ~pctx[p] /\ pdials[p] # {}
        /\ link' = [link EXCEPT ![p] = "closedp"]
        /\ pctx' = [pctx EXCEPT ![p] = TRUE]
        /\ pdials' = [pdials EXCEPT ![p] = {}]
        /\ EstOpenErr(p, pdials[p])
        /\ UNCHANGED <<pacts, osub>>
     \/ \* the connection is fine but open_substream fails for some of the waiting actions (ChannelClogged: more
        \* actions were waiting for the dial than the connection's command channel holds)
        /\ role[p] = "any" /\ ~pctx[p]
        /\ \E Fs \in (SUBSET pdials[p]) \ {{}} :
             /\ Fs # pdials[p]
             /\ link' = [link EXCEPT ![p] = "up"]
             /\ pctx' = [pctx EXCEPT ![p] = TRUE]
             /\ pacts' = [pacts EXCEPT ![p] = pdials[p] \ Fs]
             /\ pdials' = [pdials EXCEPT ![p] = {}]
             /\ osub' = osub \cup {[p |-> p, q |-> a.q, k |-> a.k, tr |-> FALSE] : a \in pdials[p] \ Fs}
             /\ EstOpenErr(p, Fs)

\* the connection ends (remote closed, keep-alive, node died); ConnectionClosed is in flight
ConnClose(p) ==
  /\ link[p] = "up"
  /\ link' = [link EXCEPT ![p] = "closedp"]
  /\ UNCHANGED <<role, redial, pctx, pdials, pacts, osub, ex, eng, qc, mon, kf>>

\* TransportEvent::ConnectionClosed -> disconnect_peer(p, None)
DeliverClosed(p) ==
  /\ link[p] = "closedp"
  /\ link' = [link EXCEPT ![p] = IF redial[p] THEN "dialing" ELSE "down"]
  /\ redial' = [redial EXCEPT ![p] = FALSE]
  /\ eng' = IF Mut = "closed_no_report" THEN eng ELSE Disconnect(eng, p, None)
  /\ pctx' = [pctx EXCEPT ![p] = FALSE]
  /\ pacts' = [pacts EXCEPT ![p] = {}]
  /\ UNCHANGED <<role, pdials, osub, ex, qc, mon, kf>>

\* inbound substream: self.peers.entry(peer).or_default()
InSub(p) ==
  /\ Inbound /\ link[p] = "up" /\ ~pctx[p]
  /\ pctx' = [pctx EXCEPT ![p] = TRUE]
  /\ UNCHANGED <<role, link, redial, pdials, pacts, osub, ex, eng, qc, mon, kf>>

\* TransportEvent::SubstreamOpened (outbound) -> on_outbound_substream
SubOpened(s) ==
  /\ s \in osub /\ link[s.p] = "up" /\ CanSubOpen(s.p)
  /\ osub' = osub \ {s}
  /\ LET a == [q |-> s.q, k |-> s.k] IN
     IF pctx[s.p] /\ a \in pacts[s.p] THEN
          /\ pacts' = [pacts EXCEPT ![s.p] = @ \ {a}]
          /\ ex' = IF s.k # "find" \/ (eng[s.q].ph = "lookup" /\ s.p \in eng[s.q].pend)
                     THEN ex \cup {[p |-> s.p, q |-> s.q, k |-> s.k]} ELSE ex
     ELSE UNCHANGED <<pacts, ex>>
  /\ UNCHANGED <<role, link, redial, pctx, pdials, eng, qc, mon, kf>>

\* TransportEvent::SubstreamOpenFailure -> on_substream_open_failure
SubFail(s) ==
  /\ s \in osub /\ CanSubFail(s.p)
  /\ osub' = osub \ {s}
  /\ LET a == [q |-> s.q, k |-> s.k] IN
     IF s.tr /\ pctx[s.p] THEN
          /\ eng' = Disconnect(eng, s.p, IF a \in pacts[s.p] THEN s.q ELSE None)
          /\ pctx' = [pctx EXCEPT ![s.p] = FALSE]
          /\ pacts' = [pacts EXCEPT ![s.p] = {}]
     ELSE UNCHANGED <<eng, pctx, pacts>>
  /\ UNCHANGED <<role, link, redial, pdials, ex, qc, mon, kf>>

\* the connection went away and the open attempt is never reported
SubVanish(s) ==
  /\ s \in osub /\ link[s.p] \in {"down", "dialing", "estp"}
  /\ osub' = osub \ {s}
  /\ UNCHANGED <<role, link, redial, pctx, pdials, pacts, ex, eng, qc, mon, kf>>

-----------------------------------------------------------------------------
(* Executor results                                                         *)

\* ReadSuccess of a FIND_NODE / GET_VALUE / GET_PROVIDERS exchange
ExFindOk(x) ==
  /\ x \in ex /\ x.k = "find" /\ CanExOk(x.p, x.k)
  /\ ex' = ex \ {x}
  /\ \E newc \in SUBSET (IF Discover THEN Peers \ Seen(eng, x.q) ELSE {}) :
       eng' = RegRespQ(RegSendOkQ(eng, x.q, x.p), x.q, x.p, newc)
  /\ UNCHANGED <<role, link, redial, pctx, pdials, pacts, osub, qc, mon, kf>>

\* SendSuccess / AssumeSendSuccess (after a completed write) of PUT_VALUE / ADD_PROVIDER
ExSendOk(x) ==
  /\ x \in ex /\ x.k # "find" /\ CanExOk(x.p, x.k)
  /\ ex' = ex \ {x}
  /\ mon' = MonSent(mon, x.q, x.p)
  /\ eng' = RegSendOkQ(eng, x.q, x.p)
  /\ UNCHANGED <<role, link, redial, pctx, pdials, pacts, osub, qc, kf>>

\* seeded mutation: success assumed although the write failed
ExAssumeUnsent(x) ==
  /\ Mut = "assume_without_send" /\ x \in ex /\ x.k = "put"
  /\ ex' = ex \ {x}
  /\ eng' = RegSendOkQ(eng, x.q, x.p)
  /\ UNCHANGED <<role, link, redial, pctx, pdials, pacts, osub, qc, mon, kf>>

\* SendFailure / ReadFailure (closed or 15 s timeout) -> disconnect_peer(p, q)
ExFail(x) ==
  /\ x \in ex /\ CanExFail(x.p, x.k)
  /\ ex' = ex \ {x}
  /\ eng' = Disconnect(eng, x.p, IF Mut = "exfail_no_report" THEN None ELSE x.q)
  /\ pctx' = [pctx EXCEPT ![x.p] = FALSE]
  /\ pacts' = [pacts EXCEPT ![x.p] = {}]
  /\ UNCHANGED <<role, link, redial, pdials, osub, qc, mon, kf>>

Next ==
  \/ \E q \in Qs : Start(q) \/ LookupDone(q) \/ GetEarly(q) \/ ToFound(q) \/ TrackDone(q)
                   \/ (\E p \in Peers : Schedule(q, p))
  \/ \E p \in Peers : DialFail(p) \/ DialOk(p) \/ DialRejectedByLimit(p) \/ InboundEst(p) \/ DeliverEst(p) \/ ConnClose(p)
                      \/ DeliverClosed(p) \/ InSub(p)
  \/ \E s \in osub : SubOpened(s) \/ SubFail(s) \/ SubVanish(s)
  \/ \E x \in ex : ExFindOk(x) \/ ExSendOk(x) \/ ExAssumeUnsent(x) \/ ExFail(x)

Spec == Init /\ [][Next]_vars

-----------------------------------------------------------------------------
(* Properties                                                               *)

Stuck(q) == \/ eng[q].ph \in {"idle", "done"}
            \/ (eng[q].ph = "lookup" /\ eng[q].cand = {} /\ eng[q].pend # {})
            \/ (eng[q].ph = "track" /\ eng[q].tpend # {})
\* nothing outstanding anywhere: every connection has ended (idle connections are closed by the
\* keep-alive timeout), no dial / substream / executor future is in flight, the engine is drained
Quiescent == /\ \A p \in Peers : link[p] \in {"down", "limbo"}
             /\ osub = {} /\ ex = {}
             /\ \A q \in Qs : Stuck(q)

Tagged == kf # {}
\* C16 as seen by the monitor: exactly one terminal event, never a second one
MonOK == ~Tagged => mon.bad = ""
\* [](started => <>terminal) as a quiescence obligation + success only with the quorum
QuiesceOK == (~Tagged /\ Quiescent) => MonQuiesce(mon).bad = ""
\* the same without excusing the known-defect paths (used by the negative configuration)
QuiesceStrict == Quiescent => MonQuiesce(mon).bad = ""
MonStrict == mon.bad = ""

\* `owed` ledger: whoever the engine still waits for is carried by something that will report
Carrier(q, p, k) ==
  LET a == [q |-> q, k |-> k] IN
  \/ (a \in pdials[p] /\ (link[p] \in {"dialing"} \/ (link[p] = "estp" /\ ~pctx[p]) \/ (link[p] = "closedp" /\ redial[p])))
  \/ (a \in pacts[p] /\ pctx[p] /\ link[p] \in {"up", "closedp"})
  \/ [p |-> p, q |-> q, k |-> k] \in ex
Owed == {<<q, p>> \in Qs \X Peers : (eng[q].ph = "lookup" /\ p \in eng[q].pend) \/ (eng[q].ph = "track" /\ p \in eng[q].tpend)}
OwedCovered == ~Tagged => \A o \in Owed : Carrier(o[1], o[2], IF eng[o[1]].ph = "lookup" THEN "find" ELSE PK(o[1]))
OwedStrict == \A o \in Owed : Carrier(o[1], o[2], IF eng[o[1]].ph = "lookup" THEN "find" ELSE PK(o[1]))

Shape == \A p \in Peers : (~pctx[p] => pacts[p] = {})

-----------------------------------------------------------------------------
(* Fault placements for the runs on real nodes: one line per initial state  *)
(* (role of every target peer x operation kind x quorum).                   *)
PlacementRoles == AllRoles \ {"any"}
GenInit == Init /\ PrintT(<<"B", ToJson([roles |-> [p \in Peers |-> role[p]], ops |-> qc])>>)
GenNext == FALSE /\ UNCHANGED vars
=============================================================================
