#!/usr/bin/env python3
"""Scratch-copy experiments for C03 / C04 (never touches /repo or the shared harness target dir).

A copy of /repo and of the harness crate lives under /root/scratch_bp (outside /repo and /verif, removable at
any time).  A *variant* = a list of exact-text replacements in the copied litep2p sources: either a source
mutation the check is expected to catch (or documented to miss), or the proposed fixes for the C04 findings.
The property's real check (`tools/c03.py` / `tools/c04.py`) is then run against the harness built from the copy,
with evidence / replays / known-findings redirected into the scratch area.

  python3 tools/bytepipe_util.py setup                 # (re)create the copies, cold build
  python3 tools/bytepipe_util.py run C04 fixes [tier]  # one variant
  python3 tools/bytepipe_util.py all C03 [tier]        # every variant of a property, prints a table
"""
import importlib
import os
import shutil
import subprocess
import sys

HERE = os.path.dirname(os.path.abspath(__file__))
sys.path.insert(0, HERE)
import vlib  # noqa: E402

SCRATCH = "/root/scratch_bp"
MS = "src/multistream_select/"
SUB = "src/substream/mod.rs"

# name -> (expected outcome, [(file, old, new)])   expected: "caught" | "missed" | "held"
VARIANTS = {
    "C03": {
        "listener-confirms-unsupported": ("caught", [(MS + "listener_select.rs",
            "                                if &p == proto {\n", "                                if true {\n")]),
        "dialer-stops-after-first-na": ("caught", [(MS + "dialer_select.rs",
            "                            let protocol = this.protocols.next().ok_or(NegotiationError::Failed)?;\n                            *this.state = State::SendProtocol {",
            "                            return Poll::Ready(Err(NegotiationError::Failed));\n                            #[allow(unreachable_code)]\n                            let protocol = this.protocols.next().ok_or(NegotiationError::Failed)?;\n                            *this.state = State::SendProtocol {")]),
        "lazy-settles-on-first-of-many": ("caught", [(MS + "dialer_select.rs",
            "                    if this.protocols.peek().is_some() {\n", "                    if this.protocols.peek().is_some() && *this.version == Version::V1 {\n")]),
        "webrtc-listener-header-flag-inverted": ("caught", [(MS + "listener_select.rs",
            "        Message::Protocol(protocol) if header_received => (protocol, false),", "        Message::Protocol(protocol) if !header_received => (protocol, false),")]),
        "lazy-app-data-before-negotiation-frames": ("caught", [(MS + "length_delimited.rs",
            "        // We need to flush any data previously written with the `LengthDelimited`.\n        match LengthDelimited::poll_write_buffer(this.as_mut(), cx) {\n            Poll::Ready(Ok(())) => {}\n            Poll::Ready(Err(err)) => return Poll::Ready(Err(err)),\n            Poll::Pending => return Poll::Pending,\n        }\n        debug_assert!(this.write_buffer.is_empty());\n\n        this.project().inner.poll_write(cx, buf)",
            "        this.project().inner.poll_write(cx, buf)")]),
        "frame-reader-reads-two-length-bytes": ("caught", [(MS + "length_delimited.rs",
            "                    match this.inner.as_mut().poll_read(cx, &mut buf[*pos..*pos + 1]) {",
            "                    match this.inner.as_mut().poll_read(cx, &mut buf[*pos..]) {"),
            (MS + "length_delimited.rs", "                            debug_assert_eq!(n, 1);\n", "")]),
        "dialer-accepts-any-confirmation": ("missed", [(MS + "dialer_select.rs",
            "                        Message::Protocol(ref p) if p.as_ref() == protocol.as_ref() => {",
            "                        Message::Protocol(ref p) if !p.as_ref().is_empty() => {")]),
    },
    "C04": {
        "fixes": ("held", [
            (SUB, "                    let mut read_buf =\n                        ReadBuf::new(&mut this.read_buffer[this.offset..payload_size]);",
                  "                    if this.read_buffer.len() < payload_size {\n                        this.read_buffer.resize(payload_size, 0u8);\n                    }\n                    let mut read_buf =\n                        ReadBuf::new(&mut this.read_buffer[this.offset..payload_size]);"),
            (SUB, "                Poll::Pending => {\n                    self.pending_out_frame = Some(pending_frame);\n                    break;\n                }",
                  "                Poll::Pending => {\n                    self.pending_out_frame = Some(pending_frame);\n                    return Poll::Pending;\n                }"),
            (SUB, "                                                this.offset = 0;\n                                                // Handle empty payloads detected as 0-length frame.",
                  "                                                if size > isize::MAX as usize {\n                                                    return Poll::Ready(Some(Err(\n                                                        SubstreamError::ReadFailure(Some(\n                                                            this.substream_id,\n                                                        )),\n                                                    )));\n                                                }\n\n                                                this.offset = 0;\n                                                // Handle empty payloads detected as 0-length frame."),
        ]),
        "send-max-off-by-one": ("caught", [(SUB, "            if $size > max_size {", "            if $size >= max_size {")]),
        "recv-max-off-by-one": ("caught", [(SUB, "                                                    if size > max_size {", "                                                    if size > max_size + 1 {")]),
        "identity-accepts-shorter": ("caught", [(SUB, "                if item.len() != payload_size {\n                    return Err(SubstreamError::IoError(ErrorKind::PermissionDenied));\n                }\n\n                self.pending_out_bytes",
                                                     "                if item.len() > payload_size {\n                    return Err(SubstreamError::IoError(ErrorKind::PermissionDenied));\n                }\n\n                self.pending_out_bytes")]),
        "flush-forgets-advance": ("caught", [(SUB, "                    pending_frame.advance(nwritten);\n", "                    pending_frame.advance(nwritten.min(1));\n")]),
        "recv-empty-frame-not-special": ("caught", [(SUB, "                                                if size == 0 {\n                                                    return Poll::Ready(Some(Ok(BytesMut::new())));\n                                                }\n", "")]),
        "framed-skips-final-flush": ("missed", [(SUB, "        // Write the frame.\n        io.write_all(bytes.as_ref()).await?;\n\n        // Flush the stream.\n        io.flush().await.map_err(From::from)",
                                                      "        // Write the frame.\n        io.write_all(bytes.as_ref()).await?;\n\n        Ok(())")]),
    },
}


def sh(cmd, **kw):
    return subprocess.run(cmd, shell=True, text=True, stdout=subprocess.PIPE, stderr=subprocess.STDOUT, **kw)


def setup():
    os.makedirs(SCRATCH, exist_ok=True)
    sh("rsync -a --delete --exclude target --exclude .git /repo/ %s/repo/" % SCRATCH)
    sh("rsync -a --exclude target /verif/harness/ %s/harness/" % SCRATCH)
    sh("sed -i 's|path = \"/repo\"|path = \"%s/repo\"|' %s/harness/Cargo.toml" % (SCRATCH, SCRATCH))


def apply(pid, name):
    """fresh sources from /repo + the variant's replacements"""
    setup()
    exp, reps = VARIANTS[pid][name]
    for rel, old, new in reps:
        p = os.path.join(SCRATCH, "repo", rel)
        s = open(p).read()
        if s.count(old) != 1:
            raise SystemExit("variant %s: anchor text occurs %d times in %s" % (name, s.count(old), rel))
        open(p, "w").write(s.replace(old, new))
    # rsync restores original files with their old mtimes, which cargo would take for "unchanged": force a rebuild
    os.utime(os.path.join(SCRATCH, "repo", "src", "lib.rs"))
    for rel in {r[0] for v in VARIANTS.values() for x in v.values() for r in x[1]}:
        os.utime(os.path.join(SCRATCH, "repo", rel))
    return exp


def run_variant(pid, name, tier="quick"):
    exp = apply(pid, name)
    vlib.HARNESS = os.path.join(SCRATCH, "harness")
    vlib.EVID = os.path.join(SCRATCH, "evidence")
    vlib.REPLAYS = os.path.join(SCRATCH, "replays")
    # with the fixes applied nothing is known-broken any more; mutants keep the committed list
    vlib.KNOWN = os.path.join(SCRATCH, "no_known_findings.txt") if name == "fixes" else os.path.join(vlib.VERIF, "known_findings.txt")
    mod = importlib.import_module(pid.lower())
    for k in ("HARNESS", "EVID", "REPLAYS", "KNOWN"):
        setattr(mod, k, getattr(vlib, k))
    ctx = vlib.Ctx(pid + "x", tier, 1)
    ctx.pid = pid
    try:
        rc = mod.check(ctx)
    except vlib.ToolError as e:
        print("ERROR tool failure: %s" % str(e)[:3000])
        rc = 2
    finally:
        ctx.cleanup()
    got = {0: "held", 1: "caught", 2: "tool-error"}[rc]
    print("VARIANT %s/%s: check says %s, expected %s -> %s" % (pid, name, got, exp, "as expected" if got == exp or (exp == "missed" and got == "held") else "UNEXPECTED"))
    return got, exp


if __name__ == "__main__":
    cmd = sys.argv[1]
    if cmd == "setup":
        setup()
        print(sh("cd %s/harness && cargo build --offline --bin mss --bin substream 2>&1 | tail -2" % SCRATCH).stdout)
    elif cmd == "run":
        run_variant(sys.argv[2], sys.argv[3], sys.argv[4] if len(sys.argv) > 4 else "quick")
    elif cmd == "all":
        res = []
        for name in VARIANTS[sys.argv[2]]:
            res.append((name,) + run_variant(sys.argv[2], name, sys.argv[3] if len(sys.argv) > 3 else "quick"))
        for r in res:
            print("%-45s check=%-10s expected=%s" % r)
    elif cmd == "clean":
        shutil.rmtree(SCRATCH, ignore_errors=True)
