SPECIFICATION Spec
CONSTANTS
  FirstP2p = FALSE
INVARIANTS DerivedIdParses TableConsistent MaddrRule
CHECK_DEADLOCK FALSE
