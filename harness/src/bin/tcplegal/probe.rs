//! Manager-level view of the QUIC `open()`+`negotiate()` path through the public API: node A knows
//! B's QUIC address and dials it *by peer id* (the manager then uses `Transport::open`).
//! Prints what A's application sees, without and with `max_incoming_connections = 0` on A.
use litep2p::{
    config::ConfigBuilder,
    crypto::ed25519::Keypair,
    transport::{quic::config::Config as QuicConfig, ConnectionLimitsConfig},
    Litep2p, Litep2pEvent,
};
use std::time::Duration;

fn node(max_in: Option<usize>) -> Litep2p {
    let cfg = ConfigBuilder::new()
        .with_keypair(Keypair::generate())
        .with_quic(QuicConfig { listen_addresses: vec!["/ip4/127.0.0.1/udp/0/quic-v1".parse().unwrap()], ..Default::default() })
        .with_connection_limits(ConnectionLimitsConfig::default().max_incoming_connections(max_in))
        .build();
    Litep2p::new(cfg).expect("node")
}

pub async fn run() {
    for max_in in [None, Some(0usize)] {
        let mut a = node(max_in);
        let mut b = node(None);
        let b_peer = *b.local_peer_id();
        let b_addr = b.listen_addresses().next().unwrap().clone();
        tokio::spawn(async move { while b.next_event().await.is_some() {} });
        a.add_known_address(b_peer, std::iter::once(b_addr));
        let ret = a.dial(&b_peer).await;
        let seen = tokio::time::timeout(Duration::from_secs(6), async {
            loop {
                match a.next_event().await {
                    Some(Litep2pEvent::ConnectionEstablished { endpoint, .. }) =>
                        return format!("ConnectionEstablished as {}", if endpoint.is_listener() { "LISTENER" } else { "dialer" }),
                    Some(Litep2pEvent::DialFailure { .. }) => return "DialFailure".to_string(),
                    Some(Litep2pEvent::ListDialFailures { .. }) => return "ListDialFailures".to_string(),
                    Some(_) => {}
                    None => return "stream ended".to_string(),
                }
            }
        })
        .await
        .unwrap_or_else(|_| "nothing within 6 s".to_string());
        println!("PROBE max_incoming={max_in:?}: dial(peer) -> {ret:?}; application sees: {seen}");
    }
}
