--------------------------- MODULE NotifStreamTrace ---------------------------
(* Trace validation for C12.  One segment = one direction (sender -> receiver) *)
(* of one real network: the sender's send calls with results and its          *)
(* Opened/Closed events in the sender's order, then the receiver's deliveries *)
(* in the receiver's order (no order between the two endpoints is assumed:    *)
(* the ledger only relates the two sequences).                                *)
EXTENDS NotifStream, Json, IOUtils

Rec == ndJsonDeserialize(IOEnv.TRACE)
VARIABLES l, D
tvars == <<l, D>>

TInit == l = 1 /\ D = DInit(1, 1, 1)

Apply(d, r) ==
  CASE r.e = "reset" -> DInit(r.sync, r.async, r.max)
    [] r.e = "po" -> POpened(d, r.per)
    [] r.e = "pe" -> PClosed(d)
    [] r.e = "s" -> PSendH(d, r.m, r.per, r.n, r.len, r.r, r.w, r.idn, r.hg)
    [] r.e = "d" -> PDeliver(d, r.m, r.per, r.n, r.len, r.ok, r.idn)
    [] r.e = "end" -> PEnd(d, r.open)
    [] OTHER -> d

TNext ==
  /\ l <= Len(Rec)
  /\ l' = l + 1
  /\ LET d == Apply(D, Rec[l]) IN
       /\ D' = [d EXCEPT !.bad = ""]
       /\ (d.bad # "" => PrintT(<<"BAD", l, d.bad>>))

TSpec == TInit /\ [][TNext]_tvars

Accepted ==
  LET d == TLCGet("stats").diameter IN
  IF d - 1 = Len(Rec) THEN PrintT(<<"TRACE_OK", Len(Rec)>>)
  ELSE PrintT(<<"TRACE_REJECTED_AT", d>>) /\ FALSE
=============================================================================
