--------------------------- MODULE BitswapCertMC ---------------------------
(* Enumeration of the whole abstract input space of the self-certification *)
(* decision table (C20, first half): one obligation per class, with the    *)
(* verdict of the Impl transcription and the verdict the property demands. *)
EXTENDS Bitswap, TLC, Json

\* TRUE: the recorded finding is tolerated (and only it); FALSE: the strict table
CONSTANT KnownFindings

VARIABLES started, cls
vars == <<started, cls>>

Init == started = FALSE /\ cls = CHOOSE c \in CertClasses : TRUE
Next == ~started /\ started' = TRUE /\ cls' \in CertClasses
Spec == Init /\ [][Next]_vars

\* the transcription of block_to_response never contradicts the property-level table
TableOK ==
  started =>
    /\ (Allowed(PropVerdict(cls), ImplVerdict(cls)) \/ (KnownFindings /\ KnownOverflowAccepted(cls)))
    /\ (ImplVerdict(cls) = "deliver" => CidFormable(cls))
    /\ PropVerdict(cls) \in {"deliver", "drop", "either"}

Emit == PrintT(<<"B", ToJson([c |-> cls', impl |-> ImplVerdict(cls'), prop |-> PropVerdict(cls')])>>)
=============================================================================
