"""Developer helper for C14/C15: measure that the replay / trace-validation pipeline detects
changes to the Rust code, on a scratch copy (never on /repo).

    python3 tools/kad_util.py prepare          # copy /repo + the two harness bins to SCRATCH, build
    python3 tools/kad_util.py mutants [name..] # apply each source mutation to the scratch copy,
                                               # rebuild, record random histories, validate with TLC

Not part of any registered check; nothing here is needed by `./check`.
"""
import os
import shutil
import subprocess
import sys

sys.path.insert(0, os.path.dirname(os.path.abspath(__file__)))
import vlib  # noqa: E402
import c14  # noqa: E402
import c15  # noqa: E402

SCRATCH = os.environ.get("KAD_SCRATCH", "/root/scratch_kad")
KAD = "src/protocol/libp2p/kademlia/"

# (name, property, file, old, new, expectation)
MUTANTS = [
    # ---- proposed fix of the open finding D11 (expected: the known finding disappears, nothing else appears;
    #      upstream pins the double visit of bucket 0 in the unit test closest_buckets_iterator_set_lsb)
    ("fix-D11", "C14", KAD + "routing_table.rs",
     """                    Some(i)
                } else {
                    let i = BucketIndex(0);""",
     """                    Some(i)
                } else if i.get() == 0 {
                    self.state = ClosestBucketsIterState::ZoomOut(i);
                    self.next()
                } else {
                    let i = BucketIndex(0);""", "clean"),
    # D13 is fixed in /repo (4a25ce9): putting the old code back must be reported as a VIOLATION again
    ("unfix-D13", "C15", KAD + "query/find_node.rs",
     """            }
        }
        // Only the requests younger than the peer timeout count towards the parallelism factor.
        self.pending_responses = self
            .pending
            .values()
            .filter(|(_, instant)| instant.elapsed() <= self.peer_timeout)
            .count();
""",
     """                self.pending_responses = self.pending_responses.saturating_sub(1);
            }
        }
""", "caught"),
    # ---- C14 mutations
    ("bucket-index-off", "C14", KAD + "routing_table.rs",
     "d.ilog2().map(|i| BucketIndex(i as usize))", "d.ilog2().map(|i| BucketIndex((i as usize).saturating_sub(1)))", "caught"),
    ("evict-connected", "C14", KAD + "bucket.rs",
     "ConnectionType::NotConnected | ConnectionType::CannotConnect => {\n                    return KBucketEntry::Vacant",
     "ConnectionType::NotConnected | ConnectionType::Connected => {\n                    return KBucketEntry::Vacant", "caught"),
    ("bucket-21", "C14", KAD + "bucket.rs", "if self.nodes.len() < 20 {", "if self.nodes.len() < 21 {", "caught"),
    ("no-per-bucket-sort", "C14", KAD + "bucket.rs", "nodes.sort_by_key(|a| target.distance(&a.key));", "", "caught"),
    ("no-address-filter", "C14", KAD + "bucket.rs", ".filter(|peer| !peer.address_store.is_empty())", ".filter(|_peer| true)", "caught"),
    ("zoom-out-wrong-bits", "C14", KAD + "routing_table.rs",
     "find_map(|i| (!self.distance.0.bit(i)).then_some(BucketIndex(i)))", "find_map(|i| (self.distance.0.bit(i) || i > 200).then_some(BucketIndex(i)))", "caught"),
    ("local-node-stored", "C14", KAD + "routing_table.rs",
     "            return KBucketEntry::LocalNode;\n        };", "            return self.buckets[0].entry(key);\n        };", "caught"),
    ("add-ignores-connection", "C14", KAD + "routing_table.rs",
     "                entry.push_addresses(addresses);\n                entry.connection = connection;", "                entry.push_addresses(addresses);", "missed"),
    # ---- C15 mutations
    ("no-queried-filter", "C15", KAD + "query/find_node.rs",
     "            if self.queried.contains(&peer.peer) {\n                return None;\n            }", "", "caught"),
    ("no-local-filter-get", "C15", KAD + "query/get_record.rs",
     "            if self.config.local_peer_id == peer.peer {\n                return None;\n            }", "", "caught"),
    ("parallelism-gate", "C15", KAD + "query/find_node.rs",
     "if self.pending_responses == self.config.parallelism_factor {", "if self.pending_responses == self.config.parallelism_factor + 1 {", "caught"),
    ("closer-test-inverted", "C15", KAD + "query/find_node.rs",
     "if first_candidate_distance < *worst_response_distance {", "if first_candidate_distance > *worst_response_distance {", "caught"),
    ("keep-furthest-response", "C15", KAD + "query/find_node.rs",
     "                    self.responses.pop_last();", "                    self.responses.pop_first();", "missed"),  # C15 does not state that the reported peers are the closest of those that answered (drift note only)
    ("terminal-not-removed", "C15", KAD + "query/mod.rs",
     "        let _ = self.queries.remove(&query).expect(\"query to exist\");\n\n        QueryAction::QueryFailed { query }",
     "        let _ = self.queries.get(&query).expect(\"query to exist\");\n\n        QueryAction::QueryFailed { query }", "caught"),
    ("partial-result-twice", "C15", KAD + "query/get_record.rs",
     "if let Some(record) = self.records.pop_front() {", "if let Some(record) = self.records.front().cloned() {\n            if self.found_records % 2 == 0 { self.records.pop_front(); } else { self.found_records += 1; }", "caught"),
    ("no-quorum-stop", "C15", KAD + "query/get_record.rs",
     "        if sufficient_records {", "        if false && sufficient_records {", "caught"),
    ("providers-not-merged", "C15", KAD + "query/get_providers.rs",
     "providers.entry(provider.peer).or_default().extend(provider.addresses())",
     "providers.entry(if provider.addresses().is_empty() { provider.peer } else { PeerId::random() }).or_default().extend(provider.addresses())", "missed"),
    ("fail-when-some-answered", "C15", KAD + "query/find_node.rs",
     "            return if self.responses.is_empty() {", "            return if self.responses.len() < 2 {", "missed"),
]


def sh(cmd, cwd=None, timeout=3600):
    p = subprocess.run(cmd, cwd=cwd, stdout=subprocess.PIPE, stderr=subprocess.STDOUT, text=True, timeout=timeout)
    return p.returncode, p.stdout


def prepare():
    os.makedirs(SCRATCH, exist_ok=True)
    repo, har = os.path.join(SCRATCH, "repo"), os.path.join(SCRATCH, "harness")
    shutil.rmtree(repo, ignore_errors=True)
    os.makedirs(repo)
    for f in ("src", "examples", "tests", "Cargo.toml", "Cargo.lock", "build.rs"):
        s = os.path.join("/repo", f)
        (shutil.copytree if os.path.isdir(s) else shutil.copy)(s, os.path.join(repo, f))
    os.makedirs(os.path.join(har, "src", "bin"), exist_ok=True)
    for f in ("Cargo.toml", "Cargo.lock"):
        shutil.copy(os.path.join(vlib.HARNESS, f), os.path.join(har, f))
    shutil.copytree(os.path.join(vlib.HARNESS, ".cargo"), os.path.join(har, ".cargo"), dirs_exist_ok=True)
    for f in os.listdir(os.path.join(vlib.HARNESS, "src")):
        if f.endswith(".rs"):
            shutil.copy(os.path.join(vlib.HARNESS, "src", f), os.path.join(har, "src", f))
    for f in ("routing.rs", "query.rs"):
        shutil.copy(os.path.join(vlib.HARNESS, "src", "bin", f), os.path.join(har, "src", "bin", f))
    t = open(os.path.join(har, "Cargo.toml")).read().replace('path = "/repo"', 'path = "%s"' % repo)
    open(os.path.join(har, "Cargo.toml"), "w").write(t)
    rc, out = sh(["cargo", "build", "--offline", "--bin", "routing", "--bin", "query"], cwd=har)
    print(out[-600:])
    return rc


def run_mutant(ctx, m):
    name, prop, rel, old, new, expect = m
    repo, har = os.path.join(SCRATCH, "repo"), os.path.join(SCRATCH, "harness")
    # pristine sources for the two directories we touch
    for d in ("src/protocol/libp2p/kademlia",):
        shutil.rmtree(os.path.join(repo, d))
        shutil.copytree(os.path.join("/repo", d), os.path.join(repo, d))
    if name != "baseline":
        src = open(os.path.join(repo, rel)).read()
        if src.count(old) != 1:
            return name, prop, expect, "PATCH-DOES-NOT-APPLY(%d)" % src.count(old), []
        open(os.path.join(repo, rel), "w").write(src.replace(old, new))
    rc, out = sh(["cargo", "build", "--offline", "--bin", "routing", "--bin", "query"], cwd=har)
    if rc != 0:
        return name, prop, expect, "BUILD-FAILED", [out[-800:]]
    tr = ctx.path("mut_%s.ndjson" % name)
    if prop == "C14":
        rc, out = sh([os.path.join(har, "target/debug/routing"), "--random", "40", "--len", "60", "--seed", "1", "--threads", "6", "--out", tr])
        lines = vlib.read_lines(tr)
        _, _, viol, nd11 = c14.judge(ctx, lines, tag="m_" + name)
        extra = "d11_events=%d" % nd11
    else:
        rc, out = sh([os.path.join(har, "target/debug/query"), "--random", "2000", "--stale", "1", "--seed", "1", "--threads", "6", "--out", tr])
        lines = vlib.read_lines(tr)
        _, _, viol = c15.judge(ctx, lines, tag="m_" + name)
        extra = ""
    known = vlib.load_known(prop)
    new_sigs = sorted({v["sig"] for v in viol if v["sig"] not in known})
    known_sigs = sorted({v["sig"] for v in viol if v["sig"] in known})
    verdict = "caught" if new_sigs else "clean"
    return name, prop, expect, verdict, [extra, "new=%s" % new_sigs, "known=%s" % known_sigs]


def main():
    if len(sys.argv) < 2:
        print(__doc__)
        return 2
    if sys.argv[1] == "prepare":
        return prepare()
    want = set(sys.argv[2:])
    ctx = vlib.Ctx("KADMUT", "quick", 1)
    try:
        ms = [("baseline", "C14", "", "", "", "clean"), ("baseline", "C15", "", "", "", "clean")] + MUTANTS
        for m in ms:
            if want and m[0] not in want:
                continue
            name, prop, expect, verdict, info = run_mutant(ctx, m)
            ok = (verdict == expect) or (expect == "missed" and verdict == "clean")
            print("MUTANT %-26s %s expected=%-6s got=%-8s %s %s" % (name, prop, expect, verdict, "" if ok else "<<< UNEXPECTED", " ".join(info)), flush=True)
    finally:
        ctx.cleanup()
    return 0


if __name__ == "__main__":
    sys.exit(main())
