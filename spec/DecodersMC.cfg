SPECIFICATION Spec
CONSTANTS
  MaxLen = 4
INVARIANTS LdConsistent TablesTotal NegotiationSound
CHECK_DEADLOCK FALSE
