pub fn placeholder() {}
