SPECIFICATION Spec
CONSTANTS
  MaxLen = 4
INVARIANTS LdConsistent TablesTotal NegotiationSound DecodedValuesUsable
CHECK_DEADLOCK FALSE
