------------------------------- MODULE NetDial -------------------------------
(***************************************************************************)
(* C05 as seen by the application of one real litep2p node (public API,     *)
(* real TCP transport): a ledger over the node's own commands and events.   *)
(*  - every accepted dial request (dial / dial_address returned Ok) is       *)
(*    settled by a reported connection with that peer or by a failure        *)
(*    report before the node goes quiet (several requests issued while one   *)
(*    is in flight share its outcome);                                       *)
(*  - a failure report needs a dial request for that peer and names only     *)
(*    addresses that were dialed / known for it; never more failure reports  *)
(*    than accepted requests;                                                *)
(*  - at quiescence every other node can be dialed again and that dial gets  *)
(*    an outcome too (redial probe).                                         *)
(* One NDJSON line per command / event, `reset` starts a new node log.       *)
(***************************************************************************)
EXTENDS Naturals, Sequences, FiniteSets, TLC, Json, IOUtils

Rec == ndJsonDeserialize(IOEnv.TRACE)

VARIABLES l, acc, fails, pend, named, probing
vars == <<l, acc, fails, pend, named, probing>>

Get(f, p, d) == IF p \in DOMAIN f THEN f[p] ELSE d
Put(f, p, v) == (p :> v) @@ f
ToSet(s) == {s[i] : i \in 1..Len(s)}

Init == l = 1 /\ acc = <<>> /\ fails = <<>> /\ pend = {} /\ named = <<>> /\ probing = FALSE

Report(ok, why) == IF ok THEN TRUE ELSE PrintT(<<"BAD", l, why>>)

Reset == /\ Rec[l].e = "reset"
         /\ acc' = <<>> /\ fails' = <<>> /\ pend' = {} /\ named' = <<>> /\ probing' = FALSE

Cmd ==
  LET r == Rec[l] p == r.peer IN
  /\ r.e = "cmd"
  /\ IF r.k = "add_known"
       THEN /\ named' = Put(named, p, Get(named, p, {}) \cup ToSet(r.addrs))
            /\ UNCHANGED <<acc, fails, pend, probing>>
       ELSE /\ named' = IF r.k = "dial_addr" THEN Put(named, p, Get(named, p, {}) \cup {r.addr}) ELSE named
            /\ IF r.ret = "ok"
                 THEN acc' = Put(acc, p, Get(acc, p, 0) + 1) /\ pend' = pend \cup {p}
                 ELSE UNCHANGED <<acc, pend>>
            \* a redial probe may only be refused because the peer is connected or a limit is reached
            /\ Report(IF probing THEN r.retk \in {"ok", "connected", "limit"} ELSE TRUE,
                      "redial refused although the peer is not connected")
            /\ probing' = FALSE
            /\ UNCHANGED fails

Ev ==
  LET r == Rec[l] IN
  /\ r.e = "ev"
  /\ UNCHANGED <<acc, named, probing>>
  /\ CASE r.k = "est" -> pend' = pend \ {r.peer} /\ UNCHANGED fails
       [] r.k = "closed" -> UNCHANGED <<pend, fails>>
       [] r.k \in {"dial_failure", "list_failures"} ->
            LET ps == ToSet(r.peers) IN
            /\ fails' = [p \in DOMAIN fails \cup ps |-> Get(fails, p, 0) + (IF p \in ps THEN 1 ELSE 0)]
            /\ pend' = pend \ ps
            /\ Report(\A p \in ps : Get(fails, p, 0) + 1 <= Get(acc, p, 0),
                      "failure report without a matching accepted dial request (duplicate failure)")
            /\ Report(\A i \in 1..Len(r.addrs) : r.addrs[i] \in Get(named, r.peers[i], {}),
                      "failure names an address that was never dialed for that peer")
            /\ Report(Len(r.addrs) >= 1, "failure report names no address")

Quiesce ==
  /\ Rec[l].e = "quiesce"
  /\ Report(pend = {}, "silence: an accepted dial never got an outcome")
  /\ pend' = {}
  /\ UNCHANGED <<acc, fails, named, probing>>

\* the run did not calm down within the harness deadline: not judged
Unsettled == Rec[l].e = "unsettled" /\ pend' = {} /\ UNCHANGED <<acc, fails, named, probing>>

Probe == Rec[l].e = "probe" /\ probing' = TRUE /\ UNCHANGED <<acc, fails, pend, named>>

Next == /\ l <= Len(Rec) /\ l' = l + 1
        /\ (Reset \/ Cmd \/ Ev \/ Quiesce \/ Unsettled \/ Probe)

Spec == Init /\ [][Next]_vars

Accepted ==
  LET d == TLCGet("stats").diameter IN
  IF d - 1 = Len(Rec) THEN PrintT(<<"TRACE_OK", Len(Rec)>>)
  ELSE PrintT(<<"TRACE_REJECTED_AT", d>>) /\ FALSE
=============================================================================
