----------------------------- MODULE MultistreamMC -----------------------------
(* Bounded instance of MultistreamImpl for TLC: all dialer lists (no repetition) of  *)
(* length <= MaxList over Names, all listener subsets, both versions, all payload    *)
(* pairs from Pays, carrier flush semantics per side from Bufs; exhaustive check of  *)
(* the Prop layer and behaviour generation.                                          *)
EXTENDS MultistreamImpl, Json

CONSTANTS Names, MaxList, Pays, Lazies,
          Bufs        \* possible sets of sides whose outgoing carrier buffers until flushed

Lists(n) == UNION {{q \in [1..k -> Names] : \A i, j \in 1..k : i # j => q[i] # q[j]} : k \in 0..n}
Cfgs == [dlist : Lists(MaxList), lset : SUBSET Names, lazy : Lazies, dpay : Pays, lpay : Pays, buf : Bufs]

PaysDef == {<<>>, <<2, 7>>}
BufsNone == {{}}
BufsSome == {{"d"}, {"l"}, {"d", "l"}}
BufsAll == {{}, {"d"}, {"l"}, {"d", "l"}}
PaysDef3 == {<<>>, <<1>>, <<2, 7>>, <<0, 3>>}

Init == \E c \in Cfgs : ImplInit(c)
Spec == Init /\ [][ImplNext]_vars
FairSpec == Spec /\ WF_vars(Start \/ (\E s \in Sides : SideStep(s)))

\* generation: one io script per transition of the bounded graph
Emit == PrintT(<<"B", ToJson([dlist |-> cfg.dlist, lset |-> cfg.lset, lazy |-> cfg.lazy,
                               dpay |-> cfg.dpay, lpay |-> cfg.lpay, dbuf |-> "d" \in cfg.buf, lbuf |-> "l" \in cfg.buf,
                               long |-> Long, ops |-> hist'])>>)
=============================================================================
