------------------------------ MODULE Multistream ------------------------------
(***************************************************************************)
(* Property C03, Prop layer: what an observer of a multistream-select      *)
(* negotiation (litep2p src/multistream_select) may see.                   *)
(*                                                                         *)
(* A run is fixed by its configuration                                     *)
(*   cfg = [dlist : Seq(name)   dialer preference list (most preferred 1st)*)
(*          lset  : SUBSET name listener's supported names                 *)
(*          lazy  : BOOLEAN     dialer uses the optimistic V1Lazy variant  *)
(*          dpay, lpay : Seq(byte)  application bytes each side writes     *)
(*                              right after its negotiation call returned] *)
(* and the observer sees, per side s \in {"d","l"}:                        *)
(*   done(s, ok, p)  the negotiation call returned (Ok with name p / Err)  *)
(*   read(s, bs)     the application read bytes bs from the negotiated io  *)
(*   apperr(s)       an application read/write/flush on the negotiated io  *)
(*                   failed                                                *)
(*   quiesce         nothing can happen any more (the environment has no   *)
(*                   undelivered byte and both sides are parked / finished)*)
(* The monitor state m records what was seen so far.  Every operator below *)
(* is the most liberal reading of the property statement:                  *)
(*  - both sides terminate                                 (PropQuiesce)   *)
(*  - common name => both report the dialer's most preferred common name   *)
(*  - no common name => both report failure; the optimistic dialer may     *)
(*    first report a name of its own list, the failure then has to surface *)
(*    on its first application I/O and no byte may ever be delivered to it *)
(*  - bytes read after negotiation are a prefix of the bytes the peer      *)
(*    wrote after negotiation, and everything has arrived at quiescence    *)
(***************************************************************************)
EXTENDS Naturals, Sequences, FiniteSets

Sides == {"d", "l"}
Other(s) == IF s = "d" THEN "l" ELSE "d"

Range(f) == {f[i] : i \in DOMAIN f}
MinOf(S) == CHOOSE x \in S : \A y \in S : x <= y
IsPrefix(a, b) == Len(a) <= Len(b) /\ \A i \in 1..Len(a) : a[i] = b[i]

Common(cfg) == {i \in 1..Len(cfg.dlist) : cfg.dlist[i] \in cfg.lset}
HasCommon(cfg) == Common(cfg) # {}
Expected(cfg) == cfg.dlist[MinOf(Common(cfg))]
Pay(cfg, s) == IF s = "d" THEN cfg.dpay ELSE cfg.lpay

\* monitor state
PropInit == [st |-> [d |-> "run", l |-> "run"],       \* "run" | "ok" | "fail"
             proto |-> [d |-> "", l |-> ""],
             recv |-> [d |-> <<>>, l |-> <<>>]]

OkDone(cfg, m, s, ok, p) ==
  /\ m.st[s] = "run"
  /\ IF ok
       THEN \/ HasCommon(cfg) /\ p = Expected(cfg)
            \/ ~HasCommon(cfg) /\ s = "d" /\ cfg.lazy /\ p \in Range(cfg.dlist)
       ELSE ~HasCommon(cfg)
UpdDone(m, s, ok, p) ==
  IF ok THEN [m EXCEPT !.st[s] = "ok", !.proto[s] = p] ELSE [m EXCEPT !.st[s] = "fail"]
PropDone(cfg, m, s, ok, p, m2) == OkDone(cfg, m, s, ok, p) /\ m2 = UpdDone(m, s, ok, p)

OkRead(cfg, m, s, bs) ==
  /\ m.st[s] = "ok" /\ m.st[Other(s)] = "ok"
  /\ HasCommon(cfg)
  /\ IsPrefix(m.recv[s] \o bs, Pay(cfg, Other(s)))
UpdRead(m, s, bs) == [m EXCEPT !.recv[s] = @ \o bs]
PropRead(cfg, m, s, bs, m2) == OkRead(cfg, m, s, bs) /\ m2 = UpdRead(m, s, bs)

\* Only the optimistic dialer whose name the listener does not support may see an
\* application-level I/O error: that is how its negotiation failure surfaces.
OkAppErr(cfg, m, s) == s = "d" /\ cfg.lazy /\ ~HasCommon(cfg) /\ m.st["d"] = "ok"
UpdAppErr(m, s) == [m EXCEPT !.st[s] = "fail"]
PropAppErr(cfg, m, s, m2) == OkAppErr(cfg, m, s) /\ m2 = UpdAppErr(m, s)

PropQuiesce(cfg, m) ==
  /\ m.st["d"] # "run" /\ m.st["l"] # "run"
  /\ IF HasCommon(cfg)
       THEN /\ m.st["d"] = "ok" /\ m.st["l"] = "ok"
            /\ m.proto["d"] = m.proto["l"]
            /\ m.recv["d"] = cfg.lpay /\ m.recv["l"] = cfg.dpay
       ELSE m.st["d"] = "fail" /\ m.st["l"] = "fail"

\* One observable event (record with field k) against the monitor.
NoEvent == [k |-> "none"]
OkEvent(cfg, m, ev) ==
  CASE ev.k = "none" -> TRUE
    [] ev.k = "done" -> OkDone(cfg, m, ev.s, ev.ok, ev.p)
    [] ev.k = "read" -> OkRead(cfg, m, ev.s, ev.bs)
    [] ev.k = "apperr" -> OkAppErr(cfg, m, ev.s)
    [] OTHER -> FALSE
UpdEvent(m, ev) ==
  CASE ev.k = "none" -> m
    [] ev.k = "done" -> UpdDone(m, ev.s, ev.ok, ev.p)
    [] ev.k = "read" -> UpdRead(m, ev.s, ev.bs)
    [] ev.k = "apperr" -> UpdAppErr(m, ev.s)
    [] OTHER -> m
=============================================================================
