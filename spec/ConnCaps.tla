------------------------------ MODULE ConnCaps ------------------------------
(***************************************************************************)
(* Counter abstraction of TransportManager for C06, written so that three  *)
(* tools can work on the same text:                                        *)
(*   - TLC checks IndInv as an ordinary invariant for small constants;     *)
(*   - TLC checks that ConnMgrMC (the implementation-shaped model that is  *)
(*     replayed on the real TransportManager) refines this module          *)
(*     (ConnMgrMC!CapsRefinement): every step of the bound model is a      *)
(*     step of ConnCaps or a stutter;                                      *)
(*   - Apalache checks that IndInv is INDUCTIVE (IndInit /\ Next =>        *)
(*     IndInv'), i.e. the caps hold after histories of any length, with a  *)
(*     reusable pool of connection ids (a concluded id returns to "free"), *)
(*     which the bounded TLC exploration (3-4 ids in total) cannot show.   *)
(*                                                                         *)
(* State: the manager's PeerState per peer (peer_state.rs), the phase of   *)
(* every connection id as the transports see it, and the two sets of       *)
(* ConnectionLimits (limits.rs).  The PeerState operators are verbatim     *)
(* copies of ConnMgrMC's.                                                  *)
(***************************************************************************)
EXTENDS Integers, FiniteSets

CONSTANTS
  \* @type: Set(Str);
  Peers,
  \* @type: Set(Int);
  Cids

VARIABLES
  \* @type: Str -> {k: Str, pri: Int, sec: Int, dial: Int};
  ps,
  \* @type: Int -> Str;
  st,      \* "free" | "out" (dialing / opening / negotiating) | "inneg" | "accepting" | "live"
  \* @type: Int -> Str;
  cpeer,
  \* @type: Int -> Str;
  cdir,
  \* @type: Set(Int);
  limIn,
  \* @type: Set(Int);
  limOut,
  \* @type: Int;
  MaxIn,
  \* @type: Int;
  MaxOut

ccvars == <<ps, st, cpeer, cdir, limIn, limOut, MaxIn, MaxOut>>

CNone == -1
CNoLimit == -1
\* @type: {k: Str, pri: Int, sec: Int, dial: Int};
CDisc == [k |-> "disc", pri |-> CNone, sec |-> CNone, dial |-> CNone]

\* @type: (Set(Int), Int) => Bool;
CFull(s, max) == max /= CNoLimit /\ Cardinality(s) >= max
CInProgress(p) == ps[p].k \in {"dialing", "opening"} \/ (ps[p].k = "disc" /\ ps[p].dial /= CNone)

-----------------------------------------------------------------------------
(* PeerState transitions, as in ConnMgrMC (peer_state.rs)                   *)

\* @type: ({k: Str, pri: Int, sec: Int, dial: Int}, Int) => {k: Str, pri: Int, sec: Int, dial: Int};
COnDialFailure(s, c) ==
  IF s.k = "dialing" /\ s.dial = c THEN CDisc
  ELSE IF s.k = "conn" /\ s.dial = c THEN [s EXCEPT !.dial = CNone]
  ELSE IF s.k = "disc" /\ s.dial = c THEN CDisc
  ELSE s

\* @type: ({k: Str, pri: Int, sec: Int, dial: Int}, Int) => {acc: Bool, st: {k: Str, pri: Int, sec: Int, dial: Int}, cancel: Int};
COnEst(s, c) ==
  IF s.k = "conn" /\ s.dial = c THEN [acc |-> TRUE, st |-> [s EXCEPT !.sec = c, !.dial = CNone], cancel |-> CNone]
  ELSE IF s.k = "conn" /\ s.sec = CNone /\ s.dial = CNone THEN [acc |-> TRUE, st |-> [s EXCEPT !.sec = c], cancel |-> CNone]
  ELSE IF s.k = "conn" THEN [acc |-> FALSE, st |-> s, cancel |-> CNone]
  ELSE IF s.k = "dialing" \/ (s.k = "disc" /\ s.dial /= CNone) THEN
       IF s.dial = c THEN [acc |-> TRUE, st |-> [k |-> "conn", pri |-> c, sec |-> CNone, dial |-> CNone], cancel |-> CNone]
       ELSE [acc |-> TRUE, st |-> [k |-> "conn", pri |-> c, sec |-> CNone, dial |-> s.dial], cancel |-> CNone]
  ELSE IF s.k = "disc" THEN [acc |-> TRUE, st |-> [k |-> "conn", pri |-> c, sec |-> CNone, dial |-> CNone], cancel |-> CNone]
  ELSE [acc |-> TRUE, st |-> [k |-> "conn", pri |-> c, sec |-> CNone, dial |-> CNone], cancel |-> s.dial]

\* @type: ({k: Str, pri: Int, sec: Int, dial: Int}, Int) => {k: Str, pri: Int, sec: Int, dial: Int};
COnClosed(s, c) ==
  IF s.k /= "conn" THEN s
  ELSE IF s.pri = c THEN
       IF s.sec /= CNone THEN [s EXCEPT !.pri = s.sec, !.sec = CNone]
       ELSE IF s.dial /= CNone THEN [CDisc EXCEPT !.dial = s.dial]
       ELSE CDisc
  ELSE IF s.sec = c THEN [s EXCEPT !.sec = CNone]
  ELSE s

-----------------------------------------------------------------------------
Init ==
  /\ ps = [p \in Peers |-> CDisc]
  /\ st = [c \in Cids |-> "free"]
  /\ cpeer = [c \in Cids |-> "?"]
  /\ cdir = [c \in Cids |-> "in"]
  /\ limIn = {} /\ limOut = {}
  /\ MaxIn \in {CNoLimit, 0, 1, 2} /\ MaxOut \in {CNoLimit, 0, 1, 2}

\* TransportManager::dial / dial_address that starts an attempt with a fresh connection id
StartDial(p, c, kind) ==
  /\ st[c] = "free" /\ ~CFull(limOut, MaxOut)
  /\ ps[p].k /= "conn" /\ ~CInProgress(p)
  /\ ps' = [ps EXCEPT ![p] = [k |-> kind, pri |-> CNone, sec |-> CNone, dial |-> c]]
  /\ st' = [st EXCEPT ![c] = "out"]
  /\ cpeer' = [cpeer EXCEPT ![c] = p]
  /\ cdir' = [cdir EXCEPT ![c] = "out"]
  /\ UNCHANGED <<limIn, limOut, MaxIn, MaxOut>>

\* TransportEvent::ConnectionOpened: Opening -> Dialing (negotiation starts)
Opened(c) ==
  /\ st[c] = "out" /\ ps[cpeer[c]].k = "opening"
  /\ ps' = [ps EXCEPT ![cpeer[c]] = [k |-> "dialing", pri |-> CNone, sec |-> CNone, dial |-> c]]
  /\ UNCHANGED <<st, cpeer, cdir, limIn, limOut, MaxIn, MaxOut>>

\* TransportEvent::DialFailure (legal transport: only for an attempt that is past the opening phase)
DialFail(c) ==
  /\ st[c] = "out" /\ ps[cpeer[c]].k /= "opening"
  /\ ps' = [ps EXCEPT ![cpeer[c]] = COnDialFailure(@, c)]
  /\ st' = [st EXCEPT ![c] = "free"]
  /\ UNCHANGED <<cpeer, cdir, limIn, limOut, MaxIn, MaxOut>>

\* TransportEvent::OpenFailure of the last transport
OpenFail(c) ==
  /\ st[c] = "out" /\ ps[cpeer[c]].k = "opening"
  /\ ps' = [ps EXCEPT ![cpeer[c]] = CDisc]
  /\ st' = [st EXCEPT ![c] = "free"]
  /\ UNCHANGED <<cpeer, cdir, limIn, limOut, MaxIn, MaxOut>>

\* a pending inbound socket is accepted by the listener (on_incoming below the limit)
Inbound(c) ==
  /\ st[c] = "free" /\ ~CFull(limIn, MaxIn)
  /\ st' = [st EXCEPT ![c] = "inneg"]
  /\ cdir' = [cdir EXCEPT ![c] = "in"]
  /\ cpeer' = [cpeer EXCEPT ![c] = "?"]
  /\ UNCHANGED <<ps, limIn, limOut, MaxIn, MaxOut>>

InDrop(c) ==
  /\ st[c] = "inneg"
  /\ st' = [st EXCEPT ![c] = "free"]
  /\ UNCHANGED <<ps, cpeer, cdir, limIn, limOut, MaxIn, MaxOut>>

\* TransportEvent::ConnectionEstablished (on_connection_established); `lost`: accept() fails at once
\* and the manager rolls back with on_connection_closed
Est(c, p, lost) ==
  /\ \/ st[c] = "out" /\ p = cpeer[c] /\ ps[p].k /= "opening"   \* legal transport: established only after negotiate()
     \/ st[c] = "inneg"
  /\ LET dir == cdir[c] IN
     /\ cpeer' = [cpeer EXCEPT ![c] = p]
     /\ UNCHANGED <<cdir, MaxIn, MaxOut>>
     /\ IF (dir = "in" /\ CFull(limIn, MaxIn)) \/ (dir = "out" /\ CFull(limOut, MaxOut)) THEN
             /\ st' = [st EXCEPT ![c] = "free"]
             /\ ps' = [ps EXCEPT ![p] = IF dir = "out" THEN COnDialFailure(@, c) ELSE @]
             /\ UNCHANGED <<limIn, limOut>>
        ELSE LET r == COnEst(ps[p], c) IN
             IF ~r.acc THEN
                  /\ st' = [st EXCEPT ![c] = "free"]
                  /\ UNCHANGED <<ps, limIn, limOut>>
             ELSE IF lost THEN
                  /\ ps' = [ps EXCEPT ![p] = COnClosed(r.st, c)]
                  /\ st' = [x \in Cids |-> IF x = c \/ x = r.cancel THEN "free" ELSE st[x]]
                  /\ UNCHANGED <<limIn, limOut>>
             ELSE /\ ps' = [ps EXCEPT ![p] = r.st]
                  /\ st' = [x \in Cids |-> IF x = c THEN "accepting" ELSE IF x = r.cancel THEN "free" ELSE st[x]]
                  /\ limIn' = IF dir = "in" THEN limIn \cup {c} ELSE limIn
                  /\ limOut' = IF dir = "out" THEN limOut \cup {c} ELSE limOut

AcceptOk(c) ==
  /\ st[c] = "accepting"
  /\ st' = [st EXCEPT ![c] = "live"]
  /\ UNCHANGED <<ps, cpeer, cdir, limIn, limOut, MaxIn, MaxOut>>

\* the accept future fails, or the connection task reports closure: on_connection_closed
Closed(c) ==
  /\ st[c] \in {"accepting", "live"}
  /\ ps' = [ps EXCEPT ![cpeer[c]] = COnClosed(@, c)]
  /\ st' = [st EXCEPT ![c] = "free"]
  /\ limIn' = limIn \ {c} /\ limOut' = limOut \ {c}
  /\ UNCHANGED <<cpeer, cdir, MaxIn, MaxOut>>

Next ==
  \/ \E p \in Peers, c \in Cids : StartDial(p, c, "dialing") \/ StartDial(p, c, "opening")
  \/ \E c \in Cids : Opened(c) \/ DialFail(c) \/ OpenFail(c) \/ Inbound(c) \/ InDrop(c) \/ AcceptOk(c) \/ Closed(c)
  \/ \E c \in Cids, p \in Peers : Est(c, p, FALSE) \/ Est(c, p, TRUE)

Spec == Init /\ [][Next]_ccvars

-----------------------------------------------------------------------------
(* The inductive invariant                                                  *)

Kinds == {"disc", "dialing", "opening", "conn"}
Phases == {"free", "out", "inneg", "accepting", "live"}
CidsN == Cids \cup {CNone}

TypeOK ==
  /\ ps \in [Peers -> [k : Kinds, pri : CidsN, sec : CidsN, dial : CidsN]]
  /\ st \in [Cids -> Phases]
  /\ cpeer \in [Cids -> Peers \cup {"?"}]
  /\ cdir \in [Cids -> {"in", "out"}]
  /\ limIn \in SUBSET Cids /\ limOut \in SUBSET Cids
  /\ MaxIn \in -1..3 /\ MaxOut \in -1..3

\* connections the manager has accepted and not yet seen closed
Open(p) == {c \in Cids : st[c] \in {"accepting", "live"} /\ cpeer[c] = p}

\* C06: the caps themselves
Caps ==
  /\ (MaxIn /= CNoLimit => Cardinality(limIn) <= MaxIn)
  /\ (MaxOut /= CNoLimit => Cardinality(limOut) <= MaxOut)
  /\ \A p \in Peers : Cardinality(Open(p)) <= 2

\* the limit sets hold exactly the accepted-and-open connections (no leak, no undercount)
LimitsExact ==
  /\ limIn = {c \in Cids : st[c] \in {"accepting", "live"} /\ cdir[c] = "in"}
  /\ limOut = {c \in Cids : st[c] \in {"accepting", "live"} /\ cdir[c] = "out"}

\* PeerState agrees with the connection phases
PeerExact ==
  \A p \in Peers :
    /\ IF ps[p].k = "conn"
         THEN /\ ps[p].pri /= CNone /\ ps[p].pri /= ps[p].sec
              /\ Open(p) = {ps[p].pri, ps[p].sec} \ {CNone}
         ELSE /\ Open(p) = {} /\ ps[p].pri = CNone /\ ps[p].sec = CNone
    /\ (ps[p].k \in {"dialing", "opening"} => ps[p].dial /= CNone)
    \* a connected peer has a dial record only while the secondary slot is still free for it
    /\ (ps[p].k = "conn" /\ ps[p].dial /= CNone => ps[p].sec = CNone)
    /\ (ps[p].dial /= CNone => st[ps[p].dial] = "out" /\ cpeer[ps[p].dial] = p)

\* every outstanding outbound attempt is the dial record of its peer, and directions are what they claim
AttemptsOwned ==
  \A c \in Cids :
    /\ (st[c] = "out" => cpeer[c] \in Peers /\ ps[cpeer[c]].dial = c /\ cdir[c] = "out")
    /\ (st[c] = "inneg" => cdir[c] = "in")
    /\ (st[c] \in {"accepting", "live"} => cpeer[c] \in Peers)

IndInv == TypeOK /\ Caps /\ LimitsExact /\ PeerExact /\ AttemptsOwned

\* Apalache: an arbitrary state satisfying the invariant, and the universe it is checked for
IndInit == IndInv
ConstInit3x5 == Peers = {"p1", "p2", "p3"} /\ Cids = {0, 1, 2, 3, 4}
ConstInit4x6 == Peers = {"p1", "p2", "p3", "p4"} /\ Cids = {0, 1, 2, 3, 4, 5}
ConstInit2x4 == Peers = {"p1", "p2"} /\ Cids = {0, 1, 2, 3}
=============================================================================
