//! C10: the per-peer address book. Three drivers, all against real code:
//!  store  - `AddressStore::insert/addresses` (TLC behaviours embedded with filler records, and
//!           full-scale random histories with more than 64 distinct addresses)
//!  filter - `TransportManager::add_known_address` over the multiaddress shape grammar
//!  dial   - re-scoring by dial results and the order of addresses handed to `Transport::open`
use litep2p::{
    verif::{
        addr::{dump, AddressRecord, AddressStore},
        mgr::{Call, ErrKind, ManagerHarness, MgrEvent},
    },
    PeerId,
};
use multiaddr::{Multiaddr, Protocol};
use rand::{rngs::StdRng, seq::SliceRandom, Rng, SeedableRng};
use serde_json::{json, Map, Value};
use std::collections::HashMap;
use vharness::*;

const FILLER_SCORE: i32 = 1000;

fn addr_for(name: &str, global: bool) -> Multiaddr {
    // deterministic address per abstract name; global ones use a public range
    let h = sha256(name.as_bytes());
    let s = if global {
        format!("/ip4/8.{}.{}.{}/tcp/{}", h[0], h[1], h[2] % 250 + 1, 1000 + h[3] as u16)
    } else {
        format!("/ip4/10.{}.{}.{}/tcp/{}", h[0], h[1], h[2] % 250 + 1, 1000 + h[3] as u16)
    };
    s.parse().unwrap()
}

fn store_dump(store: &AddressStore, names: &HashMap<Multiaddr, String>) -> Value {
    let mut m = Map::new();
    for (a, s) in dump(store) {
        if let Some(n) = names.get(&a) {
            m.insert(n.clone(), json!(s));
        }
    }
    Value::Object(m)
}

/// Run one TLC behaviour (model bound k) on a real store pre-filled with 64-k high-score fillers.
fn run_store_behaviour(b: usize, beh: &Value, out: &mut Vec<String>) {
    let k = beh["k"].as_u64().unwrap() as usize;
    let globals: Vec<String> = beh["globals"].as_array().unwrap().iter().map(|g| g.as_str().unwrap().to_string()).collect();
    let mut store = AddressStore::new();
    for i in 0..(64 - k) {
        let a: Multiaddr = format!("/ip4/10.250.{}.{}/tcp/{}", i / 200, i % 200 + 1, 30000 + i).parse().unwrap();
        store.insert(AddressRecord::from_raw_multiaddr_with_score(a, FILLER_SCORE));
    }
    let mut names: HashMap<Multiaddr, String> = HashMap::new();
    out.push(json!({"e": "reset", "b": b, "src": "tlc", "k": k}).to_string());
    for o in beh["ops"].as_array().unwrap() {
        match o["op"].as_str().unwrap() {
            "insert" => {
                let name = o["a"].as_str().unwrap();
                let global = globals.iter().any(|g| g == name);
                let a = addr_for(name, global);
                names.insert(a.clone(), name.to_string());
                let score = o["score"].as_i64().unwrap() as i32;
                let r = catch(|| store.insert(AddressRecord::from_raw_multiaddr_with_score(a, score)));
                out.push(json!({"e": "insert", "a": name, "score": score, "global": global, "panic": r.is_err(), "post": store_dump(&store, &names)}).to_string());
            }
            "list" => {
                let limit = o["limit"].as_u64().unwrap() as usize;
                let (l, panicked) = match catch(|| store.addresses(limit + (64 - k))) {
                    Ok(l) => (l, false),
                    Err(_) => (Vec::new(), true),
                };
                let ret: Vec<String> = l.iter().filter_map(|a| names.get(a).cloned()).collect();
                // fillers must come first (they have the highest score); report position faithfully
                let fillers_first = l.iter().take(64 - k).all(|a| !names.contains_key(a));
                out.push(json!({"e": "list", "limit": limit, "ret": ret, "fillers_first": fillers_first, "panic": panicked}).to_string());
            }
            other => panic!("op {other}"),
        }
    }
}

/// Full-scale random history on an empty real store (bound 64).
fn run_store_random(b: usize, rng: &mut StdRng, len: usize, out: &mut Vec<String>) {
    let mut store = AddressStore::new();
    let mut names: HashMap<Multiaddr, String> = HashMap::new();
    let universe = rng.gen_range(66..140);
    let scores = [i32::MIN, -100, -100, 0, 0, 0, 0, 100, 100, 1, 101];
    out.push(json!({"e": "reset", "b": b, "src": "random", "k": 64}).to_string());
    for _ in 0..len {
        if rng.gen_bool(0.9) {
            let i = rng.gen_range(0..universe);
            let name = format!("r{i}");
            let global = i % 3 == 0;
            let a = addr_for(&name, global);
            names.insert(a.clone(), name.clone());
            let score = scores[rng.gen_range(0..scores.len())];
            let r = catch(|| store.insert(AddressRecord::from_raw_multiaddr_with_score(a, score)));
            out.push(json!({"e": "insert", "a": name, "score": score, "global": global, "panic": r.is_err(), "post": store_dump(&store, &names)}).to_string());
        } else {
            let limit = [0usize, 1, 8, 63, 64, 65, 1000][rng.gen_range(0..7)];
            let (l, panicked) = match catch(|| store.addresses(limit)) {
                Ok(l) => (l, false),
                Err(_) => (Vec::new(), true),
            };
            let ret: Vec<String> = l.iter().map(|a| names.get(a).cloned().unwrap_or_else(|| a.to_string())).collect();
            out.push(json!({"e": "list", "limit": limit, "ret": ret, "fillers_first": true, "panic": panicked}).to_string());
        }
    }
}

// ---------------------------------------------------------------------------------- filter

use vharness::shapes::*;

fn run_filter(b: usize, rng: &mut StdRng, per_class: usize, out: &mut Vec<String>) -> usize {
    let mut h = ManagerHarness::new(None, None, 1, listen_addrs());
    let node = h.local_peer_id();
    let own = PeerId::random();
    let foreign = PeerId::random();
    out.push(json!({"e": "reset", "b": b, "src": "filter", "k": 64}).to_string());
    let mut n = 0;
    for first in FIRSTS {
        for second in SECONDS {
            for tail in TAILS {
                for local in LOCALS {
                    for _ in 0..per_class {
                        let Some(addr) = concretise(first, second, tail, local, own, foreign, node, rng) else { continue };
                        let before: Vec<Multiaddr> = h.addresses(&own).into_iter().map(|(a, _)| a).collect();
                        let r = catch(|| h.add_known_address(own, vec![addr.clone()]));
                        let after = h.addresses(&own);
                        let new: Vec<&(Multiaddr, i32)> = after.iter().filter(|(a, _)| !before.contains(a)).collect();
                        let stored = !new.is_empty();
                        // what was stored must end in /p2p/<own> and be dialable by the real TCP parser
                        let names_peer = new.iter().all(|(a, _)| matches!(a.iter().last(), Some(Protocol::P2p(p)) if PeerId::from_multihash(p).ok() == Some(own)));
                        let tcp_ok = new.iter().all(|(a, _)| ManagerHarness::tcp_parse(a).is_ok());
                        n += 1;
                        out.push(json!({"e": "add_known", "sh": {"first": first, "second": second, "tail": tail, "local": local},
                            "addr": addr.to_string(), "ret": r.clone().unwrap_or(0), "panic": r.is_err(), "stored": stored,
                            "names_peer": names_peer, "tcp_ok": tcp_ok, "count": after.len()}).to_string());
                    }
                }
            }
        }
    }
    n
}

// ---------------------------------------------------------------------------------- dial order

fn run_dial(b: usize, rng: &mut StdRng, out: &mut Vec<String>) {
    let max_out: Option<usize> = [None, Some(1), Some(2), Some(3), Some(8)][rng.gen_range(0..5)];
    let mut h = ManagerHarness::new(None, max_out, 1, listen_addrs());
    let peer = PeerId::random();
    let other = PeerId::random();
    let naddr = rng.gen_range(1..12);
    let mut names: HashMap<Multiaddr, String> = HashMap::new();
    let mut addrs = vec![];
    for i in 0..naddr {
        let name = format!("d{i}");
        let a = addr_for(&format!("{b}-{name}"), i % 2 == 0).with(Protocol::P2p(peer.into()));
        names.insert(a.clone(), name);
        addrs.push(a);
    }
    let scores = |h: &ManagerHarness| -> Value {
        let mut m = Map::new();
        for (a, s) in h.addresses(&peer) {
            m.insert(names.get(&a).cloned().unwrap_or_else(|| a.to_string()), json!(s));
        }
        Value::Object(m)
    };
    out.push(json!({"e": "reset", "b": b, "src": "dial", "k": 64}).to_string());
    h.add_known_address(peer, addrs.clone());
    let mut used_out = 0usize;
    for _round in 0..rng.gen_range(2..7) {
        // optionally occupy outgoing capacity with a connection to another peer
        if used_out == 0 && max_out.map(|m| m > 1).unwrap_or(true) && rng.gen_bool(0.3) {
            let oa: Multiaddr = format!("/ip4/10.99.0.1/tcp/999").parse::<Multiaddr>().unwrap().with(Protocol::P2p(other.into()));
            if h.dial_address(oa.clone()).is_ok() {
                while h.step().is_some() {}
                let cid = h.take_calls().iter().find_map(|c| if let Call::Dial { cid, .. } = c { Some(*cid) } else { None });
                if let Some(cid) = cid {
                    h.inject_established(other, cid, false, oa);
                    while h.step().is_some() {}
                    h.resolve_accept(cid, true);
                    while h.step().is_some() {}
                    h.take_calls();
                    used_out = 1;
                }
            }
        }
        let pre = scores(&h);
        let r = h.dial(peer);
        while h.step().is_some() {}
        let calls = h.take_calls();
        let open = calls.iter().find_map(|c| if let Call::Open { cid, addresses } = c { Some((*cid, addresses.clone())) } else { None });
        let cap: i64 = max_out.map(|m| m as i64 - used_out as i64).unwrap_or(-1);
        let Some((cid, opened)) = open else {
            out.push(json!({"e": "dial_order", "cap": cap, "scores": pre, "open": [], "ret": format!("{r:?}")}).to_string());
            break;
        };
        let open_names: Vec<String> = opened.iter().map(|a| names.get(a).cloned().unwrap_or_else(|| a.to_string())).collect();
        out.push(json!({"e": "dial_order", "cap": cap, "scores": pre, "open": open_names, "ret": "ok"}).to_string());
        // conclude the attempt: open failure (re-scores every dialed address) or opened on one address
        if rng.gen_bool(0.6) || opened.is_empty() {
            let errs: Vec<(Multiaddr, ErrKind)> = opened.iter().map(|a| (a.clone(), if rng.gen_bool(0.3) { ErrKind::Address } else { ErrKind::Timeout })).collect();
            let pre = scores(&h);
            h.inject_open_failure(cid, errs.clone());
            while h.step().is_some() {}
            let post = scores(&h);
            out.push(json!({"e": "rescore", "pre": pre, "post": post,
                "results": errs.iter().map(|(a, k)| json!({"a": names[a], "score": if *k == ErrKind::Address { i32::MIN } else { -100 }})).collect::<Vec<_>>()}).to_string());
        } else {
            let win = opened.choose(rng).unwrap().clone();
            let errs: Vec<(Multiaddr, ErrKind)> = opened.iter().filter(|a| **a != win && rng.gen_bool(0.5)).map(|a| (a.clone(), ErrKind::Timeout)).collect();
            let pre = scores(&h);
            h.inject_opened(cid, win.clone(), errs.clone());
            while h.step().is_some() {}
            h.inject_established(peer, cid, false, win.clone());
            while h.step().is_some() {}
            h.resolve_accept(cid, true);
            let mut closed = false;
            while let Some(ev) = h.step() {
                if let MgrEvent::Established { .. } = ev {
                    closed = true;
                }
            }
            let post = scores(&h);
            let mut results: Vec<Value> = errs.iter().map(|(a, _)| json!({"a": names[a], "score": -100})).collect();
            results.push(json!({"a": names[&win], "score": 100}));
            out.push(json!({"e": "rescore", "pre": pre, "post": post, "results": results}).to_string());
            if closed {
                h.connection_closed(peer, cid);
                while h.step().is_some() {}
            }
        }
        h.take_calls();
        // rediscovery of everything must not erase the scores
        let pre = scores(&h);
        h.add_known_address(peer, addrs.clone());
        let post = scores(&h);
        out.push(json!({"e": "rediscover", "pre": pre, "post": post}).to_string());
    }
}

/// Dial by address whose negotiated connection the manager then rejects (outgoing limit taken by a dial that
/// was established first, or the peer already holds two connections): the dial itself succeeded, so the address
/// used is re-scored as a success (seeded C10h: re-scored only when the connection is accepted).  The address
/// has an older, lower score from a failed attempt, so the success is visible.
fn run_dial_addr_rejected(b: usize, rng: &mut StdRng, out: &mut Vec<String>) {
    let by_limit = rng.gen_bool(0.5);
    let mut h = ManagerHarness::new(None, if by_limit { Some(1) } else { None }, 1, listen_addrs());
    let peer = PeerId::random();
    let other = PeerId::random();
    let mut names: HashMap<Multiaddr, String> = HashMap::new();
    let mut addrs = vec![];
    for i in 0..rng.gen_range(2..5) {
        let name = format!("d{i}");
        let a = addr_for(&format!("{b}-r{name}"), i % 2 == 0).with(Protocol::P2p(peer.into()));
        names.insert(a.clone(), name);
        addrs.push(a);
    }
    let scores = |h: &ManagerHarness| -> Value {
        let mut m = Map::new();
        for (a, s) in h.addresses(&peer) {
            m.insert(names.get(&a).cloned().unwrap_or_else(|| a.to_string()), json!(s));
        }
        Value::Object(m)
    };
    out.push(json!({"e": "reset", "b": b, "src": "dial_addr_rejected", "k": 64}).to_string());
    h.add_known_address(peer, addrs.clone());
    let target = addrs[rng.gen_range(0..addrs.len())].clone();
    let dial_cid = |h: &mut ManagerHarness| -> Option<usize> {
        while h.step().is_some() {}
        h.take_calls().iter().find_map(|c| if let Call::Dial { cid, .. } = c { Some(*cid) } else { None })
    };
    // an older failed attempt on the same address
    if rng.gen_bool(0.7) && h.dial_address(target.clone()).is_ok() {
        if let Some(cid) = dial_cid(&mut h) {
            let pre = scores(&h);
            h.inject_dial_failure(cid, target.clone(), ErrKind::Timeout);
            while h.step().is_some() {}
            let post = scores(&h);
            out.push(json!({"e": "rescore", "pre": pre, "post": post, "results": [{"a": names[&target], "score": -100}]}).to_string());
        }
    }
    if h.dial_address(target.clone()).is_err() {
        return;
    }
    let Some(cid) = dial_cid(&mut h) else { return };
    if by_limit {
        // a second dial passes the limit check while nothing is established yet and is established first
        let oa: Multiaddr = "/ip4/10.98.0.1/tcp/998".parse::<Multiaddr>().unwrap().with(Protocol::P2p(other.into()));
        if h.dial_address(oa.clone()).is_err() {
            return;
        }
        let Some(c2) = dial_cid(&mut h) else { return };
        h.inject_established(other, c2, false, oa);
        while h.step().is_some() {}
        h.resolve_accept(c2, true);
        while h.step().is_some() {}
    } else {
        // the peer connects twice from its side first: primary and secondary slots are taken
        for _ in 0..2 {
            let c = h.inject_pending_inbound();
            while h.step().is_some() {}
            h.inject_established(peer, c, true, addrs[0].clone());
            while h.step().is_some() {}
            h.resolve_accept(c, true);
            while h.step().is_some() {}
        }
    }
    h.take_calls();
    let pre = scores(&h);
    h.inject_established(peer, cid, false, target.clone());
    while h.step().is_some() {}
    let rejected = h.take_calls().iter().any(|c| matches!(c, Call::Reject { .. }));
    let post = scores(&h);
    out.push(json!({"e": "rescore", "pre": pre, "post": post, "rejected": rejected, "results": [{"a": names[&target], "score": 100}]}).to_string());
    let pre = scores(&h);
    h.add_known_address(peer, addrs.clone());
    let post = scores(&h);
    out.push(json!({"e": "rediscover", "pre": pre, "post": post}).to_string());
}

/// Dial by peer id over two transports (TCP + WebSocket scripted transports): the failure report of the
/// transport that is NOT the last one to conclude must re-score its addresses as well, whether the other
/// transport then opens a connection or fails too.
fn run_dial_two(b: usize, rng: &mut StdRng, out: &mut Vec<String>) {
    let mut h = ManagerHarness::new_two(None, None, 1, listen_addrs());
    let peer = PeerId::random();
    let mut names: HashMap<Multiaddr, String> = HashMap::new();
    let (mut tcp, mut ws) = (vec![], vec![]);
    for i in 0..rng.gen_range(1..4) {
        let a = addr_for(&format!("{b}-t{i}"), i % 2 == 0).with(Protocol::P2p(peer.into()));
        names.insert(a.clone(), format!("t{i}"));
        tcp.push(a);
    }
    for i in 0..rng.gen_range(1..4) {
        let a = addr_for(&format!("{b}-w{i}"), i % 2 == 1).with(Protocol::Ws(std::borrow::Cow::Borrowed("/"))).with(Protocol::P2p(peer.into()));
        names.insert(a.clone(), format!("w{i}"));
        ws.push(a);
    }
    let scores = |h: &ManagerHarness| -> Value {
        let mut m = Map::new();
        for (a, s) in h.addresses(&peer) {
            m.insert(names.get(&a).cloned().unwrap_or_else(|| a.to_string()), json!(s));
        }
        Value::Object(m)
    };
    out.push(json!({"e": "reset", "b": b, "src": "dial2", "k": 64}).to_string());
    h.add_known_address(peer, tcp.iter().chain(ws.iter()).cloned().collect());
    for _round in 0..rng.gen_range(1..4) {
        if h.dial(peer).is_err() {
            break;
        }
        while h.step().is_some() {}
        let mut opened: [Vec<Multiaddr>; 2] = [vec![], vec![]];
        let mut cid = None;
        for tr in 0..2 {
            for c in h.take_calls_on(tr) {
                if let Call::Open { cid: c, addresses } = c {
                    cid = Some(c);
                    opened[tr] = addresses;
                }
            }
        }
        let Some(cid) = cid else { break };
        if opened[0].is_empty() || opened[1].is_empty() {
            // only one transport was asked: nothing new compared with run_dial; conclude and go on
            let tr = if opened[0].is_empty() { 1 } else { 0 };
            h.inject_open_failure_on(tr, cid, opened[tr].iter().map(|a| (a.clone(), ErrKind::Timeout)).collect());
            while h.step().is_some() {}
            h.take_calls();
            h.take_calls_on(1);
            continue;
        }
        // first transport to conclude fails on every address
        let first = rng.gen_range(0..2);
        let second = 1 - first;
        let pre = scores(&h);
        let errs1: Vec<(Multiaddr, ErrKind)> = opened[first].iter().map(|a| (a.clone(), ErrKind::Timeout)).collect();
        h.inject_open_failure_on(first, cid, errs1.clone());
        while h.step().is_some() {}
        let mut results: Vec<Value> = errs1.iter().map(|(a, _)| json!({"a": names[a], "score": -100})).collect();
        if rng.gen_bool(0.5) {
            // ... and the other transport fails as well
            let errs2: Vec<(Multiaddr, ErrKind)> = opened[second].iter().map(|a| (a.clone(), ErrKind::Timeout)).collect();
            h.inject_open_failure_on(second, cid, errs2.clone());
            while h.step().is_some() {}
            results.extend(errs2.iter().map(|(a, _)| json!({"a": names[a], "score": -100})));
            out.push(json!({"e": "rescore", "pre": pre, "post": scores(&h), "results": results}).to_string());
        } else {
            // ... and the other transport opens a connection
            let win = opened[second].choose(rng).unwrap().clone();
            h.inject_opened_on(second, cid, win.clone(), vec![]);
            while h.step().is_some() {}
            h.inject_established_on(second, peer, cid, false, win.clone());
            while h.step().is_some() {}
            h.resolve_accept(cid, true);
            let mut est = false;
            while let Some(ev) = h.step() {
                if let MgrEvent::Established { .. } = ev {
                    est = true;
                }
            }
            results.push(json!({"a": names[&win], "score": 100}));
            out.push(json!({"e": "rescore", "pre": pre, "post": scores(&h), "results": results}).to_string());
            if est {
                h.connection_closed(peer, cid);
                while h.step().is_some() {}
            }
        }
        h.take_calls();
        h.take_calls_on(1);
    }
}

fn main() {
    let args = Args::parse();
    quiet_panics();
    let seed = args.u64("seed", 1);
    let out = args.str("out", "trace.ndjson");
    let mut rng = StdRng::seed_from_u64(seed);
    let mut lines = vec![];
    let mut b = 0;
    if let Some(path) = args.get("behaviours") {
        for beh in read_jsonl(path) {
            run_store_behaviour(b, &beh, &mut lines);
            b += 1;
        }
    }
    let tlc_behaviours = b;
    for _ in 0..args.u64("random", 0) {
        run_store_random(b, &mut rng, args.u64("len", 300) as usize, &mut lines);
        b += 1;
    }
    let mut shapes = 0;
    // a panic of the code under test inside a manager-level round is data: the round ends with a
    // `panic` event that the trace specification rejects
    let mut panics = 0;
    let mut guarded = |what: &str, lines: &mut Vec<String>, f: &mut dyn FnMut(&mut Vec<String>)| {
        if let Err(msg) = catch(|| f(lines)) {
            panics += 1;
            lines.push(json!({"e": "panic", "where": what, "msg": msg}).to_string());
        }
    };
    for _ in 0..args.u64("filter", 0) {
        let per = args.u64("per-class", 3) as usize;
        guarded("filter", &mut lines, &mut |lines| shapes += run_filter(b, &mut rng, per, lines));
        b += 1;
    }
    for _ in 0..args.u64("dial", 0) {
        guarded("dial", &mut lines, &mut |lines| run_dial(b, &mut rng, lines));
        b += 1;
        guarded("dial_addr_rejected", &mut lines, &mut |lines| run_dial_addr_rejected(b, &mut rng, lines));
        b += 1;
    }
    for _ in 0..args.u64("dial2", 0) {
        guarded("dial2", &mut lines, &mut |lines| run_dial_two(b, &mut rng, lines));
        b += 1;
    }
    let b = b;
    let events = lines.len().saturating_sub(b);
    write_lines(&out, &lines);
    println!("SUMMARY {}", json!({"behaviours": b, "tlc_behaviours": tlc_behaviours, "events": events, "shape_instances": shapes}));
}
