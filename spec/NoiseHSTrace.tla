---------------------------- MODULE NoiseHSTrace ----------------------------
(* Trace validation for C01: every recorded outcome of the real handshake    *)
(* (one line per concrete execution and observed role) must be an outcome    *)
(* the Prop layer allows for its scenario (MODE=prop); MODE=impl compares    *)
(* with the verdict of the symbolic Impl layer (drift note only).            *)
EXTENDS NoiseHS, TLC, Json, IOUtils

Rec == ndJsonDeserialize(IOEnv.TRACE)
Mode == IOEnv.MODE

VARIABLES l
TInit == l = 1
TNext == /\ l <= Len(Rec)
         /\ LET e == Rec[l]  out == [o |-> e.outcome, peer |-> e.peer] IN
              IF Mode = "impl" THEN out = e.exp ELSE out \in Allowed(e.sc, e.role)
         /\ l' = l + 1
TSpec == TInit /\ [][TNext]_l

Accepted ==
  LET d == TLCGet("stats").diameter IN
  IF d - 1 = Len(Rec) THEN PrintT(<<"TRACE_OK", Len(Rec)>>)
  ELSE PrintT(<<"TRACE_REJECTED_AT", d>>) /\ FALSE
=============================================================================
