---------------------------- MODULE MultistreamImpl ----------------------------
(***************************************************************************)
(* C03, Impl layer: transcription of litep2p's stream-based multistream-   *)
(* select (dialer_select.rs, listener_select.rs, negotiated.rs,            *)
(* length_delimited.rs) running over two FIFO channels of abstract bytes.  *)
(*                                                                         *)
(* A wire unit is [t, m, i]:                                               *)
(*   t = "L": one byte of the varint length prefix of the frame of message *)
(*            m (i = 1 iff it is the last length byte);  names in `Long`   *)
(*            have a two byte prefix                                       *)
(*   t = "B": half i (1 or 2) of the body of the frame of message m        *)
(*   t = "A": one application byte with value i                            *)
(* Messages: "H" (header line), "N" (na) or a protocol name.               *)
(* One action = at most one read/write call on the underlying io, with     *)
(* every possible short count (fragmentation).  `Pending` is stuttering    *)
(* (the futures re-enter exactly where they left).                         *)
(* Carrier flush semantics (cfg.buf = set of sides whose outgoing carrier  *)
(* buffers): a write-through carrier puts written bytes on the wire at     *)
(* once and its flush carries no data (not modelled); a buffering carrier  *)
(* (NoiseSocket, BufWriter) appends writes to a private buffer obuf[s] and *)
(* only its poll_flush moves them to the wire, any non-zero amount per     *)
(* poll, Ready once the buffer is empty.  `LengthDelimited::poll_flush` is *)
(* then "drain the frame buffer, then poll the inner flush until Ready";   *)
(* `Negotiated` flushes through it while Expecting and directly on the     *)
(* carrier once Completed; the application flushes after its payload.      *)
(* Mut # "none" selects a deliberately broken variant (self-test).         *)
(***************************************************************************)
EXTENDS Multistream, TLC

CONSTANTS Long,        \* names whose frame has a 2-byte length prefix
          AppCap,      \* size of the application's read buffer
          ReadFrag,    \* TRUE: frame bodies may arrive in pieces
          WriteFrag,   \* TRUE: writes may be accepted partially
          Record,      \* TRUE: keep the io history (behaviour generation)
          Mut          \* "none" | "overread" | "lazyall" | "skipflush"
\* "skipflush": LengthDelimited::poll_flush returns Ready without polling the inner flush when its own
\* frame buffer is empty (so the inner flush is polled once per drain, and never for an Expecting
\* `Negotiated` whose frames were drained by a write)

VARIABLES cfg, p, chan, obuf, ev, mon, hist
vars == <<cfg, p, chan, obuf, ev, mon, hist>>

Buf(s) == s \in cfg.buf
Out(s) == IF s = "d" THEN "dl" ELSE "ld"
In(s) == Out(Other(s))
Min2(a, b) == IF a < b THEN a ELSE b

U(t, m, i) == [t |-> t, m |-> m, i |-> i]
Frame(msg) ==
  IF msg \in Long
    THEN <<U("L", msg, 0), U("L", msg, 1), U("B", msg, 1), U("B", msg, 2)>>
    ELSE <<U("L", msg, 1), U("B", msg, 1), U("B", msg, 2)>>
AppUnits(bs) == [i \in 1..Len(bs) |-> U("A", "", bs[i])]
\* what the application sees when it is handed unit u as a byte
AsByte(u) == IF u.t = "A" THEN u.i ELSE 999
Decode(buf) ==
  IF /\ Len(buf) = 2 /\ buf[1].t = "B" /\ buf[2].t = "B" /\ buf[1].m = buf[2].m
     /\ buf[1].i = 1 /\ buf[2].i = 2
    THEN buf[1].m ELSE "garbage"
NotName == {"H", "N", "garbage", "eof", "ioerr", "more"}

InitSide(s) ==
  [pc |-> IF s = "d" THEN "Start" ELSE "RecvHeader",
   wbuf |-> <<>>, rst |-> "len", lpos |-> 0, rlen |-> 0, rbuf |-> <<>>,
   idx |-> 0, hdr |-> FALSE, lastNa |-> FALSE, sel |-> "",
   res |-> "run", proto |-> "", neg |-> "none", expHdr |-> FALSE,
   wpos |-> 0, recv |-> <<>>]

Dead(s) == p[s].pc = "Dead"

-----------------------------------------------------------------------------
(* outcomes of a step of side s: new record + observable event *)
Res(r, e) == [r |-> r, e |-> e]
Fail(s, r) ==
  Res([r EXCEPT !.pc = "Dead", !.res = "fail", !.wbuf = <<>>, !.rbuf = <<>>],
      [k |-> "done", s |-> s, ok |-> FALSE, p |-> ""])
AppFail(s, r) ==
  Res([r EXCEPT !.pc = "Dead", !.res = "fail", !.wbuf = <<>>, !.rbuf = <<>>],
      [k |-> "apperr", s |-> s])
\* pc after the negotiation call returned Ok / after the payload was written
AfterWrite(r) ==
  IF r.neg = "expecting" THEN (IF r.wbuf = <<>> THEN "NegRead" ELSE "NegFlush") ELSE "AppRead"
DoneOk(s, r, name, neg) ==
  IF neg = "completed" /\ (r.wbuf # <<>> \/ r.rbuf # <<>>)
    THEN \* `LengthDelimited::into_inner` asserts both buffers are empty
         Res([r EXCEPT !.pc = "Dead", !.res = "panic"], [k |-> "panic", s |-> s])
    ELSE LET r1 == [r EXCEPT !.res = "ok", !.proto = name, !.neg = neg, !.expHdr = (neg = "expecting")]
         IN Res([r1 EXCEPT !.pc = IF Pay(cfg, s) = <<>> THEN AfterWrite(r1) ELSE "AppWrite"],
                [k |-> "done", s |-> s, ok |-> TRUE, p |-> name])

\* dialer: State::SendProtocol for list index i (start_send only; the flush follows)
SendProto(r, i) ==
  LET r1 == [r EXCEPT !.idx = i, !.wbuf = @ \o Frame(cfg.dlist[i])]
      optimistic == cfg.lazy /\ (i = Len(cfg.dlist) \/ Mut = "lazyall")
  IN IF optimistic THEN DoneOk("d", r1, cfg.dlist[i], "expecting")
     ELSE Res([r1 EXCEPT !.pc = "Flush"], NoEvent)

\* a complete message (or read outcome) msg reached the state machine of side s
Handle(s, r, msg) ==
  CASE r.pc = "Await" ->
         IF msg = "H" THEN (IF ~r.hdr THEN Res([r EXCEPT !.hdr = TRUE], NoEvent) ELSE Fail(s, r))
         ELSE IF msg = cfg.dlist[r.idx] THEN DoneOk(s, r, msg, "completed")
         ELSE IF msg = "N"
           THEN (IF r.idx < Len(cfg.dlist) THEN SendProto(r, r.idx + 1) ELSE Fail(s, r))
         ELSE Fail(s, r)
    [] r.pc = "RecvHeader" ->
         IF msg = "H" THEN Res([r EXCEPT !.wbuf = @ \o Frame("H"), !.sel = "", !.pc = "Flush"], NoEvent)
         ELSE Fail(s, r)
    [] r.pc = "RecvMessage" ->
         IF msg \notin NotName
           THEN IF msg \in cfg.lset
                  THEN Res([r EXCEPT !.wbuf = @ \o Frame(msg), !.sel = msg, !.lastNa = FALSE, !.pc = "Flush"], NoEvent)
                  ELSE Res([r EXCEPT !.wbuf = @ \o Frame("N"), !.sel = "", !.lastNa = TRUE, !.pc = "Flush"], NoEvent)
           ELSE Fail(s, r)
    [] r.pc = "NegRead" ->
         IF msg = "H" THEN (IF r.expHdr THEN Res([r EXCEPT !.expHdr = FALSE], NoEvent) ELSE AppFail(s, r))
         ELSE IF msg = r.proto THEN Res([r EXCEPT !.neg = "completed", !.pc = "AppRead"], NoEvent)
         ELSE AppFail(s, r)

\* nc: [c |-> channels, o |-> carrier buffers] after the step
Same == [c |-> chan, o |-> obuf]
\* side s writes units: onto the wire, or into its carrier's private buffer
Put(s, units) == IF Buf(s) THEN [c |-> chan, o |-> [obuf EXCEPT ![s] = @ \o units]]
                 ELSE [c |-> [chan EXCEPT ![Out(s)] = @ \o units], o |-> obuf]
Took(s, rest) == [c |-> [chan EXCEPT ![In(s)] = rest], o |-> obuf]

Apply(s, res, nc, io) ==
  /\ p' = [p EXCEPT ![s] = res.r]
  /\ chan' = nc.c
  /\ obuf' = nc.o
  /\ ev' = res.e
  /\ mon' = UpdEvent(mon, res.e)
  /\ hist' = IF Record /\ io # <<>> THEN Append(hist, [s |-> s, op |-> io[1], n |-> io[2]]) ELSE hist
  /\ UNCHANGED cfg

-----------------------------------------------------------------------------
(* frame reader: LengthDelimited::poll_next, one inner.poll_read per action *)
ReadPcs == {"Await", "RecvHeader", "RecvMessage", "NegRead"}

ReadStep(s) ==
  LET r == p[s]
      c == chan[In(s)]
  IN /\ r.pc \in ReadPcs
     /\ IF c = <<>>
          THEN \* EOF once the peer dropped its io
               /\ Dead(Other(s))
               /\ Apply(s, Handle(s, r, IF r.rst = "len" /\ r.lpos = 0 THEN "eof" ELSE "ioerr"), Same, <<"rd", 0>>)
          ELSE IF r.rst = "len"
            THEN LET u == c[1]
                     rest == Took(s, Tail(c))
                 IN IF u.t = "L"
                      THEN IF u.i = 1
                             THEN Apply(s, Res([r EXCEPT !.rst = "data", !.rlen = 2, !.lpos = 0], NoEvent), rest, <<"rd", 1>>)
                             ELSE IF r.lpos + 1 = 2
                               THEN Apply(s, Handle(s, r, "ioerr"), rest, <<"rd", 1>>)
                               ELSE Apply(s, Res([r EXCEPT !.lpos = @ + 1], NoEvent), rest, <<"rd", 1>>)
                    ELSE IF u.t = "A"
                      THEN IF u.i = 0
                             THEN Apply(s, Handle(s, r, "garbage"), rest, <<"rd", 1>>)
                             ELSE Apply(s, Res([r EXCEPT !.rst = "data", !.rlen = u.i, !.lpos = 0], NoEvent), rest, <<"rd", 1>>)
                    ELSE Apply(s, Handle(s, r, "ioerr"), rest, <<"rd", 1>>)
            ELSE LET want == r.rlen - Len(r.rbuf)
                     cap == IF Mut = "overread" THEN want + 1 ELSE want
                     top == Min2(cap, Len(c))
                 IN \E n \in (IF ReadFrag THEN 1..top ELSE {top}) :
                      LET got == SubSeq(c, 1, Min2(n, want))      \* an over-long read drops the excess
                          buf == r.rbuf \o got
                          rest == Took(s, SubSeq(c, n + 1, Len(c)))
                      IN IF Len(buf) = r.rlen
                           THEN Apply(s, Handle(s, [r EXCEPT !.rst = "len", !.rbuf = <<>>], Decode(buf)), rest, <<"rd", n>>)
                           ELSE Apply(s, Res([r EXCEPT !.rbuf = buf], NoEvent), rest, <<"rd", n>>)

(* LengthDelimited::poll_write_buffer, one inner.poll_write per action; the state
   that follows an empty buffer is entered in the same step *)
WritePcs == {"Flush", "NegFlush"}
InnerPcs == {"FlushI", "NegFlushI", "AppFlushI"}
\* the flush (frame buffer drained, inner flush Ready) of state r.pc is complete
AfterFlush(s, r) ==
  IF r.pc \in {"NegFlush", "NegFlushI"} THEN Res([r EXCEPT !.pc = "NegRead"], NoEvent)
  ELSE IF r.pc = "AppFlushI" THEN Res([r EXCEPT !.pc = AfterWrite(r)], NoEvent)
  ELSE IF s = "d" THEN Res([r EXCEPT !.pc = "Await"], NoEvent)
  ELSE IF r.sel # "" THEN DoneOk(s, r, r.sel, "completed")
  ELSE Res([r EXCEPT !.pc = "RecvMessage"], NoEvent)
\* the frame buffer is drained: over a buffering carrier the inner flush has work to do
AfterDrain(s, r) ==
  IF Buf(s) THEN Res([r EXCEPT !.pc = IF r.pc = "NegFlush" THEN "NegFlushI" ELSE "FlushI"], NoEvent)
  ELSE AfterFlush(s, r)

WriteBuf(s, after(_)) ==
  LET r == p[s] IN
  IF Dead(Other(s)) /\ ~Buf(s)
    THEN Apply(s, IF r.res = "run" THEN Fail(s, r) ELSE AppFail(s, r), Same, <<"wr", 0>>)
    ELSE \E n \in (IF WriteFrag THEN 1..Len(r.wbuf) ELSE {Len(r.wbuf)}) :
           LET r1 == [r EXCEPT !.wbuf = SubSeq(@, n + 1, Len(@))]
           IN Apply(s, IF r1.wbuf = <<>> THEN after(r1) ELSE Res(r1, NoEvent), Put(s, SubSeq(r.wbuf, 1, n)), <<"wr", n>>)

FlushStep(s) ==
  /\ p[s].pc \in WritePcs
  /\ p[s].wbuf # <<>>
  /\ WriteBuf(s, LAMBDA r1 : AfterDrain(s, r1))

(* one poll of the buffering carrier's poll_flush: n units reach the wire; Ready iff nothing is left.
   Under "skipflush" the flush of LengthDelimited polls it once (possibly without progress) and the
   re-poll reports Ready whatever is left. *)
InnerFlushStep(s) ==
  LET r == p[s]
      once == Mut = "skipflush" /\ r.pc \in {"FlushI", "NegFlushI"}
  IN /\ r.pc \in InnerPcs
     /\ obuf[s] # <<>>
     /\ IF Dead(Other(s))
          THEN Apply(s, IF r.res = "run" THEN Fail(s, r) ELSE AppFail(s, r), Same, <<"fl", 0>>)
          ELSE \E n \in (IF once THEN 0..Len(obuf[s]) ELSE 1..Len(obuf[s])) :
                 LET nc == [c |-> [chan EXCEPT ![Out(s)] = @ \o SubSeq(obuf[s], 1, n)],
                            o |-> [obuf EXCEPT ![s] = SubSeq(@, n + 1, Len(@))]]
                 IN Apply(s, IF nc.o[s] = <<>> \/ once THEN AfterFlush(s, r) ELSE Res(r, NoEvent), nc, <<"fl", n>>)

-----------------------------------------------------------------------------
(* application phase on the Negotiated io *)
AppWrite(s) ==
  LET r == p[s]
      pay == Pay(cfg, s)
  IN /\ r.pc = "AppWrite"
     /\ IF r.neg = "expecting" /\ r.wbuf # <<>>
          THEN \* LengthDelimitedReader::poll_write first drains the negotiation frames
               WriteBuf(s, LAMBDA r1 : Res(r1, NoEvent))
          ELSE IF Dead(Other(s)) /\ ~Buf(s)
            THEN Apply(s, AppFail(s, r), Same, <<"wr", 0>>)
            ELSE \E n \in (IF WriteFrag THEN 1..(Len(pay) - r.wpos) ELSE {Len(pay) - r.wpos}) :
                   LET r1 == [r EXCEPT !.wpos = @ + n]
                       \* the application flushes after its payload: through LengthDelimited::poll_flush
                       \* while Expecting (frame buffer already drained by the write), directly otherwise
                       skip == Mut = "skipflush" /\ r.neg = "expecting"
                       next == IF Buf(s) /\ ~skip THEN "AppFlushI" ELSE AfterWrite(r1)
                   IN Apply(s, Res(IF r1.wpos = Len(pay) THEN [r1 EXCEPT !.pc = next] ELSE r1, NoEvent),
                            Put(s, AppUnits(SubSeq(pay, r.wpos + 1, r.wpos + n))), <<"wr", n>>)

AppRead(s) ==
  LET r == p[s]
      c == chan[In(s)]
  IN /\ r.pc = "AppRead"
     /\ IF c = <<>>
          THEN /\ Dead(Other(s))
               /\ Apply(s, Res([r EXCEPT !.pc = "AppEnd"], NoEvent), Same, <<"rd", 0>>)
          ELSE \E n \in 1..Min2(AppCap, Len(c)) :
                 LET bs == [i \in 1..n |-> AsByte(c[i])]
                 IN Apply(s, Res([r EXCEPT !.recv = @ \o bs], [k |-> "read", s |-> s, bs |-> bs]),
                          Took(s, SubSeq(c, n + 1, Len(c))), <<"rd", n>>)

Start ==
  /\ p["d"].pc = "Start"
  /\ LET r1 == [p["d"] EXCEPT !.wbuf = Frame("H")]
     IN Apply("d", IF cfg.dlist = <<>> THEN Fail("d", r1) ELSE SendProto(r1, 1), Same, <<>>)

SideStep(s) == ReadStep(s) \/ FlushStep(s) \/ InnerFlushStep(s) \/ AppWrite(s) \/ AppRead(s)

\* side s can do nothing until the peer acts (or never again)
Blocked(s) ==
  \/ p[s].pc \in {"Dead", "AppEnd"}
  \/ p[s].pc \in ReadPcs \cup {"AppRead"} /\ chan[In(s)] = <<>> /\ ~Dead(Other(s))
Quiescent == Blocked("d") /\ Blocked("l")

ImplInit(c) ==
  /\ cfg = c
  /\ p = [s \in Sides |-> InitSide(s)]
  /\ chan = [dl |-> <<>>, ld |-> <<>>]
  /\ obuf = [d |-> <<>>, l |-> <<>>]
  /\ ev = NoEvent
  /\ mon = PropInit
  /\ hist = <<>>

ImplNext == Start \/ (\E s \in Sides : SideStep(s)) \/ (Quiescent /\ UNCHANGED vars)

-----------------------------------------------------------------------------
(* what TLC checks: every observable step is allowed by the Prop layer, and
   every quiescent state satisfies the end-of-run obligations *)
StepOK == [][OkEvent(cfg, mon, ev')]_vars
QuiesceOK == Quiescent => PropQuiesce(cfg, mon)
\* the frame reader never holds bytes beyond the current frame
ReaderInv == \A s \in Sides : Len(p[s].rbuf) <= p[s].rlen /\ (p[s].rst = "len" => p[s].rbuf = <<>>)
Terminates == <>[]Quiescent
View == <<cfg, p, chan, obuf>>
=============================================================================
