//! scratch probe (to be deleted)
use futures::{AsyncRead, AsyncWrite, AsyncWriteExt, AsyncReadExt};
use litep2p::crypto::ed25519::Keypair;
use litep2p::verif::noise::*;
use litep2p::PeerId;
use std::time::Duration;

#[tokio::main(flavor = "current_thread")]
async fn main() {
    let (a, b) = futures_ringbuf::Endpoint::pair(1 << 20, 1 << 20);
    let k1 = Keypair::generate();
    let k2 = Keypair::generate();
    let (r1, r2) = tokio::join!(
        handshake(a, &k1, Role::Dialer, 5, 2, Duration::from_secs(5), HandshakeTransport::Tcp),
        handshake(b, &k2, Role::Listener, 5, 2, Duration::from_secs(5), HandshakeTransport::Tcp)
    );
    let (mut s1, p2) = r1.unwrap();
    let (mut s2, p1) = r2.unwrap();
    println!("{p1} {p2} {}", p2 == PeerId::from_public_key(&k2.public().into()));
    for n in [65519usize, 65520, 65521, 131040] {
        let buf = vec![7u8; n];
        let r = s1.write(&buf).await;
        println!("write {n} -> {r:?} state {:?}", s1.verif_state());
        let _ = s1.flush().await;
        if let Ok(k) = r {
            let mut got = vec![0u8; k];
            s2.read_exact(&mut got).await.unwrap();
            println!("read back {k}");
        }
    }
}
