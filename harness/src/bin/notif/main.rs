//! C11 / C12 conformance harness: small real litep2p networks (2 nodes + optional bystander) over
//! loopback TCP, driven through the public notification API by scenario scripts (from TLC
//! behaviours, seeded random drivers and hand-written families), under a seeded
//! schedule-perturbing executor.  Each network runs in its own thread with its own
//! current-thread runtime; many run concurrently so that scenarios waiting for litep2p's
//! compile-time timeouts (10 s negotiation, 5 s "no inbound substream") cost no wall time.
//!
//!   notif --scripts <jsonl> --out <ndjson> [--threads N]
//!
//! script line: {"id":..,"cfg":{auto,dial,sync,async,max,perturb,seed,bystander,tq_ms},"steps":[{op..}..]}
//! output: per endpoint one segment {"e":"reset",...} ... {"e":"quiesce",...}
mod exec;
mod net;
mod proxy;

use serde_json::{json, Value};
use std::sync::{
    atomic::{AtomicUsize, Ordering},
    Arc, Mutex,
};
use vharness::*;

fn run_script(sc: &Value) -> (Vec<Vec<String>>, Value) {
    let cfg = net::Cfg::from_json(&sc["cfg"]);
    let transport = cfg.transport.clone();
    let rt = tokio::runtime::Builder::new_current_thread().enable_all().build().expect("runtime");
    let id = sc["id"].clone();
    let steps = sc["steps"].as_array().cloned().unwrap_or_default();
    let out = rt.block_on(async move {
        let mut net = net::Net::new(cfg).await;
        let connected = net.connect().await;
        if connected {
            for s in &steps {
                net.step(s).await;
            }
            if steps.last().map(|s| s["op"] != "quiesce").unwrap_or(true) {
                net.quiesce().await;
            }
        }
        let mut logs = Vec::new();
        let mut polls = 0u64;
        let mut conn_tasks = 0usize;
        for n in &net.nodes {
            let mut l = n.log.lock().unwrap().clone();
            // tag the reset line with the scenario id
            let mut r: Value = serde_json::from_str(&l[0]).unwrap();
            r["sc"] = id.clone();
            r["connected"] = json!(connected);
            l[0] = r.to_string();
            logs.push(l);
            polls += n.exec.polls.load(Ordering::Relaxed);
            conn_tasks += n.exec.conn_tasks.load(Ordering::SeqCst);
        }
        (logs, json!({"connected": connected, "transport": transport, "late_ms": net.max_late_ms, "polls": polls, "conn_tasks": conn_tasks, "notes": net.notes}))
    });
    rt.shutdown_background();
    out
}

fn main() {
    exec::install_panic_hook();
    let args = Args::parse();
    let scripts = read_jsonl(&args.str("scripts", "scripts.jsonl"));
    let threads = args.u64("threads", 48) as usize;
    let next = Arc::new(AtomicUsize::new(0));
    let scripts = Arc::new(scripts);
    let results: Arc<Mutex<Vec<(usize, Vec<Vec<String>>, Value)>>> = Arc::new(Mutex::new(Vec::new()));
    let mut hs = Vec::new();
    for _ in 0..threads.min(scripts.len()).max(1) {
        let (next, scripts, results) = (next.clone(), scripts.clone(), results.clone());
        hs.push(
            std::thread::Builder::new()
                .stack_size(8 << 20)
                .spawn(move || loop {
                    let i = next.fetch_add(1, Ordering::SeqCst);
                    if i >= scripts.len() {
                        break;
                    }
                    let r = std::panic::catch_unwind(std::panic::AssertUnwindSafe(|| run_script(&scripts[i])));
                    match r {
                        Ok((logs, info)) => results.lock().unwrap().push((i, logs, info)),
                        Err(_) => results.lock().unwrap().push((i, Vec::new(), json!({"harness_panic": true}))),
                    }
                })
                .unwrap(),
        );
    }
    for h in hs {
        let _ = h.join();
    }
    let mut res = results.lock().unwrap();
    res.sort_by_key(|r| r.0);
    let mut lines = Vec::new();
    let (mut nconn, mut nfail, mut late, mut hp, mut polls, mut ct) = (0, 0, 0u64, 0, 0u64, 0u64);
    let mut per_tr: std::collections::BTreeMap<String, (u64, u64)> = Default::default();
    for (_, logs, info) in res.iter() {
        if info["harness_panic"].as_bool() == Some(true) {
            hp += 1;
            continue;
        }
        let e = per_tr.entry(info["transport"].as_str().unwrap_or("tcp").to_string()).or_default();
        if info["connected"].as_bool() == Some(true) {
            nconn += 1;
            e.0 += 1;
        } else {
            nfail += 1;
            e.1 += 1;
        }
        late = late.max(info["late_ms"].as_u64().unwrap_or(0));
        polls += info["polls"].as_u64().unwrap_or(0);
        ct += info["conn_tasks"].as_u64().unwrap_or(0);
        for l in logs {
            lines.extend(l.iter().cloned());
        }
    }
    write_lines(&args.str("out", "trace.ndjson"), &lines);
    println!(
        "SUMMARY {}",
        json!({"scripts": scripts.len(), "networks_connected": nconn, "connect_failed": nfail, "harness_panics": hp,
               "lines": lines.len(), "max_driver_lateness_ms": late,
               "per_transport_connected_failed": per_tr.iter().map(|(k, v)| (k.clone(), json!([v.0, v.1]))).collect::<serde_json::Map<_, _>>(), "task_polls": polls, "stream_tasks": ct})
    );
}
