------------------------------ MODULE ReqRespMC ------------------------------
(***************************************************************************)
(* Implementation-shaped model of litep2p's request-response protocol      *)
(* (src/protocol/request_response/mod.rs, handle.rs), one action per       *)
(* handler of RequestResponseProtocol::run(), composed with                *)
(*   - the user of the requesting node R (send_request / cancel_request),  *)
(*   - the environment = what the connection manager and the connection    *)
(*     tasks guarantee: a dial ends in one outcome, connections are        *)
(*     reported established / closed in order, every requested substream   *)
(*     is opened or fails at most once and never after the connection was  *)
(*     reported closed,                                                    *)
(*   - responders with the behaviours answer / reject / stall / disconnect *)
(*     and a bound on concurrent inbound requests,                         *)
(*   - the property monitor of ReqResp.tla fed with everything the users   *)
(*     do and see.                                                         *)
(*                                                                         *)
(* pending_dials is a queue of request contexts per peer ("d9" \in Fixed,   *)
(* the code since /repo e9eba69).  Without "d9" it is the one-slot MAP the  *)
(* code had before: an insert replaces the stored request, which is tagged  *)
(* in kf; that variant is kept for the negative self-test (TLC must find    *)
(* the lost request).                                                      *)
(*                                                                         *)
(* Abstractions: a request opens at most one substream in its life, so the *)
(* substream id is the request id; connections are not numbered, instead   *)
(* the service's handle and a queued ConnectionEstablished carry "is this  *)
(* connection still alive"; the request is shown to the responder's user   *)
(* (or dropped by its bound) in the step in which it is written.           *)
(***************************************************************************)
EXTENDS ReqResp, SequencesExt, FiniteSetsExt, Json

CONSTANTS Peers,      \* responder nodes, e.g. {2, 3}; the requester is node 1
          MaxReq,     \* number of requests the user may issue
          MaxConc,    \* responders' bound on concurrent inbound requests (NoLimit = none)
          MaxConn,    \* connections that may be established in total
          MaxCancel,  \* cancel_request calls the user may make
          DialOpts,   \* subset of {"dial", "reject"}
          Fixed,      \* tags of known defects modelled as repaired
          ImmErr,     \* service.dial() may fail at once (no known address, channel clogged): BOOLEAN
          Foreign,    \* a dial failure for a peer may be broadcast although this protocol did not dial
                      \* (the application or another protocol dialed): BOOLEAN
          Bugs,       \* negative variants for the self-test: "keepctx" = the request context is stored in
                      \* pending_dials before the fallible dial() and stays there when dial() fails
          Idle,       \* connection-level view of responses: a written response reaches the socket only when the
                      \* connection task pumps it (Pump) and the responder's connection task may exit because
                      \* every protocol released the connection (ConnTaskExitOnIdle); the monitor also judges
                      \* the C04 clause "reported complete => delivered".  FALSE: a written response is on the wire
          Faults,     \* the link may fail (EClose); FALSE for the C04 clause, which is about links without fault
          Stall,      \* the write phase of a request is its own step: after the substream opened the request is being
                      \* written ("writing"); the write completes (WriteDone), or the link / peer stalls mid-frame with
                      \* the connection staying up (WriteStall) and the write has to end in a timeout.  FALSE: the
                      \* request is written in the step in which the substream opens
          Wedge,      \* the manager may leave a dial without any outcome (known C05 defect: negotiated
                      \* connection refused by the outgoing limit, peer stays Dialing, nothing reported)
          KeepHist,   \* record the stimulus history (behaviour generation)
          p2, p3      \* responder nodes as model values (symmetry)

R == 1
FixedNone == {}
FixedD9 == {"d9"}
BothOpts == {"dial", "reject"}
DialOnly == {"dial"}
NoBugs == {}
KeepCtx == {"keepctx"}
NoDrain == {"nodrain"}        \* the connection task exits on idle without draining what substreams have written
CloseFirst == {"closefirst"}
DrainAll == {"drainall"}      \* the drain in on_connection_closed swallows failed futures of other peers
NoWriteTimeout == {"nowritetimeout"}   \* the write phase of a request is not bounded by the request timeout
QueueAC == {"queueac"}        \* a Dial request that meets AlreadyConnected is queued in pending_dials instead of failing
InvFilter == {"invfilter"}    \* on_connection_closed filters pending_outbound with the inverted predicate  \* on_connection_closed fails requests whose response has already arrived
OnePeer == {p2}
TwoPeers == {p2, p3}

VARIABLES
  \* RequestResponseProtocol
  inpeers,   \* DOMAIN of `peers`
  active,    \* peer -> set of request ids (peers[p].active)
  pdial,     \* peer -> sequence of request ids (pending_dials; at most one in the pre-e9eba69 variant)
  pout,      \* substream id -> [rid, p]: substreams being opened (pending_outbound, a map whose contexts name
             \* their peer; the substream id of a request is its request id)
  fut,       \* request id -> cancel signalled  (pending_inbound: request written, waiting)
  cancels,   \* set of request ids         (pending_outbound_cancels)
  evq,       \* events queued by TransportService for the protocol loop
  cmdq,      \* commands queued by the handle
  \* environment
  mgr,       \* peer -> "disc" | "conn" | "closing"  (TransportManager's view of the peer, separate from the
             \* protocol's `peers`: report_connection_closed tells the protocols first and the manager afterwards;
             \* "closing" = the connection is dead, ConnectionClosed is queued for the protocol, the manager still
             \* says connected until MgrClosed)
  mdial,     \* peer -> dial in flight
  wedged,    \* peers whose dial will never get an outcome (only with Wedge)
  svc,       \* peer -> "none" | "live" | "dead": connection held in TransportService.connections
  sids,      \* request ids whose substream was requested from the live connection, not yet reported
  nc,        \* connections established so far
  \* responders
  rq,        \* request id -> none | writing | stalled | delivered | dropped | answered | rejected | over
  inb,       \* peer -> requests shown to its user and not yet answered / rejected
  tgt,       \* request id -> peer
  wire,      \* requests whose response has reached the socket (is readable by the requester's future)
  gone,      \* requests whose connection suffered a link fault (excused from the C04 clause)
  \* bookkeeping
  mon, kf, hist, nrid

pvars == <<inpeers, active, pdial, pout, fut, cancels, evq, cmdq>>
evars == <<mgr, mdial, wedged, svc, sids, nc>>
rvars == <<rq, inb, tgt, wire, gone>>
vars == <<inpeers, active, pdial, pout, fut, cancels, evq, cmdq, mgr, mdial, wedged, svc, sids, nc,
          rq, inb, tgt, wire, gone, mon, kf, hist, nrid>>

Q(r) == "q" \o ToString(r)     \* request payload digest
A(r) == "a" \o ToString(r)     \* digest of the response the responder supplies for request r

H(x) == IF KeepHist THEN Append(hist, x) ELSE hist

Rids == 0..(MaxReq - 1)

Init ==
  /\ inpeers = {} /\ active = [p \in Peers |-> {}] /\ pdial = [p \in Peers |-> <<>>]
  /\ pout = <<>> /\ fut = <<>> /\ cancels = {} /\ evq = <<>> /\ cmdq = <<>>
  /\ mgr = [p \in Peers |-> "disc"] /\ mdial = [p \in Peers |-> FALSE] /\ wedged = {}
  /\ svc = [p \in Peers |-> "none"] /\ sids = {} /\ nc = 0
  /\ rq = [r \in Rids |-> "none"] /\ inb = [p \in Peers |-> {}] /\ tgt = [r \in Rids |-> 0]
  /\ wire = {} /\ gone = {}
  /\ mon = WithC04(MonInit([n \in {R} \cup Peers |-> IF n = R THEN NoLimit ELSE MaxConc]), Idle)
  /\ kf = {} /\ hist = <<>> /\ nrid = 0

Drop(f, k) == [x \in DOMAIN f \ {k} |-> f[x]]
FailEvs(M, S) == FoldSet(LAMBDA r, acc : MonFailEv(acc, R, r), M, S)
SeqFailEvs(M, s) == FoldLeft(LAMBDA acc, r : MonFailEv(acc, R, r), M, s)
Of(S, p) == {r \in S : tgt[r] = p}

-----------------------------------------------------------------------------
(* the user of node R                                                       *)

UIssue(p, d) ==
  /\ nrid < MaxReq
  /\ LET r == nrid IN
     /\ cmdq' = Append(cmdq, [c |-> "send", rid |-> r, p |-> p, d |-> d])
     /\ mon' = MonIssued(MonIssue(mon, R, r, p, Q(r)), R, r, r, TRUE)
     /\ tgt' = [tgt EXCEPT ![r] = p]
     /\ nrid' = nrid + 1
     /\ hist' = H([a |-> "issue", r |-> r, p |-> p, d |-> d])
  /\ UNCHANGED <<inpeers, active, pdial, pout, fut, cancels, evq, evars, rq, inb, wire, gone, kf>>

UCancel(r) ==
  /\ r < nrid /\ mon.req[r].st = "open" /\ ~mon.req[r].canc
  /\ Cardinality({k \in DOMAIN mon.req : mon.req[k].canc}) < MaxCancel
  /\ cmdq' = Append(cmdq, [c |-> "cancel", rid |-> r, p |-> 0, d |-> ""])
  /\ mon' = MonCancel(mon, R, r)
  /\ hist' = H([a |-> "cancel", r |-> r])
  /\ UNCHANGED <<inpeers, active, pdial, pout, fut, cancels, evq, evars, rvars, kf, nrid>>

-----------------------------------------------------------------------------
(* RequestResponseProtocol::run(): user commands                            *)

\* pending_dials.insert(peer, context)
InsertDial(p, r) ==
  IF "d9" \in Fixed
    THEN pdial' = [pdial EXCEPT ![p] = Append(@, r)] /\ kf' = kf
    ELSE \* HashMap::insert: a context already stored for this peer is replaced and dropped
         pdial' = [pdial EXCEPT ![p] = <<r>>] /\ kf' = kf \cup ToSet(pdial[p])

\* on_send_request
OnSendRequest(c) ==
  LET p == c.p r == c.rid IN
  IF p \notin inpeers THEN
    IF c.d = "reject" THEN
      /\ mon' = MonFailEv(mon, R, r)                       \* NotConnected
      /\ UNCHANGED <<inpeers, active, pdial, pout, evars, kf>>
    ELSE IF mgr[p] # "disc" THEN
      \* dial() returns Err(AlreadyConnected) from the manager's view: either the manager has the connection and the
      \* protocol has not processed ConnectionEstablished yet, or the protocol has already processed ConnectionClosed
      \* and the manager has not.  The request fails at once and nothing is stored.
      \* "queueac": the request is queued in pending_dials and Ok returned (seeded change C13f) - in the close-side
      \* window no ConnectionEstablished or DialFailure will ever drain it.
      /\ IF "queueac" \in Bugs THEN mon' = mon /\ InsertDial(p, r)
         ELSE /\ mon' = MonFailEv(mon, R, r)
              /\ IF "keepctx" \in Bugs THEN InsertDial(p, r) ELSE UNCHANGED <<pdial, kf>>
      /\ UNCHANGED <<inpeers, active, pout, evars>>
    ELSE IF mdial[p] THEN
      \* TransportManagerHandle::dial: DialingInProgress => Ok(())
      /\ InsertDial(p, r)
      /\ UNCHANGED <<inpeers, active, pout, evars, mon>>
    ELSE
      \* DialPeer command accepted; if TransportManager::dial refuses it later (connection limit,
      \* no address) the protocols are sent a DialFailure (repo commit 7c774cf) - this is the
      \* dial that fails at once (EDialFail)
      \/ /\ mdial' = [mdial EXCEPT ![p] = TRUE]
         /\ InsertDial(p, r)
         /\ UNCHANGED <<inpeers, active, pout, mgr, wedged, svc, sids, nc, mon>>
      \* ... or dial() returns an error at once (NoAddressAvailable, ChannelClogged): the request fails
      \* with DialFailed(Some(error)) and nothing is stored
      \/ /\ ImmErr
         /\ mon' = MonFailEv(mon, R, r)
         /\ IF "keepctx" \in Bugs THEN InsertDial(p, r) ELSE UNCHANGED <<pdial, kf>>
         /\ UNCHANGED <<inpeers, active, pout, evars>>
  ELSE IF svc[p] # "live" THEN
    /\ mon' = MonFailEv(mon, R, r)                         \* open_substream failed
    /\ UNCHANGED <<inpeers, active, pdial, pout, evars, kf>>
  ELSE
    /\ active' = [active EXCEPT ![p] = @ \cup {r}]
    /\ pout' = (r :> [rid |-> r, p |-> p]) @@ pout
    /\ sids' = sids \cup {r}
    /\ UNCHANGED <<inpeers, pdial, mgr, mdial, wedged, svc, nc, mon, kf>>

\* on_cancel_request
OnCancel(c) ==
  /\ IF c.rid \in cancels
       THEN cancels' = cancels \ {c.rid} /\ fut' = [fut EXCEPT ![c.rid] = TRUE]
       ELSE UNCHANGED <<cancels, fut>>
  /\ UNCHANGED <<inpeers, active, pdial, pout, evars, mon, kf>>

PCmd ==
  /\ cmdq # <<>>
  /\ cmdq' = Tail(cmdq)
  /\ LET c == Head(cmdq) IN
       IF c.c = "send" THEN OnSendRequest(c) /\ UNCHANGED <<fut, cancels>> ELSE OnCancel(c)
  /\ UNCHANGED <<evq, rvars, hist, nrid>>

-----------------------------------------------------------------------------
(* RequestResponseProtocol::run(): events from the transport service        *)

\* on_connection_established; alive: the connection has not died yet
OnConnEst(p, alive) ==
  /\ svc' = [svc EXCEPT ![p] = IF alive THEN "live" ELSE "dead"]
  /\ IF p \in inpeers THEN
       /\ mon' = Fail(mon, "panic: peer already exists")
       /\ UNCHANGED <<inpeers, active, pdial, pout, sids>>
     ELSE IF pdial[p] = <<>> THEN
       /\ inpeers' = inpeers \cup {p}
       /\ UNCHANGED <<active, pdial, pout, sids, mon>>
     ELSE
       /\ pdial' = [pdial EXCEPT ![p] = <<>>]
       /\ IF alive THEN
            /\ inpeers' = inpeers \cup {p}
            /\ active' = [active EXCEPT ![p] = ToSet(pdial[p])]
            /\ pout' = [x \in ToSet(pdial[p]) |-> [rid |-> x, p |-> p]] @@ pout
            /\ sids' = sids \cup ToSet(pdial[p])
            /\ mon' = mon
          ELSE \* open_substream failed: the request is failed and the peer is not registered
            /\ mon' = SeqFailEvs(mon, pdial[p])
            /\ UNCHANGED <<inpeers, active, pout, sids>>
  /\ UNCHANGED <<fut, cancels, mgr, mdial, wedged, nc, kf>>

\* on_connection_closed.  The request futures that are complete at that moment - of ALL peers - are taken first
\* (commit 98aebad): a response that has arrived or a cancellation is handled as in the main loop whatever its peer;
\* a failed future of ANOTHER peer is handled through the normal path as well (its request fails now); a failed
\* future of the closing peer is left for the flush of `active` below.
\*   "closefirst": no drain at all (the code before 98aebad)
\*   "drainall"  : failed futures of other peers are consumed and dropped (seeded change C13e)
ReadyResp == IF "closefirst" \in Bugs THEN {} ELSE {r \in DOMAIN fut : rq[r] = "answered" /\ r \in wire}
ReadyCanc == IF "closefirst" \in Bugs THEN {} ELSE {r \in DOMAIN fut \ ReadyResp : fut[r] /\ rq[r] \notin {"writing", "stalled"}}
\* a future may be complete with a failure (timeout, substream closed, read error) - see PFut
MayFail(r) == ~(rq[r] = "stalled" /\ "nowritetimeout" \in Bugs) /\ ~(~Faults /\ rq[r] = "answered" /\ ~(mgr[tgt[r]] # "conn" /\ r \notin wire))
ReadyFailedOthers(p) == IF "closefirst" \in Bugs THEN {{}}
                        ELSE SUBSET {r \in DOMAIN fut \ (ReadyResp \cup ReadyCanc) : tgt[r] # p /\ MayFail(r)}
Handled(r) == tgt[r] \in inpeers /\ r \in active[tgt[r]]     \* on_substream_event finds the request active
OnConnClosed(p) ==
  /\ svc' = [svc EXCEPT ![p] = "none"]
  \* pending_outbound.retain(|_, context| context.peer != peer); "invfilter": the filter inverted - the dead
  \* contexts of the closed peer are kept and those of every other peer are removed
  /\ pout' = IF "invfilter" \in Bugs THEN [x \in {y \in DOMAIN pout : pout[y].p = p} |-> pout[x]]
                                     ELSE [x \in {y \in DOMAIN pout : pout[y].p # p} |-> pout[x]]
  /\ \E F \in ReadyFailedOthers(p) :
       LET taken == ReadyResp \cup ReadyCanc \cup F                   \* futures consumed by the drain
           resp  == {r \in ReadyResp : Handled(r)}
           failO == IF "drainall" \in Bugs THEN {} ELSE {r \in F : Handled(r)}
           done  == resp \cup {r \in ReadyCanc : Handled(r)} \cup failO  \* removed from `active` by on_substream_event
           act1  == [q \in Peers |-> active[q] \ done]
           flush == IF p \in inpeers THEN act1[p] ELSE {}
       IN
       /\ mon' = FailEvs(FailEvs(FoldSet(LAMBDA r, acc : MonResp(acc, R, r, A(r)), mon, resp), failO), flush)
       /\ active' = [act1 EXCEPT ![p] = IF p \in inpeers THEN {} ELSE @]
       /\ inpeers' = inpeers \ {p}
       /\ fut' = [r \in DOMAIN fut \ taken |-> fut[r]]
       /\ cancels' = cancels \ taken
       /\ rq' = [r \in Rids |-> IF r \in taken /\ rq[r] # "delivered" THEN "over" ELSE rq[r]]
  /\ UNCHANGED <<pdial, mgr, mdial, wedged, sids, nc, kf, inb, tgt, wire, gone>>

\* on_dial_failure
OnDialFailure(p) ==
  /\ IF pdial[p] # <<>> THEN
       /\ pdial' = [pdial EXCEPT ![p] = <<>>]
       /\ active' = [active EXCEPT ![p] = @ \ ToSet(pdial[p])]
       /\ mon' = SeqFailEvs(mon, pdial[p])
     ELSE UNCHANGED <<pdial, active, mon>>
  /\ UNCHANGED <<inpeers, pout, fut, cancels, evars, kf>>

\* the responder's on_inbound_substream / on_inbound_request for the request just written
Deliver(M, r) ==
  LET p == tgt[r] IN
  IF svc[p] # "live" \/ (MaxConc # NoLimit /\ Cardinality(inb[p]) >= MaxConc)
    \* the connection is gone before the request was written, or the responder's bound refuses it
    THEN [m |-> M, st |-> "dropped", inb |-> inb]
    ELSE [m |-> MonRecv(M, p, R, r, r, Q(r)), st |-> "delivered", inb |-> [inb EXCEPT ![p] = @ \cup {r}]]

\* on_outbound_substream: the request is written, the future waits for response / timeout / cancel
OnSubOpened(r) ==
  /\ IF r \in DOMAIN pout THEN
       LET d == IF Stall THEN [m |-> mon, st |-> "writing", inb |-> inb] ELSE Deliver(mon, r) IN
       /\ pout' = Drop(pout, r)
       /\ cancels' = cancels \cup {r}
       /\ fut' = (r :> FALSE) @@ fut
       /\ rq' = [rq EXCEPT ![r] = d.st]
       /\ inb' = d.inb
       /\ mon' = d.m
     ELSE /\ mon' = Fail(mon, "panic: pending outbound request does not exist")
          /\ UNCHANGED <<pout, cancels, fut, rq, inb>>
  /\ UNCHANGED <<inpeers, active, pdial, evars, kf, tgt, wire, gone>>

\* on_substream_open_failure
OnSubOpenFail(r) ==
  /\ IF r \in DOMAIN pout THEN
       /\ pout' = Drop(pout, r)
       /\ active' = [active EXCEPT ![pout[r].p] = @ \ {r}]
       /\ mon' = MonFailEv(mon, R, r)
     ELSE /\ mon' = Fail(mon, "panic: pending outbound request does not exist")
          /\ UNCHANGED <<pout, active>>
  /\ UNCHANGED <<inpeers, pdial, fut, cancels, evars, kf, rvars>>

PEvt ==
  /\ evq # <<>>
  /\ evq' = Tail(evq)
  /\ LET e == Head(evq) IN
       CASE e.k = "est"      -> OnConnEst(e.x, e.i = 1) /\ UNCHANGED rvars
         [] e.k = "closed"   -> OnConnClosed(e.x)
         [] e.k = "dialfail" -> OnDialFailure(e.x) /\ UNCHANGED rvars
         [] e.k = "subopen"  -> OnSubOpened(e.x)
         [] e.k = "subfail"  -> OnSubOpenFail(e.x)
  /\ UNCHANGED <<cmdq, hist, nrid>>

\* the write of the request completes: the responder's protocol gets it (or its bound refuses it)
WriteDone(r) ==
  /\ r \in DOMAIN fut /\ rq[r] = "writing"
  /\ LET d == Deliver(mon, r) IN
       /\ rq' = [rq EXCEPT ![r] = d.st]
       /\ inb' = d.inb
       /\ mon' = d.m
  /\ UNCHANGED <<pvars, evars, tgt, wire, gone, kf, hist, nrid>>

\* the link or the peer stalls mid-frame while the connection stays up: the write cannot complete any more
WriteStall(r) ==
  /\ Stall /\ r \in DOMAIN fut /\ rq[r] = "writing"
  /\ rq' = [rq EXCEPT ![r] = "stalled"]
  /\ hist' = H([a |-> "writestall", r |-> r])
  /\ UNCHANGED <<pvars, evars, inb, tgt, wire, gone, mon, kf, nrid>>

\* a request future completes and on_substream_event handles it
\*   res: "resp" (the response arrived), "canceled" (cancel signal won the select!),
\*        "err" (timeout, substream closed / reset, read error)
PFut(r, res) ==
  /\ r \in DOMAIN fut
  /\ res = "resp" => rq[r] = "answered" /\ r \in wire
  \* on a link without fault a timeout does not pre-empt a response whose send was reported complete,
  \* unless that response can no longer arrive
  /\ (res = "err" /\ ~Faults /\ rq[r] = "answered") => (mgr[tgt[r]] # "conn" /\ r \notin wire)
  \* the cancel signal is looked at only after the request has been written
  /\ res = "canceled" => fut[r] /\ rq[r] \notin {"writing", "stalled"}
  \* a write that cannot complete ends with the request timeout ("nowritetimeout": it does not)
  /\ (res = "err" /\ rq[r] = "stalled") => "nowritetimeout" \notin Bugs
  /\ LET p == tgt[r] IN
       IF p \in inpeers /\ r \in active[p] THEN
         /\ active' = [active EXCEPT ![p] = @ \ {r}]
         /\ mon' = CASE res = "resp" -> MonResp(mon, R, r, A(r))
                     [] res = "canceled" -> mon
                     [] OTHER -> MonFailEv(mon, R, r)
       ELSE UNCHANGED <<active, mon>>
  /\ fut' = Drop(fut, r)
  /\ cancels' = cancels \ {r}
  \* what the responder does with a request whose requester has given up is not observable by
  \* the requester any more; a request shown to the responder's user keeps its slot
  /\ rq' = [rq EXCEPT ![r] = IF @ = "delivered" THEN @ ELSE "over"]
  /\ hist' = IF res = "err" THEN H([a |-> "timeout", r |-> r]) ELSE hist
  /\ UNCHANGED <<inpeers, pdial, pout, evq, cmdq, evars, inb, tgt, wire, gone, kf, nrid>>

-----------------------------------------------------------------------------
(* environment: connection manager, connection tasks                        *)

NewConn(p) ==
  /\ mgr' = [mgr EXCEPT ![p] = "conn"]
  /\ nc' = nc + 1
  /\ evq' = Append(evq, [k |-> "est", x |-> p, i |-> 1])

EDialOk(p) ==
  /\ mdial[p] /\ p \notin wedged /\ (mgr[p] = "disc" => nc < MaxConn)
  /\ mdial' = [mdial EXCEPT ![p] = FALSE]
  /\ IF mgr[p] = "disc" THEN NewConn(p)
     ELSE UNCHANGED <<mgr, nc, evq>>      \* a secondary connection: protocols are not told
  /\ hist' = H([a |-> "dialok", p |-> p])
  /\ UNCHANGED <<inpeers, active, pdial, pout, fut, cancels, cmdq, wedged, svc, sids, rvars, mon, kf, nrid>>

EDialFail(p) ==
  /\ mdial[p] /\ p \notin wedged
  /\ mdial' = [mdial EXCEPT ![p] = FALSE]
  /\ evq' = Append(evq, [k |-> "dialfail", x |-> p, i |-> 0])
  /\ hist' = H([a |-> "dialfail", p |-> p])
  /\ UNCHANGED <<inpeers, active, pdial, pout, fut, cancels, cmdq, mgr, wedged, svc, sids, nc, rvars, mon, kf, nrid>>

\* known C05 defect (outbound-established-rejected-by-limit): the dialed connection is negotiated,
\* the manager refuses it because the outgoing limit was reached meanwhile, the peer stays
\* "dialing" for ever and no DialFailure is sent to the protocols
EDialWedge(p) ==
  /\ Wedge /\ mdial[p] /\ p \notin wedged
  /\ wedged' = wedged \cup {p}
  /\ hist' = H([a |-> "wedge", p |-> p])
  /\ UNCHANGED <<pvars, mgr, mdial, svc, sids, nc, rvars, mon, kf, nrid>>

\* somebody else's dial of p fails (the application, another protocol): dial failures are broadcast to all
\* protocols.  Counted against the connection budget to keep the model finite.
EForeignDialFail(p) ==
  /\ Foreign /\ mgr[p] = "disc" /\ ~mdial[p] /\ nc < MaxConn
  /\ nc' = nc + 1
  /\ evq' = Append(evq, [k |-> "dialfail", x |-> p, i |-> 0])
  /\ hist' = H([a |-> "foreigndialfail", p |-> p])
  /\ UNCHANGED <<inpeers, active, pdial, pout, fut, cancels, cmdq, mgr, mdial, wedged, svc, sids, rvars, mon, kf, nrid>>

\* the peer connects to us (or the user dialed it beforehand)
EInbound(p) ==
  /\ mgr[p] = "disc" /\ nc < MaxConn
  /\ NewConn(p)
  /\ hist' = H([a |-> "connect", p |-> p])
  /\ UNCHANGED <<inpeers, active, pdial, pout, fut, cancels, cmdq, mdial, wedged, svc, sids, rvars, mon, kf, nrid>>

\* the connection dies (responder disconnects, link cut, keep-alive): substreams still being
\* opened are never reported any more, ConnectionClosed is
CloseConn(p) ==
  /\ mgr' = [mgr EXCEPT ![p] = "closing"]
  /\ svc' = [svc EXCEPT ![p] = IF @ = "live" THEN "dead" ELSE @]
  /\ sids' = sids \ Of(sids, p)
  /\ evq' = Append([j \in 1..Len(evq) |-> IF evq[j].k = "est" /\ evq[j].x = p THEN [evq[j] EXCEPT !.i = 0] ELSE evq[j]],
                   [k |-> "closed", x |-> p, i |-> 0])

\* what the substreams of the connection with p have written is handed to the socket
Drain(p) == wire' = wire \cup {r \in Rids : tgt[r] = p /\ rq[r] = "answered"}

\* The responder's connection task sees that every protocol has released the connection (no request is held by
\* the responder's user, keep-alive expired) and exits: Drain, then Close (tcp / websocket since 691b9a1).
\* "nodrain": it returns without polling yamux again.
ConnTaskExitOnIdle(p) ==
  /\ Idle /\ mgr[p] = "conn" /\ inb[p] = {}
  /\ IF "nodrain" \in Bugs THEN wire' = wire ELSE Drain(p)
  /\ CloseConn(p)
  /\ hist' = H([a |-> "idleclose", p |-> p])
  /\ UNCHANGED <<inpeers, active, pdial, pout, fut, cancels, cmdq, mdial, wedged, nc, rq, inb, tgt, gone, mon, kf, nrid>>

\* the connection task polls yamux: a written response reaches the socket
Pump(r) ==
  /\ Idle /\ rq[r] = "answered" /\ r \notin wire /\ r \notin gone /\ mgr[tgt[r]] = "conn"
  /\ wire' = wire \cup {r}
  /\ UNCHANGED <<pvars, evars, rq, inb, tgt, gone, mon, kf, hist, nrid>>

EClose(p) ==
  /\ Faults
  /\ mgr[p] = "conn"
  /\ mgr' = [mgr EXCEPT ![p] = "closing"]
  /\ svc' = [svc EXCEPT ![p] = IF @ = "live" THEN "dead" ELSE @]
  /\ sids' = sids \ Of(sids, p)
  /\ evq' = Append([j \in 1..Len(evq) |-> IF evq[j].k = "est" /\ evq[j].x = p THEN [evq[j] EXCEPT !.i = 0] ELSE evq[j]],
                   [k |-> "closed", x |-> p, i |-> 0])
  /\ hist' = H([a |-> "close", p |-> p])
  /\ gone' = IF Idle THEN gone \cup {r \in Rids : tgt[r] = p} ELSE gone
  /\ UNCHANGED <<inpeers, active, pdial, pout, fut, cancels, cmdq, mdial, wedged, nc, rq, inb, tgt, wire, mon, kf, nrid>>

\* the manager processes the closure of the connection (Litep2p::next_event): only now dial() stops answering
\* AlreadyConnected and a new connection with the peer can be made
MgrClosed(p) ==
  /\ mgr[p] = "closing"
  /\ mgr' = [mgr EXCEPT ![p] = "disc"]
  /\ UNCHANGED <<pvars, mdial, wedged, svc, sids, nc, rvars, mon, kf, hist, nrid>>

ESubOpen(r) ==
  /\ r \in sids
  /\ sids' = sids \ {r}
  /\ evq' = Append(evq, [k |-> "subopen", x |-> r, i |-> 0])
  /\ UNCHANGED <<inpeers, active, pdial, pout, fut, cancels, cmdq, mgr, mdial, wedged, svc, nc, rvars, mon, kf, hist, nrid>>

ESubFail(r) ==
  /\ r \in sids
  /\ sids' = sids \ {r}
  /\ evq' = Append(evq, [k |-> "subfail", x |-> r, i |-> 0])
  /\ hist' = H([a |-> "subfail", r |-> r])
  /\ UNCHANGED <<inpeers, active, pdial, pout, fut, cancels, cmdq, mgr, mdial, wedged, svc, nc, rvars, mon, kf, nrid>>

-----------------------------------------------------------------------------
(* responders' users                                                        *)

RAnswer(r) ==
  /\ rq[r] = "delivered"
  \* on a connection that has failed meanwhile the write fails: nothing is reported complete
  /\ rq' = [rq EXCEPT ![r] = IF r \in DOMAIN fut /\ r \notin gone THEN "answered" ELSE "over"]
  /\ inb' = [inb EXCEPT ![tgt[r]] = @ \ {r}]
  /\ mon' = IF r \in gone THEN MonAnswer(mon, tgt[r], r, A(r)) ELSE MonAnswerFb(mon, tgt[r], r, A(r), FALSE)
  /\ wire' = IF Idle THEN wire ELSE wire \cup {r}
  /\ hist' = H([a |-> "answer", r |-> r])
  /\ UNCHANGED <<pvars, evars, tgt, gone, kf, nrid>>

RReject(r) ==
  /\ rq[r] = "delivered"
  /\ rq' = [rq EXCEPT ![r] = IF r \in DOMAIN fut THEN "rejected" ELSE "over"]
  /\ inb' = [inb EXCEPT ![tgt[r]] = @ \ {r}]
  /\ mon' = MonReject(mon, tgt[r], r)
  /\ hist' = H([a |-> "reject", r |-> r])
  /\ UNCHANGED <<pvars, evars, tgt, wire, gone, kf, nrid>>

-----------------------------------------------------------------------------
User == \/ \E p \in Peers : \E d \in DialOpts : UIssue(p, d)
        \/ \E r \in Rids : UCancel(r)
Internal ==
  \/ PCmd \/ PEvt
  \/ \E r \in Rids : \E res \in {"resp", "canceled", "err"} : PFut(r, res)
  \/ \E p \in Peers : EDialOk(p) \/ EDialFail(p) \/ EDialWedge(p) \/ MgrClosed(p)
  \/ \E r \in Rids : ESubOpen(r) \/ ESubFail(r) \/ Pump(r) \/ WriteDone(r)
Env ==
  \/ \E p \in Peers : EInbound(p) \/ EClose(p) \/ EForeignDialFail(p) \/ ConnTaskExitOnIdle(p)
  \/ \E r \in Rids : RAnswer(r) \/ RReject(r) \/ WriteStall(r)

Next == User \/ Internal \/ Env
Spec == Init /\ [][Next]_vars
\* every step that is in flight is eventually taken (timeouts fire, the manager reports)
FairSpec == Spec /\ WF_vars(Internal)

-----------------------------------------------------------------------------
(* Properties                                                               *)

\* nothing is in flight at the requesting node
Quiescent ==
  \* (a write that stalled and is not bounded by any timeout is not "in flight": nothing will ever happen to it)
  /\ evq = <<>> /\ cmdq = <<>> /\ sids = {}
  /\ \A r \in DOMAIN fut : rq[r] = "stalled" /\ "nowritetimeout" \in Bugs
  /\ \A p \in Peers : (mdial[p] => p \in wedged) /\ mgr[p] # "closing"

\* the monitor never objects (second terminal event, foreign response, request seen twice,
\* bound exceeded, panic)
MonOK == mon.bad = ""
\* C13 liveness as a quiescence obligation: whatever is still without a terminal event when
\* nothing is in flight was lost on a path tagged as a known defect
Stuck == UNION {ToSet(pdial[p]) : p \in wedged}     \* waiting for a dial the manager will never conclude
QuiesceOK == Quiescent => Unsettled(mon) \subseteq (kf \cup Stuck)
\* the untagged version: holds for the current code, violated by the one-slot variant (selftest)
QuiesceStrict == Quiescent => Unsettled(mon) = {}
\* bookkeeping of the protocol is exact when nothing is in flight
BooksOK == Quiescent => /\ pout = <<>> /\ cancels = {}
                        /\ \A p \in Peers : active[p] = {} /\ (kf = {} /\ p \notin wedged => pdial[p] = <<>>)
\* the responder-side bound on the model state
BoundOK == MaxConc # NoLimit => \A p \in Peers : Cardinality(inb[p]) <= MaxConc

\* the last clause of C04 lifted to the connection: a response whose send was reported complete while the requester
\* is still waiting, on a link without fault, is on the wire or can still get there
DeliveredOK == \A r \in DOMAIN fut :
                 (rq[r] = "answered" /\ r \notin gone /\ r \notin wire) => mgr[tgt[r]] = "conn"

\* []( issued /\ ~cancelled => <> terminal ), for the repaired model under FairSpec
Live == \A r \in Rids :
          (r < nrid /\ mon.req[r].st = "open" /\ ~mon.req[r].canc) ~> (mon.req[r].st \in {"resp", "fail"} \/ mon.req[r].canc \/ r \in kf \/ r \in Stuck)

\* the monitor's memory about finished requests cannot influence anything the model can still do
ViewMon == [req |-> [k \in DOMAIN mon.req |-> IF mon.req[k].st \in {"resp", "fail", "void"} /\ rq[k] \in {"over", "none"}
                                                 THEN [st |-> mon.req[k].st, canc |-> mon.req[k].canc] ELSE mon.req[k]],
            inb |-> {k \in DOMAIN mon.inb : mon.inb[k].open}, bad |-> mon.bad]
View == <<inpeers, active, pdial, pout, fut, cancels, evq, cmdq, mgr, mdial, wedged, svc, sids, nc,
          rq, inb, tgt, wire, gone, ViewMon, kf, nrid>>
Sym == Permutations(Peers)
Emit == PrintT(<<"B", ToJson([h |-> hist'])>>)
=============================================================================
