---------------------------- MODULE ConnLifeNetMC ----------------------------
(***************************************************************************)
(* Implementation-shaped model of the life of the connections between a    *)
(* local litep2p node and ONE remote peer, composed with the property      *)
(* monitor of ConnLifeNet.tla (C07).  Transcribed from                      *)
(*   src/transport/manager/mod.rs   next(): pending_accept / ConnectionClosed,*)
(*                                  on_connection_established / _closed    *)
(*   src/transport/tcp/mod.rs       accept(): report_connection_established *)
(*                                  to every protocol, then spawn           *)
(*   src/transport/tcp/connection.rs start(): the select! loop and its     *)
(*                                  exits (yamux closed / error, ForceClose,*)
(*                                  all senders dropped, and the `?` exits) *)
(*   src/protocol/protocol_set.rs   report_connection_established/_closed   *)
(*   src/protocol/transport_service.rs on_connection_established/_closed,  *)
(*                                  keep-alive downgrade, open_substream    *)
(*   src/protocol/connection.rs     ConnectionHandle Active/Inactive, Permit*)
(* Processes: manager loop, one task per connection (accept future, event  *)
(* loop, closing sequence), one loop per protocol consuming a bounded FIFO *)
(* channel, a protocol that may shut down.  The remote peer, the network   *)
(* and the passage of time are the environment.                            *)
(*                                                                         *)
(* Defects of the original tree are explicit branches that set a tag in    *)
(* `kf`; they are taken unless the tag is in `Fixed`.  All of them are      *)
(* repaired in /repo (fix commits a40eb45, 6942973, 39ee0e2), so the        *)
(* standard configuration is Fixed = AllFix (then kf stays {}); the         *)
(* unrepaired branches remain as negative configurations of the self-test:  *)
(*   "no-permit-exit"  handle_yamux_substream: no permit for an inbound     *)
(*        substream (`.ok_or(Error::ConnectionClosed)?`)                     *)
(*   "opened-report-to-dead-protocol"  handle_negotiated_substream:          *)
(*        report_substream_open(..)? to a protocol whose receiver is gone    *)
(*        (inbound substream, or the outcome of an open the protocol         *)
(*        requested before it shut down)                                     *)
(*   "open-failure-report-to-dead-protocol"  handle_negotiated_substream:    *)
(*        report_substream_open_failure(..)? (the open the protocol          *)
(*        requested before it shut down is refused by the remote / times out)*)
(*        each of the three left the loop without report_connection_closed   *)
(*        (repaired: no permit -> regular close with report; a failed        *)
(*        substream report is only logged and the loop keeps running; the    *)
(*        websocket and quic tasks had the same exits: c255e71, 53934d5)     *)
(*   "stale-protocol-map" the transport's copy of the protocol map keeps a *)
(*        protocol that shut down: report_connection_established fails and  *)
(*        the manager rolls every later connection back (repaired: the      *)
(*        failed send is only logged)                                       *)
(* `Mutant` selects a deliberately broken variant for the self-test.       *)
(***************************************************************************)
EXTENDS ConnLifeNet, Integers, SequencesExt, FiniteSetsExt, Json

CONSTANTS Sim,      \* simultaneous dials (two overlapping connections) are explored
          Q,        \* protocols that keep running
          QD,       \* protocols that may shut down
          MaxCid,   \* connection ids 1..MaxCid
          Cap,      \* capacity of a protocol's event channel
          MCap,     \* capacity of the manager's event channel
          MaxStim,  \* bound on environment stimuli
          MaxSub,   \* bound on substream opens (inbound + outbound)
          Fixed,    \* defect tags modelled as repaired
          Mutant    \* "" or the name of a seeded bug

VARIABLES conn,   \* cid -> [st, ntf, tell, mtold, strong, permits, cmdq, pend]
          pch,    \* protocol -> FIFO of [k, c] events (the TransportService's channel)
          open_,  \* protocol -> its receiver still exists (the protocol loop runs)
          mch,    \* FIFO of connection ids: TransportManagerEvent::ConnectionClosed
          mgr,    \* manager's PeerState for the peer: [pri, sec] (0 = none)
          svc,    \* protocol -> [pri, sec]: TransportService.connections[peer]
          next, nst, nsub,
          mon, kf, hist

vars == <<conn, pch, open_, mch, mgr, svc, next, nst, nsub, mon, kf, hist>>

P == Q \cup QD
NoFix == {}
AllFix == {"no-permit-exit", "opened-report-to-dead-protocol", "open-failure-report-to-dead-protocol", "stale-protocol-map"}
AllButPermit == AllFix \ {"no-permit-exit"}
AllButOpened == AllFix \ {"opened-report-to-dead-protocol"}
AllButOpenFailure == AllFix \ {"open-failure-report-to-dead-protocol"}
AllButMap == AllFix \ {"stale-protocol-map"}
Me == "A"
NewC == [st |-> "accepting", ntf |-> {}, tell |-> {}, mtold |-> FALSE, strong |-> {}, permits |-> 0,
         cmdq |-> <<>>, pend |-> {}, np |-> FALSE, nclose |-> 0]
Ev(k, c) == [k |-> k, c |-> c]
Obs(r) == mon' = MonEv(mon, r)
Obs2(r1, r2) == mon' = MonEv(MonEv(mon, r1), r2)
Stim(s) == nst' = nst + 1 /\ hist' = Append(hist, s)
NoStim == UNCHANGED <<nst, hist>>

Init ==
  /\ conn = <<>> /\ pch = [q \in P |-> <<>>] /\ open_ = [q \in P |-> TRUE] /\ mch = <<>>
  /\ mgr = [pri |-> 0, sec |-> 0] /\ svc = [q \in P |-> [pri |-> 0, sec |-> 0]]
  /\ next = 1 /\ nst = 0 /\ nsub = 0
  /\ mon = MonInit([A |-> SetToSeq(P), B |-> <<>>])
  /\ kf = {} /\ hist = <<>>

Room(q) == Len(pch[q]) < Cap
\* FuturesUnordered over the protocols: sends to different live protocols commute (nothing observes
\* their relative order), so live protocols are served in one canonical order; a protocol whose
\* receiver is gone may be hit at any point (it decides which protocols were already served)
POrder == <<"q1", "q2", "q3">>
FirstOf(S) == POrder[Min({i \in 1..3 : POrder[i] \in S})]
Turn(q, rest) == IF ~open_[q] THEN TRUE ELSE q = FirstOf({x \in rest : open_[x]})
\* a strong sender of the connection's command channel exists: an Active handle of a protocol,
\* a permit travelling with a pending open / an undelivered SubstreamOpened event
HasStrong(c) == conn[c].strong # {} \/ conn[c].permits > 0
ChanAlive(c) == conn[c].st \in {"accepting", "running", "closing"}
Dead(c) == conn[c].st \in {"exited", "rolledback"}
Cids == DOMAIN conn

\* PeerState::on_connection_closed
MgrClosed(m, c) ==
  IF m.pri = c THEN IF m.sec # 0 THEN [ev |-> FALSE, st |-> [pri |-> m.sec, sec |-> 0]]
                    ELSE [ev |-> TRUE, st |-> [pri |-> 0, sec |-> 0]]
  ELSE IF m.sec = c THEN [ev |-> FALSE, st |-> [m EXCEPT !.sec = 0]]
  ELSE [ev |-> FALSE, st |-> m]

-----------------------------------------------------------------------------
(* Environment: new connections.  Through the public API a second,         *)
(* overlapping connection only arises from simultaneous dials.             *)

Connect(k) ==   \* k = 1: one connection, k = 2: simultaneous dials
  /\ nst < MaxStim /\ next + k - 1 <= MaxCid
  /\ \A c \in Cids : Dead(c)
  /\ (k = 2 => Sim /\ mgr.pri = 0)
  /\ mgr.sec = 0
  /\ LET c == next IN
     /\ next' = next + k
     /\ mgr' = IF k = 2 THEN [pri |-> c, sec |-> c + 1]
               ELSE IF mgr.pri = 0 THEN [mgr EXCEPT !.pri = c] ELSE [mgr EXCEPT !.sec = c]
     /\ conn' = IF k = 2 THEN (c :> NewC) @@ ((c + 1) :> NewC) @@ conn ELSE (c :> NewC) @@ conn
  /\ Stim([a |-> IF k = 2 THEN "connect2" ELSE "connect"])
  /\ UNCHANGED <<pch, open_, mch, svc, nsub, mon, kf>>

\* the future returned by TcpTransport::accept(): FuturesUnordered of sends, in any order
AcceptStep(c, q) ==
  /\ conn[c].st = "accepting" /\ q \in P \ conn[c].ntf /\ Turn(q, P \ conn[c].ntf)
  /\ IF ~open_[q] THEN
        IF "stale-protocol-map" \in Fixed
          THEN /\ conn' = [conn EXCEPT ![c].ntf = @ \cup {q}]
               /\ UNCHANGED <<pch, mgr, kf, mon>>
          ELSE \* the send fails, the accept future returns Err, TransportManager::next() rolls the
               \* peer back with on_connection_closed() and reports nothing
               /\ conn' = [conn EXCEPT ![c].st = "rolledback", ![c].strong = {}]
               /\ mgr' = MgrClosed(mgr, c).st
               /\ kf' = kf \cup {"stale-protocol-map"}
               /\ Obs([e |-> "newconn", n |-> Me, must |-> TRUE, app |-> FALSE, qs |-> <<>>])
               /\ UNCHANGED pch
     ELSE /\ Room(q)
          /\ pch' = [pch EXCEPT ![q] = Append(@, Ev("est", c))]
          /\ conn' = [conn EXCEPT ![c].ntf = @ \cup {q}, ![c].strong = @ \cup {q}]
          /\ UNCHANGED <<mgr, kf, mon>>
  /\ NoStim /\ UNCHANGED <<open_, mch, svc, next, nsub>>

\* all protocols notified: the connection task is spawned and, in the same poll of
\* TransportManager::next(), ConnectionEstablished is returned to the application
AcceptDone(c) ==
  /\ conn[c].st = "accepting" /\ conn[c].ntf = P
  /\ conn' = [conn EXCEPT ![c].st = "running"]
  /\ Obs([e |-> "app_est", n |-> Me, cid |-> c])
  /\ NoStim /\ UNCHANGED <<pch, open_, mch, mgr, svc, next, nsub, kf>>

-----------------------------------------------------------------------------
(* Protocol loops (TransportService::poll_next and the protocol's calls)   *)

SubEvents(q, c) == Cardinality({i \in 1..Len(pch[q]) : pch[q][i].k = "sub" /\ pch[q][i].c = c})

PConsume(q) ==
  /\ open_[q] /\ pch[q] # <<>>
  /\ LET e == Head(pch[q]) c == e.c s == svc[q] IN
     /\ pch' = [pch EXCEPT ![q] = Tail(@)]
     /\ CASE e.k = "est" ->
               IF s.pri = 0 THEN /\ svc' = [svc EXCEPT ![q].pri = c]
                                 /\ Obs([e |-> "p_est", n |-> Me, q |-> q, cid |-> c])
                                 /\ UNCHANGED conn
               ELSE IF s.sec = 0 THEN svc' = [svc EXCEPT ![q].sec = c] /\ UNCHANGED <<mon, conn>>
               ELSE \* third connection ignored: the handle is dropped
                    /\ conn' = [conn EXCEPT ![c].strong = @ \ {q}] /\ UNCHANGED <<svc, mon>>
          [] e.k = "closed" ->
               /\ conn' = [conn EXCEPT ![c].strong = @ \ {q}]
               /\ IF s.pri = c THEN
                       IF s.sec # 0 THEN svc' = [svc EXCEPT ![q] = [pri |-> s.sec, sec |-> 0]] /\ UNCHANGED mon
                       ELSE svc' = [svc EXCEPT ![q].pri = 0] /\ Obs([e |-> "p_closed", n |-> Me, q |-> q])
                  ELSE IF s.sec = c THEN svc' = [svc EXCEPT ![q].sec = 0] /\ UNCHANGED mon
                  ELSE UNCHANGED <<svc, mon>>
          [] e.k = "sub" ->
               \* SubstreamOpened: keep-alive activity + try_upgrade, then the opening permit is dropped
               /\ conn' = [conn EXCEPT ![c].permits = @ - 1,
                                       ![c].strong = IF c \in {s.pri, s.sec} /\ ChanAlive(c) THEN @ \cup {q} ELSE @]
               /\ UNCHANGED <<svc, mon>>
          [] OTHER -> UNCHANGED <<conn, svc, mon>>
  /\ NoStim /\ UNCHANGED <<open_, mch, mgr, next, nsub, kf>>

\* keep-alive timeout for connection c: every protocol that tracks it downgrades its handle
\* (the protocols' timers run independently; the intermediate states add nothing observable)
Downgrade(c) ==
  /\ conn[c].st = "running"
  /\ LET qs == {q \in conn[c].strong : open_[q] /\ c \in {svc[q].pri, svc[q].sec}} IN
     /\ qs # {}
     /\ conn' = [conn EXCEPT ![c].strong = @ \ qs]
  \* recorded in the schedule (the unit-level replay releases the handles), not counted as a stimulus
  /\ nst' = nst /\ hist' = Append(hist, [a |-> "idle", c |-> c])
  /\ UNCHANGED <<pch, open_, mch, mgr, svc, next, nsub, mon, kf>>

\* TransportService::open_substream on the primary connection (only the successful call changes state)
POpen(q) ==
  /\ nst < MaxStim /\ nsub < MaxSub
  /\ open_[q] /\ svc[q].pri # 0
  /\ LET c == svc[q].pri IN
     /\ ChanAlive(c) /\ HasStrong(c)
     /\ conn' = [conn EXCEPT ![c].permits = @ + 1, ![c].strong = @ \cup {q},
                             ![c].cmdq = Append(@, [k |-> "open", q |-> q])]
  /\ nsub' = nsub + 1
  /\ Stim([a |-> "open", q |-> q])
  /\ UNCHANGED <<pch, open_, mch, mgr, svc, next, mon, kf>>

\* TransportService::force_close: ForceClose to the secondary (if any) and the primary
PForceClose(q) ==
  /\ nst < MaxStim
  /\ open_[q] /\ svc[q].pri # 0
  /\ LET cs == {c \in {svc[q].pri, svc[q].sec} \ {0} : ChanAlive(c) /\ HasStrong(c)} IN
     /\ cs # {}
     /\ conn' = [c \in Cids |-> IF c \in cs THEN [conn[c] EXCEPT !.cmdq = Append(@, [k |-> "fc", q |-> q])] ELSE conn[c]]
  /\ Stim([a |-> "fc", q |-> q])
  /\ UNCHANGED <<pch, open_, mch, mgr, svc, next, nsub, mon, kf>>

\* a protocol shuts down: its TransportService (receiver, handles, queued events) is dropped
DropProtocol(q) ==
  /\ nst < MaxStim /\ q \in QD /\ open_[q]
  /\ \A c \in Cids : conn[c].st # "accepting"      \* the driver drops in a quiet phase
  /\ open_' = [open_ EXCEPT ![q] = FALSE]
  /\ conn' = [c \in Cids |-> [conn[c] EXCEPT !.strong = @ \ {q}, !.permits = @ - SubEvents(q, c)]]
  /\ pch' = [pch EXCEPT ![q] = <<>>]
  /\ svc' = [svc EXCEPT ![q] = [pri |-> 0, sec |-> 0]]
  /\ Obs([e |-> "p_exit", n |-> Me, q |-> q])
  /\ Stim([a |-> "drop", q |-> q])
  /\ UNCHANGED <<mch, mgr, next, nsub, kf>>

-----------------------------------------------------------------------------
(* Connection task: TcpConnection::start()                                  *)

StartClosing(c) == [conn EXCEPT ![c].st = "closing", ![c].tell = P, ![c].mtold = FALSE, ![c].pend = {}, ![c].nclose = @ + 1]

\* originally a `?` exit: the loop is left without report_connection_closed; repaired (no permit for
\* an inbound substream): the connection is closed the regular way, with the report
SilentExit(c, tag) == conn' = [conn EXCEPT ![c].st = "exited", ![c].pend = {}] /\ kf' = kf \cup {tag}
ErrorExit(c) ==
  IF "no-permit-exit" \in Fixed
    THEN conn' = [StartClosing(c) EXCEPT ![c].np = TRUE] /\ UNCHANGED kf
    ELSE SilentExit(c, "no-permit-exit")

\* a substream report to a protocol whose receiver is gone: originally a `?` exit; repaired: the
\* failure is logged, the substream (and its permit) is dropped and the loop keeps running
GoneReport(c, x, tag) ==
  IF tag \in Fixed
    THEN conn' = [conn EXCEPT ![c].pend = @ \ {x}, ![c].permits = @ - 1] /\ UNCHANGED kf
    ELSE SilentExit(c, tag)

\* yamux reports the connection closed / failed: remote closed, network cut, remote crashed
TRemoteClosed(c) ==
  /\ nst < MaxStim /\ conn[c].st = "running"
  /\ conn' = StartClosing(c)
  /\ Stim([a |-> "cut", c |-> c])
  /\ UNCHANGED <<pch, open_, mch, mgr, svc, next, nsub, mon, kf>>

\* an inbound substream for protocol q arrives (handle_yamux_substream): needs a permit
TInbound(c, q) ==
  /\ nst < MaxStim /\ nsub < MaxSub /\ conn[c].st = "running" /\ <<q, "in">> \notin conn[c].pend
  /\ nsub' = nsub + 1
  /\ IF HasStrong(c) THEN conn' = [conn EXCEPT ![c].permits = @ + 1, ![c].pend = @ \cup {<<q, "in">>}] /\ UNCHANGED kf
     ELSE ErrorExit(c)          \* try_get_permit() failed: Error::ConnectionClosed, `?`
  /\ Stim([a |-> "rsub", q |-> q, c |-> c])
  /\ UNCHANGED <<pch, open_, mch, mgr, svc, next, mon>>

\* a pending negotiation finishes (handle_negotiated_substream)
TNegotiated(c, x, ok) ==
  /\ conn[c].st = "running" /\ x \in conn[c].pend
  /\ LET q == x[1] IN
     IF ok THEN
          IF ~open_[q] THEN GoneReport(c, x, "opened-report-to-dead-protocol") /\ UNCHANGED pch
          ELSE /\ Room(q)
               /\ pch' = [pch EXCEPT ![q] = Append(@, Ev("sub", c))]
               /\ conn' = [conn EXCEPT ![c].pend = @ \ {x}]
               /\ UNCHANGED kf
     ELSE IF x[2] = "out" THEN
          IF ~open_[q] THEN GoneReport(c, x, "open-failure-report-to-dead-protocol") /\ UNCHANGED pch
          ELSE /\ Room(q)
               /\ pch' = [pch EXCEPT ![q] = Append(@, Ev("subfail", c))]
               /\ conn' = [conn EXCEPT ![c].pend = @ \ {x}, ![c].permits = @ - 1]
               /\ UNCHANGED kf
     ELSE /\ conn' = [conn EXCEPT ![c].pend = @ \ {x}, ![c].permits = @ - 1]
          /\ UNCHANGED <<pch, kf>>
  \* the outcome is part of the recorded schedule (it decides what the replay has to provoke), but it is
  \* not counted as an environment stimulus
  /\ nst' = nst /\ hist' = Append(hist, [a |-> "outcome", q |-> x[1], dir |-> x[2], ok |-> ok])
  /\ UNCHANGED <<open_, mch, mgr, svc, next, nsub, mon>>

\* a command from a protocol (handle_protocol_command)
TCommand(c) ==
  /\ conn[c].st = "running" /\ conn[c].cmdq # <<>>
  /\ LET m == Head(conn[c].cmdq) IN
     IF m.k = "open" THEN conn' = [conn EXCEPT ![c].cmdq = Tail(@), ![c].pend = @ \cup {<<m.q, "out">>}]
     ELSE conn' = [StartClosing(c) EXCEPT ![c].cmdq = <<>>]
  /\ NoStim /\ UNCHANGED <<pch, open_, mch, mgr, svc, next, nsub, mon, kf>>

\* the last strong sender is gone: protocol_set.next() yields None (idle expiry)
TAllDropped(c) ==
  /\ conn[c].st = "running" /\ conn[c].cmdq = <<>> /\ ~HasStrong(c)
  /\ conn' = StartClosing(c)
  /\ NoStim /\ UNCHANGED <<pch, open_, mch, mgr, svc, next, nsub, mon, kf>>

\* report_connection_closed: every protocol (any order, a send blocks on a full channel, a dropped
\* receiver is only logged), then the manager
TellProto(c, q) ==
  /\ conn[c].st = "closing" /\ q \in conn[c].tell /\ Turn(q, conn[c].tell)
  /\ IF ~open_[q] THEN
        IF Mutant = "stop-on-proto-error" THEN conn' = [conn EXCEPT ![c].st = "exited", ![c].tell = {}] /\ UNCHANGED pch
        ELSE conn' = [conn EXCEPT ![c].tell = @ \ {q}] /\ UNCHANGED pch
     ELSE /\ Room(q)
          /\ pch' = [pch EXCEPT ![q] = Append(@, Ev("closed", c))]
          /\ conn' = [conn EXCEPT ![c].tell = @ \ {q}]
  /\ NoStim /\ UNCHANGED <<open_, mch, mgr, svc, next, nsub, mon, kf>>

TellMgr(c) ==
  /\ conn[c].st = "closing" /\ ~conn[c].mtold
  /\ (conn[c].tell = {} \/ Mutant = "mgr-first")
  \* `mgr_tx.send(..).await`: the report suspends while the manager's channel is full.  Seeded bug
  \* "mgr-report-dropped-when-full": try_send, and a full channel makes the call return an error - the
  \* manager is never told
  /\ (Len(mch) < MCap \/ Mutant = "mgr-report-dropped-when-full")
  /\ mch' = IF Len(mch) < MCap THEN Append(mch, c) ELSE mch
  /\ conn' = [conn EXCEPT ![c].mtold = TRUE]
  /\ NoStim /\ UNCHANGED <<pch, open_, mgr, svc, next, nsub, mon, kf>>

TExit(c) ==
  /\ conn[c].st = "closing" /\ conn[c].tell = {} /\ conn[c].mtold
  \* seeded bug "no-permit-continues": the repaired no-permit branch reports the connection closed but does not
  \* leave the loop (returns Ok(false)); the loop then ends through another exit and reports again
  /\ conn' = IF Mutant = "no-permit-continues" /\ conn[c].np
               THEN [conn EXCEPT ![c].st = "running", ![c].np = FALSE]
               ELSE [conn EXCEPT ![c].st = "exited"]
  /\ NoStim /\ UNCHANGED <<pch, open_, mch, mgr, svc, next, nsub, mon, kf>>

-----------------------------------------------------------------------------
(* Manager loop: TransportManagerEvent::ConnectionClosed                    *)

MgrRecvClosed ==
  /\ mch # <<>>
  /\ LET c == Head(mch) r == MgrClosed(mgr, c) IN
     /\ mch' = Tail(mch)
     /\ mgr' = r.st
     /\ IF r.ev \/ (Mutant = "close-any" /\ (mgr.pri = c \/ mgr.sec = c))
          THEN Obs([e |-> "app_closed", n |-> Me, cid |-> c]) ELSE UNCHANGED mon
  /\ NoStim /\ UNCHANGED <<conn, pch, open_, svc, next, nsub, kf>>

-----------------------------------------------------------------------------
(* Driver probes                                                            *)

Drained == mch = <<>> /\ \A q \in P : open_[q] => pch[q] = <<>>
Quiescent == (\A c \in Cids : Dead(c)) /\ Drained

\* a substream is carried over a live connection in a quiet phase
Proof ==
  /\ nst < MaxStim /\ Drained
  /\ \A c \in Cids : conn[c].st # "accepting"
  /\ \E c \in Cids : conn[c].st = "running" /\ HasStrong(c) /\ conn[c].cmdq = <<>>
  /\ Obs2([e |-> "proof_begin", n |-> Me], [e |-> "proof_ok", n |-> Me])
  /\ Stim([a |-> "proof"])
  /\ UNCHANGED <<conn, pch, open_, mch, mgr, svc, next, nsub, kf>>

Quiesce ==
  /\ nst < MaxStim /\ Quiescent /\ Cids # {}
  /\ (hist # <<>> => hist[Len(hist)].a \notin {"quiesce", "redial"})
  /\ Obs([e |-> "quiesce", n |-> Me])
  /\ Stim([a |-> "quiesce"])
  /\ UNCHANGED <<conn, pch, open_, mch, mgr, svc, next, nsub, kf>>

\* Litep2p::dial(peer) after quiescence: refused with AlreadyConnected while the manager believes
\* it is connected
Redial ==
  /\ nst < MaxStim /\ Quiescent /\ hist # <<>> /\ hist[Len(hist)].a = "quiesce"
  /\ Obs2([e |-> "redial_begin", n |-> Me], [e |-> "redial", n |-> Me, ok |-> mgr.pri = 0, attempted |-> mgr.pri = 0, clean |-> TRUE])
  /\ Stim([a |-> "redial"])
  /\ UNCHANGED <<conn, pch, open_, mch, mgr, svc, next, nsub, kf>>

Next ==
  \/ Connect(1) \/ Connect(2)
  \/ \E c \in Cids : \/ AcceptDone(c) \/ TRemoteClosed(c) \/ TCommand(c) \/ TAllDropped(c) \/ TellMgr(c) \/ TExit(c)
                     \/ Downgrade(c)
                     \/ \E q \in P : AcceptStep(c, q) \/ TInbound(c, q) \/ TellProto(c, q)
                     \/ \E x \in conn[c].pend : \E ok \in BOOLEAN : TNegotiated(c, x, ok)
  \/ \E q \in P : PConsume(q) \/ POpen(q) \/ PForceClose(q) \/ DropProtocol(q)
  \/ MgrRecvClosed \/ Proof \/ Quiesce \/ Redial

Spec == Init /\ [][Next]_vars

-----------------------------------------------------------------------------
(* Properties                                                               *)

\* C07 as seen by the property monitor, outside the tagged defect paths
MonOK == kf = {} => mon.bad = ""
\* ClosedOnce / AppCloseIffLast: at quiescence nobody is still waiting for a report
QuiesceOK == (kf = {} /\ Quiescent) => MonEv(mon, [e |-> "quiesce", n |-> Me]).bad = ""
\* RedialAfterClose: once everything concluded the peer is plainly disconnected
RedialOK == (kf = {} /\ Quiescent) => mgr = [pri |-> 0, sec |-> 0]
\* the services agree with the manager at quiescence
ServicesOK == (kf = {} /\ Quiescent) => \A q \in P : open_[q] => svc[q] = [pri |-> 0, sec |-> 0]
\* nothing can get stuck short of quiescence (a blocked send is always eventually unblocked)
NoStuck == (\E c \in Cids : ~Dead(c)) \/ ~Drained =>
             \/ \E c \in Cids : ENABLED (TellMgr(c) \/ TExit(c) \/ TCommand(c) \/ TAllDropped(c) \/ AcceptDone(c) \/ Downgrade(c))
             \/ \E c \in Cids : \E q \in P : ENABLED (AcceptStep(c, q) \/ TellProto(c, q))
             \/ \E c \in Cids : \E x \in conn[c].pend : ENABLED TNegotiated(c, x, FALSE)
             \/ \E q \in P : ENABLED PConsume(q)
             \/ ENABLED MgrRecvClosed
\* protocols are told before the manager (action property)
ProtocolsBeforeManager ==
  [][\A c \in Cids : (c \in DOMAIN conn' /\ ~conn[c].mtold /\ conn'[c].mtold) => conn[c].tell = {}]_vars

\* report_connection_closed runs at most once per connection (a second run is absorbed by TransportService
\* and the manager - or trips their debug assertions - so it does not show in the monitor's events)
ClosedOnceRaw == \A c \in Cids : conn[c].nclose <= 1
\* no defect path is taken (standard configuration); violated by the unrepaired configurations
NoKf == kf = {}
\* the monitor itself, without the defect-tag guard (self-test: an unrepaired model must violate these)
MonStrict == mon.bad = ""
QuiesceStrict == Quiescent => MonEv(mon, [e |-> "quiesce", n |-> Me]).bad = ""

View == <<conn, pch, open_, mch, mgr, svc, next, nst, nsub, mon, kf>>
Emit == PrintT(<<"B", ToJson([stims |-> hist'])>>)
=============================================================================
