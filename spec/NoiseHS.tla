------------------------------- MODULE NoiseHS -------------------------------
(***************************************************************************)
(* Symbolic (Dolev-Yao style) model of the Noise XX handshake with the     *)
(* libp2p identity payload as implemented by litep2p                       *)
(* (src/crypto/noise/mod.rs handshake / parse_and_verify_peer_id and the   *)
(* dialed-peer comparison of tcp/connection.rs negotiate_connection).      *)
(*                                                                         *)
(* Cryptography is ideal: DH(a,B) = DH(b,A) and nothing else is known      *)
(* about it; an AEAD ciphertext opens iff the receiver's chaining key and  *)
(* handshake hash equal the sender's and the ciphertext is untouched; a    *)
(* signature verifies iff it was made by the private key of the claimed    *)
(* identity over exactly the verified message.                             *)
(*                                                                         *)
(* Impl layer: honest endpoints execute the code's message schedule on     *)
(* symbolic terms; a man in the middle makes one move on one of the three  *)
(* messages; a rogue endpoint runs a valid Noise session with a forged     *)
(* payload.  Prop layer: `Allowed(sc, role)`, the outcomes property C01    *)
(* permits for a scenario, and the invariant `Auth` over the symbolic      *)
(* state.                                                                  *)
(***************************************************************************)
EXTENDS Naturals, Sequences, FiniteSets

\* ---- terms (all records, field t is the tag)
Key(n) == [t |-> "key", n |-> n]            \* a DH public key; its private part is known to its owner only
Junk(n) == [t |-> "junk", n |-> n]          \* bytes altered / invented by the attacker
Empty == [t |-> "empty"]
DH(a, b) == [t |-> "dh", s |-> {a, b}]      \* symmetric by construction
Id(n) == [t |-> "id", n |-> n, canon |-> TRUE]
Sig(by, over) == [t |-> "sig", by |-> by, over |-> over]
Payload(key, sig, extra) == [t |-> "payload", key |-> key, sig |-> sig, extra |-> extra]

\* ---- symmetric state (ck: chaining key = sequence of mixed DH values, h: handshake hash = transcript)
SS0 == [ck |-> <<>>, h |-> <<>>]
MixHash(ss, x) == [ss EXCEPT !.h = Append(@, x)]
MixKey(ss, d) == [ss EXCEPT !.ck = Append(@, d)]
HasKey(ss) == ss.ck # <<>>
Enc(ss, pt) == IF HasKey(ss) THEN [t |-> "enc", ck |-> ss.ck, h |-> ss.h, pt |-> pt] ELSE pt
CanDec(ss, ct) == IF HasKey(ss) THEN ct.t = "enc" /\ ct.ck = ss.ck /\ ct.h = ss.h ELSE TRUE
Dec(ss, ct) == IF HasKey(ss) THEN ct.pt ELSE ct

\* ---- scenario: [peer, impl, trole, pv, mitm: [msg, move, field], dialed, dialedForm, addrForm, chunk]
\* (addrForm: how the dialed address names the remote socket -- ip4, ip6, dns, dns4, dns6; no rule below reads it)
\* A peer id is a multihash of the protobuf-encoded identity key: `dialed` names the key the dialer
\* expects ("none": no expectation, as on the listener side), `dialedForm` the multihash form of
\* that expectation: "inline" (identity code, the only form an Ed25519 key ever proves) or
\* "sha256" (SHA-256 of the encoded key; a different peer id, even for the very same key).
\* endpoints: "d" (dialer / initiator), "l" (listener / responder)
Kind(sc, side) ==
  IF sc.peer = "rogue" /\ ((side = "d" /\ sc.trole = "listener") \/ (side = "l" /\ sc.trole = "dialer"))
    THEN "rogue" ELSE "honest"
\* "W" is a small-order Ed25519 key: it has no private key and a forged (R, S) pair satisfies the
\* cofactorless verification equation for a message of the forger's choosing, so *anybody* "holds" W.
\* A peer advertising W is therefore judged like a peer with its own key: it may be accepted as W
\* (never as anybody else) -- the reference implementation behaves the same, see DESIGN.md C01.
IdOf(sc, side) == IF Kind(sc, side) = "rogue" THEN (IF sc.pv = "weakKey" THEN "W" ELSE "R")
                  ELSE IF side = "d" THEN "A" ELSE "B"
StaticOf(sc, side) == IF Kind(sc, side) = "rogue" THEN Key("sRogue") ELSE IF side = "d" THEN Key("sA") ELSE Key("sB")
EphOf(side) == IF side = "d" THEN Key("eD") ELSE Key("eL")
Other(side) == IF side = "d" THEN "l" ELSE "d"

\* identity payload an endpoint sends
PayloadOf(sc, side) ==
  LET me == IdOf(sc, side)  s == StaticOf(sc, side)
      victim == IF side = "d" THEN "B" ELSE "A"        \* the honest identity the rogue would like to be
      hid == IF side = "d" THEN "A" ELSE "B"           \* H: the honest peer that normally plays this role ...
      hstatic == IF side = "d" THEN Key("sA") ELSE Key("sB") IN   \* ... and the static key it reuses
  IF Kind(sc, side) = "honest" THEN Payload(Id(me), Sig(me, <<"prefix", s>>), FALSE)
  ELSE CASE sc.pv = "asR"                -> Payload(Id("R"), Sig("R", <<"prefix", s>>), FALSE)
         [] sc.pv = "noKey"              -> Payload([t |-> "nokey"], Sig("R", <<"prefix", s>>), FALSE)
         [] sc.pv = "noSig"              -> Payload(Id("R"), [t |-> "nosig"], FALSE)
         [] sc.pv = "sigByOther"         -> Payload(Id(victim), Sig("R", <<"prefix", s>>), FALSE)
         [] sc.pv = "sigOverOtherStatic" -> Payload(Id("R"), Sig("R", <<"prefix", Key("sOther")>>), FALSE)
         [] sc.pv = "sigNoPrefix"        -> Payload(Id("R"), Sig("R", <<s>>), FALSE)
         [] sc.pv = "stolen"             -> Payload(Id(victim), Sig(victim, <<"prefix", Key("sOther")>>), FALSE)
         [] sc.pv = "unknownType"        -> Payload([t |-> "unknowntype"], Sig("R", <<"prefix", s>>), FALSE)
         [] sc.pv = "garbageSig"         -> Payload(Id("R"), [t |-> "garbage"], FALSE)
         [] sc.pv = "extraField"         -> Payload(Id("R"), Sig("R", <<"prefix", s>>), TRUE)
         \* the exact payload the honest peer H of this role (static key sA / sB, reused by H in every
         \* session) sends, observed earlier and replayed inside the rogue's own session
         [] sc.pv = "replayH"            -> Payload(Id(hid), Sig(hid, <<"prefix", hstatic>>), FALSE)
         [] sc.pv = "replayHBadSig"      -> Payload(Id(hid), [t |-> "garbage"], FALSE)
         [] sc.pv = "weakKey"            -> Payload(Id("W"), Sig("W", <<"prefix", s>>), FALSE)
         [] sc.pv = "noncanonKey"        -> Payload([Id("R") EXCEPT !.canon = FALSE], Sig("R", <<"prefix", s>>), FALSE)

-----------------------------------------------------------------------------
(* Impl layer: message construction / consumption, transcribed from the     *)
(* snow XX pattern as driven by NoiseContext                                *)
\* endpoint state: [ss, re, rs, pl (remote payload), st ("run","ok","err"), peer]
Ep0 == [ss |-> SS0, re |-> Empty, rs |-> Empty, pl |-> Empty, st |-> "run", peer |-> ""]
Fail(ep) == [ep EXCEPT !.st = "err"]

\* wire message: [len ("ok" | "bad"), f (fields)], or absent: [len |-> "none", f |-> <<>>]
NoMsg == [len |-> "none", f |-> <<>>]

\* -> e            (m1 = <<e, payload>>, payload empty and in clear)
Write1(sc, ep) ==
  LET e == EphOf("d")
      s1 == MixHash(ep.ss, e)
      s2 == MixHash(s1, Empty) IN
  [ep |-> [ep EXCEPT !.ss = s2], m |-> [len |-> "ok", f |-> <<e, Empty>>]]
Read1(sc, ep, m) ==
  IF m.len # "ok" \/ Len(m.f) # 2 \/ m.f[1].t \notin {"key", "junk"} THEN Fail(ep)
  ELSE [ep EXCEPT !.re = m.f[1], !.ss = MixHash(MixHash(ep.ss, m.f[1]), m.f[2])]

\* <- e, ee, s, es (m2 = <<e, enc(s), enc(payload)>>)
Write2(sc, ep) ==
  LET e == EphOf("l")  s == StaticOf(sc, "l")
      a == MixKey(MixHash(ep.ss, e), DH(e, ep.re))
      cS == Enc(a, s)
      b == MixKey(MixHash(a, cS), DH(s, ep.re))
      cP == Enc(b, PayloadOf(sc, "l"))
      c == MixHash(b, cP) IN
  [ep |-> [ep EXCEPT !.ss = c], m |-> [len |-> "ok", f |-> <<e, cS, cP>>]]
Read2(sc, ep, m) ==
  IF m.len # "ok" \/ Len(m.f) # 3 \/ m.f[1].t \notin {"key", "junk"} THEN Fail(ep)
  ELSE LET me == EphOf("d")
           a == MixKey(MixHash(ep.ss, m.f[1]), DH(me, m.f[1])) IN
       IF ~CanDec(a, m.f[2]) THEN Fail(ep)
       ELSE LET rs == Dec(a, m.f[2])
                b == MixKey(MixHash(a, m.f[2]), DH(me, rs)) IN
            IF ~CanDec(b, m.f[3]) THEN Fail(ep)
            ELSE [ep EXCEPT !.re = m.f[1], !.rs = rs, !.pl = Dec(b, m.f[3]), !.ss = MixHash(b, m.f[3])]

\* -> s, se        (m3 = <<enc(s), enc(payload)>>)
Write3(sc, ep) ==
  LET s == StaticOf(sc, "d")
      cS == Enc(ep.ss, s)
      a == MixKey(MixHash(ep.ss, cS), DH(s, ep.re))
      cP == Enc(a, PayloadOf(sc, "d"))
      b == MixHash(a, cP) IN
  [ep |-> [ep EXCEPT !.ss = b], m |-> [len |-> "ok", f |-> <<cS, cP>>]]
Read3(sc, ep, m) ==
  IF m.len # "ok" \/ Len(m.f) # 2 \/ ~CanDec(ep.ss, m.f[1]) THEN Fail(ep)
  ELSE LET rs == Dec(ep.ss, m.f[1])
           a == MixKey(MixHash(ep.ss, m.f[1]), DH(EphOf("l"), rs)) IN
       IF ~CanDec(a, m.f[2]) THEN Fail(ep)
       ELSE [ep EXCEPT !.rs = rs, !.pl = Dec(a, m.f[2]), !.ss = MixHash(a, m.f[2])]

\* parse_and_verify_peer_id + the dialed-peer comparison of negotiate_connection.
\* The peer id is derived from the decoded, verified key (canonical), whatever bytes encoded it.
\* `memo` is whatever the process remembers of earlier handshakes; the code keeps nothing and the
\* verdict is a function of this handshake's transcript only (it is a parameter so that the
\* self-test can plug in a negative model: a cache of verified (peer id, signature) pairs).
MemoAfter(memo, ep) == memo
Verify(sc, side, ep, memo) ==
  LET p == ep.pl IN
  IF p.t # "payload" THEN Fail(ep)
  ELSE IF p.key.t # "id" THEN Fail(ep)                                   \* PeerIdMissing / unknown key type
  ELSE IF p.sig.t # "sig" THEN Fail(ep)                                  \* BadSignature (missing / garbage)
  ELSE IF ~(p.sig.by = p.key.n /\ p.sig.over = <<"prefix", ep.rs>>) THEN Fail(ep)
  ELSE LET peer == p.key.n IN
       \* negotiate_connection: `dialed_peer != peer` on the multihash; the proven id is always inline
       IF side = "d" /\ sc.dialed # "none" /\ (sc.dialed # peer \/ sc.dialedForm # "inline") THEN Fail(ep)   \* PeerIdMismatch
       ELSE [ep EXCEPT !.st = "ok", !.peer = peer]

\* the man in the middle: one move on message k
Mitm(sc, k, m, m1) ==
  IF sc.mitm.msg # k THEN m
  ELSE LET n == Len(m.f) IN
    CASE sc.mitm.move = "corrupt" ->
           (CASE sc.mitm.field = "len" -> [m EXCEPT !.len = "bad"]
              [] sc.mitm.field = "e" -> [m EXCEPT !.f[1] = Junk("e")]
              [] sc.mitm.field = "encS" -> [m EXCEPT !.f[n - 1] = Junk("encS")]
              [] sc.mitm.field \in {"encPayload", "tag"} -> [m EXCEPT !.f[n] = Junk(sc.mitm.field)])
      [] sc.mitm.move = "truncadj" -> [m EXCEPT !.f[n] = Junk("cut")]
      [] sc.mitm.move = "truncraw" -> [m EXCEPT !.len = "bad"]
      [] sc.mitm.move = "extend" -> [m EXCEPT !.f[n] = Junk("extended")]
      [] sc.mitm.move = "substitute" -> [m EXCEPT !.f = [i \in 1..n |-> Junk("other-session")]]
      [] sc.mitm.move = "replay" -> m1
      [] sc.mitm.move = "drop" -> NoMsg

-----------------------------------------------------------------------------
(* Prop layer                                                               *)
\* the identity whose private key the other endpoint holds
PeerIdentity(sc, role) == IF role = "dialer" THEN IdOf(sc, "l") ELSE IdOf(sc, "d")

MustErr(sc, role) ==
  \/ sc.mitm.msg # 0 /\ ~(role = "dialer" /\ sc.mitm.msg = 3)   \* the dialer is done before m3 travels
  \/ sc.peer = "rogue" /\ sc.pv \notin {"asR", "extraField", "noncanonKey", "weakKey"}
  \* the dialed peer id differs from the proven one: another key, or another multihash form
  \/ role = "dialer" /\ sc.dialed # "none" /\ (sc.dialed # PeerIdentity(sc, role) \/ sc.dialedForm # "inline")

\* History independence: the outcomes permitted for a handshake depend on the scenario of that
\* handshake alone -- not on which peers, payloads or signatures the same process has verified,
\* accepted or rejected before (`Allowed` has no history argument; the model checker runs short
\* sequences of handshakes against the same process state and checks every one of them).
\* outcomes C01 permits: [o |-> "ok", peer |-> P] or [o |-> "err"]
Allowed(sc, role) ==
  LET okp == [o |-> "ok", peer |-> PeerIdentity(sc, role)]  err == [o |-> "err", peer |-> ""] IN
  IF MustErr(sc, role) THEN {err}
  ELSE IF sc.peer = "honest" /\ sc.mitm.msg = 0 THEN {okp}      \* honest untampered run: must succeed
  ELSE {okp, err}

Outcome(ep) == IF ep.st = "ok" THEN [o |-> "ok", peer |-> ep.peer] ELSE [o |-> "err", peer |-> ""]

=============================================================================
