//! Real litep2p nodes for the C16 conformance runs.  Every node lives on its own OS thread with a
//! current-thread tokio runtime: killing a node = leaving `block_on` and dropping the runtime, which
//! drops every task the node spawned (listener, connections, protocols) and closes its sockets.
use crate::logcap;
use futures::stream::FuturesUnordered;
use futures::StreamExt;
use litep2p::{
    codec::ProtocolCodec,
    config::ConfigBuilder,
    crypto::ed25519::Keypair,
    protocol::{
        libp2p::kademlia::{
            ConfigBuilder as KadConfigBuilder, IncomingRecordValidationMode, KademliaEvent, KademliaHandle, Quorum, Record,
            RecordKey, RoutingTableUpdateMode,
        },
        TransportEvent, TransportService, UserProtocol,
    },
    substream::Substream,
    transport::{
        quic::config::Config as QuicConfig, tcp::config::Config as TcpConfig, websocket::config::Config as WsConfig,
        ConnectionLimitsConfig,
    },
    types::protocol::ProtocolName,
    Litep2p, Litep2pEvent, PeerId,
};
use multiaddr::{Multiaddr, Protocol};
use serde_json::{json, Value};
use std::num::NonZeroUsize;
use std::sync::{Arc, Mutex};
use std::time::{Duration, Instant};
use tokio::sync::{mpsc, oneshot};

pub const KAD_PROTO: &str = "/ipfs/kad/1.0.0";
/// connection open timeout configured for QUIC (handshake and idle timeout of quinn)
pub const QUIC_OPEN_TIMEOUT: Duration = Duration::from_secs(5);

/// Shared per-network event log.  The push order is a total order consistent with every thread's
/// program order; nothing else about cross-thread timing is used.
#[derive(Clone)]
pub struct Log {
    pub t0: Instant,
    pub ev: Arc<Mutex<Vec<Value>>>,
}

impl Log {
    pub fn new() -> Self {
        Log { t0: Instant::now(), ev: Arc::new(Mutex::new(Vec::new())) }
    }
    pub fn push(&self, mut v: Value) {
        v["t"] = json!(self.t0.elapsed().as_millis() as u64);
        self.ev.lock().unwrap().push(v);
    }
    pub fn snapshot(&self) -> Vec<Value> {
        self.ev.lock().unwrap().clone()
    }
}

#[derive(Clone, Copy, PartialEq, Eq, Debug)]
pub enum Role {
    /// node under test / ordinary Kademlia node
    Kad,
    /// accepts Kademlia substreams, reads, never answers
    Silent,
    /// answers FIND_NODE with an empty peer list, silent on everything else
    SilentPut,
    /// like Silent, but the whole node dies as soon as the first request has been read
    DieOnReq,
    /// like Silent, but forcibly closes every connection as soon as it is reported established
    DropAfterConnect,
    /// litep2p node without the Kademlia protocol
    NoKad,
}

pub struct OpReq {
    pub kind: String,
    pub quorum: String,
    pub n: usize,
    pub key: Vec<u8>,
    pub value: Vec<u8>,
    pub peers: Vec<PeerId>,
    pub target: PeerId,
}

pub enum Ctl {
    AddKnown(PeerId, Vec<Multiaddr>),
    Store(Vec<u8>, Vec<u8>),
    Op(OpReq, oneshot::Sender<usize>),
    /// 1 = die when a connection with `peer` is established, 2 = die when data (record / provider) arrives
    DropOn(u8, PeerId),
    Kill,
    /// for the given number of milliseconds every task switch of this node's runtime is followed by a short busy
    /// pause (a loaded machine: events are handled in bursts)
    Jitter(u64),
}

#[allow(dead_code)]
pub struct NodeHandle {
    pub idx: u32,
    pub peer: PeerId,
    /// every listen address, with the /p2p suffix
    pub addrs: Vec<Multiaddr>,
    pub ctl: mpsc::UnboundedSender<Ctl>,
    /// fires when the node's thread has dropped its runtime (all sockets closed)
    pub done: Option<oneshot::Receiver<()>>,
    /// worst scheduling lateness (ms) seen by the node's own watchdog
    pub late: Arc<Mutex<u64>>,
}

impl NodeHandle {
    /// Kill the node and wait until its runtime is gone.
    pub async fn kill(&mut self) {
        let _ = self.ctl.send(Ctl::Kill);
        if let Some(d) = self.done.take() {
            let _ = tokio::time::timeout(Duration::from_secs(30), d).await;
        }
    }
}

fn quorum(q: &str, n: usize) -> Quorum {
    match q {
        "one" => Quorum::One,
        "all" => Quorum::All,
        _ => Quorum::N(NonZeroUsize::new(n.max(1)).unwrap()),
    }
}

#[derive(Clone, PartialEq, prost::Message)]
struct KRecord {
    #[prost(bytes = "vec", tag = "1")]
    key: Vec<u8>,
    #[prost(bytes = "vec", tag = "2")]
    value: Vec<u8>,
}

#[derive(Clone, PartialEq, prost::Message)]
struct KMessage {
    #[prost(int32, tag = "1")]
    r#type: i32,
    #[prost(bytes = "vec", tag = "2")]
    key: Vec<u8>,
    #[prost(message, optional, tag = "3")]
    record: Option<KRecord>,
}

/// User protocol registered under the Kademlia protocol name: accepts substreams, reads whatever
/// arrives (and logs PUT_VALUE / ADD_PROVIDER payloads as received data), never answers - except,
/// in `ackfind` mode, FIND_NODE requests, which get an empty FIND_NODE response.
struct SilentKad {
    log: Log,
    node: u32,
    ackfind: bool,
    /// tells the node loop to die when the first message has been read
    die: Option<mpsc::UnboundedSender<()>>,
    /// force_close() the connection on ConnectionEstablished
    close_on_connect: bool,
}

#[async_trait::async_trait]
impl UserProtocol for SilentKad {
    fn protocol(&self) -> ProtocolName {
        ProtocolName::from(KAD_PROTO)
    }
    fn codec(&self) -> ProtocolCodec {
        ProtocolCodec::UnsignedVarint(None)
    }
    async fn run(self: Box<Self>, mut service: TransportService) -> litep2p::Result<()> {
        use prost::Message;
        type Rd = std::pin::Pin<Box<dyn std::future::Future<Output = (Option<bytes::BytesMut>, Substream)> + Send>>;
        fn arm(mut s: Substream) -> Rd {
            Box::pin(async move {
                let m = match s.next().await {
                    Some(Ok(m)) => Some(m),
                    _ => None,
                };
                (m, s)
            })
        }
        let mut reads: FuturesUnordered<Rd> = FuturesUnordered::new();
        loop {
            tokio::select! {
                ev = service.next() => match ev {
                    Some(TransportEvent::SubstreamOpened { substream, .. }) => reads.push(arm(substream)),
                    Some(TransportEvent::ConnectionEstablished { peer, .. }) if self.close_on_connect => {
                        let _ = service.force_close(peer);
                        self.log.push(json!({"k": "forceclose", "node": self.node}));
                    }
                    Some(_) => {}
                    None => return Ok(()),
                },
                Some((m, mut s)) = reads.next(), if !reads.is_empty() => {
                    let Some(m) = m else { continue };   // closed by the remote: drop it
                    if let Ok(msg) = KMessage::decode(&m[..]) {
                        match (msg.r#type, &msg.record) {
                            (0, Some(r)) => self.log.push(json!({"k": "recv", "node": self.node, "what": "record", "key": hex::encode(&r.key)})),
                            (2, _) => self.log.push(json!({"k": "recv", "node": self.node, "what": "provider", "key": hex::encode(&msg.key)})),
                            (4, _) if self.ackfind => {
                                let resp = KMessage { r#type: 4, key: msg.key.clone(), record: None };
                                let _ = s.send_framed(resp.encode_to_vec().into()).await;
                            }
                            _ => {}
                        }
                    }
                    if let Some(d) = self.die.as_ref() {
                        let _ = d.send(());
                    }
                    reads.push(arm(s));   // keep the substream open, never answer
                }
            }
        }
    }
}

pub struct NodeCfg {
    pub net: u64,
    pub idx: u32,
    pub role: Role,
    pub max_outgoing: Option<usize>,
    /// "tcp" | "ws" | "quic" | "mix" (all three)
    pub transport: String,
}

/// Spawn a node thread; returns once the node listens.
pub async fn spawn(cfg: NodeCfg, log: Log) -> Result<NodeHandle, String> {
    let (ctl_tx, ctl_rx) = mpsc::unbounded_channel::<Ctl>();
    let (rdy_tx, rdy_rx) = oneshot::channel::<Result<(PeerId, Vec<Multiaddr>), String>>();
    let (done_tx, done_rx) = oneshot::channel::<()>();
    let late = Arc::new(Mutex::new(0u64));
    let late2 = late.clone();
    let idx = cfg.idx;
    std::thread::Builder::new()
        .name(format!("n{}-{}", cfg.net, cfg.idx))
        .stack_size(2 << 20)
        .spawn(move || {
            logcap::tag_thread(cfg.net, cfg.idx);
            match tokio::runtime::Builder::new_current_thread().enable_all().build() {
                Ok(rt) => {
                    rt.block_on(node_main(cfg, log, ctl_rx, rdy_tx, late2));
                    drop(rt);
                }
                Err(e) => {
                    let _ = rdy_tx.send(Err(format!("runtime: {e}")));
                }
            }
            let _ = done_tx.send(());
        })
        .map_err(|e| format!("thread: {e}"))?;
    match tokio::time::timeout(Duration::from_secs(60), rdy_rx).await {
        Ok(Ok(Ok((peer, addrs)))) => Ok(NodeHandle { idx, peer, addrs, ctl: ctl_tx, done: Some(done_rx), late }),
        Ok(Ok(Err(e))) => Err(e),
        Ok(Err(_)) => Err("node thread ended before it was ready".into()),
        Err(_) => Err("node did not start within 60 s".into()),
    }
}

async fn node_main(
    cfg: NodeCfg,
    log: Log,
    mut ctl_rx: mpsc::UnboundedReceiver<Ctl>,
    rdy: oneshot::Sender<Result<(PeerId, Vec<Multiaddr>), String>>,
    late: Arc<Mutex<u64>>,
) {
    let node = cfg.idx;
    let mut builder = ConfigBuilder::new().with_keypair(Keypair::generate());
    let tr = cfg.transport.as_str();
    if matches!(tr, "tcp" | "mix") {
        builder = builder.with_tcp(TcpConfig { listen_addresses: vec!["/ip4/127.0.0.1/tcp/0".parse().unwrap()], ..Default::default() });
    }
    if matches!(tr, "ws" | "mix") {
        builder = builder.with_websocket(WsConfig { listen_addresses: vec!["/ip4/127.0.0.1/tcp/0/ws".parse().unwrap()], ..Default::default() });
    }
    if matches!(tr, "quic" | "mix") {
        // quinn's handshake and idle timeouts are taken from `connection_open_timeout`: QUIC_OPEN_TIMEOUT lets a dead
        // remote be noticed within the deadlines (which are scaled with it)
        builder = builder.with_quic(QuicConfig {
            listen_addresses: vec!["/ip4/127.0.0.1/udp/0/quic-v1".parse().unwrap()],
            connection_open_timeout: QUIC_OPEN_TIMEOUT,
            ..Default::default()
        });
    }
    let mut kad: Option<KademliaHandle> = None;
    let (die_tx, mut die_rx) = mpsc::unbounded_channel::<()>();
    match cfg.role {
        Role::Kad => {
            let (kc, kh) = KadConfigBuilder::new()
                .with_routing_table_update_mode(RoutingTableUpdateMode::Automatic)
                .with_incoming_records_validation_mode(IncomingRecordValidationMode::Automatic)
                .build();
            builder = builder.with_libp2p_kademlia(kc);
            kad = Some(kh);
        }
        Role::Silent | Role::SilentPut | Role::DieOnReq | Role::DropAfterConnect => {
            let die = if cfg.role == Role::DieOnReq { Some(die_tx.clone()) } else { None };
            builder = builder.with_user_protocol(Box::new(SilentKad {
                log: log.clone(),
                node,
                ackfind: cfg.role == Role::SilentPut,
                die,
                close_on_connect: cfg.role == Role::DropAfterConnect,
            }));
        }
        Role::NoKad => {}
    }
    if let Some(m) = cfg.max_outgoing {
        builder = builder.with_connection_limits(ConnectionLimitsConfig::default().max_outgoing_connections(Some(m)));
    }
    let mut litep2p = match Litep2p::new(builder.build()) {
        Ok(l) => l,
        Err(e) => {
            let _ = rdy.send(Err(format!("litep2p: {e:?}")));
            return;
        }
    };
    let peer = *litep2p.local_peer_id();
    let addrs: Vec<Multiaddr> = litep2p
        .listen_addresses()
        .map(|a| if matches!(a.iter().last(), Some(Protocol::P2p(_))) { a.clone() } else { a.clone().with(Protocol::P2p(peer.into())) })
        .collect();
    if addrs.is_empty() {
        let _ = rdy.send(Err("no listen address".into()));
        return;
    }
    let _ = rdy.send(Ok((peer, addrs)));

    let mut drop_on: (u8, Option<PeerId>) = (0, None);
    let mut tick = tokio::time::interval(Duration::from_millis(100));
    tick.set_missed_tick_behavior(tokio::time::MissedTickBehavior::Delay);
    let mut last_tick = Instant::now();
    loop {
        tokio::select! {
            Some(()) = die_rx.recv() => {
                log.push(json!({"k": "dead", "node": node, "why": "req"}));
                return;
            }
            _ = tick.tick() => {
                let el = last_tick.elapsed().as_millis() as u64;
                last_tick = Instant::now();
                if el > 100 {
                    let mut l = late.lock().unwrap();
                    if el - 100 > *l { *l = el - 100; }
                }
            }
            ev = litep2p.next_event() => match ev {
                Some(Litep2pEvent::ConnectionEstablished { peer: p, .. }) => {
                    log.push(json!({"k": "conn", "node": node, "up": true, "peer": p.to_string()}));
                    if drop_on.0 == 1 && drop_on.1 == Some(p) {
                        log.push(json!({"k": "dead", "node": node, "why": "conn"}));
                        return;
                    }
                }
                Some(Litep2pEvent::ConnectionClosed { peer: p, .. }) => {
                    log.push(json!({"k": "conn", "node": node, "up": false, "peer": p.to_string()}));
                }
                Some(Litep2pEvent::DialFailure { .. }) | Some(Litep2pEvent::ListDialFailures { .. }) => {
                    log.push(json!({"k": "dialfail", "node": node}));
                }
                None => {
                    log.push(json!({"k": "dead", "node": node, "why": "litep2p ended"}));
                    return;
                }
            },
            ev = async { kad.as_mut().unwrap().next().await }, if kad.is_some() => {
                let Some(ev) = ev else {
                    log.push(json!({"k": "dead", "node": node, "why": "kademlia ended"}));
                    return;
                };
                let mut die = false;
                match ev {
                    KademliaEvent::FindNodeSuccess { query_id, peers, .. } =>
                        log.push(json!({"k": "term", "node": node, "q": query_id.0, "ok": true, "v": "FindNodeSuccess", "n": peers.len()})),
                    KademliaEvent::GetRecordSuccess { query_id } =>
                        log.push(json!({"k": "term", "node": node, "q": query_id.0, "ok": true, "v": "GetRecordSuccess"})),
                    KademliaEvent::GetProvidersSuccess { query_id, providers, .. } =>
                        log.push(json!({"k": "term", "node": node, "q": query_id.0, "ok": true, "v": "GetProvidersSuccess", "n": providers.len()})),
                    KademliaEvent::PutRecordSuccess { query_id, .. } =>
                        log.push(json!({"k": "term", "node": node, "q": query_id.0, "ok": true, "v": "PutRecordSuccess"})),
                    KademliaEvent::AddProviderSuccess { query_id, .. } =>
                        log.push(json!({"k": "term", "node": node, "q": query_id.0, "ok": true, "v": "AddProviderSuccess"})),
                    KademliaEvent::QueryFailed { query_id } =>
                        log.push(json!({"k": "term", "node": node, "q": query_id.0, "ok": false, "v": "QueryFailed"})),
                    KademliaEvent::GetRecordPartialResult { query_id, .. } =>
                        log.push(json!({"k": "partial", "node": node, "q": query_id.0})),
                    KademliaEvent::IncomingRecord { record } => {
                        log.push(json!({"k": "recv", "node": node, "what": "record", "key": hex::encode(record.key.as_ref())}));
                        die = drop_on.0 == 2;
                    }
                    KademliaEvent::IncomingProvider { provided_key, .. } => {
                        log.push(json!({"k": "recv", "node": node, "what": "provider", "key": hex::encode(provided_key.as_ref())}));
                        die = drop_on.0 == 2;
                    }
                    KademliaEvent::RoutingTableUpdate { .. } => {}
                }
                if die {
                    log.push(json!({"k": "dead", "node": node, "why": "recv"}));
                    return;
                }
            },
            c = ctl_rx.recv() => match c {
                None | Some(Ctl::Kill) => {
                    log.push(json!({"k": "dead", "node": node, "why": "kill"}));
                    return;
                }
                Some(Ctl::DropOn(m, p)) => drop_on = (m, Some(p)),
                Some(Ctl::Jitter(ms)) => {
                    tokio::spawn(async move {
                        let t = Instant::now();
                        while t.elapsed() < Duration::from_millis(ms) {
                            std::thread::sleep(Duration::from_micros(1500));
                            tokio::task::yield_now().await;
                        }
                    });
                }
                Some(Ctl::AddKnown(p, addrs)) => {
                    if let Some(k) = kad.as_mut() {
                        k.add_known_peer(p, addrs).await;
                    } else {
                        litep2p.add_known_address(p, addrs.into_iter());
                    }
                }
                Some(Ctl::Store(key, value)) => {
                    if let Some(k) = kad.as_mut() {
                        k.store_record(Record::new(RecordKey::from(key), value)).await;
                    }
                }
                Some(Ctl::Op(op, reply)) => {
                    let Some(k) = kad.as_mut() else { continue };
                    let key = RecordKey::from(op.key.clone());
                    let qu = quorum(&op.quorum, op.n);
                    let q = match op.kind.as_str() {
                        "find_node" => k.find_node(op.target).await,
                        "put" => k.put_record(Record::new(key, op.value.clone()), qu).await,
                        "put_to" => k.put_record_to_peers(Record::new(key, op.value.clone()), op.peers.clone(), false, qu).await,
                        "get" => k.get_record(key, qu).await,
                        "provide" => k.start_providing(key, qu).await,
                        "get_providers" => k.get_providers(key).await,
                        other => panic!("unknown op kind {other}"),
                    };
                    // logged before this thread looks at any Kademlia event again
                    log.push(json!({"k": "cmd", "node": node, "q": q.0, "kind": op.kind, "key": hex::encode(&op.key)}));
                    let _ = reply.send(q.0);
                }
            },
        }
    }
}
