//! Real-network part of the C08 harness: two real litep2p nodes (A = "p1", B = "p2") over
//! loopback tcp / websocket / quic, public API only.  Each node runs two user protocols; both nodes register
//! `/c08/0`, only A registers `/c08/1` and only B `/c08/2`, so substreams A opens on `/c08/1`
//! fail their negotiation at the remote and must come back as open failures carrying the id
//! (`TcpConnection::handle_negotiated_substream`).  Every protocol task records, in program
//! order, what `open_substream` returned and every `TransportEvent` it got; one trace segment per
//! node.  The driver only waits and issues commands; deadlines are several times the configured
//! substream open timeout, and a run whose own 20 ms timer overshot badly (overloaded machine) or
//! whose nodes did not get connected is discarded, never judged.
//!
//! Scenario kinds: `mix` (single and simultaneous dials, opens on supported and unsupported
//! protocols from both sides, force_close racing with opens, reconnect) and `timeout`: every task
//! litep2p spawned for node B (connection tasks, protocol loops) is held through B's executor, so
//! B's transport still takes A's new stream (kernel socket / quinn endpoint driver keep running)
//! but nobody answers multistream-select; A's outbound open must then end, within a few times the
//! configured substream open timeout, in exactly one open failure carrying the id while the
//! connection stays up.
use futures::StreamExt;
use litep2p::{
    codec::ProtocolCodec,
    config::ConfigBuilder,
    crypto::ed25519::Keypair,
    protocol::{Direction, TransportEvent, TransportService, UserProtocol},
    executor::Executor,
    transport::{quic::config::Config as QuicConfig, tcp::config::Config as TcpConfig, websocket::config::Config as WsConfig},
    types::protocol::ProtocolName,
    Litep2p, PeerId,
};
use multiaddr::{Multiaddr, Protocol};
use rand::{rngs::StdRng, Rng, SeedableRng};
use serde_json::{json, Value};
use std::{
    collections::HashMap,
    future::Future,
    pin::Pin,
    sync::{
        atomic::{AtomicBool, Ordering},
        Arc, Mutex,
    },
    task::{Context, Poll, Waker},
    time::{Duration, Instant},
};
use tokio::sync::{mpsc, oneshot};

const OPEN_TIMEOUT: Duration = Duration::from_secs(2);
/// substream open timeout of the `timeout` scenarios, and how long the answer may take (7x)
const SHORT_OPEN_TIMEOUT: Duration = Duration::from_millis(1000);
const TIMEOUT_ANSWER_DEADLINE: Duration = Duration::from_millis(7000);

/// Executor handed to `ConfigBuilder::with_executor`: plain `tokio::spawn`, except that every
/// future of the node can be *held* (not polled) and released again, and aborted at the end.
#[derive(Default)]
struct GateExecutor {
    held: AtomicBool,
    wakers: Mutex<Vec<Waker>>,
    tasks: Mutex<Vec<tokio::task::AbortHandle>>,
}

struct Gated {
    inner: Pin<Box<dyn Future<Output = ()> + Send>>,
    gate: Arc<GateExecutor>,
}

impl Future for Gated {
    type Output = ();
    fn poll(mut self: Pin<&mut Self>, cx: &mut Context<'_>) -> Poll<()> {
        if self.gate.held.load(Ordering::SeqCst) {
            let mut w = self.gate.wakers.lock().unwrap();
            // re-check under the lock: `release` flips the flag before it takes the wakers
            if self.gate.held.load(Ordering::SeqCst) {
                w.push(cx.waker().clone());
                return Poll::Pending;
            }
        }
        self.inner.as_mut().poll(cx)
    }
}

struct Gate(Arc<GateExecutor>);

impl Gate {
    fn spawn(&self, future: Pin<Box<dyn Future<Output = ()> + Send>>) {
        let h = tokio::spawn(Gated { inner: future, gate: self.0.clone() });
        let mut g = self.0.tasks.lock().unwrap();
        g.retain(|h| !h.is_finished());
        g.push(h.abort_handle());
    }
}

impl Executor for Gate {
    fn run(&self, future: Pin<Box<dyn Future<Output = ()> + Send>>) {
        self.spawn(future)
    }
    fn run_with_name(&self, _: &'static str, future: Pin<Box<dyn Future<Output = ()> + Send>>) {
        self.spawn(future)
    }
}

impl GateExecutor {
    fn hold(&self) {
        self.held.store(true, Ordering::SeqCst);
    }
    fn release(&self) {
        self.held.store(false, Ordering::SeqCst);
        for w in self.wakers.lock().unwrap().drain(..) {
            w.wake();
        }
    }
    fn kill(&self) {
        for h in self.tasks.lock().unwrap().drain(..) {
            h.abort();
        }
    }
}
const ANSWER_DEADLINE: Duration = Duration::from_secs(12);
const CONNECT_DEADLINE: Duration = Duration::from_secs(10);

pub static PANICS: Mutex<Vec<String>> = Mutex::new(Vec::new());

#[derive(Clone, Default)]
struct Log(Arc<Mutex<Vec<Value>>>);

static T0: std::sync::OnceLock<Instant> = std::sync::OnceLock::new();

impl Log {
    fn push(&self, mut v: Value) {
        // informational only (never compared): milliseconds since the harness started
        v["t"] = json!(T0.get_or_init(Instant::now).elapsed().as_millis() as u64);
        self.0.lock().unwrap().push(v);
    }
    fn step(&self, s: Value, ret: Value) {
        self.push(json!({"e": "step", "s": s, "ret": ret, "panic": false, "view": 0}));
    }
    fn with<R>(&self, f: impl FnOnce(&[Value]) -> R) -> R {
        f(&self.0.lock().unwrap())
    }
    fn count(&self, f: impl Fn(&Value) -> bool) -> usize {
        self.0.lock().unwrap().iter().filter(|v| f(v)).count()
    }
    async fn wait(&self, deadline: Duration, pred: impl Fn(&[Value]) -> bool) -> bool {
        let end = Instant::now() + deadline;
        loop {
            if pred(&self.0.lock().unwrap()) {
                return true;
            }
            if Instant::now() >= end {
                return false;
            }
            tokio::time::sleep(Duration::from_millis(5)).await;
        }
    }
}

type Names = Arc<Mutex<HashMap<PeerId, String>>>;

enum PCmd {
    Open { peer: PeerId, resp: oneshot::Sender<()> },
    ForceClose { peer: PeerId, resp: oneshot::Sender<()> },
}

struct Proto {
    name: ProtocolName,
    q: usize,
    log: Log,
    names: Names,
    rx: mpsc::Receiver<PCmd>,
}

#[async_trait::async_trait]
impl UserProtocol for Proto {
    fn protocol(&self) -> ProtocolName {
        self.name.clone()
    }
    fn codec(&self) -> ProtocolCodec {
        ProtocolCodec::UnsignedVarint(Some(1024))
    }
    async fn run(mut self: Box<Self>, mut service: TransportService) -> litep2p::Result<()> {
        let pname = |names: &Names, p: &PeerId| names.lock().unwrap().get(p).cloned().unwrap_or_else(|| "?".into());
        let q = self.q;
        let mut held = Vec::new();
        loop {
            tokio::select! {
                ev = service.next() => {
                    let ret = match ev {
                        None => json!({"k": "terminated"}),
                        Some(TransportEvent::ConnectionEstablished { peer, endpoint }) =>
                            json!({"k": "est", "p": pname(&self.names, &peer), "c": endpoint.connection_id().verif_as_usize(),
                                   "dir": if endpoint.is_listener() { "in" } else { "out" }}),
                        Some(TransportEvent::ConnectionClosed { peer }) => json!({"k": "closed", "p": pname(&self.names, &peer)}),
                        Some(TransportEvent::SubstreamOpened { peer, direction, substream, .. }) => {
                            held.push(substream);
                            match direction {
                                Direction::Inbound => json!({"k": "opened", "p": pname(&self.names, &peer), "q": q, "dirn": "in", "id": -1}),
                                Direction::Outbound(id) =>
                                    json!({"k": "opened", "p": pname(&self.names, &peer), "q": q, "dirn": "out", "id": id.verif_as_usize()}),
                            }
                        }
                        Some(TransportEvent::SubstreamOpenFailure { substream, error }) =>
                            json!({"k": "failed", "id": substream.verif_as_usize(), "err": format!("{error:?}").chars().take(80).collect::<String>()}),
                        Some(TransportEvent::DialFailure { .. }) => json!({"k": "dialfailure"}),
                    };
                    if ret["k"] == "terminated" {
                        // the node is being shut down at the end of the scenario
                        return Ok(());
                    }
                    self.log.step(json!({"a": "nev", "q": q}), ret);
                }
                cmd = self.rx.recv() => match cmd {
                    None => return Ok(()),
                    Some(PCmd::Open { peer, resp }) => {
                        let ret = match service.open_substream(peer) {
                            Ok(id) => json!({"k": "ok", "id": id.verif_as_usize()}),
                            Err(e) => json!({"k": "err", "err": format!("{e:?}").chars().take(60).collect::<String>()}),
                        };
                        self.log.step(json!({"a": "nopen", "q": q, "p": pname(&self.names, &peer)}), ret);
                        let _ = resp.send(());
                    }
                    Some(PCmd::ForceClose { peer, resp }) => {
                        let r = service.force_close(peer);
                        self.log.step(json!({"a": "nfclose", "q": q, "p": pname(&self.names, &peer)}),
                                      json!({"k": if r.is_ok() { "ok" } else { "err" }}));
                        let _ = resp.send(());
                    }
                },
            }
        }
    }
}

enum AppCmd {
    Dial(Multiaddr),
}

struct Node {
    peer: PeerId,
    addr: Multiaddr,
    log: Log,
    protos: Vec<mpsc::Sender<PCmd>>,
    app: mpsc::Sender<AppCmd>,
    task: tokio::task::JoinHandle<()>,
    gate: Arc<GateExecutor>,
}

impl Node {
    fn new(protocols: [&str; 2], names: Names, transport: &str, open_timeout: Duration) -> Option<Node> {
        let log = Log::default();
        let gate = Arc::new(GateExecutor::default());
        let builder = ConfigBuilder::new()
            .with_keypair(Keypair::generate())
            .with_keep_alive_timeout(Duration::from_secs(120))
            .with_executor(Arc::new(Gate(gate.clone())));
        let mut builder = match transport {
            "ws" => builder.with_websocket(WsConfig {
                listen_addresses: vec!["/ip4/127.0.0.1/tcp/0/ws".parse().unwrap()],
                // dial from an ephemeral port: with the listen port reused, two simultaneous dials
                // become ONE tcp connection in simultaneous-open mode on which both ends speak as
                // dialers, and both dials fail
                reuse_port: false,
                substream_open_timeout: open_timeout,
                ..Default::default()
            }),
            // quinn's idle timeout is taken from `connection_open_timeout` (no QUIC keep-alive pings):
            // long enough that an idle link survives every wait of a scenario
            "quic" => builder.with_quic(QuicConfig {
                listen_addresses: vec!["/ip4/127.0.0.1/udp/0/quic-v1".parse().unwrap()],
                connection_open_timeout: Duration::from_secs(25),
                substream_open_timeout: open_timeout,
            }),
            _ => builder.with_tcp(TcpConfig {
                listen_addresses: vec!["/ip4/127.0.0.1/tcp/0".parse().unwrap()],
                reuse_port: false,
                substream_open_timeout: open_timeout,
                ..Default::default()
            }),
        };
        let mut protos = vec![];
        for (q, name) in protocols.iter().enumerate() {
            let (tx, rx) = mpsc::channel(64);
            protos.push(tx);
            builder = builder.with_user_protocol(Box::new(Proto {
                name: ProtocolName::from(name.to_string()),
                q,
                log: log.clone(),
                names: names.clone(),
                rx,
            }));
        }
        let mut litep2p = Litep2p::new(builder.build()).ok()?;
        let peer = *litep2p.local_peer_id();
        let addr = litep2p.listen_addresses().next()?.clone();
        let addr = if matches!(addr.iter().last(), Some(Protocol::P2p(_))) { addr } else { addr.with(Protocol::P2p(peer.into())) };
        let (app, mut app_rx) = mpsc::channel(16);
        let task = tokio::spawn(async move {
            loop {
                tokio::select! {
                    ev = litep2p.next_event() => if ev.is_none() { return; },
                    cmd = app_rx.recv() => match cmd {
                        None => return,
                        Some(AppCmd::Dial(a)) => { let _ = litep2p.dial_address(a).await; }
                    },
                }
            }
        });
        Some(Node { peer, addr, log, protos, app, task, gate })
    }
    async fn open(&self, q: usize, peer: PeerId) {
        let (tx, rx) = oneshot::channel();
        if self.protos[q].send(PCmd::Open { peer, resp: tx }).await.is_ok() {
            let _ = rx.await;
        }
    }
    async fn force_close(&self, q: usize, peer: PeerId) {
        let (tx, rx) = oneshot::channel();
        if self.protos[q].send(PCmd::ForceClose { peer, resp: tx }).await.is_ok() {
            let _ = rx.await;
        }
    }
}

fn is_ev(v: &Value, q: usize, k: &str) -> bool {
    v["s"]["a"] == "nev" && v["s"]["q"] == q && v["ret"]["k"] == k
}

/// accepted requests that have no answer yet
fn unanswered(lines: &[Value], from: usize) -> usize {
    let mut open = std::collections::HashSet::new();
    for v in lines.iter().skip(from) {
        if v["s"]["a"] == "nopen" && v["ret"]["k"] == "ok" {
            open.insert(v["ret"]["id"].as_i64().unwrap());
        }
        if v["s"]["a"] == "nev" && (v["ret"]["k"] == "failed" || (v["ret"]["k"] == "opened" && v["ret"]["dirn"] == "out")) {
            open.remove(&v["ret"]["id"].as_i64().unwrap());
        }
    }
    open.len()
}

struct Outcome {
    segments: Vec<Vec<Value>>,
    discarded: Option<&'static str>,
    opens: usize,
    overlapping: bool,
    /// `timeout` scenarios: requests issued while B was held / of those, answered by an open
    /// failure that names a timeout / the link ended meanwhile (nothing judged)
    held_opens: usize,
    timeout_failures: usize,
    inconclusive: bool,
}

impl Outcome {
    fn discard(why: &'static str) -> Outcome {
        Outcome { segments: vec![], discarded: Some(why), opens: 0, overlapping: false, held_opens: 0, timeout_failures: 0, inconclusive: false }
    }
}

struct Canary {
    worst: Arc<Mutex<f64>>,
    task: tokio::task::JoinHandle<()>,
}

impl Canary {
    fn start() -> Canary {
        let worst = Arc::new(Mutex::new(0f64));
        let w2 = worst.clone();
        let task = tokio::spawn(async move {
            loop {
                let t = Instant::now();
                tokio::time::sleep(Duration::from_millis(20)).await;
                let over = t.elapsed().as_secs_f64() * 1000.0 - 20.0;
                let mut g = w2.lock().unwrap();
                if over > *g {
                    *g = over;
                }
            }
        });
        Canary { worst, task }
    }
    fn worst_ms(&self) -> f64 {
        *self.worst.lock().unwrap()
    }
}

impl Drop for Canary {
    fn drop(&mut self) {
        self.task.abort();
    }
}

fn pair(transport: &str, open_timeout: Duration) -> Option<(Node, Node)> {
    let names: Names = Default::default();
    let a = Node::new(["/c08/0", "/c08/1"], names.clone(), transport, open_timeout)?;
    let b = Node::new(["/c08/0", "/c08/2"], names.clone(), transport, open_timeout)?;
    names.lock().unwrap().insert(a.peer, "p1".into());
    names.lock().unwrap().insert(b.peer, "p2".into());
    Some((a, b))
}

async fn finish(a: Node, b: Node) -> Vec<Vec<Value>> {
    a.task.abort();
    b.task.abort();
    a.gate.kill();
    b.gate.kill();
    tokio::time::sleep(Duration::from_millis(20)).await;
    let segs = vec![a.log.0.lock().unwrap().clone(), b.log.0.lock().unwrap().clone()];
    segs
}

/// Both protocols of both nodes saw a new established event (false: deadline passed, or every
/// dial that was issued has been reported as failed).
async fn connected(a: &Node, b: &Node, before: [usize; 2], dials: usize, fails_before: usize) -> bool {
    let end = Instant::now() + CONNECT_DEADLINE;
    loop {
        let ok_a = a.log.with(|l| (0..2).all(|q| l.iter().filter(|v| is_ev(v, q, "est")).count() > before[0]));
        let ok_b = b.log.with(|l| (0..2).all(|q| l.iter().filter(|v| is_ev(v, q, "est")).count() > before[1]));
        if ok_a && ok_b {
            return true;
        }
        let fails = a.log.count(|v| is_ev(v, 0, "dialfailure")) + b.log.count(|v| is_ev(v, 0, "dialfailure"));
        if (!ok_a && !ok_b && fails >= fails_before + dials) || Instant::now() >= end {
            return false;
        }
        tokio::time::sleep(Duration::from_millis(5)).await;
    }
}

async fn scenario(rng: &mut StdRng, transport: &str) -> Outcome {
    let Some((a, b)) = pair(transport, OPEN_TIMEOUT) else { return Outcome::discard("node setup") };
    let canary = Canary::start();
    let mut discarded = None;
    let mut opens = 0usize;
    let cycles = rng.gen_range(1..=2);
    let mut overlapping = false;
    'run: for cycle in 0..cycles {
        let est_before = [a.log.count(|v| is_ev(v, 0, "est")), b.log.count(|v| is_ev(v, 0, "est"))];
        // connect: A dials, B dials, or both at once (two overlapping connections)
        let mode = rng.gen_range(0..4);
        let fails_before = a.log.count(|v| is_ev(v, 0, "dialfailure")) + b.log.count(|v| is_ev(v, 0, "dialfailure"));
        if mode != 1 {
            let _ = a.app.send(AppCmd::Dial(b.addr.clone())).await;
        }
        if mode == 1 || mode >= 2 {
            let _ = b.app.send(AppCmd::Dial(a.addr.clone())).await;
        }
        overlapping |= mode >= 2;
        if !connected(&a, &b, est_before, if mode >= 2 { 2 } else { 1 }, fails_before).await {
            discarded = Some("not connected");
            break 'run;
        }
        // open requests from both sides, in random order: supported protocol /c08/0 (opened at both
        // ends), unsupported /c08/1 (A) and /c08/2 (B): negotiation fails at the remote
        let (from_a, from_b) = (a.log.0.lock().unwrap().len(), b.log.0.lock().unwrap().len());
        let n = rng.gen_range(2..=6);
        for _ in 0..n {
            let (node, peer) = if rng.gen_bool(0.7) { (&a, b.peer) } else { (&b, a.peer) };
            node.open(rng.gen_range(0..2), peer).await;
            opens += 1;
            if rng.gen_bool(0.3) {
                tokio::time::sleep(Duration::from_millis(rng.gen_range(0..15))).await;
            }
        }
        // nothing is terminated while we wait for the answers
        let done_a = a.log.wait(ANSWER_DEADLINE, |l| unanswered(l, from_a) == 0).await;
        let done_b = b.log.wait(ANSWER_DEADLINE, |l| unanswered(l, from_b) == 0).await;
        if canary.worst_ms() > 1500.0 {
            discarded = Some("overloaded");
            break 'run;
        }
        let _ = (done_a, done_b);
        // "answered exactly once unless its connection terminates first" is judged only while the
        // nodes are linked by ONE connection: with two overlapping connections one of them can end
        // without the protocols being told, and which one carried a request is not observable here
        if !overlapping {
            a.log.push(json!({"e": "nquiesce"}));
            b.log.push(json!({"e": "nquiesce"}));
        }
        // terminate: force_close from one side (seen as a remote close by the other), racing with
        // further open requests; or leave the connection alone in the last cycle
        let term = rng.gen_range(0..3);
        if term == 2 && cycle + 1 == cycles {
            break;
        }
        let closed_before = [a.log.count(|v| is_ev(v, 0, "closed")), b.log.count(|v| is_ev(v, 0, "closed"))];
        a.log.step(json!({"a": "nterm", "p": "p2"}), json!({"k": "ok"}));
        b.log.step(json!({"a": "nterm", "p": "p1"}), json!({"k": "ok"}));
        if term == 0 {
            a.force_close(rng.gen_range(0..2), b.peer).await;
        } else {
            b.force_close(rng.gen_range(0..2), a.peer).await;
        }
        for _ in 0..rng.gen_range(0..3) {
            a.open(rng.gen_range(0..2), b.peer).await;
            opens += 1;
        }
        let c_a = a.log.wait(CONNECT_DEADLINE, |l| (0..2).all(|q| l.iter().filter(|v| is_ev(v, q, "closed")).count() > closed_before[0])).await;
        let c_b = b.log.wait(CONNECT_DEADLINE, |l| (0..2).all(|q| l.iter().filter(|v| is_ev(v, q, "closed")).count() > closed_before[1])).await;
        if !(c_a && c_b) {
            // whether and when a closed connection is reported is C07; stop here without judging more
            break;
        }
    }
    drop(canary);
    let segments = finish(a, b).await;
    Outcome { segments, discarded, opens, overlapping, held_opens: 0, timeout_failures: 0, inconclusive: false }
}

/// An outbound open whose negotiation is never answered: it must time out into one open failure.
/// `burst` = 0: one to three requests; otherwise that many requests issued in one go (far more than the
/// 256 unacknowledged outbound streams yamux allows: the ones above wait for a stream slot, not for an answer).
async fn timeout_scenario(rng: &mut StdRng, transport: &str, burst: usize) -> Outcome {
    let Some((a, b)) = pair(transport, SHORT_OPEN_TIMEOUT) else { return Outcome::discard("node setup") };
    let canary = Canary::start();
    let _ = a.app.send(AppCmd::Dial(b.addr.clone())).await;
    if !connected(&a, &b, [0, 0], 1, 0).await {
        drop(canary);
        let _ = finish(a, b).await;
        return Outcome::discard("not connected");
    }
    let mut opens = 0usize;
    // the link works: one request answered normally
    let from0 = a.log.0.lock().unwrap().len();
    a.open(0, b.peer).await;
    opens += 1;
    if !a.log.wait(ANSWER_DEADLINE, |l| unanswered(l, from0) == 0).await {
        drop(canary);
        let _ = finish(a, b).await;
        return Outcome::discard("warm-up request not answered");
    }
    // nobody at B answers from now on; its transport keeps taking bytes / streams
    b.gate.hold();
    tokio::time::sleep(Duration::from_millis(30)).await;
    let from = a.log.0.lock().unwrap().len();
    let held_opens = if burst > 0 { burst } else { rng.gen_range(1..=3) };
    let issue_started = Instant::now();
    for _ in 0..held_opens {
        // a burst goes to the protocol the remote has (its streams would be negotiated if B ran)
        a.open(if burst > 0 { 0 } else { rng.gen_range(0..2) }, b.peer).await;
        opens += 1;
    }
    let issued = Instant::now();
    // a burst has to be out well within the open timeout, otherwise the first requests time out (freeing
    // stream slots) before the last ones are made and nothing waits for a slot
    let slow_issue = burst > 0 && issued.duration_since(issue_started) > SHORT_OPEN_TIMEOUT / 2;
    // the timeout fires at A while B is silent (3x the timeout), then B runs again
    let _ = a.log.wait(SHORT_OPEN_TIMEOUT * 3, |l| unanswered(l, from) == 0).await;
    b.gate.release();
    let left = TIMEOUT_ANSWER_DEADLINE.saturating_sub(issued.elapsed());
    let _ = a.log.wait(left, |l| unanswered(l, from) == 0).await;
    // a second answer (for instance B's late reply) would show up now
    tokio::time::sleep(Duration::from_millis(1200)).await;
    let overloaded = canary.worst_ms() > 700.0;
    drop(canary);
    let closed = a.log.count(|v| v["s"]["a"] == "nev" && v["ret"]["k"] == "closed") > 0;
    let accepted = a.log.0.lock().unwrap().iter().skip(from).filter(|v| v["s"]["a"] == "nopen" && v["ret"]["k"] == "ok").count();
    let timeout_failures = a.log.0.lock().unwrap().iter().skip(from)
        .filter(|v| v["s"]["a"] == "nev" && v["ret"]["k"] == "failed" && v["ret"]["err"].as_str().map(|e| e.contains("Timeout")).unwrap_or(false))
        .count();
    if !overloaded && !closed && !slow_issue {
        a.log.push(json!({"e": "nquiesce"}));
        b.log.push(json!({"e": "nquiesce"}));
    }
    let segments = finish(a, b).await;
    Outcome {
        segments,
        discarded: if overloaded { Some("overloaded") } else if slow_issue { Some("burst issued too slowly") } else { None },
        opens,
        overlapping: false,
        held_opens: accepted,
        timeout_failures,
        inconclusive: closed,
    }
}

/// `plan`: comma separated `transport:kind:count` with kind `mix` | `timeout` | `burst<N>`.
pub fn run_net(plan: &str, seed: u64, b0: usize) -> (Vec<String>, Value) {
    let rt = tokio::runtime::Builder::new_multi_thread().worker_threads(4).enable_all().build().expect("runtime");
    let mut rng = StdRng::seed_from_u64(seed ^ 0xC08);
    let mut lines = vec![];
    let mut total = 0usize;
    let mut summary = serde_json::Map::new();
    for item in plan.split(',').filter(|x| !x.is_empty()) {
        let f: Vec<&str> = item.split(':').collect();
        let (transport, kind, n) = (f[0], f[1], f[2].parse::<usize>().expect("count"));
        let (mut runs, mut discarded, mut opens, mut overlapping, mut attempts) = (0usize, 0usize, 0usize, 0usize, 0usize);
        let (mut held, mut tfail, mut inconclusive) = (0usize, 0usize, 0usize);
        let mut reasons: std::collections::BTreeMap<&'static str, usize> = Default::default();
        while runs < n && attempts < 3 * n + 3 {
            attempts += 1;
            let before = PANICS.lock().unwrap().len();
            let out = if kind == "timeout" {
                rt.block_on(timeout_scenario(&mut rng, transport, 0))
            } else if let Some(n) = kind.strip_prefix("burst") {
                rt.block_on(timeout_scenario(&mut rng, transport, n.parse().expect("burst size")))
            } else {
                rt.block_on(scenario(&mut rng, transport))
            };
            if let Some(why) = out.discarded {
                discarded += 1;
                *reasons.entry(why).or_insert(0usize) += 1;
                if std::env::var("VERIF_NET_DEBUG").is_ok() {
                    for (i, seg) in out.segments.iter().enumerate() {
                        eprintln!("-- discarded ({why}) node {i}");
                        for v in seg {
                            eprintln!("{v}");
                        }
                    }
                }
                continue;
            }
            if out.inconclusive {
                // the link ended while B was held: nothing to judge, try again
                inconclusive += 1;
                if attempts < 3 * n + 3 {
                    continue;
                }
            }
            let panics: Vec<String> = PANICS.lock().unwrap()[before..].to_vec();
            for (i, seg) in out.segments.iter().enumerate() {
                lines.push(json!({"e": "reset", "b": b0 + total, "src": "net", "transport": transport, "kind": kind,
                                  "node": if i == 0 { "A" } else { "B" }, "ka": [true, true]}).to_string());
                for v in seg {
                    lines.push(v.to_string());
                }
                if i == 0 && !panics.is_empty() {
                    lines.push(json!({"e": "step", "s": {"a": "nev", "q": 0}, "ret": {"k": "panic", "msg": panics[0].chars().take(160).collect::<String>()},
                                      "panic": true, "view": 0}).to_string());
                }
            }
            runs += 1;
            total += 1;
            opens += out.opens;
            overlapping += out.overlapping as usize;
            held += out.held_opens;
            tfail += out.timeout_failures;
        }
        summary.insert(format!("{transport}:{kind}"), json!({"wanted": n, "runs": runs, "discarded": discarded, "discard_reasons": reasons, "opens": opens,
            "simultaneous_dials": overlapping, "held_opens": held, "timeout_failures": tfail, "link_ended_while_held": inconclusive}));
    }
    (lines, json!({"net_runs": total, "plan": Value::Object(summary)}))
}
