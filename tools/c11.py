"""C11 - notification streams follow a strict open/close protocol towards the user."""
import json
import random
from vlib import *
import notif_util as nu

ASSUME = [
    "the transport below the protocol is legal (ConnLife guarantees C07/C08: established/closed alternate per protocol, every "
    "substream open request is answered once or the connection ends); real runs use loopback TCP through an in-harness proxy",
    "an open request is owed an answer only when it was issued while the node had reported the connection up and undisturbed and "
    "nothing was in progress in the user's view; rejecting or never answering a validation, a cut, a reported connection loss, a "
    "clogged channel or a long task stall void the obligation (most liberal reading of 'no negotiation in progress')",
    "quiescence on real nodes = every endpoint silent for 60 s (3x the longest chain of litep2p timers configured here: "
    "2 s connection open + 2 s substream open + 10 s negotiation + 5 s no-inbound timer) while something is outstanding; runs whose "
    "driver was starved for more than 1.5 s are not judged at quiescence",
    "TLC bounds: 2 endpoints, <= 2 opens / <= 1 close per endpoint, <= 1 cut, <= 1 reconnect, <= 1 substream open failure, "
    "auto-accept on/off; the user reads available events eagerly (command-queue lag still lets commands act on an outdated state)",
]


def mc_configs(ctx):
    if ctx.quick():
        return [("one-open-no-auto", nu.mc_consts(mo=1, mcl=0, cut=0)),
                ("one-open-autoXY-cut", nu.mc_consts(auto=("X", "Y"), mo=1, mcl=0, cut=1, rec=0)),
                ("one-open-autoX-openfail", nu.mc_consts(auto=("X",), mo=1, mcl=0, fail=1)),
                ("pending-validation-2cuts-2reconnects", nu.mc_consts(mo=1, moy=0, mcl=0, cut=2, rec=2)),
                ("retry-after-failure", nu.mc_consts(mo=2, moy=0, mcl=0)),
                ("foreign-dial-failure", nu.mc_consts(mo=1, mcl=0, fdf=1)),
                ("foreign-dial-failure-cut-reconnect", nu.mc_consts(mo=1, moy=0, mcl=0, cut=1, rec=1, fdf=1)),
                ("retry-after-failure-repaired", nu.mc_consts(mo=2, moy=0, mcl=0, fixed=set(nu.SIG_TAG.values()))),
                ("one-open-no-auto-repaired-earlyval", nu.mc_consts(mo=1, mcl=0, fixed=set(nu.SIG_TAG.values()), early=True)),
                ("one-open-no-auto-earlyval", nu.mc_consts(mo=1, mcl=0, early=True))]
    return [("open-close", nu.mc_consts(mo=1, mcl=1)),
            ("cut-reconnect", nu.mc_consts(mo=1, mcl=0, cut=1, rec=1, sub=4)),
            ("open-fail-autoXY", nu.mc_consts(auto=("X", "Y"), mo=1, mcl=0, fail=1)),
            ("autoXY-cut", nu.mc_consts(auto=("X", "Y"), mo=1, mcl=0, cut=1)),
            ("autoX-openfail", nu.mc_consts(auto=("X",), mo=1, mcl=0, fail=1)),
            ("pending-validation-2cuts-2reconnects", nu.mc_consts(mo=1, moy=0, mcl=0, cut=2, rec=2)),
            ("retry-after-failure", nu.mc_consts(mo=2, moy=0, mcl=0)),
            ("foreign-dial-failure", nu.mc_consts(mo=1, mcl=0, fdf=1)),
            ("foreign-dial-failure-x2", nu.mc_consts(mo=1, mcl=0, fdf=2)),
            ("close-then-reopen", nu.mc_consts(mo=2, moy=0, mcl=1)),
            ("open-failure-then-reopen", nu.mc_consts(mo=2, moy=1, mcl=0, fail=1)),
            ("open-failure-then-reopen-autoXY", nu.mc_consts(auto=("X", "Y"), mo=2, moy=1, mcl=0, fail=2)),
            ("foreign-dial-failure-close-cut", nu.mc_consts(mo=1, moy=0, mcl=1, cut=1, rec=1, fdf=1)),
            ("foreign-dial-failure-autoXY", nu.mc_consts(auto=("X", "Y"), mo=1, mcl=0, cut=1, fdf=1)),
            ("retry-after-failure-repaired", nu.mc_consts(mo=2, moy=0, mcl=0, fixed=set(nu.SIG_TAG.values()))),
            ("open-close-repaired", nu.mc_consts(mo=1, mcl=1, fixed=set(nu.SIG_TAG.values()))),
            ("one-open-repaired-earlyval", nu.mc_consts(mo=1, mcl=0, fixed=set(nu.SIG_TAG.values()), early=True)),
            ("one-open-earlyval", nu.mc_consts(mo=1, mcl=0, early=True)),
            ("x2y1-repaired", nu.mc_consts(mo=2, moy=1, mcl=0, fixed=set(nu.SIG_TAG.values())))]


def model_check(ctx):
    out = []
    seen = []
    for name, consts in mc_configs(ctx):
        # (the "-repaired" variants coincide with the plain ones once the fix is recorded in known_findings.txt)
        if consts in seen:
            continue
        seen.append(consts)
        r = tlc_mc(ctx, "NotifMC.tla", write_cfg(ctx, "mc_%s.cfg" % name, consts, nu.MC_LINES), workers=6 if ctx.quick() else 10, timeout=3000)
        if not r["ok"]:
            raise ToolError("NotifMC violates an invariant outside the tagged design findings in config %s; the model must be "
                            "corrected or the counterexample replayed against real nodes:\n%s" % (name, r.get("error", r["out"][-3000:])))
        out.append({k: r[k] for k in ("transitions", "distinct", "depth", "wall_s") if k in r})
        out[-1]["cfg"] = name
        log("MC %s: %s" % (name, out[-1]))
    return out


def model_negative(ctx):
    """negative model configurations: (name, invariant expected to break, constants)"""
    res = []
    for name, inv, consts in [("no-known-tags", "NoUnknownPanic", nu.mc_consts(mo=1, mcl=1, tags=(), fixed=())),
                              ("silent-negotiation-error", "QuiesceOK", nu.mc_consts(mo=1, mcl=0, mut="silent_negotiation_error")),
                              ("vp-keeps-connection-state", "NoUnknownPanic", nu.mc_consts(mo=1, moy=0, mcl=0, cut=2, rec=2, mut="vp_keeps_conn_state")),
                              ("open-ignored-unrepaired-untagged", "NoUnknownPanic", nu.mc_consts(mo=2, moy=0, mcl=0, fixed=(), tags=nu.TAGS - set(nu.SIG_TAG.values()))),
                              ("dial-failure-wipes-state", "NoUnknownPanic", nu.mc_consts(mo=1, mcl=0, fdf=1, mut="dialfail_wipes_state")),
                              ("dial-failure-wipes-open-stream", "QuiesceOK", nu.mc_consts(auto=("X", "Y"), mo=1, moy=0, mcl=0, fdf=1, mut="dialfail_wipes_state", tags=nu.TAGS | {"outbound-unexpected-closed", "outbound-negotiated-unexpected-closed", "inbound-negotiated-unexpected-closed", "negotiation-error-unexpected-closed", "established-peer-exists-closed"})),
                              ("flush-error-does-not-notify", "QuiesceOK", nu.mc_consts(mo=2, moy=0, mcl=1, mut="flush_error_no_notify")),
                              ("open-failure-keeps-pending-id", "QuiesceOK", nu.mc_consts(mo=2, moy=1, mcl=0, fail=1, mut="openfail_keeps_pending")),
                              ("silent-task-end", "QuiesceOK", nu.mc_consts(auto=("X", "Y"), mo=1, mcl=0, cut=1, mut="silent_task_end"))]:
        r = tlc_mc(ctx, "NotifMC.tla", write_cfg(ctx, "neg_%s.cfg" % name, consts, ["SPECIFICATION Spec", "INVARIANTS MonOK NoUnknownPanic QuiesceOK", "CHECK_DEADLOCK FALSE"]),
                   workers=6, timeout=1200, expect_violation=True)
        hit = (not r["ok"]) and ("Invariant %s is violated" % inv) in r["out"]
        res.append((name, inv, hit))
    return res


def generate(ctx):
    gl = ["SPECIFICATION Spec", "ACTION_CONSTRAINT Emit", "CHECK_DEADLOCK FALSE"]
    sets = [("gen-noauto", nu.mc_consts(mo=1, mcl=0)), ("gen-autoX", nu.mc_consts(auto=("X",), mo=1, mcl=0, cut=0)),
            ("gen-rec2", nu.mc_consts(mo=1, moy=0, mcl=0, cut=2, rec=2))]
    if not ctx.quick():
        sets += [("gen-cut", nu.mc_consts(auto=("Y",), mo=1, mcl=0, cut=1))]
    scripts, stats = [], []
    rng = random.Random(ctx.seed)
    per = 24 if ctx.quick() else 150
    for name, consts in sets:
        behs, g = tlc_generate(ctx, "NotifMC.tla", write_cfg(ctx, "%s.cfg" % name, consts, gl), timeout=3000)
        # distinct user/environment command sequences (maximal ones first: they contain their prefixes)
        keyed = {}
        for b in behs:
            keyed.setdefault(nu.behaviour_key(b), b)
        keys = sorted(keyed, key=lambda k: (-len(k), str(k)))
        maximal = [k for k in keys if not any(o[:len(k)] == k and len(o) > len(k) for o in keys[:400])]
        rng.shuffle(maximal)
        chosen = maximal[:per]
        for i, k in enumerate(chosen):
            scripts.append(nu.script_from_behaviour(keyed[k], len(scripts), ctx.seed, consts, paced=(i % 2 == 0)))
        g.update(cfg=name, command_sequences=len(keyed), chosen=len(chosen))
        stats.append(g)
        log("GEN %s" % g)
    return scripts, stats


RACE_OVERTAKE = "report-overtakes-closed-of-previous-stream"
RACE_STALE_NOTICE = "debug-assert-after-stale-shutdown-notice"
STALE_VALIDATION = "stale-validation-result-accepts-later-substream"


def classify(seg, idx, reason):
    """signature = root cause where the log shows it, else the broken rule"""
    ev = json.loads(seg[idx - 1])
    prev = [json.loads(x) for x in seg[1:idx - 1]]
    later = [json.loads(x) for x in seg[idx:]]
    p = ev.get("p")
    if reason == "panic":
        msg = ev.get("msg", "")
        loc = msg.split(" ")[0] or "unknown"
        closed_before = any(d["e"] == "close" and d.get("r") == "sent" for d in prev)
        if loc.startswith("src/protocol/notification/mod.rs:") and "assertion failed" in msg and closed_before:
            return RACE_STALE_NOTICE
        return "panic@%s" % loc
    if reason in ("stream opened twice without a close in between", "open failure while the stream is open"):
        # the Closed of the previous stream arrives afterwards: it was overtaken by a report of the protocol loop
        if any(d["e"] == "ev" and d.get("k") == "closed" and d.get("p") == p for d in later):
            return RACE_OVERTAKE
        return reason.replace(" ", "-")
    if reason == "inbound stream opened without the user's acceptance":
        # an Accept was sent (for an earlier request) before the request now pending was read
        vals = [i for i, d in enumerate(prev) if d["e"] == "ev" and d.get("k") == "validate" and d.get("p") == p]
        if len(vals) >= 2 and any(d["e"] == "val" and d.get("v") == "accept" and d.get("r") == "sent" and d.get("p") == p for d in prev[vals[-2]:vals[-1]]) \
                and not any(d["e"] == "val" and d.get("r") == "sent" and d.get("p") == p for d in prev[vals[-1]:]):
            return STALE_VALIDATION
        return reason.replace(" ", "-").replace("'", "")
    if reason == "stream closed while not open":
        # second Closed after an overtaken one (reported above)
        opened = [i for i, d in enumerate(prev) if d["e"] == "ev" and d.get("k") == "opened" and d.get("p") == p]
        if len(opened) >= 2 and not any(d["e"] == "ev" and d.get("k") == "closed" and d.get("p") == p for d in prev[opened[-2]:opened[-1]]):
            return RACE_OVERTAKE
        return reason.replace(" ", "-")
    if reason == "open request never answered":
        last = max([i for i, d in enumerate(prev) if d["e"] == "open" and d.get("r") == "ok" and d.get("p") == p] or [0])
        after = [("%s:%s" % (d["e"], d.get("k", d.get("v", "")))) for d in prev[last + 1:] if d.get("p") in (None, p)]
        return "open-unanswered" + ("-after-" + "-".join(after[:4]) if after else "")
    return reason.replace(" ", "-")


LATE_ACCEPT = "open-ignored-during-leftover-substream-of-late-accept"


def late_accept(peer_log, me):
    """the peer accepted a validation for `me` and then saw that attempt fail (it accepted a dead substream)"""
    acc = False
    for d in peer_log:
        if d.get("p") != me:
            continue
        if d["e"] == "val" and d.get("v") == "accept" and d.get("r") == "sent":
            acc = True
        elif d["e"] == "ev" and d.get("k") == "opened":
            acc = False
        elif d["e"] == "ev" and d.get("k") == "openfail" and acc:
            return True
    return False


FAILED_ID_REUSED = "open-reuses-failed-pending-substream-id"


def failed_id_reused(my_log, peer_log, me, peer):
    """history of the recorded finding: my open was answered by an OpenFailure while the peer's concurrent open
    (issued between my open and that failure) was still unanswered for a good while after it (so the failure was my own
    substream failing to open with the peer's substream under negotiation), and my next open got nothing at all"""
    mine = [d for d in my_log if d.get("p") == peer and (d["e"] == "open" and d.get("r") == "ok" or d["e"] == "ev" and d.get("k") in ("openfail", "opened"))]
    if len(mine) < 3 or mine[-1]["e"] != "open" or mine[-2].get("k") != "openfail" or mine[-3]["e"] != "open":
        return False
    if any(d["e"] == "conn" and d.get("k") in ("cut", "down") and d.get("p") == peer for d in my_log):
        return False
    t_open, t_fail = mine[-3]["t"], mine[-2]["t"]
    theirs = [d for d in peer_log if d.get("p") == me]
    for i, d in enumerate(theirs):
        if d["e"] == "open" and d.get("r") == "ok" and t_open <= d["t"] <= t_fail:
            ans = [x for x in theirs[i + 1:] if x["e"] == "ev" and x.get("k") in ("openfail", "opened")]
            if not ans or ans[0]["t"] > t_fail + 500:
                return True
    return False


def collect(ctx, rejects, prop="C11", lines=None):
    violations = []
    logs = {}
    for seg in (nu.split_endpoints(lines) if lines else []):
        h = json.loads(seg[0])
        logs[(h.get("sc"), h.get("ep"))] = seg
    # a panicked protocol loop stops serving every peer: silence observed by the other endpoints of that
    # scenario is a consequence of the panic and is reported under the panic's signature
    panicked = {}
    for r in rejects:
        if r.reason == "panic":
            panicked[json.loads(r[0][0]).get("sc")] = classify(r[0], r[1], r.reason)
    for r in rejects:
        seg, idx = r
        sig = classify(seg, idx, r.reason)
        hdr = json.loads(seg[0])
        if r.reason in ("open request never answered", "stream still open after the connection was lost") and hdr.get("sc") in panicked:
            sig = panicked[hdr.get("sc")]
        elif r.reason == "open request never answered":
            p = json.loads(seg[idx - 1]).get("p") or ""
            # which peer was owed: the one with an unanswered obligated open; look at every peer's log of this scenario
            for (sc, ep), pseg in logs.items():
                if sc == hdr.get("sc") and ep != hdr.get("ep") and late_accept([json.loads(x) for x in pseg[1:]], hdr.get("ep")):
                    sig = LATE_ACCEPT
                elif sc == hdr.get("sc") and ep != hdr.get("ep") and \
                        failed_id_reused([json.loads(x) for x in seg[1:idx - 1]], [json.loads(x) for x in pseg[1:]], hdr.get("ep"), ep):
                    sig = FAILED_ID_REUSED
        violations.append({"sig": sig, "what": "%s at endpoint %s of scenario %s: %s" % (r.reason, hdr.get("ep"), hdr.get("sc"), seg[idx - 1][:300]),
                           "replay_obj": {"property": prop, "reason": r.reason, "signature": sig, "scenario": hdr.get("sc"),
                                          "script": getattr(ctx, "scripts_by_id", {}).get(hdr.get("sc")),
                                          "segment": [json.loads(x) for x in seg[:idx]]}})
    return violations


save_known_repros = nu.save_known_repros


def check(ctx):
    mc = model_check(ctx)
    tlc_scripts, gstats = generate(ctx)
    build_s = cargo_build(ctx, ["notif"])
    nrand = 60 if ctx.quick() else 1200
    scripts, skipped = nu.transport_plan(ctx, nu.families(ctx.seed, ctx.tier), tlc_scripts,
                                         lambda i: nu.random_script(random.Random(ctx.seed * 1000003 + i), i, ctx.seed), nrand)
    ctx.scripts_by_id = {s["id"]: s for s in scripts}
    lines, summs = nu.run_batches(ctx, scripts, "b", build_s)
    nseg, nev, rejects = validate_all(ctx, "NotifTrace.tla", "NotifTrace.cfg", lines)
    violations = collect(ctx, rejects, lines=lines)
    save_known_repros(ctx, violations)
    nostream = sum(1 for ln in lines if '"r":"nostream"' in ln and '"m":"s"' in ln)
    if nostream:
        ctx.notes.append("drift: NotificationHandle::send_sync_notification for a peer without an open stream returned Ok(()) %d times "
                         "(nothing is sent; the asynchronous variant returns Err(PeerDoesntExist)); judged as 'not sent', see C12" % nostream)
    cov = evidence(mc, gstats, summs, lines, nseg, nev, scripts)
    cov["families_not_run_per_transport"] = skipped
    cov["discarded_runs"] = nu.discarded_runs(ctx, lines)
    return conclude(ctx, "model_checking", cov, violations, ASSUME)


def evidence(mc, gstats, summs, lines, nseg, nev, scripts):
    kinds, distinct, unstable, obligated = {}, set(), 0, 0
    per_tr, tr = {}, "tcp"
    cur = []
    for ln in lines:
        d = json.loads(ln)
        if d["e"] == "reset":
            if cur:
                distinct.add(hash(tuple(cur)))
            cur = []
            tr = d.get("tr", "tcp")
            pt = per_tr.setdefault(tr, {"endpoint_logs": 0, "scenarios": set(), "kinds": {}})
            pt["endpoint_logs"] += 1
            pt["scenarios"].add(d.get("sc"))
            continue
        k = d["e"] + (":" + str(d.get("k", d.get("r", ""))) if d["e"] in ("ev", "conn", "open", "val", "close", "note") else "")
        kinds[k] = kinds.get(k, 0) + 1
        per_tr[tr]["kinds"][k] = per_tr[tr]["kinds"].get(k, 0) + 1
        if d["e"] == "quiesce" and not d["stable"]:
            unstable += 1
        if d["e"] != "send" and not (d["e"] == "ev" and d.get("k") == "recv"):
            cur.append((d["e"], d.get("k"), d.get("p"), d.get("r"), d.get("v")))
    if cur:
        distinct.add(hash(tuple(cur)))
    samples = []
    for ln in lines[:60]:
        d = json.loads(ln)
        if d["e"] in ("open", "val", "ev", "conn") and d.get("k") != "recv":
            samples.append({k: v for k, v in d.items() if k != "t"})
        if len(samples) >= 8:
            break
    needed = ["ev:validate", "ev:opened", "ev:closed", "ev:openfail", "open:ok", "val:sent", "conn:cut", "conn:up", "conn:down", "note:dialfail"]
    missing = ["%s/%s" % (t, k) for t in nu.TRANSPORTS for k in needed if not per_tr.get(t, {}).get("kinds", {}).get(k)]
    if missing:
        raise ToolError("event kinds never exercised on real nodes: %s" % missing)
    for pt in per_tr.values():
        pt["scenarios"] = len(pt["scenarios"])
    return {
        "states": sum(m["distinct"] for m in mc),
        "transitions": sum(m["transitions"] for m in mc),
        "traces_validated_against_impl": nseg,
        "events_validated": nev,
        "samples": samples,
        "evaluations": len(scripts),
        "distinct_nontrivial": len(distinct),
        "rule": "a case is one scenario script executed on a real 2-3 node litep2p network (TLC behaviour of NotifMC / family / seeded "
                "random); every endpoint's command+event log is one trace validated by TLC against the monitor of Notif.tla; distinct = "
                "distinct per-endpoint control-plane logs (commands, results, events; payload traffic ignored)",
        "model_runs": mc,
        "generation": gstats,
        "harness": summs,
        "event_kinds": kinds,
        "per_transport": per_tr,
        "unstable_runs_not_judged_at_quiescence": unstable,
        "exhaustive": False,
    }


def replay(ctx, path):
    obj = json.load(open(path))
    seg = [json.dumps(x, separators=(",", ":")) for x in obj["segment"]]
    _, _, rej = validate_all(ctx, "NotifTrace.tla", "NotifTrace.cfg", seg)
    log("replay of recorded segment: %s" % ("rejected: %s" % rej[0].reason if rej else "accepted"))
    if obj.get("script"):
        cargo_build(ctx, ["notif"])
        n = 20
        scripts = []
        for i in range(n):
            s = json.loads(json.dumps(obj["script"]))
            s["id"] = "%s-re%d" % (s["id"], i)
            scripts.append(s)
        summ, lines = nu.run_scripts(ctx, scripts, "replay", threads=n)
        _, _, rej2 = validate_all(ctx, "NotifTrace.tla", "NotifTrace.cfg", lines)
        log("re-execution of the scenario on real nodes (%d runs): %d rejected %s" % (n, len(rej2), sorted({r.reason for r in rej2})))
    return 1 if rej else 0


def selftest(ctx):
    ok = True
    # (a) binding: corrupt fields of a good recorded trace
    cargo_build(ctx, ["notif"])
    only_reject = {"id": "self-solo-reject", "cfg": nu.cfg(ctx.seed * 7 + 1, perturb=1),
                   "steps": [nu.policy("Y", "reject"), nu.open_("X"), nu.await_("X", "answered"), nu.op("quiesce")]}
    scripts = [only_reject] + [s for s in nu.families(ctx.seed, "quick") if s["id"].startswith(("fam-solo-accept", "fam-cut-open", "fam-solo-reject"))][:6]
    summ, lines = nu.run_scripts(ctx, scripts, "self", threads=8)
    _, _, rej = validate_all(ctx, "NotifTrace.tla", "NotifTrace.cfg", lines)
    log("selftest good traces: %d lines, %d rejects" % (len(lines), len(rej)))
    ok &= not rej

    def mutate(name, pred, fn, expect):
        nonlocal ok
        out, done = [], False
        for ln in lines:
            d = json.loads(ln)
            if not done and pred(d):
                done = True
                r = fn(d)
                if r is None:
                    continue
                out += [json.dumps(x, separators=(",", ":")) for x in (r if isinstance(r, list) else [r])]
                continue
            out.append(ln)
        _, _, rj = validate_all(ctx, "NotifTrace.tla", "NotifTrace.cfg", out, tag=name)
        got = sorted({r.reason for r in rj})
        good = done and expect in got
        log("selftest binding %-28s -> %s %s" % (name, got, "OK" if good else "FAILED"))
        ok &= good

    isev = lambda k: (lambda d: d["e"] == "ev" and d.get("k") == k)
    mutate("drop-closed", isev("closed"), lambda d: None, "stream opened twice without a close in between")
    mutate("dup-opened", isev("opened"), lambda d: [d, d], "stream opened twice without a close in between")
    mutate("drop-openfail", isev("openfail"), lambda d: None, "open request never answered")
    mutate("drop-opened", isev("opened"), lambda d: None, "stream closed while not open")
    mutate("accept-to-reject", lambda d: d["e"] == "val" and d["v"] == "accept", lambda d: dict(d, v="reject"), "inbound stream opened without the user's acceptance")
    mutate("openfail-when-open", isev("recv"), lambda d: dict(d, k="openfail"), "open failure while the stream is open")
    mutate("recv-after-closed", isev("closed"), lambda d: [d, {"e": "ev", "k": "recv", "p": d["p"]}], "notification received outside an open stream")
    mutate("panic-line", isev("validate"), lambda d: [d, {"e": "panic", "cls": "Proto", "msg": "x"}], "panic")
    # (b) the model finds its tagged design findings when no tag is declared known
    for name, inv, hit in model_negative(ctx):
        log("selftest negative model %-26s -> %s" % (name, ("%s violated OK" % inv) if hit else "FAILED"))
        ok &= hit
    # (c) a fault injected in the harness (Closed events withheld from the log) must be caught
    summ, l2 = nu.run_scripts_env(ctx, scripts, "fault", {"VERIF_FAULT": "drop_closed"}, threads=8)
    _, _, rj = validate_all(ctx, "NotifTrace.tla", "NotifTrace.cfg", l2, tag="f")
    log("selftest harness fault VERIF_FAULT=drop_closed (Closed events withheld) -> %d rejects %s %s"
        % (len(rj), sorted({r.reason for r in rj})[:3], "OK" if rj else "FAILED"))
    ok &= bool(rj)
    log("SELFTEST %s" % ("passed" if ok else "FAILED"))
    return 0 if ok else 2
