"""C19 - Bytes from the network can never panic or over-allocate a decoder
(Decoders.tla, DecodersMC.tla, DecodersTrace.tla; harness bin `decoders`)."""
import json
import os
from vlib import *

ASSUME = [
    "totality over all byte strings is sampled, not decided: the stateful decoders get every sequence of byte classes "
    "up to the stated length (concretised with seeded bytes, three chunkings), the decision tables every abstract class "
    "(seeded concretisations), the protobuf-level decoders systematic damage of valid encodings (truncation at every "
    "offset, length-prefix extremes, wire types, duplicated/dropped fields, splices, flips, noise, amplification); a "
    "coverage-guided fuzzer would explore further",
    "'allocating more than the configured message limit' is measured as the largest single allocation made while the "
    "decoder runs (counting global allocator, armed only while the code under test is polled / called) against the "
    "limit configured for that decoder plus a constant of 64 KiB; inputs of message-level decoders are kept within the "
    "transport limit, as the framing would enforce",
    "a substream codec without a configured maximum (UnsignedVarint(None)) has no limit to exceed; it is still required "
    "not to panic or abort (probed in child processes, the outcome of a multi-GiB allocation depends on the machine)",
    "truncation is systematic, not sampled, for the cheap stateless decoders: for a fixed catalogue of valid multistream "
    "payloads / messages / frames / length prefixes (1- and 2-byte prefixes, one to three messages) every prefix and every "
    "'announced length = available +1 / +2 / + prefix size' variant is run in every tier and for every seed",
    "usability oracle: every value a decoder returns (peer ids, Kademlia peers and messages, multiaddresses, the noise "
    "payload's peer id) is pushed through the library's total conversions its consumers apply without further checks "
    "(to_bytes/from_bytes, base58/Display, Multihash, Protocol::P2p both directions, addresses with the peer id appended, the "
    "real RoutingTable::add_known_peer, re-encoding as a FIND_NODE response) under catch_unwind; a panic or broken round trip "
    "there is the outcome `unusable`",
    "a decoder that makes no progress for 120 s (inputs take milliseconds) is reported as a hang",
    "prost, unsigned-varint, multiaddr, cid, multihash, snow are exercised only through litep2p's entry points",
    "the exact outcome per class (Impl layer) is a drift detector only; the verdict is: value or error, no panic, no "
    "hang, allocation within bounds, library-encoded values decode to themselves",
]

TRACE = ("DecodersTrace.tla", "DecodersTrace.cfg")
MC_LINES = ["SPECIFICATION Spec", "INVARIANTS LdConsistent TablesTotal NegotiationSound DecodedValuesUsable", "CHECK_DEADLOCK FALSE"]
GEN_LINES = ["SPECIFICATION Spec", "ACTION_CONSTRAINT Emit", "CHECK_DEADLOCK FALSE"]
SLACK = 65536
KF_NOMAX = "substream-nomax-attacker-length-panic-or-abort"


def is_reset(ln):
    return '"e":"reset"' in ln


def classify(seg, idx):
    ev = json.loads(seg[idx - 1])
    e = ev.get("e")
    bad = ev.get("out", ev.get("final")) in ("panic", "hang", "abort", "unusable")
    over = "alloc" in ev and "limit" in ev and ev["alloc"] > ev["limit"] + SLACK
    why = ev.get("out", ev.get("final")) if bad else ("over-allocation" if over else "unexplained")
    if e == "nomax":
        return KF_NOMAX if bad else "nomax-unexplained"
    if e == "pb":
        if ev["op"] == "amplify" and over and not bad:
            return "pb-repeated-field-amplification-%s" % ev["dec"]
        return "pb-%s-%s:%s" % (ev["dec"], ev["op"], why)
    if e == "cls" and ev["kind"] == "bsblk":
        c = ev["c"]
        return "bsblk-%s-%s-%s-mhlen_%s:%s" % (c["shape"], c["ver"], c["hash"], c["mhlen"], why)
    if e == "cls":
        c = ev["c"]
        return "%s-%s:%s" % (ev["kind"], "-".join(str(c[k]) for k in sorted(c)), why)
    if e == "ld":
        return "length-delimited-%s:%s" % ("".join(ev["toks"]), why)
    if e == "rt":
        return "roundtrip-%s-%s:%s" % (ev["dec"], ev["v"].get("kind", "-".join("%s%s" % (k, ev["v"][k]) for k in sorted(ev["v"]))),
                                      ev["out"] if ev["out"] != "ok" else "different-value")
    return "unexplained-%s" % e


def validate(ctx, lines, mode, tag, max_rejects=8):
    return validate_segments(ctx, TRACE[0], TRACE[1], lines, mode=mode, tag=tag, max_rejects=max_rejects, is_reset=is_reset)


def partition(lines):
    """(behaviour segments, plan segments, candidates of recorded findings): validated separately so
    that rejections of one group cannot exhaust the reject budget of another."""
    beh, plan, side = [], [], []
    for seg in split_segments(lines, is_reset):
        i = json.loads(seg[0]).get("i")
        (side if i in ("amplify", "nomax") else plan if i in ("plan", "hang") else beh).extend(seg)
    return beh, plan, side


def generate(ctx, maxlen):
    behs, g = tlc_generate(ctx, "DecodersMC.tla", write_cfg(ctx, "gen.cfg", {"MaxLen": maxlen}, GEN_LINES), timeout=1500)
    return behs, g


def harness_args(ctx, behs_path, out):
    q = ctx.quick()
    return ["--behaviours", behs_path, "--per-class", 6 if q else 40, "--pb-rounds", 3 if q else 60, "--pb-extra", 8 if q else 40,
            "--noise-frames", 60 if q else 1500, "--nomax", 1, "--seed", ctx.seed, "--out", out]


def check(ctx):
    maxlen = 4 if ctx.quick() else 5
    r = tlc_mc(ctx, "DecodersMC.tla", write_cfg(ctx, "mc.cfg", {"MaxLen": maxlen + 1}, MC_LINES), workers=4)
    if not r["ok"]:
        raise ToolError("the tables / state machine of Decoders.tla are inconsistent (model error, not a code verdict):\n%s"
                        % r.get("error", r["out"][-2000:]))
    mc = {k: r[k] for k in ("transitions", "distinct", "depth", "wall_s") if k in r}
    log("MC: %s" % mc)
    behs, g = generate(ctx, maxlen)
    log("GEN: %s" % g)
    write_jsonl(ctx.path("behs.jsonl"), behs)
    build_s = cargo_build(ctx, ["decoders"])
    summ, _ = harness(ctx, "decoders", harness_args(ctx, ctx.path("behs.jsonl"), ctx.path("trace.ndjson")), timeout=1700)
    log("HARNESS: %s (build %ss)" % (json.dumps(summ)[:900], build_s))
    lines = read_lines(ctx.path("trace.ndjson"))
    beh, plan, side = partition(lines)
    violations, nseg, nev = [], 0, 0
    for part, tag in ((beh, "b"), (plan, "p"), (side, "s")):
        if not part:
            continue
        s, e, rejects = validate(ctx, part, "prop", tag, max_rejects={"b": 6, "p": 14, "s": 60}[tag])
        nseg, nev = nseg + s, nev + e
        for seg, idx in rejects:
            ev = json.loads(seg[idx - 1])
            violations.append({"sig": classify(seg, idx),
                               "what": "decoder observation not allowed by the Prop layer of Decoders.tla: %s" % seg[idx - 1][:600],
                               "replay_obj": {"property": "C19", "seed": ctx.seed, "event": ev, "tier": ctx.tier}})
    _, _, drift = validate(ctx, beh, "impl", "d", max_rejects=6)
    for seg, idx in drift:
        log("NOTE drift: real decoder deviates from the transcription at %s" % seg[idx - 1][:400])
    by, outs, distinct, worst = {}, {}, set(), {}
    for ln in lines:
        ev = json.loads(ln)
        e = ev["e"]
        if e == "reset":
            continue
        k = "%s:%s" % (e, ev.get("dec", ev.get("kind", "")))
        by[k] = by.get(k, 0) + 1
        o = ev.get("out", ev.get("final"))
        outs[o] = outs.get(o, 0) + 1
        distinct.add(ln if e in ("ld", "cls", "nomax", "rt") else "%s|%s|%s|%s" % (ev["dec"], ev["op"], ev["len"], ev["out"]))
        if "alloc" in ev and "limit" in ev and e != "nomax":
            d = ev.get("dec", ev.get("kind", "ld"))
            if d not in worst or ev["alloc"] - ev["limit"] > worst[d]["alloc"] - worst[d]["limit"]:
                worst[d] = {"alloc": ev["alloc"], "limit": ev["limit"], "op": ev.get("op", "")}
    need = ["ld:", "cls:kadpid", "cls:bsblk", "cls:rps", "cls:sub", "cls:msg", "cls:lis", "cls:dia", "nomax:", "pb:kademlia", "pb:bitswap", "pb:identify",
            "pb:noise_payload", "pb:public_key", "pb:peer_id", "pb:multiaddr", "pb:mss_message", "pb:cid", "pb:bitswap_prefix",
            "pb:mss_listener", "pb:mss_dialer", "pb:length_delimited", "pb:payload_size", "pb:substream",
            "rt:mss_sweep", "rt:kademlia", "rt:bitswap", "rt:identify", "rt:mss_message"]
    missing = [k for k in need if not by.get(k)]
    if missing or "hang_near" in summ:
        if "hang_near" not in summ:
            raise ToolError("C19 harness did not exercise: %s" % missing)
    sample = [json.loads(x) for x in lines[1:3]] + [json.loads(x) for x in lines if '"e":"pb"' in x][:2]
    cov = {
        "states": mc["distinct"],
        "transitions": mc["transitions"],
        "traces_validated_against_impl": nseg,
        "events_validated": nev,
        "samples": sample,
        "evaluations": nev,
        "distinct_nontrivial": len(distinct),
        "rule": "a case is one concrete input handed to one real decoder (LengthDelimited / MessageIO over a chunked reader, "
                "read_payload_size, a real Substream over in-memory yamux, Message::decode, webrtc_listener_negotiate, "
                "WebRtcDialerState::register_response, KademliaMessage::from_bytes, Bitswap::on_message_received, Identify over a "
                "real substream, the noise handshake and its payload parser, RemotePublicKey/PeerId/Multiaddr parsers); distinct = "
                "distinct recorded observations (input class instance and outcome)",
        "byte_class_sequences_up_to": maxlen,
        "observations_by_decoder": by,
        "outcomes": outs,
        "largest_allocation_vs_limit": worst,
        "unrealisable_sub_classes": summ.get("counts", {}).get("unrealisable_sub_classes"),
        "model_runs": [mc],
        "generation": g,
        "harness": {"events": summ.get("events")},
        "impl_divergences": len(drift),
        "exhaustive": False,
    }
    return conclude(ctx, "exploration", cov, violations, ASSUME)


def selftest(ctx):
    ok = True
    behs, _ = generate(ctx, 3)
    write_jsonl(ctx.path("behs.jsonl"), behs)
    cargo_build(ctx, ["decoders"])
    base = ["--behaviours", ctx.path("behs.jsonl"), "--per-class", 2, "--pb-rounds", 1, "--pb-extra", 2, "--noise-frames", 6, "--seed", ctx.seed]
    harness(ctx, "decoders", base + ["--out", ctx.path("good.ndjson")])
    gb, gp, _ = partition(read_lines(ctx.path("good.ndjson")))
    good = gb + gp
    p = ctx.path("good_main.ndjson")
    open(p, "w").write("\n".join(good) + "\n")
    if tlc_trace(ctx, TRACE[0], TRACE[1], p) is not None:
        raise ToolError("selftest baseline trace rejected")

    def corrupt(pred, mut, name):
        for i, ln in enumerate(good):
            ev = json.loads(ln)
            if pred(ev):
                mut(ev)
                q = ctx.path("st.ndjson")
                with open(q, "w") as f:
                    f.write("\n".join(good[:i] + [json.dumps(ev, separators=(",", ":"))] + good[i + 1:]) + "\n")
                r = tlc_trace(ctx, TRACE[0], TRACE[1], q)
                log("selftest %s at line %d -> %s" % (name, i + 1, "rejected at line %s" % r if r else "ACCEPTED"))
                return r == i + 1
        log("selftest %s: no suitable event" % name)
        return False

    ok &= corrupt(lambda e: e["e"] == "ld" and e["final"] == "invalid", lambda e: e.update(final="panic"), "ld-panic")
    ok &= corrupt(lambda e: e["e"] == "cls" and e["kind"] == "sub" and e["c"]["rel"] == "gt",
                  lambda e: e.update(alloc=e["limit"] + SLACK + 1), "substream-over-allocation")
    ok &= corrupt(lambda e: e["e"] == "pb" and e["dec"] == "kademlia" and e["op"] == "truncate", lambda e: e.update(out="panic"), "kademlia-panic")
    ok &= corrupt(lambda e: e["e"] == "pb" and e["dec"] == "identify", lambda e: e.update(out="hang"), "identify-hang")
    ok &= corrupt(lambda e: e["e"] == "rt" and e["dec"] == "kademlia", lambda e: e.update(same=False), "roundtrip-differs")
    ok &= corrupt(lambda e: e["e"] == "rt" and e["dec"] == "bitswap", lambda e: e.update(out="err"), "roundtrip-undecodable")
    # impl mode binds the exact outcome
    for i, ln in enumerate(good):
        ev = json.loads(ln)
        if ev["e"] == "cls" and ev["kind"] == "lis" and ev["out"] == "accepted":
            ev["out"] = "rejected"
            q = ctx.path("st.ndjson")
            open(q, "w").write("\n".join(good[:i] + [json.dumps(ev, separators=(",", ":"))] + good[i + 1:]) + "\n")
            r = tlc_trace(ctx, TRACE[0], TRACE[1], q, mode="impl")
            log("selftest impl-mode accepted->rejected at line %d -> %s" % (i + 1, "rejected at line %s" % r if r else "ACCEPTED"))
            ok &= r == i + 1
            break
    for fault in ("ld-panic", "sub-overalloc", "rt-break", "unusable", "bsblk-panic"):
        harness(ctx, "decoders", base + ["--out", ctx.path("f.ndjson")], env={"VERIF_FAULT": fault})
        fb, fp, _ = partition(read_lines(ctx.path("f.ndjson")))
        fl = fb + fp
        open(ctx.path("f_main.ndjson"), "w").write("\n".join(fl) + "\n")
        r = tlc_trace(ctx, TRACE[0], TRACE[1], ctx.path("f_main.ndjson"))
        log("selftest fault %s -> %s" % (fault, "rejected at line %s" % r if r else "ACCEPTED"))
        ok &= r is not None
    # negative models: one guard of a transcription changed must break a model invariant
    src = open(os.path.join(SPEC, "Decoders.tla")).read()
    muts = [("third length byte accepted", 'IF t \\in LdCont THEN [s EXCEPT !.st = "maxlen"]', 'IF t \\in LdCont THEN [s EXCEPT !.st = "data", !.rem = MaxFrame + 1, !.cur = <<>>]'),
            ("listener accepts after undecodable second message", 'ELSE IF ~Decodable(c.second) THEN "error"\n         ELSE IF ~IsProto(c.second) THEN "error"', 'ELSE IF ~Decodable(c.second) THEN "accepted"\n         ELSE IF ~IsProto(c.second) THEN "error"')]
    muts.append(("parser accepts any inline digest length",
                 'ImplAcceptsPeerId(c) == c.dlen <= 64 /\\ (c.code = "sha2_256" \\/ (c.code = "identity" /\\ c.dlen <= MaxInlineKey))',
                 'ImplAcceptsPeerId(c) == c.dlen <= 64 /\\ (c.code = "sha2_256" \\/ c.code = "identity")'))
    for name, a, b in muts:
        m = src.replace(a, b)
        if m == src:
            raise ToolError("selftest mutation %r does not apply" % name)
        d = ctx.path("mut")
        os.makedirs(d, exist_ok=True)
        open(os.path.join(d, "Decoders.tla"), "w").write(m)
        open(os.path.join(d, "DecodersMC.tla"), "w").write(open(os.path.join(SPEC, "DecodersMC.tla")).read())
        r = tlc_mc(ctx, os.path.join(d, "DecodersMC.tla"), write_cfg(ctx, "neg.cfg", {"MaxLen": 4}, MC_LINES), workers=2, expect_violation=True)
        bad = "is violated" in r["out"]
        log("selftest mutated model (%s) -> %s" % (name, "violated (as it must)" if bad else "NOT violated"))
        ok &= bad
    log("SELFTEST %s" % ("ok" if ok else "FAILED"))
    return 0 if ok else 2


def replay(ctx, path):
    """Re-run the tier of the replay file with its seed and report whether the recorded signature recurs."""
    obj = json.load(open(path))
    ev = obj["event"]
    behs, _ = generate(ctx, 4 if obj.get("tier", "quick") == "quick" else 5)
    write_jsonl(ctx.path("behs.jsonl"), behs)
    cargo_build(ctx, ["decoders"])
    ctx.seed = obj.get("seed", ctx.seed)
    ctx.tier = obj.get("tier", "quick")
    harness(ctx, "decoders", harness_args(ctx, ctx.path("behs.jsonl"), ctx.path("r.ndjson")), timeout=1700)
    lines = read_lines(ctx.path("r.ndjson"))
    want = classify([json.dumps(ev)], 1)
    hits = 0
    for part, tag in zip(partition(lines), ("b", "p", "s")):
        if not part:
            continue
        _, _, rej = validate(ctx, part, "prop", "r" + tag, max_rejects=60)
        for seg, idx in rej:
            sig = classify(seg, idx)
            if sig == want:
                hits += 1
                log("replay: rejected again [%s] %s" % (sig, seg[idx - 1][:500]))
    if not hits:
        log("replay: signature %s not reproduced (%d events)" % (want, len(lines)))
    return 1 if hits else 0
