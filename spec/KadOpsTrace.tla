---------------------------- MODULE KadOpsTrace ----------------------------
(* Trace validation of executions of real litep2p nodes (harness bin        *)
(* `kadops`) against the property monitor of KadOps.tla.  One NDJSON line   *)
(* per observation:                                                         *)
(*   {"e":"reset","id":..,"name":..}            a new, independent network  *)
(*   {"e":"cmd","q":..,"kind":..,"quorum":"one"|"n"|"all","n":..,"T":..}    *)
(*   {"e":"recv","q":..,"at":node}  {"e":"maybe","q":..,"at":node}          *)
(*   {"e":"term","q":..,"ok":bool,"v":variant}                              *)
(*   {"e":"quiesce"}               the deadline of every operation passed   *)
(* A broken rule is printed as <<"BAD", line, rule>>, forgiven, and the     *)
(* validation continues (so one run reports every offending execution).     *)
EXTENDS KadOps, Json, IOUtils

Rec == ndJsonDeserialize(IOEnv.TRACE)

VARIABLES l, mon
tvars == <<l, mon>>

TInit == l = 1 /\ mon = MonInit

Report(line, m) == IF m.bad = "" THEN TRUE ELSE PrintT(<<"BAD", line, m.bad>>)

\* at quiescence every offending operation is reported (and retired) in turn
RECURSIVE Drain(_, _)
Drain(M, line) ==
  LET m == MonQuiesce(M) IN
  IF m.bad = "" THEN M
  ELSE IF Report(line, m) THEN Drain(Forgive(m), line) ELSE M

Step(M, r, line) ==
  CASE r.e = "reset" -> MonInit
    [] r.e = "cmd" -> MonCmd(M, r.q, r.kind, r.quorum, r.n, r.T)
    [] r.e = "recv" -> MonSent(M, r.q, r.at)
    [] r.e = "maybe" -> MonMaybe(M, r.q, r.at)
    [] r.e = "term" -> MonTerm(M, r.q, r.ok)
    [] r.e = "quiesce" -> Drain(M, line)

TNext ==
  /\ l <= Len(Rec)
  /\ l' = l + 1
  /\ Rec[l].e \in {"reset", "cmd", "recv", "maybe", "term", "quiesce"}
  /\ LET m == Step(mon, Rec[l], l) IN
       /\ Report(l, m)
       /\ mon' = Forgive(m)

TSpec == TInit /\ [][TNext]_tvars

Accepted ==
  LET d == TLCGet("stats").diameter IN
  IF d - 1 = Len(Rec) THEN PrintT(<<"TRACE_OK", Len(Rec)>>)
  ELSE PrintT(<<"TRACE_REJECTED_AT", d>>) /\ FALSE
=============================================================================
