------------------------------ MODULE ConnMgrMC ------------------------------
(***************************************************************************)
(* Implementation-shaped model of TransportManager (one action per         *)
(* handler, transcribed from src/transport/manager/mod.rs and              *)
(* peer_state.rs) composed with a *legal transport* environment and the    *)
(* property monitor of ConnMgr.tla.  TLC explores every interleaving of    *)
(* dial requests, transport outcomes, inbound connections, accept results  *)
(* and closures for a few peers / connection ids.                          *)
(***************************************************************************)
EXTENDS ConnMgr, SequencesExt, FiniteSetsExt, Json

CONSTANTS Peers,        \* e.g. {"p1","p2"}
          AddrsOf,      \* function peer -> set of address names
          Limits,       \* set of <<maxIn, maxOut>> pairs to explore (NoLimit or a number)
          MaxCid,       \* number of connection ids that may be allocated
          WsAddrs,      \* address names that belong to the second (WebSocket) transport; {} = TCP only
          Fixed         \* set of known-finding tags modelled as repaired

VARIABLES ps,     \* peer -> [k, pri, sec, dial]
          pend,   \* pending_connections (set of cids)
          tx,     \* cid -> transport-side status
          cpeer,  \* cid -> peer
          cdir,   \* cid -> "in" | "out"
          caddrs, \* cid -> sequence of addresses handed to the transport(s)
          otr,    \* cid -> transports on which an open() is still outstanding (PeerState::Opening.transports)
          ctr,    \* cid -> transport that carries the connection ("?" while only opening)
          limIn, limOut,
          next,   \* next connection id
          known,  \* peer -> set of known addresses
          mon,    \* property monitor (ConnMgr!Mon*)
          kf,     \* tags of known defects whose path was taken
          hist,   \* stimuli so far (behaviour for replay)
          MaxIn, MaxOut, \* configured limits (fixed in Init)
          out     \* what the last handler did: [calls, events, ret]

vars == <<ps, pend, tx, cpeer, cdir, caddrs, otr, ctr, limIn, limOut, next, known, mon, kf, hist, MaxIn, MaxOut, out>>
mvars == <<ps, pend, tx, cpeer, cdir, caddrs, otr, ctr, limIn, limOut, next, known>>

None == -1
NoLim == -1
AddrsDef == [p \in Peers |-> IF p = "p1" THEN {"p1a", "p1b"} ELSE IF p = "p2" THEN {"p2a", "p2b"} ELSE {"p3a"}]
AddrsOne == [p \in Peers |-> IF p = "p1" THEN {"p1a"} ELSE IF p = "p2" THEN {"p2a"} ELSE {"p3a"}]
\* two transports: p1 is reachable over both, p2 over TCP only
AddrsTwoTr == [p \in Peers |-> IF p = "p1" THEN {"p1a", "p1w"} ELSE IF p = "p2" THEN {"p2a"} ELSE {"p3a"}]
AddrsTwoTr2 == [p \in Peers |-> IF p = "p1" THEN {"p1a", "p1b", "p1w"} ELSE IF p = "p2" THEN {"p2w"} ELSE {"p3a"}]
NoWs == {}
WsDef == {"p1w", "p2w", "p3w", "p1x", "p2x", "p3x"}
TrOf(a) == IF a \in WsAddrs THEN "w" ELSE "t"
Trs == IF WsAddrs = {} THEN {"t"} ELSE {"t", "w"}
\* the addresses of sequence `addrs` that belong to transport tr, in order
OfTr(addrs, tr) == SelectSeq(addrs, LAMBDA a : TrOf(a) = tr)
\* one call record per transport in `trs` (TCP first)
PerTr(trs, F(_)) == (IF "t" \in trs THEN <<F("t")>> ELSE <<>>) \o (IF "w" \in trs THEN <<F("w")>> ELSE <<>>)
NoFixed == {}
FixedNow == {"hdial-refused-silently", "hdial-addr-refused-silently"}
LimNone == {<<NoLim, NoLim>>}
LimSmall == {<<1, 1>>, <<0, 1>>, <<1, 0>>}
LimMixed == {<<NoLim, NoLim>>, <<1, 1>>, <<2, 1>>, <<0, NoLim>>}
LimTwo == {<<2, 2>>, <<1, 2>>}
LimLeak == {<<2, 1>>}
\* room for a third inbound connection of one peer while the outgoing limit is 1
LimIn3 == {<<NoLim, 1>>, <<3, 1>>}
\* only one direction limited (the code tracks a direction only when it is limited)
LimAsym == {<<NoLim, 1>>, <<1, NoLim>>, <<NoLim, 2>>, <<2, NoLim>>}
Disc == [k |-> "disc", pri |-> None, sec |-> None, dial |-> None]

Init ==
  /\ ps = [p \in Peers |-> Disc]
  /\ pend = {} /\ tx = <<>> /\ cpeer = <<>> /\ cdir = <<>> /\ caddrs = <<>> /\ otr = <<>> /\ ctr = <<>>
  /\ limIn = {} /\ limOut = {} /\ next = 0
  /\ known = [p \in Peers |-> {}]
  /\ \E lim \in Limits : MaxIn = lim[1] /\ MaxOut = lim[2] /\ mon = MonInit(lim[1], lim[2])
  /\ kf = {}
  /\ hist = <<>>
  /\ out = [calls |-> <<>>, events |-> <<>>, ret |-> "none"]

Full(s, max) == max # NoLimit /\ Cardinality(s) >= max
InProgress(p) == ps[p].k \in {"dialing", "opening"} \/ (ps[p].k = "disc" /\ ps[p].dial # None)

\* feed the monitor with everything observable in one handler
Handle(stim, calls, events, ret) ==
  /\ mon' = MonEnd(FoldLeft(MonEvent, FoldLeft(MonCall, MonStim(mon, stim), calls), events), ret, FALSE)
  /\ hist' = Append(hist, stim)
  /\ out' = [calls |-> calls, events |-> events, ret |-> ret]
  /\ UNCHANGED <<MaxIn, MaxOut>>

NewConn(c, p, dir, addrs, st, opening, carrier) ==
  /\ tx' = (c :> st) @@ tx
  /\ cpeer' = (c :> p) @@ cpeer
  /\ cdir' = (c :> dir) @@ cdir
  /\ caddrs' = (c :> addrs) @@ caddrs
  /\ otr' = (c :> opening) @@ otr
  /\ ctr' = (c :> carrier) @@ ctr

\* cancel(c) on every transport that still has an open() outstanding for c
CancelCalls(c) == PerTr(otr[c], LAMBDA tr : [c |-> "cancel", cid |-> c, tr |-> tr])

-----------------------------------------------------------------------------
(* PeerState transitions (peer_state.rs)                                    *)

\* on_dial_failure
OnDialFailure(s, c) ==
  IF s.k = "dialing" /\ s.dial = c THEN Disc
  ELSE IF s.k = "conn" /\ s.dial = c THEN [s EXCEPT !.dial = None]
  ELSE IF s.k = "disc" /\ s.dial = c THEN Disc
  ELSE s

\* on_connection_established: [acc, st, cancel]
OnEst(s, c) ==
  IF s.k = "conn" /\ s.dial = c THEN [acc |-> TRUE, st |-> [s EXCEPT !.sec = c, !.dial = None], cancel |-> None]
  ELSE IF s.k = "conn" /\ s.sec = None /\ s.dial = None THEN [acc |-> TRUE, st |-> [s EXCEPT !.sec = c], cancel |-> None]
  ELSE IF s.k = "conn" THEN [acc |-> FALSE, st |-> s, cancel |-> None]
  ELSE IF s.k = "dialing" \/ (s.k = "disc" /\ s.dial # None) THEN
       IF s.dial = c THEN [acc |-> TRUE, st |-> [k |-> "conn", pri |-> c, sec |-> None, dial |-> None], cancel |-> None]
       ELSE [acc |-> TRUE, st |-> [k |-> "conn", pri |-> c, sec |-> None, dial |-> s.dial], cancel |-> None]
  ELSE IF s.k = "disc" THEN [acc |-> TRUE, st |-> [k |-> "conn", pri |-> c, sec |-> None, dial |-> None], cancel |-> None]
  ELSE \* opening: accept, cancel the open attempt
       [acc |-> TRUE, st |-> [k |-> "conn", pri |-> c, sec |-> None, dial |-> None], cancel |-> s.dial]

\* on_connection_closed: [ev, st]
OnClosed(s, c) ==
  IF s.k # "conn" THEN [ev |-> FALSE, st |-> s]
  ELSE IF s.pri = c THEN
       IF s.sec # None THEN [ev |-> FALSE, st |-> [s EXCEPT !.pri = s.sec, !.sec = None]]
       ELSE IF s.dial # None THEN [ev |-> TRUE, st |-> [Disc EXCEPT !.dial = s.dial]]
       ELSE [ev |-> TRUE, st |-> Disc]
  ELSE IF s.sec = c THEN [ev |-> FALSE, st |-> [s EXCEPT !.sec = None]]
  ELSE [ev |-> FALSE, st |-> s]

-----------------------------------------------------------------------------
(* API: TransportManager::dial / dial_address / add_known_address           *)

\* body of TransportManager::dial; `who` is the stimulus kind ("dial" or "hdial")
DialBody(p, stim, swallow) ==
  IF Full(limOut, MaxOut) THEN
       /\ UNCHANGED <<mvars>>
       /\ kf' = IF swallow /\ "hdial-refused-silently" \notin Fixed THEN kf \cup {"hdial-refused-silently"} ELSE kf
       \* the refusal of a protocol-initiated dial is reported to the protocols as a dial failure
       /\ Handle(stim, <<>>,
                 IF swallow /\ "hdial-refused-silently" \in Fixed
                   THEN <<[k |-> "proto_dial_failure", peer |-> p, cid |-> -1, addrs |-> <<>>]>> ELSE <<>>,
                 IF swallow THEN "ok" ELSE "limit")
  ELSE IF ps[p].k = "conn" THEN
       /\ UNCHANGED <<mvars, kf>> /\ Handle(stim, <<>>, <<>>, IF swallow THEN "ok" ELSE "err")
  ELSE IF InProgress(p) THEN
       /\ UNCHANGED <<mvars, kf>> /\ Handle(stim, <<>>, <<>>, "ok")
  ELSE IF known[p] = {} THEN
       /\ UNCHANGED <<mvars, kf>> /\ Handle(stim, <<>>, <<>>, "err")
  ELSE /\ next < MaxCid
       /\ \E n \in 1..Cardinality(known[p]) :
            /\ (MaxOut = NoLimit => n = Cardinality(known[p]))
            /\ (MaxOut # NoLimit => n = Min({Cardinality(known[p]), MaxOut - Cardinality(limOut)}))
            /\ \E sub \in kSubset(n, known[p]) :
                 LET addrs == SetToSeq(sub) c == next trs == {TrOf(a) : a \in sub} IN
                 /\ ps' = [ps EXCEPT ![p] = [k |-> "opening", pri |-> None, sec |-> None, dial |-> c]]
                 /\ NewConn(c, p, "out", addrs, "opening", trs, "?")
                 /\ pend' = pend \cup {c}
                 /\ next' = next + 1
                 /\ UNCHANGED <<limIn, limOut, known, kf>>
                 \* one open() per transport, each with its own addresses and the same connection id
                 /\ Handle(stim, PerTr(trs, LAMBDA tr : [c |-> "open", cid |-> c, addrs |-> OfTr(addrs, tr), tr |-> tr]), <<>>, "ok")

UDial(p) == DialBody(p, [a |-> "dial", p |-> p], FALSE)

\* TransportService::dial -> TransportManagerHandle::dial -> command -> TransportManager::dial
HDial(p) ==
  LET stim == [a |-> "hdial", p |-> p] IN
  IF ps[p].k = "conn" THEN UNCHANGED <<mvars, kf>> /\ Handle(stim, <<>>, <<>>, "err")
  ELSE IF InProgress(p) THEN UNCHANGED <<mvars, kf>> /\ Handle(stim, <<>>, <<>>, "ok")
  ELSE IF known[p] = {} THEN UNCHANGED <<mvars, kf>> /\ Handle(stim, <<>>, <<>>, "err")
  ELSE DialBody(p, stim, TRUE)

\* body of TransportManager::dial_address; `swallow` = reached through the handle's DialAddress
\* command (TransportService::dial_address returned Ok, errors are not returned to anybody)
DialAddrBody(p, a, stim, swallow) ==
  IF Full(limOut, MaxOut) THEN
       /\ UNCHANGED <<mvars>>
       /\ kf' = IF swallow /\ "hdial-addr-refused-silently" \notin Fixed THEN kf \cup {"hdial-addr-refused-silently"} ELSE kf
       /\ Handle(stim, <<>>,
                 IF swallow /\ "hdial-addr-refused-silently" \in Fixed
                   THEN <<[k |-> "proto_dial_failure", peer |-> p, cid |-> -1, addrs |-> <<a>>]>> ELSE <<>>,
                 IF swallow THEN "ok" ELSE "limit")
  ELSE /\ next < MaxCid
       /\ next' = next + 1            \* the connection id is allocated before the state check
       /\ known' = [known EXCEPT ![p] = @ \cup {a}]
       /\ UNCHANGED <<limIn, limOut, kf>>
       /\ IF ps[p].k = "conn" THEN
               UNCHANGED <<ps, pend, tx, cpeer, cdir, caddrs, otr, ctr>> /\ Handle(stim, <<>>, <<>>, IF swallow THEN "ok" ELSE "err")
          ELSE IF InProgress(p) THEN
               UNCHANGED <<ps, pend, tx, cpeer, cdir, caddrs, otr, ctr>> /\ Handle(stim, <<>>, <<>>, "ok")
          ELSE LET c == next IN
               /\ ps' = [ps EXCEPT ![p] = [k |-> "dialing", pri |-> None, sec |-> None, dial |-> c]]
               /\ NewConn(c, p, "out", <<a>>, "dialing", {}, TrOf(a))
               /\ pend' = pend \cup {c}
               /\ Handle(stim, <<[c |-> "dial", cid |-> c, addrs |-> <<a>>, tr |-> TrOf(a)]>>, <<>>, "ok")

UDialAddr(p, a) == DialAddrBody(p, a, [a |-> "dial_addr", p |-> p, addr |-> a], FALSE)
\* TransportService::dial_address -> handle (only checks that a /p2p component exists) -> command
HDialAddr(p, a) == DialAddrBody(p, a, [a |-> "hdial_addr", p |-> p, addr |-> a], TRUE)

AddKnown(p, a) ==
  /\ known' = [known EXCEPT ![p] = @ \cup {a}]
  /\ UNCHANGED <<ps, pend, tx, cpeer, cdir, caddrs, otr, ctr, limIn, limOut, next, kf>>
  /\ Handle([a |-> "add_known", p |-> p, addr |-> a], <<>>, <<>>, "none")

-----------------------------------------------------------------------------
(* Transport events handled in TransportManager::next()                     *)

TDialFail(c) ==
  /\ c \in DOMAIN tx /\ tx[c] = "dialing"
  /\ LET p == cpeer[c] stim == [a |-> "dial_fail", c |-> c, p |-> p] IN
     /\ tx' = [tx EXCEPT ![c] = "failed"]
     /\ UNCHANGED <<cpeer, cdir, caddrs, otr, ctr, limIn, limOut, next, known, kf>>
     /\ IF c \in pend THEN
             /\ pend' = pend \ {c}
             /\ ps' = [ps EXCEPT ![p] = OnDialFailure(@, c)]
             /\ Handle(stim, <<>>, <<[k |-> "dial_failure", cid |-> c, addrs |-> caddrs[c]],
                                      [k |-> "proto_dial_failure", peer |-> p, cid |-> -1, addrs |-> caddrs[c]]>>, "none")
        ELSE UNCHANGED <<pend, ps>> /\ Handle(stim, <<>>, <<>>, "none")

\* ConnectionEstablished for connection c with peer p
EstBody(c, p, dir, stim) ==
  LET pend1 == pend \ {c} IN
  IF (dir = "in" /\ Full(limIn, MaxIn)) \/ (dir = "out" /\ Full(limOut, MaxOut)) THEN
       \* can_accept_connection failed -> Reject. For an outbound connection this concludes the dial:
       \* the dial record is cleared (on_dial_failure) and, unless the peer is connected anyway,
       \* the protocols are told DialFailure; the application still gets no report (known finding).
       LET own == dir = "out" /\ ps[p].dial = c
           st2 == IF dir = "out" THEN OnDialFailure(ps[p], c) ELSE ps[p] IN
       /\ pend' = pend1
       /\ tx' = [tx EXCEPT ![c] = "rejected"]
       /\ kf' = IF own THEN kf \cup {"outbound-established-rejected-by-limit"} ELSE kf
       /\ ps' = [ps EXCEPT ![p] = st2]
       /\ UNCHANGED <<cpeer, cdir, caddrs, otr, ctr, limIn, limOut, next, known>>
       /\ Handle(stim, <<[c |-> "reject", cid |-> c]>>,
                 IF dir = "out" /\ st2.k # "conn"
                   THEN <<[k |-> "proto_dial_failure", peer |-> p, cid |-> -1, addrs |-> caddrs[c]]>> ELSE <<>>, "none")
  ELSE LET r == OnEst(ps[p], c) IN
       IF r.acc THEN
            /\ ps' = [ps EXCEPT ![p] = r.st]
            /\ limIn' = IF dir = "in" THEN limIn \cup {c} ELSE limIn
            /\ limOut' = IF dir = "out" THEN limOut \cup {c} ELSE limOut
            /\ pend' = IF r.cancel # None THEN pend1 \ {r.cancel} ELSE pend1
            /\ tx' = IF r.cancel # None THEN [tx EXCEPT ![c] = "accepting", ![r.cancel] = "cancelled"]
                                        ELSE [tx EXCEPT ![c] = "accepting"]
            /\ otr' = IF r.cancel # None THEN [otr EXCEPT ![r.cancel] = {}] ELSE otr
            /\ UNCHANGED <<cpeer, cdir, caddrs, ctr, next, known, kf>>
            /\ Handle(stim, IF r.cancel # None THEN CancelCalls(r.cancel) \o <<[c |-> "accept", cid |-> c, ok |-> TRUE]>>
                                               ELSE <<[c |-> "accept", cid |-> c, ok |-> TRUE]>>, <<>>, "none")
       ELSE /\ pend' = pend1
            /\ tx' = [tx EXCEPT ![c] = "rejected"]
            /\ UNCHANGED <<ps, cpeer, cdir, caddrs, otr, ctr, limIn, limOut, next, known, kf>>
            /\ Handle(stim, <<[c |-> "reject", cid |-> c]>>, <<>>, "none")

TEstablished(c) ==
  /\ c \in DOMAIN tx /\ tx[c] \in {"dialing", "negotiating"}
  /\ EstBody(c, cpeer[c], "out", [a |-> "established", c |-> c, p |-> cpeer[c], dir |-> "out", mismatch |-> FALSE])

TInEst(c, p) ==
  /\ c \in DOMAIN tx /\ tx[c] = "in_neg"
  /\ cpeer' = [cpeer EXCEPT ![c] = p]
  /\ LET stim == [a |-> "in_est", c |-> c, p |-> p, dir |-> "in", mismatch |-> FALSE] pend1 == pend \ {c} IN
     \* same body, but cpeer changes
     IF Full(limIn, MaxIn) THEN
          /\ pend' = pend1 /\ tx' = [tx EXCEPT ![c] = "rejected"]
          /\ UNCHANGED <<ps, cdir, caddrs, otr, ctr, limIn, limOut, next, known, kf>>
          /\ Handle(stim, <<[c |-> "reject", cid |-> c]>>, <<>>, "none")
     ELSE LET r == OnEst(ps[p], c) IN
          IF r.acc THEN
               /\ ps' = [ps EXCEPT ![p] = r.st]
               /\ limIn' = limIn \cup {c}
               /\ pend' = IF r.cancel # None THEN pend1 \ {r.cancel} ELSE pend1
               /\ tx' = IF r.cancel # None THEN [tx EXCEPT ![c] = "accepting", ![r.cancel] = "cancelled"]
                                           ELSE [tx EXCEPT ![c] = "accepting"]
               /\ otr' = IF r.cancel # None THEN [otr EXCEPT ![r.cancel] = {}] ELSE otr
               /\ UNCHANGED <<cdir, caddrs, ctr, limOut, next, known, kf>>
               /\ Handle(stim, IF r.cancel # None THEN CancelCalls(r.cancel) \o <<[c |-> "accept", cid |-> c, ok |-> TRUE]>>
                                                  ELSE <<[c |-> "accept", cid |-> c, ok |-> TRUE]>>, <<>>, "none")
          ELSE /\ pend' = pend1 /\ tx' = [tx EXCEPT ![c] = "rejected"]
               /\ UNCHANGED <<ps, cdir, caddrs, otr, ctr, limIn, limOut, next, known, kf>>
               /\ Handle(stim, <<[c |-> "reject", cid |-> c]>>, <<>>, "none")

\* ConnectionEstablished whose accept() call fails synchronously (the transport lost the connection
\* before the manager decided): the manager rolls back with on_connection_closed, nothing is reported
EstLostBody(c, p, dir, stim) ==
  LET pend1 == pend \ {c} IN
  IF (dir = "in" /\ Full(limIn, MaxIn)) \/ (dir = "out" /\ Full(limOut, MaxOut)) THEN EstBody(c, p, dir, stim)  \* rejected before accept() is called
  ELSE LET r == OnEst(ps[p], c) IN
       IF ~r.acc THEN EstBody(c, p, dir, stim) ELSE
       /\ ps' = [ps EXCEPT ![p] = OnClosed(r.st, c).st]
       /\ pend' = IF r.cancel # None THEN pend1 \ {r.cancel} ELSE pend1
       /\ tx' = IF r.cancel # None THEN [tx EXCEPT ![c] = "closed", ![r.cancel] = "cancelled"]
                                   ELSE [tx EXCEPT ![c] = "closed"]
       /\ kf' = IF (c \in DOMAIN mon.att /\ mon.att[c].st = "open") \/ r.cancel # None
                  THEN kf \cup {"accept-rolled-back-silently"} ELSE kf
       /\ otr' = IF r.cancel # None THEN [otr EXCEPT ![r.cancel] = {}] ELSE otr
       /\ UNCHANGED <<cpeer, cdir, caddrs, ctr, limIn, limOut, next, known>>
       /\ Handle(stim, IF r.cancel # None THEN CancelCalls(r.cancel) \o <<[c |-> "accept", cid |-> c, ok |-> FALSE]>>
                                          ELSE <<[c |-> "accept", cid |-> c, ok |-> FALSE]>>, <<>>, "none")

TEstablishedLost(c) ==
  /\ c \in DOMAIN tx /\ tx[c] \in {"dialing", "negotiating"}
  /\ EstLostBody(c, cpeer[c], "out", [a |-> "established", c |-> c, p |-> cpeer[c], dir |-> "out", mismatch |-> FALSE, lost |-> TRUE])

TAcceptOk(c) ==
  /\ c \in DOMAIN tx /\ tx[c] = "accepting"
  /\ tx' = [tx EXCEPT ![c] = "live"]
  /\ UNCHANGED <<ps, pend, cpeer, cdir, caddrs, otr, ctr, limIn, limOut, next, known, kf>>
  /\ Handle([a |-> "accept_ok", c |-> c, p |-> cpeer[c]], <<>>,
            <<[k |-> "est", peer |-> cpeer[c], cid |-> c, dir |-> cdir[c]]>>, "none")

\* the accept future failed: roll back with on_connection_closed, nothing is reported
TAcceptErr(c) ==
  /\ c \in DOMAIN tx /\ tx[c] = "accepting"
  /\ LET p == cpeer[c] r == OnClosed(ps[p], c) IN
     /\ tx' = [tx EXCEPT ![c] = "closed"]
     /\ ps' = [ps EXCEPT ![p] = r.st]
     /\ limIn' = limIn \ {c} /\ limOut' = limOut \ {c}
     /\ kf' = IF (\E o \in DOMAIN mon.att : (mon.att[o].st = "cancelled" /\ mon.att[o].by = c))
                   \/ (c \in DOMAIN mon.att /\ mon.att[c].st = "open")
                THEN kf \cup {"accept-rolled-back-silently"} ELSE kf
     /\ UNCHANGED <<pend, cpeer, cdir, caddrs, otr, ctr, next, known>>
     /\ Handle([a |-> "accept_err", c |-> c, p |-> p], <<>>, <<>>, "none")

TOpened(c, a) ==
  /\ c \in DOMAIN tx /\ tx[c] = "opening" /\ c \in pend
  /\ a \in ToSet(caddrs[c]) /\ TrOf(a) \in otr[c]
  /\ LET p == cpeer[c] IN
     /\ ps[p].k = "opening"
     /\ ps' = [ps EXCEPT ![p] = [k |-> "dialing", pri |-> None, sec |-> None, dial |-> c]]
     /\ known' = [known EXCEPT ![p] = @ \cup {a}]
     /\ tx' = [tx EXCEPT ![c] = "negotiating"]
     /\ otr' = [otr EXCEPT ![c] = {}]
     /\ ctr' = [ctr EXCEPT ![c] = TrOf(a)]
     /\ UNCHANGED <<pend, cpeer, cdir, caddrs, limIn, limOut, next, kf>>
     \* the open attempts of every transport still opening (the successful one included) are cancelled
     /\ Handle([a |-> "opened", c |-> c, p |-> p, addr |-> a],
               CancelCalls(c) \o <<[c |-> "negotiate", cid |-> c, tr |-> TrOf(a)]>>, <<>>, "none")

\* open() failed on transport tr: only the failure of the last transport concludes the attempt, and
\* its report carries the errors of all transports (TransportManager::opening_errors)
TOpenFail(c, tr) ==
  /\ c \in DOMAIN tx /\ tx[c] = "opening" /\ c \in pend /\ tr \in otr[c]
  /\ LET p == cpeer[c] IN
     /\ ps[p].k = "opening"
     /\ otr' = [otr EXCEPT ![c] = @ \ {tr}]
     /\ UNCHANGED <<cpeer, cdir, caddrs, ctr, limIn, limOut, next, known, kf>>
     /\ IF otr[c] = {tr} THEN
             /\ ps' = [ps EXCEPT ![p] = Disc]
             /\ pend' = pend \ {c}
             /\ tx' = [tx EXCEPT ![c] = "failed"]
             /\ Handle([a |-> "open_fail", c |-> c, p |-> p, tr |-> tr], <<>>,
                       <<[k |-> "open_failure", cid |-> c, addrs |-> caddrs[c]],
                         [k |-> "proto_dial_failure", peer |-> p, cid |-> -1, addrs |-> OfTr(caddrs[c], tr)]>>, "none")
        ELSE /\ UNCHANGED <<ps, pend, tx>>
             /\ Handle([a |-> "open_fail", c |-> c, p |-> p, tr |-> tr], <<>>, <<>>, "none")

TInbound(tr) ==
  /\ next < MaxCid
  /\ LET c == next stim == [a |-> "inbound", c |-> c, tr |-> tr] IN
     /\ next' = next + 1
     /\ UNCHANGED <<ps, pend, limIn, limOut, known, kf>>
     /\ IF Full(limIn, MaxIn)
          THEN NewConn(c, "?", "in", <<>>, "rejected", {}, tr) /\ Handle(stim, <<[c |-> "reject_pending", cid |-> c]>>, <<>>, "none")
          ELSE NewConn(c, "?", "in", <<>>, "in_neg", {}, tr) /\ Handle(stim, <<[c |-> "accept_pending", cid |-> c]>>, <<>>, "none")

\* an accepted pending inbound socket fails its negotiation: the transport drops it silently
TInDrop(c) ==
  /\ c \in DOMAIN tx /\ tx[c] = "in_neg"
  /\ tx' = [tx EXCEPT ![c] = "failed"]
  /\ UNCHANGED <<ps, pend, cpeer, cdir, caddrs, otr, ctr, limIn, limOut, next, known, kf>>
  /\ Handle([a |-> "in_drop", c |-> c], <<>>, <<>>, "none")

\* a connection task reports closure of a live connection
ConnClosed(c) ==
  /\ c \in DOMAIN tx /\ tx[c] = "live"
  /\ LET p == cpeer[c] r == OnClosed(ps[p], c) IN
     /\ tx' = [tx EXCEPT ![c] = "closed"]
     /\ ps' = [ps EXCEPT ![p] = r.st]
     /\ limIn' = limIn \ {c} /\ limOut' = limOut \ {c}
     /\ UNCHANGED <<pend, cpeer, cdir, caddrs, otr, ctr, next, known, kf>>
     /\ Handle([a |-> "closed", c |-> c, p |-> p], <<>>,
               IF r.ev THEN <<[k |-> "closed", peer |-> p, cid |-> c]>> ELSE <<>>, "none")

Next ==
  \/ \E p \in Peers : UDial(p) \/ HDial(p)
  \/ \E p \in Peers : \E a \in AddrsOf[p] : UDialAddr(p, a) \/ HDialAddr(p, a) \/ (a \notin known[p] /\ AddKnown(p, a))
  \/ \E c \in DOMAIN tx : TDialFail(c) \/ TEstablished(c) \/ TEstablishedLost(c) \/ TAcceptOk(c) \/ TAcceptErr(c)
                          \/ (\E tr \in Trs : TOpenFail(c, tr)) \/ ConnClosed(c) \/ TInDrop(c)
                          \/ (\E p \in Peers : TInEst(c, p))
                          \/ (\E a \in ToSet(caddrs[c]) : TOpened(c, a))
  \/ \E tr \in Trs : TInbound(tr)

Spec == Init /\ [][Next]_vars

-----------------------------------------------------------------------------
(* Properties                                                               *)

Outstanding == {c \in DOMAIN tx : tx[c] \in {"dialing", "opening", "negotiating", "accepting", "in_neg"}}
Quiescent == Outstanding = {}
Live(p) == {c \in DOMAIN tx : tx[c] = "live" /\ cpeer[c] = p}

\* C05/C06 as seen by the property monitor (bad = "" unless a known defect path was taken)
MonOK == kf = {} => mon.bad = ""
\* C05: no silence at quiescence
QuiesceOK == (kf = {} /\ Quiescent) => MonQuiesce(mon).bad = ""
\* C05: no wedge - once everything concluded a peer without connection is plainly disconnected
WedgeFree == (kf \subseteq {"outbound-established-rejected-by-limit"} /\ Quiescent) => \A p \in Peers : Live(p) = {} => ps[p] = Disc
\* pending_connections holds exactly the outstanding outbound attempts
PendingExact == (kf \subseteq {"outbound-established-rejected-by-limit"} /\ Quiescent) => pend = {}
\* C06 on the model state
CapsOK == /\ (MaxIn # NoLimit => Cardinality(limIn) <= MaxIn)
          /\ (MaxOut # NoLimit => Cardinality(limOut) <= MaxOut)
          /\ \A p \in Peers : Cardinality({c \in DOMAIN tx : tx[c] \in {"accepting", "live"} /\ cpeer[c] = p}) <= 2
\* the limit sets hold exactly the accepted-and-open connections
LimExact == /\ limIn = {c \in DOMAIN tx : tx[c] \in {"accepting", "live"} /\ cdir[c] = "in"}
            /\ limOut = {c \in DOMAIN tx : tx[c] \in {"accepting", "live"} /\ cdir[c] = "out"}

View == <<ps, pend, tx, cpeer, cdir, caddrs, otr, ctr, limIn, limOut, next, known, mon, kf, MaxIn, MaxOut>>
\* generation view: the manager/transport state only (monitor and tags are functions of the history)
GenView == <<ps, pend, tx, cpeer, cdir, caddrs, otr, ctr, limIn, limOut, next, known, MaxIn, MaxOut>>
\* rare transitions get a tag so that the quick tier can keep all of them when it samples the graph
EmitTag == IF hist'[Len(hist')].a = "established" /\ (\E i \in 1..Len(out'.calls) : out'.calls[i].c = "reject") THEN "outrej"
           ELSE IF hist'[Len(hist')].a = "accept_err" THEN "accerr"
           ELSE ""
Emit == PrintT(<<"B", ToJson([maxIn |-> MaxIn, maxOut |-> MaxOut, two |-> (WsAddrs # {}), tag |-> EmitTag, stims |-> hist'])>>)
-----------------------------------------------------------------------------
(* Refinement of the counter abstraction ConnCaps.tla, whose invariant     *)
(* IndInv Apalache proves inductive (histories of any length, reusable     *)
(* connection ids).  A concluded connection id maps to "free".             *)
AbsCids == 0..(MaxCid - 1)
AbsPhase(c) ==
  IF c \notin DOMAIN tx THEN "free"
  ELSE IF tx[c] \in {"dialing", "opening", "negotiating"} THEN "out"
  ELSE IF tx[c] = "in_neg" THEN "inneg"
  ELSE IF tx[c] \in {"accepting", "live"} THEN tx[c]
  ELSE "free"
CC == INSTANCE ConnCaps WITH Cids <- AbsCids,
        st <- [c \in AbsCids |-> AbsPhase(c)],
        cpeer <- [c \in AbsCids |-> IF c \in DOMAIN cpeer THEN cpeer[c] ELSE "?"],
        cdir <- [c \in AbsCids |-> IF c \in DOMAIN cdir THEN cdir[c] ELSE "in"]
\* every step of the implementation-shaped model is a ConnCaps step or leaves its variables unchanged
CapsRefinement == [][CC!Next]_(CC!ccvars)
\* and the inductive invariant holds in every reachable state of the bound model
CapsInd == CC!IndInv
=============================================================================
