//! In-harness TCP proxy between two litep2p nodes: lets a scenario cut every connection of the
//! pair abruptly (both sockets dropped) and refuse new ones (dial failures / no reconnect).
use std::{
    net::SocketAddr,
    sync::{
        atomic::{AtomicBool, AtomicU64, Ordering},
        Arc, Mutex,
    },
};
use tokio::{
    io::{AsyncReadExt, AsyncWriteExt},
    net::{TcpListener, TcpStream},
    task::JoinHandle,
};

pub struct Proxy {
    pub addr: SocketAddr,
    blocked: Arc<AtomicBool>,
    frozen: Arc<AtomicBool>,
    frozen_fwd: Arc<AtomicBool>,
    throttle: Arc<AtomicU64>,
    links: Arc<Mutex<Vec<JoinHandle<()>>>>,
    pub accepted: Arc<AtomicU64>,
    acceptor: JoinHandle<()>,
}

async fn thaw(frozen: &AtomicBool) {
    while frozen.load(Ordering::SeqCst) {
        tokio::time::sleep(std::time::Duration::from_millis(4)).await;
    }
}

async fn pipe(mut a: TcpStream, mut b: TcpStream, frozen: Arc<AtomicBool>, throttle: Arc<AtomicU64>, frozen_fwd: Arc<AtomicBool>) {
    let (mut ar, mut aw) = a.split();
    let (mut br, mut bw) = b.split();
    let f1 = async {
        let mut buf = vec![0u8; 16384];
        loop {
            thaw(&frozen).await;
            thaw(&frozen_fwd).await; // dialer -> listener direction only
            // throttle: at most `lim` bytes per 2 ms (a slow link: data arrives piecemeal at the receiver)
            let lim = throttle.load(Ordering::Relaxed) as usize;
            let cap = if lim > 0 { lim.min(16384) } else { 16384 };
            match ar.read(&mut buf[..cap]).await {
                Ok(0) | Err(_) => break,
                Ok(n) => {
                    // a read that was already pending when the link was frozen must not slip through
                    thaw(&frozen).await;
                    thaw(&frozen_fwd).await;
                    if bw.write_all(&buf[..n]).await.is_err() {
                        break;
                    }
                    if lim > 0 {
                        tokio::time::sleep(std::time::Duration::from_millis(2)).await;
                    }
                }
            }
        }
    };
    let f2 = async {
        let mut buf = vec![0u8; 16384];
        loop {
            thaw(&frozen).await;
            let lim = throttle.load(Ordering::Relaxed) as usize;
            let cap = if lim > 0 { lim.min(16384) } else { 16384 };
            match br.read(&mut buf[..cap]).await {
                Ok(0) | Err(_) => break,
                Ok(n) => {
                    if aw.write_all(&buf[..n]).await.is_err() {
                        break;
                    }
                    if lim > 0 {
                        tokio::time::sleep(std::time::Duration::from_millis(2)).await;
                    }
                }
            }
        }
    };
    // when either direction ends the whole link is torn down (both sockets dropped)
    tokio::select! { _ = f1 => {}, _ = f2 => {} }
}

impl Proxy {
    pub async fn start(target: SocketAddr) -> Proxy {
        let listener = TcpListener::bind("127.0.0.1:0").await.expect("proxy bind");
        let addr = listener.local_addr().unwrap();
        let blocked = Arc::new(AtomicBool::new(false));
        let frozen = Arc::new(AtomicBool::new(false));
        let f2 = frozen.clone();
        let throttle = Arc::new(AtomicU64::new(0));
        let t2 = throttle.clone();
        let frozen_fwd = Arc::new(AtomicBool::new(false));
        let ff2 = frozen_fwd.clone();
        let links: Arc<Mutex<Vec<JoinHandle<()>>>> = Arc::new(Mutex::new(Vec::new()));
        let accepted = Arc::new(AtomicU64::new(0));
        let (b2, l2, a2) = (blocked.clone(), links.clone(), accepted.clone());
        let acceptor = tokio::spawn(async move {
            loop {
                let Ok((sock, _)) = listener.accept().await else { break };
                if b2.load(Ordering::SeqCst) {
                    drop(sock);
                    continue;
                }
                let _ = sock.set_nodelay(true);
                let Ok(out) = TcpStream::connect(target).await else {
                    drop(sock);
                    continue;
                };
                let _ = out.set_nodelay(true);
                a2.fetch_add(1, Ordering::SeqCst);
                let h = tokio::spawn(pipe(sock, out, f2.clone(), t2.clone(), ff2.clone()));
                let mut g = l2.lock().unwrap();
                g.retain(|h| !h.is_finished());
                g.push(h);
            }
        });
        Proxy { addr, blocked, frozen, frozen_fwd, throttle, links, accepted, acceptor }
    }

    /// Drop every forwarded connection now.
    pub fn cut(&self) -> usize {
        let mut g = self.links.lock().unwrap();
        let n = g.iter().filter(|h| !h.is_finished()).count();
        for h in g.drain(..) {
            h.abort();
        }
        n
    }

    /// Stop / resume forwarding without closing anything (transport-level backpressure).
    pub fn freeze(&self, on: bool) {
        self.frozen.store(on, Ordering::SeqCst);
    }

    pub fn block(&self, on: bool) {
        self.blocked.store(on, Ordering::SeqCst);
    }

    /// stop / resume forwarding from the dialing side to the listening side only
    pub fn freeze_fwd(&self, on: bool) {
        self.frozen_fwd.store(on, Ordering::SeqCst);
    }

    /// forward at most `bytes` per 2 ms in each direction (0 = unlimited)
    pub fn throttle(&self, bytes: u64) {
        self.throttle.store(bytes, Ordering::SeqCst);
    }
}

impl Drop for Proxy {
    fn drop(&mut self) {
        self.acceptor.abort();
        self.cut();
    }
}


/// UDP relay in front of a QUIC node: one upstream socket per client source address (litep2p's QUIC
/// dialer binds a fresh client endpoint per dial, so a flow is one connection).  `cut` black-holes
/// the current flows (the peers notice through quinn's idle timeout), `block` ignores new flows.
pub struct UdpProxy {
    pub addr: SocketAddr,
    blocked: Arc<AtomicBool>,
    /// generation counter: flows created before the last cut are dead
    gen: Arc<AtomicU64>,
    live: Arc<AtomicU64>,
    task: JoinHandle<()>,
}

impl UdpProxy {
    pub async fn start(target: SocketAddr) -> UdpProxy {
        use std::collections::HashMap;
        use tokio::net::UdpSocket;
        let front = Arc::new(UdpSocket::bind("127.0.0.1:0").await.expect("udp proxy bind"));
        let addr = front.local_addr().unwrap();
        let blocked = Arc::new(AtomicBool::new(false));
        let gen = Arc::new(AtomicU64::new(0));
        let live = Arc::new(AtomicU64::new(0));
        let (b2, g2, l2) = (blocked.clone(), gen.clone(), live.clone());
        let task = tokio::spawn(async move {
            // client address -> (generation, upstream socket)
            let mut flows: HashMap<SocketAddr, (u64, Arc<UdpSocket>)> = HashMap::new();
            let mut buf = vec![0u8; 65536];
            loop {
                let Ok((n, from)) = front.recv_from(&mut buf).await else { break };
                let g = g2.load(Ordering::SeqCst);
                if let Some((fg, up)) = flows.get(&from) {
                    if *fg == g {
                        let _ = up.send(&buf[..n]).await;
                    }
                    continue; // a dead flow stays dead (black hole)
                }
                if b2.load(Ordering::SeqCst) {
                    continue;
                }
                let Ok(up) = UdpSocket::bind("127.0.0.1:0").await else { continue };
                if up.connect(target).await.is_err() {
                    continue;
                }
                let up = Arc::new(up);
                flows.insert(from, (g, up.clone()));
                l2.fetch_add(1, Ordering::SeqCst);
                let _ = up.send(&buf[..n]).await;
                let (front2, g3) = (front.clone(), g2.clone());
                tokio::spawn(async move {
                    let mut b = vec![0u8; 65536];
                    loop {
                        let Ok(n) = up.recv(&mut b).await else { break };
                        if g3.load(Ordering::SeqCst) != g {
                            break;
                        }
                        let _ = front2.send_to(&b[..n], from).await;
                    }
                });
            }
        });
        UdpProxy { addr, blocked, gen, live, task }
    }

    pub fn cut(&self) -> usize {
        self.gen.fetch_add(1, Ordering::SeqCst);
        self.live.swap(0, Ordering::SeqCst) as usize
    }

    pub fn block(&self, on: bool) {
        self.blocked.store(on, Ordering::SeqCst);
    }
}

impl Drop for UdpProxy {
    fn drop(&mut self) {
        self.task.abort();
    }
}

/// The link between X and Y.
pub enum Link {
    Tcp(Proxy),
    Udp(UdpProxy),
}

impl Link {
    pub fn addr(&self) -> SocketAddr {
        match self {
            Link::Tcp(p) => p.addr,
            Link::Udp(p) => p.addr,
        }
    }
    pub fn cut(&self) -> usize {
        match self {
            Link::Tcp(p) => p.cut(),
            Link::Udp(p) => p.cut(),
        }
    }
    pub fn block(&self, on: bool) {
        match self {
            Link::Tcp(p) => p.block(on),
            Link::Udp(p) => p.block(on),
        }
    }
    pub fn freeze_fwd(&self, on: bool) -> bool {
        match self {
            Link::Tcp(p) => {
                p.freeze_fwd(on);
                true
            }
            Link::Udp(_) => false,
        }
    }
    pub fn throttle(&self, bytes: u64) -> bool {
        match self {
            Link::Tcp(p) => {
                p.throttle(bytes);
                true
            }
            Link::Udp(_) => false,
        }
    }
    /// only the stream proxy can stall a link without losing bytes
    pub fn freeze(&self, on: bool) -> bool {
        match self {
            Link::Tcp(p) => {
                p.freeze(on);
                true
            }
            Link::Udp(_) => false,
        }
    }
}
