------------------------------- MODULE KadOps -------------------------------
(***************************************************************************)
(* C16 - every Kademlia operation started by the user ends with one        *)
(* terminal event.                                                         *)
(*                                                                         *)
(* Property-level monitor over what a user of the public API (and the      *)
(* target nodes) can observe:                                              *)
(*   cmd     the user started an operation and got query id q              *)
(*   term    a terminal KademliaEvent carrying q (success or failure)      *)
(*   recv    target node `at` was actually sent the data of operation q    *)
(*           (IncomingRecord / IncomingProvider at the target, or the raw  *)
(*           PUT_VALUE / ADD_PROVIDER message read by a silent peer)       *)
(*   maybe   target `at` may have been sent the data but cannot say so     *)
(*           (it was killed in the middle of the operation)                *)
(*   targets the number of peers the send phase addresses (known to the    *)
(*           model; in real runs only for put_record_to_peers)             *)
(*   quiesce bounded time has passed / nothing is outstanding              *)
(*                                                                         *)
(* Rules (the most liberal reading of the statement):                      *)
(*   R1 a query id is issued once;                                         *)
(*   R2 a terminal event names a started operation;                        *)
(*   R3 no operation gets a second terminal event;                         *)
(*   R4 at quiescence no started operation is without terminal event;      *)
(*   R5 at quiescence a put / put-to-peers / provider announcement that    *)
(*      reported success was sent to at least Need peers, where            *)
(*      Need = 1 (One), min(n, T) (N(n)), T (All) and T is the number of   *)
(*      addressed peers (at least 1); if T cannot be observed it is        *)
(*      taken as 1 (the lenient side).                                     *)
(* The same operators drive the monitor inside the bounded model           *)
(* (KadOpsMC) and the validation of executions of real nodes               *)
(* (KadOpsTrace).                                                          *)
(***************************************************************************)
EXTENDS Naturals, Integers, Sequences, FiniteSets, TLC

PutKinds == {"put", "put_to", "provide"}
AllKinds == {"find_node", "put", "put_to", "get", "provide", "get_providers"}

MonInit == [ops |-> <<>>, bad |-> "", badq |-> -1]

Fail(M, why, q) == IF M.bad = "" THEN [M EXCEPT !.bad = why, !.badq = q] ELSE M

MinN(a, b) == IF a < b THEN a ELSE b
MaxN(a, b) == IF a > b THEN a ELSE b

\* number of peers that must have been sent the data before success may be reported
Need(o) ==
  LET t == IF o.T < 0 THEN 1 ELSE MaxN(o.T, 1) IN
  CASE o.quorum = "one" -> 1
    [] o.quorum = "all" -> t
    [] OTHER -> MinN(MaxN(o.n, 1), t)

MonCmd(M, q, kind, quorum, n, T) ==
  IF q \in DOMAIN M.ops THEN Fail(M, "query id issued twice", q)
  ELSE [M EXCEPT !.ops = (q :> [kind |-> kind, quorum |-> quorum, n |-> n, T |-> T, st |-> "started",
                                sent |-> {}, maybe |-> {}]) @@ @]

MonTargets(M, q, T) == IF q \in DOMAIN M.ops THEN [M EXCEPT !.ops[q].T = T] ELSE M

MonSent(M, q, p) == IF q \in DOMAIN M.ops THEN [M EXCEPT !.ops[q].sent = @ \cup {p}] ELSE M

MonMaybe(M, q, p) == IF q \in DOMAIN M.ops THEN [M EXCEPT !.ops[q].maybe = @ \cup {p}] ELSE M

MonTerm(M, q, ok) ==
  IF q \notin DOMAIN M.ops THEN Fail(M, "terminal event for a query that was never started", q)
  ELSE IF M.ops[q].st # "started" THEN Fail(M, "second terminal event for one operation", q)
  ELSE [M EXCEPT !.ops[q].st = IF ok THEN "ok" ELSE "failed"]

Silent(M) == {q \in DOMAIN M.ops : M.ops[q].st = "started"}
Short(M) == {q \in DOMAIN M.ops : /\ M.ops[q].kind \in PutKinds /\ M.ops[q].st = "ok"
                                   /\ Cardinality(M.ops[q].sent \cup M.ops[q].maybe) < Need(M.ops[q])}

MonQuiesce(M) ==
  IF Silent(M) # {} THEN Fail(M, "silence: operation never got a terminal event", CHOOSE q \in Silent(M) : TRUE)
  ELSE IF Short(M) # {} THEN Fail(M, "success reported below the requested quorum", CHOOSE q \in Short(M) : TRUE)
  ELSE M

\* Trace validation keeps going after a broken rule: the rule is reported once, the operation it
\* concerns is retired ("reported") and `bad` is cleared, so independent defects are all seen.
Forgive(M) ==
  IF M.bad = "" THEN M
  ELSE LET M1 == [M EXCEPT !.bad = "", !.badq = -1] IN
       IF M.badq \in DOMAIN M.ops /\ M.bad \in {"silence: operation never got a terminal event",
                                                "success reported below the requested quorum"}
         THEN [M1 EXCEPT !.ops[M.badq].st = "reported"]
         ELSE M1
=============================================================================
