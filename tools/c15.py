"""C15 - Iterative Kademlia lookups terminate with the closest responsive peers (KadQuery.tla)."""
import json
import os
import random
import time
from concurrent.futures import ThreadPoolExecutor
from vlib import *

ASSUME = [
    "abstract peer numbers are ranks of real peer ids by their real XOR distance to the real target, computed by "
    "the harness with its own SHA-256/XOR; the engine only ever compares distances",
    "initial candidates never contain the local node (they come from the routing table, which never stores it: C14)",
    "replication factor >= 1 and parallelism factor >= 1; records returned by peers are not expired",
    "'fresh' = younger than the engine's peer timeout (10 s); except in the dedicated stale-request scenario every "
    "run completes within a third of that, runs of that scenario that took longer are discarded, never judged",
    "termination is decided as quiescence: the scripted environment has answered or failed every request and "
    "next_action() returns None - then the lookup must have produced its terminal result",
    "mostly one lookup per engine instance; in the 'pair' executions two lookups share one engine and each lookup's "
    "projection of the joint execution (its own calls, its own results, and every None result) is validated on its own",
]

STALE_SIG = "parallelism-exceeded-after-stale-request"
MC_LINES = ["SPECIFICATION Spec", "INVARIANTS Consistent", "PROPERTIES StepOK", "VIEW View", "CHECK_DEADLOCK FALSE"]
GEN_LINES = ["SPECIFICATION Spec", "VIEW View", "ACTION_CONSTRAINT Emit", "CHECK_DEADLOCK FALSE"]
WORKERS = 6


def base(**kw):
    c = dict(N=5, Kind="find", Alpha=2, Repl=2, Need=0, LocalRec=0, Known=[], InitC=[3, 5], Topo="chain", Liars=[],
             Lies=[[]], RecAt=[], ProvAt=[], ProvSet=[], Late=False, Stale=False, MaxOps=0)
    c.update(kw)
    return c


def mc_cfgs(ctx):
    cfgs = [
        ("find_chain_liar", base(Liars=[3], Lies=[[0, 1, 3, 5], [], [2, 4]], Late=True)),
        ("find_clique", base(N=6, Alpha=3, Repl=3, InitC=[6], Topo="clique")),
        ("find_closer_a1", base(N=6, Alpha=1, Repl=1, InitC=[6], Topo="closer")),
        ("find_star_anylie", base(N=4, Alpha=2, Repl=3, InitC=[1, 4], Topo="star", Liars=[4], Lies="<- AllLies")),
        ("find_two_a3r1", base(N=6, Alpha=3, Repl=1, InitC=[2, 5], Topo="two", Late=True)),
        ("get_quorum2", base(Kind="get", Repl=3, Need=2, InitC=[3], RecAt=[2, 4])),
        ("get_local_n3", base(Kind="get", Repl=3, Need=3, LocalRec=1, InitC=[2, 5], RecAt=[1, 3], Topo="two", Late=True)),
        ("find_clique7", base(N=7, Alpha=3, Repl=3, InitC=[7, 4], Topo="clique", Late=True)),
        ("find_chain_anylie", base(N=5, Alpha=2, Repl=2, InitC=[3, 5], Liars=[3, 4], Lies="<- AllLies")),
        ("prov_clique", base(Kind="prov", InitC=[5], Topo="clique", ProvAt=[2, 3], ProvSet=[0, 4], Known=[1])),
        ("track", base(N=4, Kind="track", Need=2, InitC=[1, 2, 3], Topo="none")),
        # requests may become older than the peer timeout at any moment
        ("find_stale", base(N=5, Alpha=2, Repl=3, InitC=[1, 2, 3, 4, 5], Topo="none", Stale=True)),
        ("find_chain_liar_stale", base(Alpha=1, Liars=[3], Lies=[[0, 1, 3, 5], [2, 4]], Late=True, Stale=True)),
    ]
    if not ctx.quick():
        cfgs += [
            ("find_clique8", base(N=8, Alpha=3, Repl=4, InitC=[8, 4], Topo="clique", Late=True)),
            ("find_two_anylie", base(N=6, Alpha=2, Repl=2, InitC=[2, 5], Topo="two", Liars=[1, 5], Lies="<- AllLies")),
            ("find_two_a1r3", base(N=7, Alpha=1, Repl=3, InitC=[7], Topo="two")),
            ("find_empty", base(N=3, Alpha=2, Repl=2, InitC=[], Topo="none")),
            ("get_chain_liar", base(N=6, Kind="get", Alpha=3, Repl=3, Need=3, InitC=[6, 1], RecAt=[1, 2, 3, 4],
                                    Liars=[2], Lies=[[0, 1, 2, 3, 4, 5, 6], [5]], Late=True)),
            ("prov_two_liar", base(N=6, Kind="prov", Alpha=3, InitC=[6, 2], Topo="two", ProvAt=[1, 4, 5], ProvSet=[2, 3],
                                   Liars=[4], Lies=[[0, 6, 2], []], Known=[])),
            ("track_all", base(N=5, Kind="track", Need=4, InitC=[1, 2, 3, 4], Topo="none")),
        ]
    return cfgs


def gen_cfgs(ctx):
    """Bounded graphs whose every transition becomes one behaviour (BFS prefix + the transition)."""
    g = [
        base(Liars=[3], Lies=[[0, 1, 3, 5], [2, 4]], Late=True),
        base(N=5, Alpha=1, Repl=2, InitC=[5, 2], Topo="closer"),
        base(N=4, Alpha=3, Repl=1, InitC=[4, 1], Topo="clique"),
        base(Kind="get", Repl=3, Need=2, InitC=[3], RecAt=[2, 4]),
        base(Kind="get", Repl=3, Need=3, LocalRec=1, InitC=[2, 5], RecAt=[1, 3], Topo="two"),
        base(N=5, Alpha=2, Repl=2, InitC=[2, 5], Topo="two", Late=True),
        base(Kind="prov", N=4, InitC=[4], Topo="clique", ProvAt=[2, 3], ProvSet=[0, 4], Known=[1]),
        base(N=4, Kind="track", Need=2, InitC=[1, 2, 3], Topo="none"),
    ]
    if not ctx.quick():
        g += [base(N=6, Alpha=3, Repl=3, InitC=[6], Topo="clique"),
              base(N=6, Alpha=2, Repl=2, InitC=[2, 5], Topo="two", Late=True),
              base(N=5, Kind="get", Alpha=3, Repl=3, Need=3, InitC=[5, 1], RecAt=[1, 2, 3], Liars=[2], Lies=[[0, 1, 2, 3, 4, 5]])]
    return g


def _is_reset(ln):
    return '"e":"reset"' in ln


def classify(seg, idx):
    """Stable signature of a rejected event: which clause of C15 the event breaks."""
    head = json.loads(seg[0])
    ev = json.loads(seg[idx - 1])
    if ev.get("e") == "panic":
        return "panic-in-%s" % ev["o"]["op"]
    cfg = head["cfg"]
    infl, stale, contacted, term = set(), set(), set(), False
    if cfg["kind"] == "track":
        infl = set(cfg["init"])
    for ln in seg[1:idx - 1]:
        e = json.loads(ln)
        o, r = e["o"], e["ret"]
        if o["op"] == "next" and r["a"] == "send":
            infl.add(r["p"]); contacted.add(r["p"])
        elif o["op"] == "next" and r["a"] in ("ok", "failed"):
            term = True
        elif o["op"] in ("resp", "fail", "sendok", "sendfail"):
            infl.discard(o["p"]); stale.discard(o["p"])
        elif o["op"] == "stale":
            stale |= set(o["ps"]) & infl
    o, r = ev["o"], ev["ret"]
    kind = cfg["kind"]
    if o["op"] == "quiesce":
        return "%s-no-terminal-result" % kind
    if o["op"] != "next":
        return "%s-%s" % (kind, o["op"])
    if term and r["a"] != "none":
        return "%s-action-after-terminal" % kind
    if r["a"] == "send":
        if r["p"] == 0:
            return "%s-contacts-local-node" % kind
        if r["p"] in contacted:
            return "%s-contacts-peer-twice" % kind
        if len(infl - stale) + 1 > cfg["alpha"]:
            if stale and head.get("src") == "stale" and kind == "find":
                return STALE_SIG
            return "%s-parallelism-exceeded" % kind
        return "%s-send-not-allowed" % kind
    return "%s-bad-%s" % (kind, r["a"])


def record(ctx, behs, nrand, stale, fault=None, out="trace.ndjson", pairs=0):
    args = ["--random", nrand, "--pairs", pairs, "--stale", stale, "--seed", ctx.seed, "--threads", 8, "--out", ctx.path(out)]
    if behs is not None:
        write_jsonl(ctx.path("behs.jsonl"), behs)
        args = ["--behaviours", ctx.path("behs.jsonl")] + args
    summ, _ = harness(ctx, "query", args, env={"VERIF_FAULT": fault or ""})
    return summ, read_lines(ctx.path(out))


def judge(ctx, lines, tag="t", max_rejects=8):
    nseg, nev, rejects = validate_segments(ctx, "KadQueryTrace.tla", "KadQueryTrace.cfg", lines, mode="prop", tag=tag,
                                           max_rejects=max_rejects)
    violations = []
    for seg, idx in rejects:
        violations.append({"sig": classify(seg, idx),
                           "what": "real QueryEngine step not allowed by KadQuery!PropOK: %s (query %s)" % (seg[idx - 1][:500], seg[0][:300]),
                           "replay_obj": {"property": "C15", "rejected_event_index": idx,
                                          "segment": [json.loads(x) for x in seg[:idx]]}})
    return nseg, nev, violations


def check(ctx):
    mc = []
    for name, consts in mc_cfgs(ctx):
        r = tlc_mc(ctx, "KadQueryMC.tla", write_cfg(ctx, "mc_%s.cfg" % name, consts, MC_LINES), workers=WORKERS)
        if not r["ok"]:
            raise ToolError("the Impl layer of KadQuery violates the Prop layer in config %s (model error, not a code "
                            "verdict):\n%s" % (name, r.get("error", r["out"][-2500:])))
        mc.append(dict({k: r[k] for k in ("transitions", "distinct", "depth", "wall_s") if k in r}, name=name))
        log("MC %s: %s" % (name, mc[-1]))
    behs, gstats = [], []
    for i, consts in enumerate(gen_cfgs(ctx)):
        b, g = tlc_generate(ctx, "KadQueryMC.tla", write_cfg(ctx, "gen%d.cfg" % i, consts, GEN_LINES))
        behs += b
        gstats.append({k: g[k] for k in ("behaviours", "transitions", "distinct", "wall_s") if k in g})
    log("GEN: %s" % gstats)
    build_s = cargo_build(ctx, ["query"])
    nrand = 1500 if ctx.quick() else 40000
    summ, lines = record(ctx, behs, nrand, 3 if ctx.quick() else 6, pairs=300 if ctx.quick() else 4000)
    log("HARNESS: %s (build %ss)" % (summ, build_s))
    t1 = time.time()
    with ThreadPoolExecutor(2) as ex:
        fj = ex.submit(judge, ctx, lines)
        fd = ex.submit(validate_segments, ctx, "KadQueryTrace.tla", "KadQueryTrace.cfg", lines, "impl", 12, "d")
        nseg, nev, violations = fj.result()
        _, _, drift = fd.result()
    log("TV: %d segments, %d events, %d rejected, %d drift (%.0fs)" % (nseg, nev, len(violations), len(drift), time.time() - t1))
    for seg, idx in drift:
        log("NOTE drift: real QueryEngine deviates from the Impl layer at %s" % seg[idx - 1][:300])
    segs = split_segments(lines, _is_reset)
    distinct = len({"\n".join(json.dumps([json.loads(x)["o"], json.loads(x)["ret"]]) for x in s[1:]) + s[0][s[0].index('"cfg"'):s[0].index('"e"')]
                    for s in segs})
    acts, ops_seen, quiesced = {}, {}, 0
    for ln in lines:
        if '"e":"op"' in ln:
            ev = json.loads(ln)
            ops_seen[ev["o"]["op"]] = ops_seen.get(ev["o"]["op"], 0) + 1
            if ev["o"]["op"] == "next":
                acts[ev["ret"]["a"]] = acts.get(ev["ret"]["a"], 0) + 1
            quiesced += ev["o"]["op"] == "quiesce"
    need_ops = {"next", "resp", "fail", "sendok", "sendfail", "quiesce", "stale"}
    unknown = [v for v in violations if v["sig"] not in load_known(ctx.pid)]
    if not unknown:         # a run that found something is reported as such, whatever its coverage
        if not need_ops <= set(ops_seen) or not {"none", "send", "partial", "ok", "failed"} <= set(acts):
            raise ToolError("coverage hole: ops %s actions %s" % (ops_seen, acts))
        if quiesced < nseg - 12:
            raise ToolError("only %d of %d executions reached quiescence" % (quiesced, nseg))
    cov = {
        "states": sum(m["distinct"] for m in mc),
        "transitions": sum(m["transitions"] for m in mc),
        "traces_validated_against_impl": nseg,
        "events_validated": nev,
        "samples": [json.loads(x) for x in segs[len(segs) // 2][:6]],
        "evaluations": nseg,
        "distinct_nontrivial": distinct,
        "rule": "a case is one complete lookup executed on the real QueryEngine: start, a schedule of next_action / "
                "responses / failures (TLC-generated: BFS prefix + one transition of the bounded graph, then the "
                "environment answers everything; random: seeded schedules over random networks of 4-30 peers with lying "
                "peers), up to quiescence; distinct = distinct (config, call, result) sequences",
        "model_runs": mc,
        "generation": gstats,
        "harness": summ,
        "ops_exercised": ops_seen,
        "engine_actions_seen": acts,
        "executions_reaching_quiescence": quiesced,
        "impl_divergences": len(drift),
        "exhaustive": False,
    }
    return conclude(ctx, "model_checking", cov, violations, ASSUME)


def _dump(ctx, name, lines):
    p = ctx.path(name)
    with open(p, "w") as f:
        f.write("\n".join(lines) + "\n")
    return p


def selftest(ctx):
    """(a) binding: corrupted fields of a good recorded trace and harness-side faults must be rejected by TLC at
    that event; (b) negative models: Impl-layer mutants (one guard removed) must violate StepOK in TLC."""
    ok = True
    cargo_build(ctx, ["query"])
    _, lines = record(ctx, None, 150, 0, out="good.ndjson")
    if tlc_trace(ctx, "KadQueryTrace.tla", "KadQueryTrace.cfg", _dump(ctx, "good.nd", lines)) is not None:
        log("selftest: good trace rejected?!")
        ok = False
    rnd = random.Random(ctx.seed)
    muts = ["resend", "local", "unsorted", "double_terminal", "drop_terminal", "extra_partial"]
    tried = 0
    for mut in muts:
        done = False
        for _ in range(3000):
            i = rnd.randrange(len(lines))
            ev = json.loads(lines[i])
            if ev.get("e") != "op" or ev["o"]["op"] != "next":
                continue
            r = ev["ret"]
            seg_start = max(j for j in range(i + 1) if _is_reset(lines[j]))
            prev = [json.loads(x) for x in lines[seg_start + 1:i]]
            sent = [e["ret"]["p"] for e in prev if e["o"]["op"] == "next" and e["ret"]["a"] == "send"]
            termd = any(e["o"]["op"] == "next" and e["ret"]["a"] in ("ok", "failed") for e in prev)
            expect = i + 1
            if mut == "resend" and r["a"] == "send" and sent:
                r["p"] = sent[0]
            elif mut == "local" and r["a"] == "send":
                r["p"] = 0
            elif mut == "unsorted" and r["a"] == "ok" and len(r["peers"]) >= 2 and r["peers"][0] != r["peers"][1]:
                r["peers"][0], r["peers"][1] = r["peers"][1], r["peers"][0]
            elif mut == "double_terminal" and r["a"] == "none" and termd:
                r["a"] = "failed"
            elif mut == "drop_terminal" and r["a"] in ("ok", "failed"):
                r["a"], r["peers"], r["provs"] = "none", [], []
                # the missing terminal result is detected at the quiescence event of this execution
                nxt = [j for j in range(i + 1, len(lines)) if '"quiesce"' in lines[j] or _is_reset(lines[j])]
                if not nxt or _is_reset(lines[nxt[0]]):
                    continue
                expect = nxt[0] + 1
            elif mut == "extra_partial" and r["a"] == "none" and not termd and json.loads(lines[seg_start])["cfg"]["kind"] == "get":
                r["a"], r["p"] = "partial", 1
            else:
                continue
            tried += 1
            bad = lines[:i] + [json.dumps(ev, separators=(",", ":"))] + lines[i + 1:]
            res = tlc_trace(ctx, "KadQueryTrace.tla", "KadQueryTrace.cfg", _dump(ctx, "mut.nd", bad))
            log("selftest corrupt %-16s at line %d -> %s" % (mut, i + 1, "rejected at %s" % res if res else "ACCEPTED"))
            ok &= (res == expect)
            done = True
            break
        if not done:
            log("selftest: no site for mutation %s" % mut)
            ok = False
    for fault in ("resend", "unsorted", "double_terminal", "drop_terminal"):
        _, fl = record(ctx, None, 60, 0, fault=fault, out="fault.ndjson")
        _, _, viol = judge(ctx, fl, tag="f", max_rejects=4)
        sigs = sorted({v["sig"] for v in viol})
        log("selftest fault %-16s -> %d rejected segments %s" % (fault, len(viol), sigs))
        ok &= len(viol) > 0 and STALE_SIG not in sigs
    # negative models: one guard of the Impl layer removed
    src = open(os.path.join(SPEC, "KadQuery.tla")).read()
    mutants = [
        ("no-queried-filter", "q \\notin s2.qd /\\ q \\notin s2.pend /\\ q # 0", "q \\notin s2.pend /\\ q # 0", "find_chain_liar"),
        ("no-local-filter", "q \\notin s2.qd /\\ q \\notin s2.pend /\\ q # 0", "q \\notin s2.qd /\\ q \\notin s2.pend", "find_chain_liar"),
        ("parallelism-gate-off-by-one", "IF s.pr = C.alpha THEN Stay(s)", "IF s.pr = C.alpha + 1 THEN Stay(s)", "find_clique"),
        ("closer-candidate-test-dropped", "ELSE IF s.cand # {} /\\ s.resp # {} /\\ MinOf(s.cand) < MaxOf(s.resp) THEN Schedule(s)",
         "ELSE IF FALSE THEN Schedule(s)", "find_closer_a1"),
        ("no-quorum-stop", "ELSE IF C.localrec + s.found >= C.need THEN Finish(s, Ok(<<>>, <<>>))", "ELSE IF FALSE THEN Stay(s)", "get_quorum2"),
        ("stale-request-discounted-on-every-call", "s == [s0 EXCEPT !.pr = Cardinality(s0.pend \\ s0.stale)] IN",
         "n == Cardinality(s0.pend \\cap s0.stale)  s == [s0 EXCEPT !.pr = IF @ > n THEN @ - n ELSE 0] IN", "find_stale"),
        ("terminal-does-not-remove-query", "Finish(s, r) == [ret |-> r, st |-> [s EXCEPT !.done = TRUE]]",
         "Finish(s, r) == [ret |-> r, st |-> s]", "find_clique"),
    ]
    cfgs = dict(mc_cfgs(ctx))
    for name, old, new, cfgname in mutants:
        assert old in src, name
        mdir = ctx.path("mut_" + name)
        os.makedirs(mdir, exist_ok=True)
        open(os.path.join(mdir, "KadQuery.tla"), "w").write(src.replace(old, new))
        open(os.path.join(mdir, "KadQueryMC.tla"), "w").write(open(os.path.join(SPEC, "KadQueryMC.tla")).read())
        cfgp = write_cfg(ctx, "neg_%s.cfg" % name, cfgs[cfgname], ["SPECIFICATION Spec", "PROPERTIES StepOK", "VIEW View", "CHECK_DEADLOCK FALSE"])
        rc, out = run(["tlc", "-workers", "4", "-metadir", ctx.metadir(), "-cleanup", "-noGenerateSpecTE", "-config", cfgp,
                       os.path.join(mdir, "KadQueryMC.tla")], timeout=600, cwd=mdir)
        hit = "StepOK is violated" in out
        log("selftest spec mutant %-32s (%s) -> %s" % (name, cfgname, "violated" if hit else "NOT violated"))
        ok &= hit
    log("SELFTEST %s (%d/%d corruptions tried)" % ("ok" if ok and tried == len(muts) else "FAILED", tried, len(muts)))
    return 0 if ok and tried == len(muts) else 2


def replay(ctx, path):
    obj = json.load(open(path))
    seg = [json.dumps(x, separators=(",", ":")) for x in obj["segment"]]
    r = tlc_trace(ctx, "KadQueryTrace.tla", "KadQueryTrace.cfg", _dump(ctx, "replay.ndjson", seg))
    sig = classify(seg, r) if r else None
    log("replay: %s" % ("rejected at %d (%s%s)" % (r, sig, ", a known finding" if sig in load_known(ctx.pid) else "") if r else "accepted"))
    return 1 if r and sig not in load_known(ctx.pid) else 0
