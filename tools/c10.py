"""C10 - peer address book stays bounded, attributable and dialable (AddrBook.tla)."""
import json
from vlib import *

ASSUME = [
    "only the TCP transport is enabled (the pinned build has no websocket/quic feature), so 'dialable by an enabled "
    "transport' means the TCP address grammar <ip|dns>/tcp/<port>[/p2p/<id>]",
    "TLC behaviours with bound K=2..3 are embedded into the real 64-slot store with 64-K filler records of higher score",
    "shape classes are concretised with seeded random addresses; the verdict per class comes from the spec's decision table",
]

MCL = ["SPECIFICATION Spec", "INVARIANTS Bounded", "PROPERTIES StepOK", "VIEW View", "CHECK_DEADLOCK FALSE"]
GENL = ["SPECIFICATION Spec", "VIEW View", "ACTION_CONSTRAINT Emit", "CHECK_DEADLOCK FALSE"]
BASE = {"Addrs": {"a1", "a2", "a3", "a4"}, "Scores": "<- ScoresDef", "Globals": {"a1", "a4"}}


def check(ctx):
    mc = []
    runs = [("k2", dict(BASE, K=2, MaxOps=4))] if ctx.quick() else [("k2", dict(BASE, K=2, MaxOps=5)), ("k3", dict(BASE, K=3, MaxOps=5, Addrs={"a1", "a2", "a3", "a4", "a5"}))]
    for name, consts in runs:
        r = tlc_mc(ctx, "AddrBookMC.tla", write_cfg(ctx, "mc_%s.cfg" % name, consts, MCL), workers=8)
        if not r["ok"]:
            raise ToolError("AddrBook Impl layer violates the Prop layer (%s):\n%s" % (name, r.get("error", r["out"][-2000:])))
        mc.append({k: r[k] for k in ("transitions", "distinct", "depth", "wall_s") if k in r})
        log("MC %s: %s" % (name, mc[-1]))
    # the filter decision table is a constant-level obligation: evaluate it with TLC
    p = ctx.path("filter.cfg")
    open(p, "w").write("CONSTANTS\n  Addrs = {\"a1\"}\n  Scores <- ScoresDef\n  K = 1\n  MaxOps = 0\n  Globals = {}\nSPECIFICATION Spec\nINVARIANTS FilterInv\nCHECK_DEADLOCK FALSE\n")
    r = tlc_mc(ctx, "AddrBookMC.tla", p, workers=2)
    if not r["ok"]:
        raise ToolError("filter decision table inconsistent:\n%s" % r["out"][-2000:])
    behs, gstats = tlc_generate(ctx, "AddrBookMC.tla", write_cfg(ctx, "gen.cfg", dict(BASE, K=2, MaxOps=3 if ctx.quick() else 4), GENL))
    log("GEN %s" % gstats)
    write_jsonl(ctx.path("behs.jsonl"), behs)
    build_s = cargo_build(ctx, ["addrbook"])
    nrand, nfilter, perclass, ndial = (30, 1, 3, 300) if ctx.quick() else (600, 6, 10, 6000)
    summ, _ = harness(ctx, "addrbook", ["--behaviours", ctx.path("behs.jsonl"), "--random", nrand, "--len", 300, "--filter", nfilter,
                                        "--per-class", perclass, "--dial", ndial, "--dial2", ndial, "--seed", ctx.seed, "--out", ctx.path("trace.ndjson")])
    log("HARNESS: %s (build %ss)" % (summ, build_s))
    lines = read_lines(ctx.path("trace.ndjson"))
    nseg, nev, rejects = validate_all(ctx, "AddrBookTrace.tla", "AddrBookTrace.cfg", lines, mode="prop", chunk_lines=60000)
    violations = []
    for r in rejects:
        seg, idx = r
        ev = json.loads(seg[idx - 1])
        sig = "%s:%s" % (ev.get("e"), r.reason.replace(" ", "-")[:60])
        if ev.get("e") == "add_known":
            sig += ":" + "/".join(ev["sh"][k] for k in ("first", "second", "tail", "local"))
        violations.append({"sig": sig, "what": "%s at %s" % (r.reason, seg[idx - 1][:600]),
                           "replay_obj": {"property": "C10", "reason": r.reason, "segment": [json.loads(x) for x in seg[max(0, idx - 30):idx]], "header": json.loads(seg[0])}})
    _, _, drift = validate_segments(ctx, "AddrBookTrace.tla", "AddrBookTrace.cfg", lines, mode="impl", max_rejects=3, tag="d", chunk_lines=60000)
    for seg, idx in drift:
        log("NOTE drift: real address book deviates from the Impl layer at %s" % seg[idx - 1][:300])
    kinds = {}
    classes = set()
    for ln in lines:
        d = json.loads(ln)
        kinds[d["e"]] = kinds.get(d["e"], 0) + 1
        if d["e"] == "add_known":
            classes.add(tuple(d["sh"].values()))
    cov = {
        "states": sum(m["distinct"] for m in mc), "transitions": sum(m["transitions"] for m in mc),
        "traces_validated_against_impl": nseg, "events_validated": nev,
        "samples": [json.loads(x) for x in lines[1:4]] + [json.loads(x) for x in lines if '"e":"add_known"' in x][:2],
        "evaluations": nev, "distinct_nontrivial": len(classes) + len(behs),
        "rule": "cases: TLC-generated store histories (one per transition, K=2) + random 300-op histories over 66-140 distinct addresses "
                "on the real 64-slot store + every constructible multiaddress shape class x seeded instances through add_known_address "
                "+ dial rounds with re-scoring; distinct = distinct shape classes + distinct TLC behaviours",
        "model_runs": mc, "generation": gstats, "harness": summ, "event_kinds": kinds, "shape_classes": len(classes),
        "impl_divergences": len(drift), "exhaustive": False,
    }
    return conclude(ctx, "model_checking", cov, violations, ASSUME)


def selftest(ctx):
    """binding: corrupted recorded calls must be flagged; negative model: evicting a non-minimum must break Prop."""
    import shutil, random
    ok = True
    cargo_build(ctx, ["addrbook"])
    harness(ctx, "addrbook", ["--random", 4, "--len", 200, "--filter", 1, "--per-class", 1, "--dial", 40, "--seed", ctx.seed, "--out", ctx.path("t.ndjson")])
    lines = read_lines(ctx.path("t.ndjson"))
    _, _, base = validate_all(ctx, "AddrBookTrace.tla", "AddrBookTrace.cfg", lines)
    rnd = random.Random(ctx.seed)

    def mutate(kind):
        idxs = list(range(len(lines)))
        rnd.shuffle(idxs)
        for i in idxs:
            d = json.loads(lines[i])
            if kind == "score-changed-on-other-address" and d["e"] == "insert" and len(d["post"]) > 3:
                k = [x for x in d["post"] if x != d["a"]][0]
                d["post"][k] += 5
            elif kind == "dial-order-reversed" and d["e"] == "dial_order" and len(d["open"]) >= 2 and d["scores"][d["open"][0]] != d["scores"][d["open"][-1]]:
                d["open"] = d["open"][::-1]
            elif kind == "foreign-peer-address-stored" and d["e"] == "add_known" and d["sh"]["tail"] == "foreign" and not d["stored"]:
                d["stored"] = True
            elif kind == "rediscovery-wipes-score" and d["e"] == "rediscover" and any(v != 0 for v in d["post"].values()):
                k = [x for x, v in d["post"].items() if v != 0][0]
                d["post"][k] = 0
            else:
                continue
            return i, lines[:i] + [json.dumps(d, separators=(",", ":"))] + lines[i + 1:]
        return None, None

    for kind in ["score-changed-on-other-address", "dial-order-reversed", "foreign-peer-address-stored", "rediscovery-wipes-score"]:
        i, mut = mutate(kind)
        if mut is None:
            log("selftest %s: no candidate line" % kind)
            ok = False
            continue
        _, _, rej = validate_all(ctx, "AddrBookTrace.tla", "AddrBookTrace.cfg", mut, tag="m")
        caught = len(rej) > len(base)
        log("selftest binding %-34s line %d -> %s" % (kind, i + 1, "flagged (%s)" % sorted({r.reason for r in rej}) if caught else "NOT FLAGGED"))
        ok &= caught
    src = open(os.path.join(SPEC, "AddrBook.tla")).read()
    negs = [("evict-any-record", "ELSE {(a :> sc) @@ Restrict(S, Dom(S) \\ {v}) : v \\in Mins(S)}", "ELSE {(a :> sc) @@ Restrict(S, Dom(S) \\ {v}) : v \\in Dom(S)}"),
            ("rediscovery-overwrites", "{IF score # 0 THEN [S EXCEPT ![a] = score] ELSE S}", "{[S EXCEPT ![a] = score]}"),
            ("unbounded", "IF Cardinality(Dom(S)) >= K", "IF Cardinality(Dom(S)) >= K + 1")]
    for name, a, b in negs:
        a = a.replace("\\\\", "\\"); b = b.replace("\\\\", "\\")
        if a not in src:
            log("selftest negative %s: pattern not found" % name)
            ok = False
            continue
        d = ctx.path("neg_" + name)
        os.makedirs(d, exist_ok=True)
        open(os.path.join(d, "AddrBook.tla"), "w").write(src.replace(a, b))
        shutil.copy(os.path.join(SPEC, "AddrBookMC.tla"), d)
        cfg = write_cfg(ctx, "neg_%s.cfg" % name, dict(BASE, K=2, MaxOps=4), MCL)
        r = tlc_mc(ctx, os.path.join(d, "AddrBookMC.tla"), cfg, workers=6, expect_violation=True)
        viol = "is violated" in r["out"] or "was violated" in r["out"]
        log("selftest negative %-28s -> %s" % (name, "violation found" if viol else "NO VIOLATION"))
        ok &= viol
    log("SELFTEST %s" % ("ok" if ok else "FAILED"))
    return 0 if ok else 2


def replay(ctx, path):
    obj = json.load(open(path))
    seg = [json.dumps(obj["header"], separators=(",", ":"))] + [json.dumps(x, separators=(",", ":")) for x in obj["segment"] if x.get("e") != "reset"]
    _, _, rej = validate_all(ctx, "AddrBookTrace.tla", "AddrBookTrace.cfg", seg)
    log("replay: %s" % ("rejected: %s" % rej[0].reason if rej else "accepted (note: store events need the full prefix)"))
    return 1 if rej else 0
