----------------------------- MODULE BitswapMC -----------------------------
(* Bounded model of the Bitswap response batching for TLC: exhaustive check *)
(* that the Impl layer (extract_next_batch + send loop) satisfies the Prop  *)
(* layer of C20 for every response set over Sizes up to MaxQ blocks, and    *)
(* generation of the response sets (with the batches the Impl layer         *)
(* produces) for replay into the real code.                                 *)
EXTENDS Bitswap, TLC, Json

CONSTANTS Sizes, MaxQ, CB, CM, CO, CW,
          Presences,            \* subset of {"none", "under", "over"}: the presence message of the response
          SendOverLimitPresence \* FALSE: an over-limit presence message is skipped; TRUE: negative model

C == [B |-> CB, M |-> CM, O |-> CO, W |-> CW]

VARIABLES blocks, S, pres, pdone
vars == <<blocks, S, pres, pdone>>

AllSizeSeqs == UNION {[1..n -> Sizes] : n \in 0..MaxQ}
Mk(f) == [i \in DOMAIN f |-> [id |-> i, size |-> f[i]]]

Init == /\ blocks \in {Mk(f) : f \in AllSizeSeqs}
        /\ S = SendInit(blocks)
        /\ pres \in Presences
        /\ pdone = FALSE

\* send_response first sends the presences of the response in a message of their own:
\* within the limit it is written (no block in it), over the limit it is skipped with a
\* warning; the negative model writes it anyway, the substream refuses it and send_response
\* returns the error before any block is sent
PresenceStep ==
  /\ ~pdone /\ pdone' = TRUE
  /\ S' = CASE pres = "none" -> S
             [] pres = "under" -> [S EXCEPT !.out = Append(@, [ids |-> <<>>, len |-> C.M])]
             [] pres = "over" -> IF SendOverLimitPresence THEN [S EXCEPT !.done = TRUE] ELSE S
  /\ UNCHANGED <<blocks, pres>>

Next == \/ PresenceStep
        \/ /\ pdone /\ ~S.done
           /\ S' = ImplSendStep(C, S)
           /\ UNCHANGED <<blocks, pres, pdone>>

Spec == Init /\ [][Next]_vars /\ WF_vars(Next)

\* C20 (batching half) on the model
PropInv == PropSending(C, blocks, S.out) /\ (S.done => PropDone(C, blocks, S.out))
\* the same with the recorded finding tagged: blocks may be lost only inside a batch
\* that was skipped because its encoding exceeded M
PropInvKF == PropSending(C, blocks, S.out) /\ (S.done => LostOnlyInSkipped(C, blocks, S))
\* every call of extract_next_batch is a call the Prop layer allows
ExtractOK ==
  [][LET r == ImplExtract(S.q, C.B) IN
       PropExtract(C.B, S.q, [some |-> r.some, batch |-> Ids(r.batch), rest |-> Ids(r.rest)])]_vars
\* the loop terminates: the queue shrinks with every step, and the response gets done
Progress == [][S'.done \/ Len(S'.q) < Len(S.q) \/ pdone' # pdone]_vars
Termination == <>S.done

\* generation: one behaviour per response set, emitted when its handling completes
Emit == (S'.done /\ ~S.done /\ pres = "none") =>
          PrintT(<<"B", ToJson([sizes |-> [i \in 1..Len(blocks) |-> blocks[i].size],
                                 B |-> CB, M |-> CM,
                                 batches |-> [i \in 1..Len(S'.out) |-> S'.out[i].ids],
                                 skipped |-> [i \in 1..Len(S'.skipped) |-> S'.skipped[i].ids]])>>)
=============================================================================
