use litep2p::{verif::mgr::*, PeerId};
use multiaddr::{Multiaddr, Protocol};
fn main() {
    let mut closed_first = 0;
    let mut est_first = 0;
    for _ in 0..200 {
        let mut h = ManagerHarness::new(None, None, 1, vec![]);
        let p = PeerId::random();
        let a: Multiaddr = "/ip4/10.0.0.1/tcp/1000".parse::<Multiaddr>().unwrap().with(Protocol::P2p(p.into()));
        h.dial_address(a.clone()).unwrap();
        while h.step().is_some() {}
        h.inject_established(p, 0, false, "/ip4/10.0.0.1/tcp/1000".parse().unwrap());
        while h.step().is_some() {}
        // accept future completes and the connection task ends at once, before the manager is polled
        h.resolve_accept(0, true);
        h.connection_closed(p, 0);
        let mut evs = vec![];
        while let Some(e) = h.step() { evs.push(e); }
        match evs.first() { Some(MgrEvent::Closed{..}) => closed_first += 1, Some(MgrEvent::Established{..}) => est_first += 1, _ => {} }
        if closed_first + est_first == 1 { println!("{:?}", evs); }
    }
    println!("closed_first={closed_first} est_first={est_first}");
}
