//! A real `Litep2p` node built through the public API: TCP on 127.0.0.1:0, N user protocols
//! (`/verif/<q>`), optional ping + identify, custom keep-alive timeout, perturbing executor.
//! The application loop (`Litep2p::next_event`) and every user protocol loop record what they
//! observe into the scenario log and take commands from the scenario driver.
use super::{
    exec::{Perturb, PerturbExecutor},
    Log,
};
use bytes::Bytes;
use futures::{stream::FuturesUnordered, StreamExt};
use litep2p::{
    codec::ProtocolCodec,
    config::ConfigBuilder,
    crypto::ed25519::Keypair,
    protocol::{
        libp2p::{identify, ping},
        request_response::{Config as RrConfig, RequestResponseHandle},
        Direction, TransportEvent, TransportService, UserProtocol,
    },
    substream::Substream,
    transport::{quic::config::Config as QuicConfig, tcp::config::Config as TcpConfig, websocket::config::Config as WsConfig},
    types::{protocol::ProtocolName, SubstreamId},
    Litep2p, Litep2pEvent, PeerId,
};
use multiaddr::{Multiaddr, Protocol};
use serde_json::json;
use std::{
    collections::HashMap,
    future::Future,
    net::SocketAddr,
    pin::Pin,
    sync::Arc,
    time::Duration,
};
use tokio::sync::{mpsc, oneshot};

#[derive(Clone, Debug)]
pub struct NodeCfg {
    pub name: String,
    pub keep_alive: Duration,
    pub protos: Vec<String>,
    pub ping: Option<Duration>,
    pub identify: bool,
    pub perturb: Perturb,
    pub seed: u64,
    pub substream_open_timeout: Duration,
    /// "tcp" | "ws" | "quic"
    pub transport: String,
    /// quinn idle timeout (litep2p takes it from the QUIC `connection_open_timeout`)
    pub quic_idle: Duration,
    /// a request-response protocol (the only public way to a protocol with fallback names):
    /// (main name, fallback names)
    pub rr: Option<(String, Vec<String>)>,
    /// inbound substreams of the user protocols are kept (object alive, only read from) after the
    /// remote closed its write side, until `ReleaseInbound`
    pub keep_eof: bool,
}

impl NodeCfg {
    pub fn new(name: &str, seed: u64) -> Self {
        NodeCfg {
            name: name.to_string(),
            keep_alive: Duration::from_secs(120),
            protos: vec!["q1".into(), "q2".into()],
            ping: None,
            identify: false,
            perturb: Perturb::OFF,
            seed,
            substream_open_timeout: Duration::from_secs(5),
            transport: "tcp".into(),
            quic_idle: Duration::from_secs(5),
            rr: None,
            keep_eof: false,
        }
    }
}

#[derive(Debug, Clone, Copy, PartialEq)]
pub enum OpenMode {
    /// open, send one frame, wait for the echo, drop the substream
    Echo,
    /// open and keep the substream until `DropHeld`
    Hold,
    /// only issue `open_substream`; do not wait for the result
    Fire,
}

pub enum ProtoCmd {
    /// `called` (optional) is answered as soon as `open_substream` returned, `resp` with the final
    /// outcome; both carry the numeric substream id
    Open { peer: PeerId, mode: OpenMode, called: Option<oneshot::Sender<Result<f64, String>>>, resp: oneshot::Sender<Result<f64, String>> },
    /// drop one held outbound substream
    DropOne { id: usize, resp: oneshot::Sender<bool> },
    /// half-close a held outbound substream by reference (the object stays): `sink` =
    /// `futures::SinkExt::close(&mut s)`, otherwise `tokio::io::AsyncWriteExt::shutdown(&mut s)`
    HalfClose { id: usize, sink: bool, resp: oneshot::Sender<Result<(), String>> },
    /// let go of the inbound substream kept after the remote's end of stream (`keep_eof`) whose opener
    /// tagged it with substream id `sid` (`None`: all of them)
    ReleaseInbound { sid: Option<usize> },
    ForceClose { peer: PeerId, resp: oneshot::Sender<Result<(), String>> },
    /// drop every substream this protocol holds (held outbound ones and inbound echo servers)
    DropHeld { resp: oneshot::Sender<usize> },
    /// stop polling the `TransportService` (events pile up in the protocol's channel)
    Pause,
    Resume,
    /// return from `UserProtocol::run`, dropping the `TransportService`
    Exit,
    /// call `open_substream` and return from `run` right away: the outcome of the open can only
    /// arrive after the protocol is gone (it needs network round trips)
    OpenExit { peer: PeerId, resp: oneshot::Sender<Result<f64, String>> },
}

pub enum AppCmd {
    Dial { peer: PeerId, resp: oneshot::Sender<Result<(), String>> },
    DialAddress { addr: Multiaddr, resp: oneshot::Sender<Result<(), String>> },
    AddKnown { peer: PeerId, addr: Multiaddr },
}

struct Proto {
    name: ProtocolName,
    obs: String,
    node: String,
    q: String,
    log: Log,
    rx: mpsc::Receiver<ProtoCmd>,
    keep_eof: bool,
}

type BoxFut = Pin<Box<dyn Future<Output = ()> + Send>>;

#[async_trait::async_trait]
impl UserProtocol for Proto {
    fn protocol(&self) -> ProtocolName {
        self.name.clone()
    }
    fn codec(&self) -> ProtocolCodec {
        ProtocolCodec::UnsignedVarint(Some(1024))
    }

    async fn run(mut self: Box<Self>, mut service: TransportService) -> litep2p::Result<()> {
        let (node, q, obs, log) = (self.node.clone(), self.q.clone(), self.obs.clone(), self.log.clone());
        let mut pending: HashMap<SubstreamId, (OpenMode, Option<oneshot::Sender<Result<f64, String>>>)> = HashMap::new();
        let mut held: Vec<(usize, Substream)> = Vec::new();
        // inbound echo servers and outbound echo clients run inside this task so that leaving
        // `run` drops every substream of the protocol
        let mut jobs: FuturesUnordered<BoxFut> = FuturesUnordered::new();
        let mut paused = false;
        let keep_eof = self.keep_eof;
        let (release_tx, release_rx) = tokio::sync::watch::channel(std::collections::HashSet::<u64>::new());
        loop {
            tokio::select! {
                ev = service.next(), if !paused => {
                    let Some(ev) = ev else {
                        log.push(json!({"e": "p_none", "o": obs, "n": node, "q": q}));
                        return Ok(());
                    };
                    match ev {
                        TransportEvent::ConnectionEstablished { peer: _, endpoint } => {
                            log.push(json!({"e": "p_est", "o": obs, "n": node, "q": q,
                                "cid": endpoint.connection_id().verif_as_usize(), "dir": if endpoint.is_listener() { "in" } else { "out" }}));
                        }
                        TransportEvent::ConnectionClosed { peer: _ } => {
                            log.push(json!({"e": "p_closed", "o": obs, "n": node, "q": q}));
                            // opens still waiting for their outcome will never get one
                            for (_, (_, resp)) in pending.drain() {
                                if let Some(r) = resp { let _ = r.send(Err("connection closed before the open completed".into())); }
                            }
                        }
                        TransportEvent::SubstreamOpened { substream, direction, .. } => match direction {
                            Direction::Inbound => {
                                log.push(json!({"e": "sub_in", "o": obs, "n": node, "q": q}));
                                let mut s = substream;
                                let lg = log.clone();
                                let (o2, n2, q2) = (obs.clone(), node.clone(), q.clone());
                                let mut release = release_rx.clone();
                                jobs.push(Box::pin(async move {
                                    // a holder tags its substream with its own substream id (first frame, 8 bytes)
                                    let mut tag = u64::MAX - 1;
                                    while let Some(Ok(b)) = s.next().await {
                                        if b.len() == 8 && tag == u64::MAX - 1 {
                                            tag = u64::from_be_bytes(b[..8].try_into().unwrap());
                                        }
                                        if s.send_framed(b.freeze()).await.is_err() {
                                            break;
                                        }
                                    }
                                    if keep_eof {
                                        // the remote closed its write side: the object is kept (read-only)
                                        lg.push(json!({"e": "sub_in_eof", "o": o2, "n": n2, "q": q2, "tag": tag}));
                                        loop {
                                            if { let r = release.borrow_and_update(); r.contains(&tag) || r.contains(&u64::MAX) } {
                                                break;
                                            }
                                            if release.changed().await.is_err() {
                                                break;
                                            }
                                        }
                                    }
                                    drop(s);
                                    lg.push(json!({"e": "sub_in_end", "o": o2, "n": n2, "q": q2}));
                                }));
                            }
                            Direction::Outbound(id) => {
                                let ent = pending.remove(&id);
                                log.push(json!({"e": "sub_out", "o": obs, "n": node, "q": q, "id": id.verif_as_usize()}));
                                match ent {
                                    Some((OpenMode::Hold, resp)) => {
                                        let mut substream = substream;
                                        // tag the substream for the remote (see `ReleaseInbound`)
                                        let _ = tokio::time::timeout(Duration::from_secs(1), substream.send_framed(Bytes::copy_from_slice(&(id.verif_as_usize() as u64).to_be_bytes()))).await;
                                        held.push((id.verif_as_usize(), substream));
                                        if let Some(r) = resp { let _ = r.send(Ok(id.verif_as_usize() as f64)); }
                                    }
                                    Some((OpenMode::Echo, resp)) => {
                                        let mut s = substream;
                                        jobs.push(Box::pin(async move {
                                            let r = async {
                                                s.send_framed(Bytes::from_static(b"x")).await.map_err(|e| format!("send: {e:?}"))?;
                                                match tokio::time::timeout(Duration::from_secs(8), s.next()).await {
                                                    Ok(Some(Ok(_))) => Ok(id.verif_as_usize() as f64),
                                                    Ok(other) => Err(format!("echo: {other:?}")),
                                                    Err(_) => Err("echo timeout".to_string()),
                                                }
                                            }.await;
                                            if let Some(resp) = resp { let _ = resp.send(r); }
                                        }));
                                    }
                                    _ => { drop(substream); }
                                }
                            }
                        },
                        TransportEvent::SubstreamOpenFailure { substream, error } => {
                            log.push(json!({"e": "sub_fail", "o": obs, "n": node, "q": q, "id": substream.verif_as_usize(), "err": format!("{error:?}")}));
                            if let Some((_, Some(resp))) = pending.remove(&substream) {
                                let _ = resp.send(Err(format!("open failure: {error:?}")));
                            }
                        }
                        TransportEvent::DialFailure { .. } => {
                            log.push(json!({"e": "p_dial_failure", "o": obs, "n": node, "q": q}));
                        }
                    }
                }
                _ = jobs.next(), if !jobs.is_empty() => {}
                cmd = self.rx.recv() => {
                    let Some(cmd) = cmd else {
                        // the driver is gone: the scenario is over
                        return Ok(());
                    };
                    match cmd {
                        ProtoCmd::Open { peer, mode, called, resp } => match service.open_substream(peer) {
                            Ok(id) => {
                                if let Some(c) = called { let _ = c.send(Ok(id.verif_as_usize() as f64)); }
                                if mode == OpenMode::Fire {
                                    pending.insert(id, (mode, None));
                                    let _ = resp.send(Ok(id.verif_as_usize() as f64));
                                } else {
                                    pending.insert(id, (mode, Some(resp)));
                                }
                            }
                            Err(e) => {
                                if let Some(c) = called { let _ = c.send(Err(format!("open_substream: {e:?}"))); }
                                let _ = resp.send(Err(format!("open_substream: {e:?}")));
                            }
                        },
                        ProtoCmd::DropOne { id, resp } => {
                            let n = held.len();
                            held.retain(|(i, _)| *i != id);
                            let _ = resp.send(held.len() < n);
                        }
                        ProtoCmd::HalfClose { id, sink, resp } => {
                            let r = match held.iter_mut().find(|(i, _)| *i == id) {
                                None => Err("no such substream".to_string()),
                                Some((_, s)) => {
                                    let fut = async {
                                        if sink {
                                            futures::SinkExt::close(s).await.map_err(|e| format!("{e:?}"))
                                        } else {
                                            tokio::io::AsyncWriteExt::shutdown(s).await.map_err(|e| format!("{e:?}"))
                                        }
                                    };
                                    tokio::time::timeout(Duration::from_secs(2), fut).await.unwrap_or(Err("timeout".into()))
                                }
                            };
                            let _ = resp.send(r);
                        }
                        ProtoCmd::ReleaseInbound { sid } => {
                            release_tx.send_modify(|g| { g.insert(sid.map(|x| x as u64).unwrap_or(u64::MAX)); });
                        }
                        ProtoCmd::ForceClose { peer, resp } => {
                            let r = service.force_close(peer).map_err(|e| format!("{e:?}"));
                            let _ = resp.send(r);
                        }
                        ProtoCmd::DropHeld { resp } => {
                            let n = held.len() + jobs.len();
                            held.clear();
                            jobs = FuturesUnordered::new();
                            let _ = resp.send(n);
                        }
                        ProtoCmd::Pause => paused = true,
                        ProtoCmd::Resume => paused = false,
                        ProtoCmd::OpenExit { peer, resp } => {
                            let r = service.open_substream(peer).map(|id| id.verif_as_usize() as f64).map_err(|e| format!("open_substream: {e:?}"));
                            drop(held);
                            drop(jobs);
                            drop(service);
                            let _ = resp.send(r);
                            log.push(json!({"e": "p_exit", "o": obs, "n": node, "q": q}));
                            return Ok(());
                        }
                        ProtoCmd::Exit => {
                            drop(held);
                            drop(jobs);
                            drop(service);
                            log.push(json!({"e": "p_exit", "o": obs, "n": node, "q": q}));
                            return Ok(());
                        }
                    }
                }
            }
        }
    }
}

pub struct Node {
    pub name: String,
    pub peer: PeerId,
    pub listen: SocketAddr,
    pub app: mpsc::Sender<AppCmd>,
    pub protos: HashMap<String, mpsc::Sender<ProtoCmd>>,
    pub exec: Arc<PerturbExecutor>,
    pub alive: bool,
    /// handle of the request-response protocol, if configured
    pub rr: Option<Arc<tokio::sync::Mutex<RequestResponseHandle>>>,
    log: Log,
}

impl Drop for Node {
    fn drop(&mut self) {
        // tasks spawned through the executor do not end with the handle: stop them explicitly
        self.exec.kill();
    }
}

impl Node {
    /// Build and start the node.  Must be called inside a tokio runtime.
    pub fn start(cfg: &NodeCfg, log: Log) -> Node {
        let exec = Arc::new(PerturbExecutor::new(cfg.seed, cfg.perturb, log.clone(), &cfg.name));
        let mut b = ConfigBuilder::new().with_keypair(Keypair::generate());
        b = match cfg.transport.as_str() {
            "ws" => b.with_websocket(WsConfig {
                listen_addresses: vec!["/ip4/127.0.0.1/tcp/0/ws".parse().unwrap()],
                reuse_port: false,
                nodelay: true,
                substream_open_timeout: cfg.substream_open_timeout,
                ..Default::default()
            }),
            // quinn's idle timeout is taken from `connection_open_timeout` (no QUIC keep-alive pings are
            // configured): 5 s lets a crashed remote be noticed well within the harness deadlines
            "quic" => b.with_quic(QuicConfig {
                listen_addresses: vec!["/ip4/127.0.0.1/udp/0/quic-v1".parse().unwrap()],
                connection_open_timeout: cfg.quic_idle,
                substream_open_timeout: cfg.substream_open_timeout,
            }),
            _ => b.with_tcp(TcpConfig {
                listen_addresses: vec!["/ip4/127.0.0.1/tcp/0".parse().unwrap()],
                reuse_port: false,
                nodelay: true,
                substream_open_timeout: cfg.substream_open_timeout,
                ..Default::default()
            }),
        };
        b = b.with_keep_alive_timeout(cfg.keep_alive).with_executor(exec.clone());
        let mut protos = HashMap::new();
        for q in &cfg.protos {
            let (tx, rx) = mpsc::channel(64);
            protos.insert(q.clone(), tx);
            b = b.with_user_protocol(Box::new(Proto {
                name: ProtocolName::from(format!("/verif/{q}")),
                obs: format!("{}.{}", cfg.name, q),
                node: cfg.name.clone(),
                q: q.clone(),
                log: log.clone(),
                rx,
                keep_eof: cfg.keep_eof,
            }));
        }
        let mut rr = None;
        if let Some((name, fallbacks)) = &cfg.rr {
            let (rc, handle) = RrConfig::new(
                ProtocolName::from(name.clone()),
                fallbacks.iter().map(|f| ProtocolName::from(f.clone())).collect(),
                1024,
                Duration::from_secs(60),
                None,
            );
            b = b.with_request_response_protocol(rc);
            rr = Some(Arc::new(tokio::sync::Mutex::new(handle)));
        }
        if let Some(iv) = cfg.ping {
            let (pc, mut ev) = ping::ConfigBuilder::new().with_ping_interval(iv).build();
            b = b.with_libp2p_ping(pc);
            tokio::spawn(async move { while ev.next().await.is_some() {} });
        }
        if cfg.identify {
            let (ic, mut ev) = identify::Config::new("/verif/1".to_string(), Some("verif".to_string()));
            b = b.with_libp2p_identify(ic);
            tokio::spawn(async move { while ev.next().await.is_some() {} });
        }
        let mut litep2p = Litep2p::new(b.build()).expect("litep2p node");
        let peer = *litep2p.local_peer_id();
        let listen = litep2p
            .listen_addresses()
            .find_map(|a| {
                let mut it = a.iter();
                match (it.next(), it.next()) {
                    (Some(Protocol::Ip4(ip)), Some(Protocol::Tcp(port))) => Some(SocketAddr::new(ip.into(), port)),
                    (Some(Protocol::Ip4(ip)), Some(Protocol::Udp(port))) => Some(SocketAddr::new(ip.into(), port)),
                    _ => None,
                }
            })
            .expect("listen address");
        let (app_tx, mut app_rx) = mpsc::channel::<AppCmd>(64);
        let (lg, name) = (log.clone(), cfg.name.clone());
        // the application loop is one of the node's tasks: perturbed and killed with the node
        exec.spawn(Box::pin(async move {
            let obs = format!("{name}.app");
            loop {
                tokio::select! {
                    ev = litep2p.next_event() => match ev {
                        None => { lg.push(json!({"e": "app_none", "o": obs, "n": name})); return; }
                        Some(Litep2pEvent::ConnectionEstablished { peer: _, endpoint }) => {
                            let port = endpoint.address().iter().find_map(|p| match p { Protocol::Tcp(x) | Protocol::Udp(x) => Some(x), _ => None });
                            lg.push(json!({"e": "app_est", "o": obs, "n": name, "cid": endpoint.connection_id().verif_as_usize(),
                                "dir": if endpoint.is_listener() { "in" } else { "out" }, "port": port.unwrap_or(0)}));
                        }
                        Some(Litep2pEvent::ConnectionClosed { peer: _, connection_id }) => {
                            lg.push(json!({"e": "app_closed", "o": obs, "n": name, "cid": connection_id.verif_as_usize()}));
                        }
                        Some(Litep2pEvent::DialFailure { address, error }) => {
                            lg.push(json!({"e": "app_dial_failure", "o": obs, "n": name, "addr": address.to_string(), "err": format!("{error:?}")}));
                        }
                        Some(Litep2pEvent::ListDialFailures { errors }) => {
                            lg.push(json!({"e": "app_dial_failure", "o": obs, "n": name, "addr": "", "err": format!("{errors:?}")}));
                        }
                    },
                    cmd = app_rx.recv() => match cmd {
                        None => return,
                        Some(AppCmd::Dial { peer, resp }) => {
                            let r = litep2p.dial(&peer).await.map_err(|e| format!("{e:?}"));
                            let _ = resp.send(r);
                        }
                        Some(AppCmd::DialAddress { addr, resp }) => {
                            let r = litep2p.dial_address(addr).await.map_err(|e| format!("{e:?}"));
                            let _ = resp.send(r);
                        }
                        Some(AppCmd::AddKnown { peer, addr }) => {
                            litep2p.add_known_address(peer, std::iter::once(addr));
                        }
                    }
                }
            }
        }));
        Node { name: cfg.name.clone(), peer, listen, app: app_tx, protos, exec, alive: true, rr, log }
    }

    /// Crash the node: every task (application loop, protocols, connection tasks, transport)
    /// is aborted, all sockets close, nothing more is recorded for it.
    pub fn kill(&mut self) {
        self.alive = false;
        self.exec.kill();
    }

    pub async fn dial_address(&self, addr: Multiaddr) -> Result<(), String> {
        let (tx, rx) = oneshot::channel();
        self.app.send(AppCmd::DialAddress { addr, resp: tx }).await.map_err(|_| "app gone".to_string())?;
        rx.await.map_err(|_| "app gone".to_string())?
    }

    pub async fn dial(&self, peer: PeerId) -> Result<(), String> {
        let (tx, rx) = oneshot::channel();
        self.app.send(AppCmd::Dial { peer, resp: tx }).await.map_err(|_| "app gone".to_string())?;
        rx.await.map_err(|_| "app gone".to_string())?
    }

    pub async fn open(&self, q: &str, peer: PeerId, mode: OpenMode, wait: Duration) -> Result<f64, String> {
        let (tx, rx) = oneshot::channel();
        let p = self.protos.get(q).ok_or("no such protocol")?;
        p.send(ProtoCmd::Open { peer, mode, called: None, resp: tx }).await.map_err(|_| "protocol gone".to_string())?;
        match tokio::time::timeout(wait, rx).await {
            Ok(Ok(r)) => r,
            Ok(Err(_)) => Err("protocol gone".into()),
            Err(_) => Err("no answer".into()),
        }
    }

    /// Two-phase open: returns (receiver for "the call returned", receiver for the final outcome).
    pub async fn open2(&self, q: &str, peer: PeerId, mode: OpenMode) -> Option<(oneshot::Receiver<Result<f64, String>>, oneshot::Receiver<Result<f64, String>>)> {
        let (ctx, crx) = oneshot::channel();
        let (tx, rx) = oneshot::channel();
        let p = self.protos.get(q)?;
        p.send(ProtoCmd::Open { peer, mode, called: Some(ctx), resp: tx }).await.ok()?;
        Some((crx, rx))
    }

    pub async fn drop_one(&self, q: &str, id: usize) -> bool {
        let (tx, rx) = oneshot::channel();
        let Some(p) = self.protos.get(q) else { return false };
        if p.send(ProtoCmd::DropOne { id, resp: tx }).await.is_err() {
            return false;
        }
        rx.await.unwrap_or(false)
    }

    pub async fn half_close(&self, q: &str, id: usize, sink: bool) -> Result<(), String> {
        let (tx, rx) = oneshot::channel();
        let p = self.protos.get(q).ok_or("no such protocol")?;
        p.send(ProtoCmd::HalfClose { id, sink, resp: tx }).await.map_err(|_| "protocol gone".to_string())?;
        rx.await.map_err(|_| "protocol gone".to_string())?
    }

    pub async fn force_close(&self, q: &str, peer: PeerId) -> Result<(), String> {
        let (tx, rx) = oneshot::channel();
        let p = self.protos.get(q).ok_or("no such protocol")?;
        p.send(ProtoCmd::ForceClose { peer, resp: tx }).await.map_err(|_| "protocol gone".to_string())?;
        rx.await.map_err(|_| "protocol gone".to_string())?
    }

    pub async fn drop_held(&self, q: &str) -> usize {
        let (tx, rx) = oneshot::channel();
        let Some(p) = self.protos.get(q) else { return 0 };
        if p.send(ProtoCmd::DropHeld { resp: tx }).await.is_err() {
            return 0;
        }
        rx.await.unwrap_or(0)
    }

    pub async fn cmd(&self, q: &str, c: ProtoCmd) -> bool {
        match self.protos.get(q) {
            Some(p) => p.send(c).await.is_ok(),
            None => false,
        }
    }

    /// Multiaddress under which a node reaches `target_peer` at socket address `via` (a proxy in front
    /// of the target for tcp / ws, the target itself for quic).
    pub fn addr_via(transport: &str, via: SocketAddr, target_peer: PeerId) -> Multiaddr {
        let ip = Multiaddr::empty().with(Protocol::Ip4(match via.ip() {
            std::net::IpAddr::V4(x) => x,
            _ => unreachable!(),
        }));
        match transport {
            "ws" => ip.with(Protocol::Tcp(via.port())).with(Protocol::Ws(std::borrow::Cow::Borrowed("/"))),
            "quic" => ip.with(Protocol::Udp(via.port())).with(Protocol::QuicV1),
            _ => ip.with(Protocol::Tcp(via.port())),
        }
        .with(Protocol::P2p(target_peer.into()))
    }
}
