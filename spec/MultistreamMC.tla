----------------------------- MODULE MultistreamMC -----------------------------
(* Bounded instance of MultistreamImpl for TLC: all dialer lists (no repetition) of  *)
(* length <= MaxList over Names, all listener subsets, both versions, all payload    *)
(* pairs from Pays; exhaustive check of the Prop layer and behaviour generation.     *)
EXTENDS MultistreamImpl, Json

CONSTANTS Names, MaxList, Pays, Lazies

Lists(n) == UNION {{q \in [1..k -> Names] : \A i, j \in 1..k : i # j => q[i] # q[j]} : k \in 0..n}
Cfgs == [dlist : Lists(MaxList), lset : SUBSET Names, lazy : Lazies, dpay : Pays, lpay : Pays]

PaysDef == {<<>>, <<2, 7>>}
PaysDef3 == {<<>>, <<1>>, <<2, 7>>, <<0, 3>>}

Init == \E c \in Cfgs : ImplInit(c)
Spec == Init /\ [][ImplNext]_vars
FairSpec == Spec /\ WF_vars(Start \/ (\E s \in Sides : SideStep(s)))

\* generation: one io script per transition of the bounded graph
Emit == PrintT(<<"B", ToJson([dlist |-> cfg.dlist, lset |-> cfg.lset, lazy |-> cfg.lazy,
                               dpay |-> cfg.dpay, lpay |-> cfg.lpay, long |-> Long, ops |-> hist'])>>)
=============================================================================
