//! One scenario = one small network of real litep2p nodes over loopback TCP, driven through the
//! public API only.  Every command a user task gives and every event it observes is appended to
//! one log under one mutex, commands *before* they are given and events *after* they were
//! observed, so the order of the log is consistent with causality; each line also carries the
//! per-observer sequence number.
use crate::{
    exec::NodeExec,
    proxy::{Ctl, Proxy},
};
use futures::{stream::FuturesUnordered, StreamExt};
use litep2p::{
    config::ConfigBuilder,
    crypto::ed25519::Keypair,
    protocol::request_response::{
        ConfigBuilder as RrBuilder, DialOptions, RejectReason, RequestResponseError, RequestResponseEvent,
        RequestResponseHandle,
    },
    transport::{
        quic::config::Config as QuicConfig, tcp::config::Config as TcpConfig, websocket::config::Config as WsConfig,
        ConnectionLimitsConfig,
    },
    types::{protocol::ProtocolName, RequestId},
    Litep2p, Litep2pEvent, PeerId,
};
use multiaddr::{Multiaddr, Protocol};
use serde::Deserialize;
use serde_json::{json, Value};
use std::{
    collections::{HashMap, HashSet},
    sync::{
        atomic::{AtomicBool, Ordering},
        Arc, Mutex,
    },
    time::{Duration, Instant},
};
use tokio::sync::{mpsc, oneshot, Notify};

// ------------------------------------------------------------------------------- scenario

#[derive(Deserialize, Clone, Debug)]
pub struct Scenario {
    pub id: u64,
    pub seed: u64,
    /// "tcp" (default) | "ws" | "quic"
    #[serde(default)]
    pub transport: String,
    #[serde(default)]
    pub src: String,
    pub timeout_ms: u64,
    pub conn_ms: u64,
    pub sub_ms: u64,
    pub max_size: usize,
    #[serde(default = "d_keep")]
    pub keep_alive_ms: u64,
    #[serde(default)]
    pub perturb: u8,
    pub nodes: Vec<NodeSpec>,
    #[serde(default)]
    pub links: Vec<LinkSpec>,
    pub steps: Vec<Step>,
    #[serde(default)]
    pub epilogue: String,
    #[serde(default = "d_linger")]
    pub linger_ms: u64,
    /// time bound for one request when the script knows better than the general formula (e.g. every
    /// request goes to an already connected peer, so no connection-open timeout is involved)
    #[serde(default)]
    pub bound_ms: Option<u64>,
    /// judge the C04 clause lifted to the connection as well: a response whose send was reported complete
    /// must arrive (only for scripts without injected faults, see ReqResp!MonFailEv)
    #[serde(default)]
    pub c04: bool,
}
fn d_keep() -> u64 {
    5000
}
fn d_linger() -> u64 {
    150
}

#[derive(Deserialize, Clone, Debug, Default)]
pub struct NodeSpec {
    /// "node" (a real litep2p node) or "ghost" (a peer id nobody runs)
    #[serde(default)]
    pub kind: String,
    #[serde(default)]
    pub maxc: Option<usize>,
    #[serde(default)]
    pub max_out: Option<usize>,
    #[serde(default)]
    pub max_in: Option<usize>,
    /// protocol name suffix; nodes with different suffixes do not share a protocol
    #[serde(default)]
    pub proto: Option<String>,
    /// keep-alive timeout of this node (default: the scenario's)
    #[serde(default)]
    pub keep_alive_ms: Option<u64>,
}

#[derive(Deserialize, Clone, Debug)]
pub struct LinkSpec {
    pub from: usize,
    pub to: usize,
    /// direct | proxy | closed | blackhole
    pub via: String,
    #[serde(default)]
    pub cut0_dir: Option<String>,
    #[serde(default)]
    pub cut0_after: Option<i64>,
    /// the address is not given to litep2p at start (the node has no known address for the peer); a
    /// `connect` / `dial` step of the application (Litep2p::dial_address) makes it known later
    #[serde(default)]
    pub late: bool,
}

#[derive(Deserialize, Clone, Debug)]
pub struct ReqSpec {
    pub k: u32,
    pub to: usize,
    pub size: usize,
    #[serde(default)]
    pub dial: bool,
    #[serde(default)]
    pub pol: String,
    #[serde(default)]
    pub rsize: usize,
    #[serde(default)]
    pub rdelay: u64,
    #[serde(default)]
    pub cut_after: i64,
    #[serde(default, rename = "try")]
    pub try_: bool,
    /// the responder answers with send_response_with_feedback and records what the feedback says
    #[serde(default)]
    pub fb: bool,
}

#[derive(Deserialize, Clone, Debug)]
pub struct Step {
    pub a: String,
    #[serde(default)]
    pub t: u64,
    #[serde(default)]
    pub o: usize,
    #[serde(default)]
    pub from: usize,
    #[serde(default)]
    pub to: usize,
    #[serde(default)]
    pub k: u32,
    #[serde(default)]
    pub reqs: Vec<ReqSpec>,
    #[serde(default)]
    pub dir: String,
    #[serde(default)]
    pub after: i64,
}

// ------------------------------------------------------------------------------- log

pub struct NetLog {
    inner: Mutex<LogInner>,
    fault: String,
}
struct LogInner {
    lines: Vec<String>,
    seqs: HashMap<(usize, &'static str), u64>,
    fault_done: bool,
    sealed: bool,
}

impl NetLog {
    pub fn new() -> Arc<Self> {
        Arc::new(NetLog {
            inner: Mutex::new(LogInner { lines: Vec::new(), seqs: HashMap::new(), fault_done: false, sealed: false }),
            fault: std::env::var("VERIF_FAULT").unwrap_or_default(),
        })
    }
    /// append one event; `obs` names the observer task kind ("u" user task, "m" manager task,
    /// "d" director, "x" executor)
    pub fn ev(&self, node: usize, obs: &'static str, mut v: Value) {
        let mut g = self.inner.lock().unwrap();
        if g.sealed {
            return;
        }
        if v["e"] == "quiesce" {
            // nothing is recorded after the verdict point of the network
            g.sealed = true;
        }
        // harness-level fault injection (only used to test that the check notices misbehaviour)
        if !self.fault.is_empty() && !g.fault_done {
            let e = v["e"].as_str().unwrap_or("").to_string();
            match (self.fault.as_str(), e.as_str()) {
                ("drop_terminal", "fail") | ("drop_terminal", "resp") => {
                    g.fault_done = true;
                    return;
                }
                ("dup_terminal", "resp") | ("dup_terminal", "fail") => {
                    g.fault_done = true;
                    let s = g.seqs.entry((node, obs)).or_insert(0);
                    *s += 1;
                    let mut w = v.clone();
                    w["s"] = json!(*s);
                    w["ob"] = json!(format!("{obs}{node}"));
                    g.lines.push(w.to_string());
                }
                ("corrupt_resp", "resp") => {
                    g.fault_done = true;
                    v["h"] = json!("deadbeef0000");
                }
                ("recv_twice", "recv") => {
                    g.fault_done = true;
                    let s = g.seqs.entry((node, obs)).or_insert(0);
                    *s += 1;
                    let mut w = v.clone();
                    w["s"] = json!(*s);
                    w["ob"] = json!(format!("{obs}{node}"));
                    w["irid"] = json!(v["irid"].as_i64().unwrap_or(0) + 100000);
                    g.lines.push(w.to_string());
                }
                ("hide_answer", "answer") | ("hide_answer", "reject") => {
                    g.fault_done = true;
                    return;
                }
                _ => {}
            }
        }
        let s = g.seqs.entry((node, obs)).or_insert(0);
        *s += 1;
        v["s"] = json!(*s);
        v["ob"] = json!(format!("{obs}{node}"));
        g.lines.push(v.to_string());
    }
    pub fn take(&self) -> Vec<String> {
        std::mem::take(&mut self.inner.lock().unwrap().lines)
    }
}

// ------------------------------------------------------------------------------- payloads

const HDR: usize = 19;

fn pad(k: u32, i: usize) -> u8 {
    (k as usize).wrapping_mul(131).wrapping_add(i.wrapping_mul(7)).wrapping_add(i >> 8) as u8
}

pub fn pol_code(p: &str) -> u8 {
    match p {
        "answer" | "" => 0,
        "reject" => 1,
        "stall" => 2,
        "kill" => 3,
        "cut" => 4,
        "cutnow" => 5,
        _ => 0,
    }
}

/// request payload: tagged with its nonce and the responder's script when it is long enough
pub fn build_request(r: &ReqSpec) -> Vec<u8> {
    let mut v = Vec::with_capacity(r.size);
    if r.size >= HDR {
        v.extend_from_slice(b"VQ");
        v.extend_from_slice(&r.k.to_le_bytes());
        v.push(pol_code(&r.pol) | if r.fb { 0x80 } else { 0 });
        v.extend_from_slice(&(r.rsize as u32).to_le_bytes());
        v.extend_from_slice(&(r.rdelay as u32).to_le_bytes());
        v.extend_from_slice(&(r.cut_after as i32).to_le_bytes());
    }
    while v.len() < r.size {
        v.push(pad(r.k, v.len()));
    }
    v
}

struct Parsed {
    k: i64,
    fb: bool,
    pol: u8,
    rsize: usize,
    rdelay: u64,
    cut_after: i64,
}

fn parse_request(b: &[u8]) -> Parsed {
    if b.len() >= HDR && &b[0..2] == b"VQ" {
        let u32at = |i: usize| u32::from_le_bytes([b[i], b[i + 1], b[i + 2], b[i + 3]]);
        Parsed {
            k: u32at(2) as i64,
            fb: b[6] & 0x80 != 0,
            pol: b[6] & 0x7f,
            rsize: u32at(7) as usize,
            rdelay: u32at(11) as u64,
            cut_after: u32at(15) as i32 as i64,
        }
    } else {
        Parsed { k: -1, fb: false, pol: 0, rsize: 12, rdelay: 0, cut_after: 0 }
    }
}

/// response payload: tagged with the request nonce (or the inbound id for untagged requests)
fn build_response(tag: u32, node: usize, size: usize) -> Vec<u8> {
    let mut v = Vec::with_capacity(size);
    if size >= 8 {
        v.extend_from_slice(b"VS");
        v.extend_from_slice(&tag.to_le_bytes());
        v.extend_from_slice(&(node as u16).to_le_bytes());
    }
    while v.len() < size {
        v.push(pad(tag ^ 0x5555, v.len()));
    }
    v
}

pub fn hash(b: &[u8]) -> String {
    let h = vharness::sha256(b);
    format!("{}:{}", hex::encode(&h[..6]), b.len())
}

fn rid_num(r: &RequestId) -> i64 {
    let s = format!("{r:?}");
    s.trim_start_matches("RequestId(").trim_end_matches(')').parse().unwrap_or(-1)
}

fn err_kind(e: &RequestResponseError) -> (String, String) {
    let k = match e {
        RequestResponseError::Rejected(r) => match r {
            RejectReason::SubstreamOpenError(_) => "Rejected.SubstreamOpenError".to_string(),
            RejectReason::ConnectionClosed => "Rejected.ConnectionClosed".to_string(),
            RejectReason::SubstreamClosed => "Rejected.SubstreamClosed".to_string(),
            RejectReason::DialFailed(Some(i)) => format!("Rejected.DialFailed.{i:?}"),
            RejectReason::DialFailed(None) => "Rejected.DialFailed".to_string(),
        },
        RequestResponseError::Canceled => "Canceled".into(),
        RequestResponseError::Timeout => "Timeout".into(),
        RequestResponseError::NotConnected => "NotConnected".into(),
        RequestResponseError::TooLargePayload => "TooLargePayload".into(),
        RequestResponseError::UnsupportedProtocol => "UnsupportedProtocol".into(),
    };
    let k: String = k.chars().filter(|c| c.is_ascii_alphanumeric() || *c == '.').collect();
    let d: String = format!("{e:?}").chars().filter(|c| *c != '"' && *c != '\\').take(160).collect();
    (k, d)
}

// ------------------------------------------------------------------------------- network

enum ObsCmd {
    Burst(Vec<ReqSpec>, oneshot::Sender<()>),
    Cancel(u32, oneshot::Sender<()>),
    Die,
}
enum MgrCmd {
    Dial(Multiaddr),
}

#[derive(Default)]
struct Ledger {
    /// requests handed over and neither settled nor cancelled: nonce -> issuing node
    open: HashMap<u32, usize>,
    issuers: HashSet<usize>,
    counts: HashMap<&'static str, u64>,
    fail_kinds: HashMap<String, u64>,
}

pub struct Net {
    sc: Scenario,
    log: Arc<NetLog>,
    execs: Vec<Option<Arc<NodeExec>>>,
    peer_ids: Vec<PeerId>,
    by_peer: HashMap<PeerId, usize>,
    proxies: HashMap<(usize, usize), Proxy>,
    ledger: Mutex<Ledger>,
    settle: Notify,
    dead: Vec<AtomicBool>,
    connected: Mutex<HashSet<(usize, usize)>>,
}

impl Net {
    fn is_dead(&self, node: usize) -> bool {
        self.dead[node - 1].load(Ordering::SeqCst)
    }
    /// the caller logs the kill line first
    fn kill(&self, node: usize) {
        self.dead[node - 1].store(true, Ordering::SeqCst);
        if let Some(e) = &self.execs[node - 1] {
            e.kill();
        }
        let mut g = self.ledger.lock().unwrap();
        g.open.retain(|_, n| *n != node);
        *g.counts.entry("kills").or_insert(0) += 1;
        drop(g);
        self.settle.notify_waiters();
    }
    fn count(&self, what: &'static str) {
        *self.ledger.lock().unwrap().counts.entry(what).or_insert(0) += 1;
    }
    fn ctl(&self, from: usize, to: usize) -> Option<Arc<Ctl>> {
        self.proxies.get(&(from, to)).map(|p| p.ctl.clone())
    }
}

pub struct NetResult {
    pub lines: Vec<String>,
    pub discard: bool,
    pub counts: HashMap<String, u64>,
    pub fail_kinds: HashMap<String, u64>,
    pub wall_ms: u64,
    pub setup_error: Option<String>,
}

/// a port nobody listens on (bind, read the number, close)
async fn closed_port(quic: bool) -> u16 {
    if quic {
        let l = tokio::net::UdpSocket::bind("127.0.0.1:0").await.expect("bind");
        return l.local_addr().unwrap().port();
    }
    let l = tokio::net::TcpListener::bind("127.0.0.1:0").await.expect("bind");
    l.local_addr().unwrap().port()
}

fn addr(transport: &str, port: u16, peer: PeerId) -> Multiaddr {
    let ip = Multiaddr::empty().with(Protocol::Ip4(std::net::Ipv4Addr::LOCALHOST));
    match transport {
        "ws" => ip.with(Protocol::Tcp(port)).with(Protocol::Ws(std::borrow::Cow::Borrowed("/"))),
        "quic" => ip.with(Protocol::Udp(port)).with(Protocol::QuicV1),
        _ => ip.with(Protocol::Tcp(port)),
    }
    .with(Protocol::P2p(peer.into()))
}

pub async fn run_network(sc: Scenario) -> NetResult {
    let t0 = Instant::now();
    let log = NetLog::new();
    let n = sc.nodes.len();
    let maxc: Vec<i64> = sc.nodes.iter().map(|s| s.maxc.map(|x| x as i64).unwrap_or(-1)).collect();
    let tr: &str = match sc.transport.as_str() {
        "ws" => "ws",
        "quic" => "quic",
        _ => "tcp",
    };
    let quic = tr == "quic";
    let mut silent_udp: Vec<tokio::net::UdpSocket> = Vec::new();
    log.ev(0, "d", json!({"e": "reset", "id": sc.id, "seed": sc.seed, "src": sc.src, "maxc": maxc, "transport": tr, "c04": sc.c04,
        "nodes": sc.nodes.iter().map(|s| json!({"kind": if s.kind.is_empty() { "node" } else { s.kind.as_str() },
            "max_out": s.max_out.map(|x| x as i64).unwrap_or(-1), "max_in": s.max_in.map(|x| x as i64).unwrap_or(-1)})).collect::<Vec<_>>(),
        "links": sc.links.iter().map(|l| json!({"from": l.from, "to": l.to, "via": l.via})).collect::<Vec<_>>(),
        "timeout_ms": sc.timeout_ms, "conn_ms": sc.conn_ms, "sub_ms": sc.sub_ms, "max_size": sc.max_size,
        "perturb": sc.perturb}));

    // ---- nodes
    let mut execs = Vec::new();
    let mut peer_ids = Vec::new();
    let mut ports = Vec::new();
    let mut litep2ps: Vec<Option<Litep2p>> = Vec::new();
    let mut handles: Vec<Option<RequestResponseHandle>> = Vec::new();
    for (i, ns) in sc.nodes.iter().enumerate() {
        let node = i + 1;
        if ns.kind == "ghost" {
            execs.push(None);
            peer_ids.push(PeerId::random());
            ports.push(0u16);
            litep2ps.push(None);
            handles.push(None);
            continue;
        }
        let exec = NodeExec::new(sc.seed.wrapping_mul(1000).wrapping_add(node as u64), sc.perturb, log.clone(), node);
        let pname = format!("/verif/rr/{}", ns.proto.as_deref().unwrap_or("1"));
        let mut b = RrBuilder::new(ProtocolName::from(pname))
            .with_max_size(sc.max_size)
            .with_timeout(Duration::from_millis(sc.timeout_ms));
        if let Some(m) = ns.maxc {
            b = b.with_max_concurrent_inbound_requests(m);
        }
        let (rr, handle) = b.build();
        let mut cb = ConfigBuilder::new().with_keypair(Keypair::generate());
        cb = match tr {
            "ws" => cb.with_websocket(WsConfig {
                listen_addresses: vec!["/ip4/127.0.0.1/tcp/0/ws".parse().unwrap()],
                reuse_port: false,
                nodelay: true,
                connection_open_timeout: Duration::from_millis(sc.conn_ms),
                substream_open_timeout: Duration::from_millis(sc.sub_ms),
                ..Default::default()
            }),
            // quinn takes its handshake / idle timeout from `connection_open_timeout`
            "quic" => cb.with_quic(QuicConfig {
                listen_addresses: vec!["/ip4/127.0.0.1/udp/0/quic-v1".parse().unwrap()],
                connection_open_timeout: Duration::from_millis(sc.conn_ms),
                substream_open_timeout: Duration::from_millis(sc.sub_ms),
            }),
            _ => cb.with_tcp(TcpConfig {
                listen_addresses: vec!["/ip4/127.0.0.1/tcp/0".parse().unwrap()],
                reuse_port: false,
                nodelay: true,
                connection_open_timeout: Duration::from_millis(sc.conn_ms),
                substream_open_timeout: Duration::from_millis(sc.sub_ms),
                ..Default::default()
            }),
        };
        let mut cb = cb
            .with_request_response_protocol(rr)
            .with_executor(exec.clone())
            .with_keep_alive_timeout(Duration::from_millis(ns.keep_alive_ms.unwrap_or(sc.keep_alive_ms)));
        if ns.max_out.is_some() || ns.max_in.is_some() {
            cb = cb.with_connection_limits(
                ConnectionLimitsConfig::default()
                    .max_outgoing_connections(ns.max_out)
                    .max_incoming_connections(ns.max_in),
            );
        }
        let l = match Litep2p::new(cb.build()) {
            Ok(l) => l,
            Err(e) => {
                for e in execs.iter().flatten() {
                    let e: &Arc<NodeExec> = e;
                    e.kill();
                }
                return NetResult { lines: vec![], discard: true, counts: HashMap::new(), fail_kinds: HashMap::new(),
                    wall_ms: 0, setup_error: Some(format!("Litep2p::new: {e:?}")) };
            }
        };
        let port = l
            .listen_addresses()
            .find_map(|a| a.iter().find_map(|p| match p {
                Protocol::Tcp(p) | Protocol::Udp(p) => Some(p),
                _ => None,
            }))
            .unwrap_or(0);
        peer_ids.push(*l.local_peer_id());
        ports.push(port);
        execs.push(Some(exec));
        litep2ps.push(Some(l));
        handles.push(Some(handle));
    }
    let by_peer: HashMap<PeerId, usize> = peer_ids.iter().enumerate().map(|(i, p)| (*p, i + 1)).collect();

    // ---- links: which address does `from` know for `to`
    let mut proxies = HashMap::new();
    let mut known: HashMap<(usize, usize), Multiaddr> = HashMap::new();
    for l in &sc.links {
        if l.from == 0 || l.to == 0 || l.from > n || l.to > n || sc.nodes[l.from - 1].kind == "ghost" {
            continue;
        }
        let target_is_ghost = sc.nodes[l.to - 1].kind == "ghost";
        let port = match l.via.as_str() {
            "direct" if !target_is_ghost => ports[l.to - 1],
            // QUIC runs over UDP: no byte proxy; a black hole is a bound socket that never answers
            "blackhole" if quic => match tokio::net::UdpSocket::bind("127.0.0.1:0").await {
                Ok(u) => {
                    let p = u.local_addr().map(|a| a.port()).unwrap_or(0);
                    silent_udp.push(u);
                    p
                }
                Err(_) => closed_port(true).await,
            },
            "proxy" if quic && !target_is_ghost => ports[l.to - 1],
            "proxy" | "blackhole" if !quic && (!target_is_ghost || l.via == "blackhole") => {
                match Proxy::start(ports[l.to - 1], l.via == "blackhole").await {
                    Ok(p) => {
                        if let (Some(d), Some(a)) = (&l.cut0_dir, l.cut0_after) {
                            p.ctl.arm(d == "up", a);
                        }
                        let port = p.port;
                        proxies.insert((l.from, l.to), p);
                        port
                    }
                    Err(_) => closed_port(false).await,
                }
            }
            _ => closed_port(quic).await,
        };
        let a = addr(tr, port, peer_ids[l.to - 1]);
        if let (false, Some(lp)) = (l.late, litep2ps[l.from - 1].as_mut()) {
            lp.add_known_address(peer_ids[l.to - 1], std::iter::once(a.clone()));
        }
        known.insert((l.from, l.to), a);
    }

    let net = Arc::new(Net {
        sc: sc.clone(),
        log: log.clone(),
        execs,
        peer_ids,
        by_peer,
        proxies,
        ledger: Mutex::new(Ledger::default()),
        settle: Notify::new(),
        dead: (0..n).map(|_| AtomicBool::new(false)).collect(),
        connected: Mutex::new(HashSet::new()),
    });

    // ---- manager tasks (own the Litep2p objects) and user tasks (own the handles)
    let mut mgr_tx: Vec<Option<mpsc::UnboundedSender<MgrCmd>>> = Vec::new();
    let mut obs_tx: Vec<Option<mpsc::UnboundedSender<ObsCmd>>> = Vec::new();
    let mut obs_join = Vec::new();
    for i in 0..n {
        let node = i + 1;
        let (Some(lp), Some(h)) = (litep2ps[i].take(), handles[i].take()) else {
            mgr_tx.push(None);
            obs_tx.push(None);
            continue;
        };
        let (mtx, mrx) = mpsc::unbounded_channel();
        let (otx, orx) = mpsc::unbounded_channel();
        let exec = net.execs[i].clone().unwrap();
        exec.spawn("manager", Box::pin(manager_task(net.clone(), node, lp, mrx)));
        obs_join.push(tokio::spawn(user_task_guard(net.clone(), node, h, orx)));
        mgr_tx.push(Some(mtx));
        obs_tx.push(Some(otx));
    }

    // ---- director
    let mut max_rdelay = 0u64;
    let mut frozen_nodes: HashSet<usize> = HashSet::new();
    let mut held_protos: HashSet<usize> = HashSet::new();
    let mut held_mgrs: HashSet<usize> = HashSet::new();
    for st in &sc.steps {
        if st.t > 0 {
            tokio::time::sleep(Duration::from_millis(st.t)).await;
        }
        match st.a.as_str() {
            "connect" => {
                if let (Some(Some(tx)), Some(a)) = (mgr_tx.get(st.from.wrapping_sub(1)), known.get(&(st.from, st.to))) {
                    let _ = tx.send(MgrCmd::Dial(a.clone()));
                    let until = Instant::now() + Duration::from_millis(3000);
                    loop {
                        {
                            let c = net.connected.lock().unwrap();
                            if c.contains(&(st.from, st.to)) && c.contains(&(st.to, st.from)) {
                                break;
                            }
                        }
                        if Instant::now() > until {
                            break;
                        }
                        tokio::time::sleep(Duration::from_millis(3)).await;
                    }
                    net.count("connect_steps");
                }
            }
            // the application dials without waiting for the outcome
            "dial" => {
                if let (Some(Some(tx)), Some(a)) = (mgr_tx.get(st.from.wrapping_sub(1)), known.get(&(st.from, st.to))) {
                    let _ = tx.send(MgrCmd::Dial(a.clone()));
                    net.count("dial_steps");
                }
            }
            "burst" => {
                for r in &st.reqs {
                    max_rdelay = max_rdelay.max(r.rdelay);
                }
                if let Some(Some(tx)) = obs_tx.get(st.o.wrapping_sub(1)) {
                    let (a, b) = oneshot::channel();
                    if tx.send(ObsCmd::Burst(st.reqs.clone(), a)).is_ok() {
                        let _ = tokio::time::timeout(Duration::from_secs(20), b).await;
                    }
                }
            }
            "cancel" => {
                if let Some(Some(tx)) = obs_tx.get(st.o.wrapping_sub(1)) {
                    let (a, b) = oneshot::channel();
                    if tx.send(ObsCmd::Cancel(st.k, a)).is_ok() {
                        let _ = tokio::time::timeout(Duration::from_secs(20), b).await;
                    }
                }
            }
            "kill" => {
                if st.o >= 1 && st.o <= n && net.execs[st.o - 1].is_some() && !net.is_dead(st.o) {
                    log.ev(st.o, "d", json!({"e": "kill", "o": st.o, "by": "script"}));
                    net.kill(st.o);
                    if let Some(Some(tx)) = obs_tx.get(st.o - 1) {
                        let _ = tx.send(ObsCmd::Die);
                    }
                }
            }
            // hold / release only the application loop of a node (Litep2p::next_event = the TransportManager)
            "freeze_mgr" | "thaw_mgr" => {
                if st.o >= 1 && st.o <= n {
                    if let Some(e) = &net.execs[st.o - 1] {
                        log.ev(st.o, "d", json!({"e": "cut", "from": st.o, "to": st.o, "dir": st.a, "after": 0}));
                        e.freeze_mgr(st.a == "freeze_mgr");
                        net.count("mgr_hold_steps");
                        if st.a == "freeze_mgr" {
                            held_mgrs.insert(st.o);
                        } else {
                            held_mgrs.remove(&st.o);
                        }
                    }
                }
            }
            // hold / release only the protocol event loop of a node
            "freeze_proto" | "thaw_proto" => {
                if st.o >= 1 && st.o <= n {
                    if let Some(e) = &net.execs[st.o - 1] {
                        log.ev(st.o, "d", json!({"e": "cut", "from": st.o, "to": st.o, "dir": st.a, "after": 0}));
                        e.freeze_proto(st.a == "freeze_proto");
                        net.count("proto_hold_steps");
                        if st.a == "freeze_proto" {
                            held_protos.insert(st.o);
                        } else {
                            held_protos.remove(&st.o);
                        }
                    }
                }
            }
            "freeze_node" | "thaw_node" => {
                if st.o >= 1 && st.o <= n {
                    if let Some(e) = &net.execs[st.o - 1] {
                        log.ev(st.o, "d", json!({"e": "cut", "from": st.o, "to": st.o, "dir": st.a, "after": 0}));
                        e.freeze(st.a == "freeze_node");
                        if st.a == "freeze_node" {
                            frozen_nodes.insert(st.o);
                        } else {
                            frozen_nodes.remove(&st.o);
                        }
                        net.count("node_freeze_steps");
                    }
                }
            }
            "freeze" | "thaw" => {
                if let Some(p) = net.proxies.get(&(st.from, st.to)) {
                    log.ev(0, "d", json!({"e": "cut", "from": st.from, "to": st.to, "dir": st.a, "after": st.after}));
                    if st.a == "freeze" && st.after > 0 {
                        p.ctl.arm_freeze(st.dir != "down", st.after);
                    } else {
                        p.ctl.freeze(st.a == "freeze");
                    }
                    net.count("freeze_steps");
                }
            }
            "cut" => {
                if let Some(p) = net.proxies.get(&(st.from, st.to)) {
                    log.ev(0, "d", json!({"e": "cut", "from": st.from, "to": st.to, "dir": st.dir, "after": st.after}));
                    if st.after <= 0 {
                        p.cut_now();
                    } else {
                        p.ctl.arm(st.dir != "down", st.after);
                    }
                    net.count("cut_steps");
                }
            }
            _ => {}
        }
    }

    // a protocol loop still held at the end of the script is released (the hold is a scheduling delay, not a fault)
    for node in held_protos {
        if let Some(e) = &net.execs[node - 1] {
            e.freeze_proto(false);
        }
    }
    for node in held_mgrs {
        if let Some(e) = &net.execs[node - 1] {
            e.freeze_mgr(false);
        }
    }
    // a node still frozen at the end of the script is a dropped node: whatever it asked for itself carries
    // no obligation (its protocol loop was never scheduled again)
    for node in frozen_nodes {
        if !net.is_dead(node) {
            log.ev(node, "d", json!({"e": "kill", "o": node, "by": "frozen"}));
            net.kill(node);
            if let Some(Some(tx)) = obs_tx.get(node - 1) {
                let _ = tx.send(ObsCmd::Die);
            }
        }
    }
    // ---- wait until every request handed over has its terminal event, or the deadline
    // B bounds the time the code may legitimately take for one request (dial + substream open +
    // request write timeout + response timeout); the deadline allows three times that.
    // (quinn's handshake / idle timeout is at least 3 s whatever is configured)
    let b_ms = sc.bound_ms.unwrap_or(sc.conn_ms + sc.sub_ms + 2 * sc.timeout_ms + max_rdelay + if quic { 3000 } else { 0 });
    let deadline = Instant::now() + Duration::from_millis(3 * b_ms + 1000);
    let mut timed_out = false;
    loop {
        let notified = net.settle.notified();
        tokio::pin!(notified);
        notified.as_mut().enable();
        if net.ledger.lock().unwrap().open.is_empty() {
            break;
        }
        let now = Instant::now();
        if now >= deadline {
            timed_out = true;
            break;
        }
        let _ = tokio::time::timeout(deadline - now, notified).await;
    }
    // epilogue: tear connections down while the requesters still watch (a late second terminal
    // event - e.g. a failure after the response - would show up here)
    // (not when requests are still without outcome at the deadline: closing connections now would hand them a
    // ConnectionClosed failure and hide the silence that is about to be judged)
    if timed_out {
    } else if sc.epilogue == "kill" {
        let issuers = net.ledger.lock().unwrap().issuers.clone();
        for node in 1..=n {
            if net.execs[node - 1].is_some() && !issuers.contains(&node) && !net.is_dead(node) {
                log.ev(node, "d", json!({"e": "kill", "o": node, "by": "epilogue"}));
                net.kill(node);
                if let Some(Some(tx)) = obs_tx.get(node - 1) {
                    let _ = tx.send(ObsCmd::Die);
                }
            }
        }
    } else if sc.epilogue == "cut" {
        for p in net.proxies.values() {
            p.cut_now();
        }
    }
    tokio::time::sleep(Duration::from_millis(sc.linger_ms)).await;
    let lag = crate::max_lag_since(t0);
    let discard = lag > b_ms / 8;
    log.ev(0, "d", json!({"e": "quiesce", "lag_ms": lag, "timed_out": timed_out, "discard": discard}));

    // ---- teardown
    drop(silent_udp);
    for node in 1..=n {
        net.dead[node - 1].store(true, Ordering::SeqCst);
        if let Some(e) = &net.execs[node - 1] {
            e.kill();
        }
        if let Some(Some(tx)) = obs_tx.get(node - 1) {
            let _ = tx.send(ObsCmd::Die);
        }
    }
    for p in net.proxies.values() {
        p.stop();
    }
    for j in obs_join {
        let _ = tokio::time::timeout(Duration::from_secs(5), j).await;
    }
    let g = net.ledger.lock().unwrap();
    NetResult {
        lines: log.take(),
        discard,
        counts: g.counts.iter().map(|(k, v)| (k.to_string(), *v)).collect(),
        fail_kinds: g.fail_kinds.clone(),
        wall_ms: t0.elapsed().as_millis() as u64,
        setup_error: None,
    }
}

// ------------------------------------------------------------------------------- manager task

async fn manager_task(net: Arc<Net>, node: usize, mut lp: Litep2p, mut rx: mpsc::UnboundedReceiver<MgrCmd>) {
    loop {
        tokio::select! {
            cmd = rx.recv() => match cmd {
                Some(MgrCmd::Dial(a)) => {
                    let r = lp.dial_address(a).await;
                    net.log.ev(node, "m", json!({"e": "conn", "o": node, "k": "dial_cmd", "peer": 0, "ok": r.is_ok()}));
                }
                None => { std::future::pending::<()>().await; }
            },
            ev = lp.next_event() => match ev {
                None => break,
                Some(Litep2pEvent::ConnectionEstablished { peer, .. }) => {
                    let p = net.by_peer.get(&peer).copied().unwrap_or(0);
                    net.connected.lock().unwrap().insert((node, p));
                    net.log.ev(node, "m", json!({"e": "conn", "o": node, "k": "est", "peer": p}));
                }
                Some(Litep2pEvent::ConnectionClosed { peer, .. }) => {
                    let p = net.by_peer.get(&peer).copied().unwrap_or(0);
                    net.connected.lock().unwrap().remove(&(node, p));
                    net.log.ev(node, "m", json!({"e": "conn", "o": node, "k": "closed", "peer": p}));
                }
                Some(Litep2pEvent::DialFailure { .. }) => {
                    net.log.ev(node, "m", json!({"e": "conn", "o": node, "k": "dial_failure", "peer": 0}));
                }
                Some(Litep2pEvent::ListDialFailures { .. }) => {
                    net.log.ev(node, "m", json!({"e": "conn", "o": node, "k": "open_failure", "peer": 0}));
                }
            }
        }
    }
}

// ------------------------------------------------------------------------------- user task

enum Act {
    Answer { irid: i64, k: i64, rsize: usize, fb: bool },
    /// the feedback channel of send_response_with_feedback resolved
    Sent { irid: i64, k: i64, ok: bool },
    Reject { irid: i64, k: i64 },
}

struct User {
    net: Arc<Net>,
    node: usize,
    h: RequestResponseHandle,
    /// request id number -> nonce
    mine: HashMap<i64, u32>,
    by_k: HashMap<u32, RequestId>,
    inbound: HashMap<i64, RequestId>,
}

async fn user_task_guard(net: Arc<Net>, node: usize, h: RequestResponseHandle, rx: mpsc::UnboundedReceiver<ObsCmd>) {
    // a panic of the code under test inside the handle is data
    let n2 = net.clone();
    let j = tokio::spawn(user_task(net, node, h, rx));
    if let Err(e) = j.await {
        if e.is_panic() {
            let p = e.into_panic();
            let msg = p.downcast_ref::<&str>().map(|s| s.to_string()).or_else(|| p.downcast_ref::<String>().cloned())
                .unwrap_or_else(|| "panic".into());
            n2.log.ev(node, "u", json!({"e": "panic", "o": node, "task": "user", "msg": msg}));
        }
    }
}

async fn user_task(net: Arc<Net>, node: usize, h: RequestResponseHandle, mut rx: mpsc::UnboundedReceiver<ObsCmd>) {
    let mut u = User { net: net.clone(), node, h, mine: HashMap::new(), by_k: HashMap::new(), inbound: HashMap::new() };
    let mut delayed: FuturesUnordered<std::pin::Pin<Box<dyn std::future::Future<Output = Act> + Send>>> = FuturesUnordered::new();
    loop {
        if net.is_dead(node) {
            break;
        }
        tokio::select! {
            cmd = rx.recv() => match cmd {
                None | Some(ObsCmd::Die) => break,
                Some(ObsCmd::Burst(reqs, ack)) => {
                    for r in &reqs {
                        u.issue(r).await;
                    }
                    let _ = ack.send(());
                }
                Some(ObsCmd::Cancel(k, ack)) => {
                    if let Some(rid) = u.by_k.get(&k).copied() {
                        net.log.ev(node, "u", json!({"e": "cancel", "o": node, "rid": rid_num(&rid), "n": k}));
                        {
                            let mut g = net.ledger.lock().unwrap();
                            g.open.remove(&k);
                            *g.counts.entry("cancels").or_insert(0) += 1;
                        }
                        net.settle.notify_waiters();
                        u.h.cancel_request(rid).await;
                    }
                    let _ = ack.send(());
                }
            },
            ev = u.h.next() => match ev {
                None => {
                    net.log.ev(node, "u", json!({"e": "closed", "o": node}));
                    break;
                }
                Some(ev) => {
                    if net.is_dead(node) {
                        break;
                    }
                    if let Some(act) = u.on_event(ev, &mut delayed) {
                        if !act {
                            break;
                        }
                    }
                }
            },
            Some(act) = delayed.next(), if !delayed.is_empty() => {
                if net.is_dead(node) {
                    break;
                }
                match act {
                    Act::Answer { irid, k, rsize, fb } => {
                        if let Some(f) = u.answer(irid, k, rsize, fb) {
                            delayed.push(f);
                        }
                    }
                    Act::Sent { irid, k, ok } => {
                        net.log.ev(node, "u", json!({"e": "sent", "o": node, "irid": irid, "n": k, "ok": ok}));
                    }
                    Act::Reject { irid, k } => u.reject(irid, k),
                }
            }
        }
    }
}

impl User {
    async fn issue(&mut self, r: &ReqSpec) {
        let net = self.net.clone();
        let payload = build_request(r);
        let to_peer = if r.to >= 1 && r.to <= net.peer_ids.len() { net.peer_ids[r.to - 1] } else { PeerId::random() };
        net.log.ev(self.node, "u", json!({"e": "issue", "o": self.node, "n": r.k, "to": r.to, "size": payload.len(),
            "h": hash(&payload), "dial": r.dial, "pol": r.pol, "rsize": r.rsize, "rdelay": r.rdelay, "try": r.try_}));
        let opt = if r.dial { DialOptions::Dial } else { DialOptions::Reject };
        let res = if r.try_ {
            self.h.try_send_request(to_peer, payload, opt)
        } else {
            self.h.send_request(to_peer, payload, opt).await
        };
        match res {
            Ok(rid) => {
                let num = rid_num(&rid);
                self.mine.insert(num, r.k);
                self.by_k.insert(r.k, rid);
                {
                    let mut g = net.ledger.lock().unwrap();
                    g.open.insert(r.k, self.node);
                    g.issuers.insert(self.node);
                    *g.counts.entry("issued").or_insert(0) += 1;
                }
                net.log.ev(self.node, "u", json!({"e": "issued", "o": self.node, "n": r.k, "rid": num, "ok": true}));
            }
            Err(e) => {
                net.log.ev(self.node, "u", json!({"e": "issued", "o": self.node, "n": r.k, "rid": -1, "ok": false,
                    "err": format!("{e:?}").chars().filter(|c| *c != '"' && *c != '\\').take(80).collect::<String>()}));
            }
        }
    }

    fn settle(&mut self, rid: i64, what: &'static str, kind: Option<&str>) {
        let mut g = self.net.ledger.lock().unwrap();
        if let Some(k) = self.mine.get(&rid) {
            g.open.remove(k);
        }
        *g.counts.entry(what).or_insert(0) += 1;
        if let Some(k) = kind {
            *g.fail_kinds.entry(k.to_string()).or_insert(0) += 1;
        }
        drop(g);
        self.net.settle.notify_waiters();
    }

    fn answer(&mut self, irid: i64, k: i64, rsize: usize, fb: bool) -> Option<std::pin::Pin<Box<dyn std::future::Future<Output = Act> + Send>>> {
        let rid = self.inbound.remove(&irid)?;
        let tag = if k >= 0 { k as u32 } else { irid as u32 };
        let payload = build_response(tag, self.node, rsize);
        self.net.log.ev(self.node, "u", json!({"e": "answer", "o": self.node, "irid": irid, "n": k, "h": hash(&payload), "len": payload.len(), "fb": fb}));
        self.net.count("answers");
        if fb {
            let (tx, rx) = futures::channel::oneshot::channel();
            self.h.send_response_with_feedback(rid, payload, tx);
            Some(Box::pin(async move { Act::Sent { irid, k, ok: rx.await.is_ok() } }))
        } else {
            self.h.send_response(rid, payload);
            None
        }
    }

    fn reject(&mut self, irid: i64, k: i64) {
        let Some(rid) = self.inbound.remove(&irid) else { return };
        self.net.log.ev(self.node, "u", json!({"e": "reject", "o": self.node, "irid": irid, "n": k}));
        self.net.count("rejects");
        self.h.reject_request(rid);
    }

    /// returns Some(false) when the node killed itself
    fn on_event(
        &mut self,
        ev: RequestResponseEvent,
        delayed: &mut FuturesUnordered<std::pin::Pin<Box<dyn std::future::Future<Output = Act> + Send>>>,
    ) -> Option<bool> {
        let net = self.net.clone();
        let node = self.node;
        match ev {
            RequestResponseEvent::RequestReceived { peer, request_id, request, .. } => {
                let from = net.by_peer.get(&peer).copied().unwrap_or(0);
                let p = parse_request(&request);
                let irid = rid_num(&request_id);
                net.log.ev(node, "u", json!({"e": "recv", "o": node, "from": from, "irid": irid, "n": p.k,
                    "h": hash(&request), "len": request.len()}));
                net.count("recvs");
                self.inbound.insert(irid, request_id);
                let rsize = p.rsize.min(net.sc.max_size + 64);
                match p.pol {
                    0 | 4 => {
                        if p.pol == 4 {
                            // the connection is cut while the response travels
                            if let Some(c) = net.ctl(from, node) {
                                net.log.ev(node, "u", json!({"e": "cut", "from": from, "to": node, "dir": "down", "after": p.cut_after}));
                                c.arm(false, p.cut_after.max(0));
                                net.count("cut_during_response");
                            }
                        }
                        if p.rdelay == 0 {
                            if let Some(f) = self.answer(irid, p.k, rsize, p.fb) {
                                delayed.push(f);
                            }
                        } else {
                            let d = p.rdelay;
                            let k = p.k;
                            let fb = p.fb;
                            delayed.push(Box::pin(async move {
                                tokio::time::sleep(Duration::from_millis(d)).await;
                                Act::Answer { irid, k, rsize, fb }
                            }));
                        }
                    }
                    1 => {
                        if p.rdelay == 0 {
                            self.reject(irid, p.k);
                        } else {
                            let d = p.rdelay;
                            let k = p.k;
                            delayed.push(Box::pin(async move {
                                tokio::time::sleep(Duration::from_millis(d)).await;
                                Act::Reject { irid, k }
                            }));
                        }
                    }
                    2 => {
                        net.count("stalls");
                    }
                    3 => {
                        net.log.ev(node, "u", json!({"e": "kill", "o": node, "by": "policy"}));
                        net.kill(node);
                        return Some(false);
                    }
                    5 => {
                        if let Some(c) = net.ctl(from, node) {
                            net.log.ev(node, "u", json!({"e": "cut", "from": from, "to": node, "dir": "now", "after": 0}));
                            c.cut_now();
                            net.count("cut_on_request");
                        }
                    }
                    _ => {}
                }
                Some(true)
            }
            RequestResponseEvent::ResponseReceived { peer, request_id, response, .. } => {
                let from = net.by_peer.get(&peer).copied().unwrap_or(0);
                let rid = rid_num(&request_id);
                net.log.ev(node, "u", json!({"e": "resp", "o": node, "rid": rid, "from": from, "h": hash(&response), "len": response.len()}));
                self.settle(rid, "responses", None);
                Some(true)
            }
            RequestResponseEvent::RequestFailed { peer, request_id, error } => {
                let from = net.by_peer.get(&peer).copied().unwrap_or(0);
                let rid = rid_num(&request_id);
                let (k, d) = err_kind(&error);
                net.log.ev(node, "u", json!({"e": "fail", "o": node, "rid": rid, "from": from, "k": k, "d": d}));
                self.settle(rid, "failures", Some(&k));
                Some(true)
            }
        }
    }
}
