--------------------------- MODULE TransportIface ---------------------------
(***************************************************************************)
(* The assume/guarantee interface between TransportManager (caller) and a  *)
(* transport (src/transport/mod.rs: trait Transport + the stream of        *)
(* TransportEvent), written as a monitor over the observable things only:  *)
(* the calls made on the trait (with their results) and the events the     *)
(* transport emits.  `LegalTransport` = the monitor never flags a rule.    *)
(*                                                                         *)
(* ConnMgrMC.tla (C05/C06) and the scripted transports of the C05/C06/C07  *)
(* harnesses *assume* this contract of their environment; TcpTransportMC   *)
(* (also as WebSocket transport), QuicTransportMC and the conformance runs  *)
(* of the real TcpTransport / WebSocketTransport / QuicTransport over       *)
(* loopback sockets (harness bin tcplegal) check that the in-tree           *)
(* transports *guarantee* it.                                               *)
(*                                                                         *)
(* Caller obligations (assumed, flagged with the prefix "caller:"):        *)
(*   A1 connection ids passed to dial()/open() are fresh.                  *)
(* Not needed for G1-G7 but for the caller's own resources (the trait has  *)
(* no call to abandon such a connection; the transport keeps the socket    *)
(* until the caller decides): A2 every ConnectionOpened is answered by     *)
(* negotiate(), A3 every PendingInboundConnection by accept_pending() or   *)
(* reject_pending(), A4 every ConnectionEstablished by accept()/reject().  *)
(* The monitor does not demand A2-A4; rule L accounts for undecided ids.   *)
(* Transport guarantees, per connection id:                                *)
(*  G1 dial(cid,a) that returned Ok is concluded by exactly one of         *)
(*     ConnectionEstablished{Dialer,cid,peer = peer named in a} or         *)
(*     DialFailure{cid,a}; a dial()/open() that returned Err by nothing.   *)
(*  G2 open(cid,as) is concluded by exactly one of ConnectionOpened{cid,   *)
(*     socket address of one of as, errors naming only other members of    *)
(*     as} or OpenFailure{cid, errors naming only members of as}, unless   *)
(*     cancel(cid) was called before that event: then by nothing, ever.    *)
(*     cancel() after the conclusion (or of anything else) is a no-op.     *)
(*  G3 negotiate(cid) returns Ok exactly when cid is opened and not yet    *)
(*     negotiated, and is then concluded by ConnectionEstablished{Dialer,  *)
(*     cid, peer named in the opened address}.                             *)
(*  G4 PendingInboundConnection{cid} carries a fresh id and corresponds to *)
(*     a connection somebody made; accept_pending / reject_pending return  *)
(*     Ok exactly for announced, undecided ids; after accept_pending at    *)
(*     most one ConnectionEstablished{Listener,cid} (silence allowed),     *)
(*     after reject_pending nothing.                                       *)
(*  G5 accept(cid) / reject(cid) return Ok exactly for ids announced as    *)
(*     established and not yet decided.                                    *)
(*  G6 no event refers to an id the transport was never asked about, ids   *)
(*     are never reused, no second outcome for one operation.              *)
(*  G7 (liveness as quiescence) when the network has nothing outstanding   *)
(*     every dial / open / negotiate has its conclusion.                   *)
(*  L  (bookkeeping, checked on the projection `bk` of the transport's     *)
(*     maps at quiescence) nothing is retained for a concluded operation:  *)
(*     pending_dials, cancel_futures, pending_connections and              *)
(*     pending_raw_connections are empty; opened / pending_open /          *)
(*     pending_inbound_connections hold exactly the ids the caller has not *)
(*     decided yet.                                                        *)
(***************************************************************************)
EXTENDS Naturals, Sequences, FiniteSets, TLC

\* per connection id: st
\*   "dialing" "opening" "cancelled" "opened" "negotiating"   outbound phases
\*   "pin" "in_neg" "in_rejected"                               inbound phases
\*   "announced" (established, undecided) "accepted" "rejected"
\*   "failed" (DialFailure/OpenFailure) "refused" (dial()/open() returned Err)
\*   "x" rules suspended after a reported violation
MonInit == [c |-> <<>>, conns |-> 0, pins |-> 0, bad |-> "", who |-> {}]

Fail(M, why, cids) == IF M.bad = "" THEN [M EXCEPT !.bad = why, !.who = cids] ELSE M

Known(M, cid) == cid \in DOMAIN M.c
St(M, cid) == IF Known(M, cid) THEN M.c[cid].st ELSE "none"
Set(M, cid, st) == [M EXCEPT !.c[cid].st = st]
InSeq(x, s) == \E i \in 1..Len(s) : s[i] = x
SubSeq2(s, t) == \A i \in 1..Len(s) : InSeq(s[i], t)
IdsIn(M, sts) == {cid \in DOMAIN M.c : M.c[cid].st \in sts}

\* An address reported back names a requested address either in full or by its socket part (TCP reports
\* `<ip|dns>/tcp/<port>`, WebSocket and QUIC the address as it was requested, /p2p included).
Names(a, r) == InSeq(a, r.socks) \/ InSeq(a, r.addrs)
\* peer named by the requested address that `sock` stands for
WantFor(r, sock) == LET is == {i \in 1..Len(r.socks) : r.socks[i] = sock \/ r.addrs[i] = sock} IN
                    IF is = {} THEN "" ELSE r.wants[CHOOSE i \in is : TRUE]

OkIff(M, ret, cond, what, cid) ==
  IF (ret = "ok") = cond THEN M
  ELSE Fail(M, IF ret = "ok" THEN what \o " succeeded for an id that is not in that phase"
                              ELSE what \o " refused for an id that is in that phase", {cid})

\* a call on the Transport trait with its result: k = [c, cid, ret] (+ addrs, socks, wants for dial/open)
MonCall(M, k) ==
  LET cid == k.cid s == St(M, cid) IN
  IF s = "x" THEN M
  ELSE CASE k.c \in {"dial", "open"} ->
         IF Known(M, cid) THEN Fail(M, "caller: connection id reused", {cid})
         ELSE [M EXCEPT !.c = (cid :> [st |-> IF k.ret # "ok" THEN "refused" ELSE IF k.c = "dial" THEN "dialing" ELSE "opening",
                                       op |-> k.c, addrs |-> k.addrs, socks |-> k.socks, wants |-> k.wants, want |-> ""]) @@ @]
    [] k.c = "cancel" -> IF s = "opening" THEN Set(M, cid, "cancelled") ELSE M
    [] k.c = "negotiate" ->
         LET M1 == OkIff(M, k.ret, s = "opened", "negotiate", cid) IN
         IF s = "opened" /\ k.ret = "ok" THEN Set(M1, cid, "negotiating") ELSE M1
    [] k.c = "accept" ->
         LET M1 == OkIff(M, k.ret, s = "announced", "accept", cid) IN
         IF s = "announced" /\ k.ret = "ok" THEN Set(M1, cid, "accepted") ELSE M1
    [] k.c = "reject" ->
         LET M1 == OkIff(M, k.ret, s = "announced", "reject", cid) IN
         IF s = "announced" /\ k.ret = "ok" THEN Set(M1, cid, "rejected") ELSE M1
    [] k.c = "accept_pending" ->
         LET M1 == OkIff(M, k.ret, s = "pin", "accept_pending", cid) IN
         IF s = "pin" /\ k.ret = "ok" THEN Set(M1, cid, "in_neg") ELSE M1
    [] k.c = "reject_pending" ->
         LET M1 == OkIff(M, k.ret, s = "pin", "reject_pending", cid) IN
         IF s = "pin" /\ k.ret = "ok" THEN Set(M1, cid, "in_rejected") ELSE M1
    [] OTHER -> M

Concluded == {"opened", "negotiating", "announced", "accepted", "rejected", "failed"}

\* why an outcome event is not acceptable in phase s
Wrong(s) ==
  IF s = "cancelled" THEN "outcome of an open() reported after cancel()"
  ELSE IF s = "refused" THEN "event for an operation the transport had refused"
  ELSE IF s \in {"in_rejected"} THEN "event for an inbound connection after reject_pending()"
  ELSE IF s \in Concluded THEN "second outcome for one operation"
  ELSE "event does not belong to the phase of its connection id"

\* an event emitted by the transport: e = [k, cid, ...]
MonEvent(M, e) ==
  LET cid == e.cid s == St(M, cid) IN
  IF s = "x" THEN M
  ELSE IF e.k = "pending_inbound" THEN
         IF Known(M, cid) THEN Fail(M, "connection id reused for an inbound connection", {cid})
         ELSE LET M1 == [M EXCEPT !.c = (cid :> [st |-> "pin", op |-> "in", addrs |-> <<>>, socks |-> <<>>, wants |-> <<>>, want |-> ""]) @@ @,
                                  !.pins = @ + 1] IN
              IF M1.pins > M1.conns THEN Fail(M1, "inbound connection announced that nobody made", {cid}) ELSE M1
  ELSE IF ~Known(M, cid) THEN Fail(M, "event for an id the transport was never asked about", {})
  ELSE LET r == M.c[cid] IN
    CASE e.k = "est" ->
         IF e.dir = "out" THEN
              IF s = "in_neg" THEN Fail(M, "inbound connection reported with a dialer endpoint", {cid})
              ELSE IF s \notin {"dialing", "negotiating"} THEN Fail(M, Wrong(s), {cid})
              ELSE LET want == IF s = "dialing" THEN r.wants[1] ELSE r.want IN
                   IF want # "" /\ e.peer # want THEN Fail(M, "established with a peer other than the one named in the address", {cid})
                   ELSE IF ~Names(e.addr, r) THEN Fail(M, "established connection reports an address that was not requested", {cid})
                   ELSE Set(M, cid, "announced")
         ELSE IF s \in {"dialing", "negotiating"} THEN Fail(M, "outbound connection reported with a listener endpoint", {cid})
         ELSE IF s # "in_neg" THEN Fail(M, IF s = "pin" THEN "inbound connection established without accept_pending()" ELSE Wrong(s), {cid})
              ELSE Set(M, cid, "announced")
    [] e.k = "dial_failure" ->
         IF s # "dialing" THEN Fail(M, Wrong(s), {cid})
         ELSE IF e.addr # r.addrs[1] THEN Fail(M, "dial failure names another address than the dialed one", {cid})
         ELSE Set(M, cid, "failed")
    [] e.k = "opened" ->
         IF s # "opening" THEN Fail(M, Wrong(s), {cid})
         ELSE IF ~Names(e.addr, r) THEN Fail(M, "opened address is not one of the requested addresses", {cid})
         ELSE IF ~SubSeq2(e.errs, r.addrs) THEN Fail(M, "open error names an address that was not requested", {cid})
         ELSE IF Len(e.errs) >= Len(r.addrs) THEN Fail(M, "open succeeded but every address is reported failed", {cid})
         ELSE [M EXCEPT !.c[cid].st = "opened", !.c[cid].want = WantFor(r, e.addr)]
    [] e.k = "open_failure" ->
         IF s # "opening" THEN Fail(M, Wrong(s), {cid})
         ELSE IF ~SubSeq2(e.errs, r.addrs) THEN Fail(M, "open error names an address that was not requested", {cid})
         ELSE IF Len(e.errs) > Len(r.addrs) THEN Fail(M, "more open errors than addresses", {cid})
         ELSE Set(M, cid, "failed")
    [] OTHER -> Fail(M, "event kind a transport must not emit", {cid})

\* somebody (a remote the environment controls) connects to the transport's listener
MonConnect(M) == [M EXCEPT !.conns = @ + 1]

ToSetS(s) == {s[i] : i \in 1..Len(s)}

\* bookkeeping projection bk = [pending_dials, pending_inbound, opened, pending_open, cancel_futures: sequences of ids,
\*                              pending_connections, pending_raw_connections: numbers]
LeakReason(M, bk) ==
  IF bk.pending_dials # <<>> THEN "leak: pending_dials keeps an entry of a concluded dial"
  ELSE IF bk.cancel_futures # <<>> THEN "leak: cancel_futures keeps an abort handle of a concluded open"
  ELSE IF bk.pending_raw_connections # 0 THEN "leak: pending_raw_connections not empty at quiescence"
  ELSE IF bk.pending_connections # 0 THEN "leak: pending_connections not empty at quiescence"
  ELSE IF ToSetS(bk.opened) # IdsIn(M, {"opened"}) \cup (ToSetS(bk.opened) \cap IdsIn(M, {"x"}))
    THEN "leak: opened differs from the opened-and-not-negotiated ids"
  ELSE IF ToSetS(bk.pending_open) # IdsIn(M, {"announced"}) \cup (ToSetS(bk.pending_open) \cap IdsIn(M, {"x"}))
    THEN "leak: pending_open differs from the established-and-undecided ids"
  ELSE IF ToSetS(bk.pending_inbound) # IdsIn(M, {"pin"}) \cup (ToSetS(bk.pending_inbound) \cap IdsIn(M, {"x"}))
    THEN "leak: pending_inbound_connections differs from the announced-and-undecided ids"
  ELSE ""

\* nothing is outstanding in the network and the transport is idle
MonQuiesce(M, bk) ==
  LET stuck == IdsIn(M, {"dialing", "opening", "negotiating"}) IN
  IF stuck # {} THEN Fail(M, "silence: an operation never got its conclusion", stuck)
  ELSE LET why == LeakReason(M, bk) IN IF why # "" THEN Fail(M, why, {}) ELSE M

\* report once, suspend the rules for the ids involved, keep validating
Forgive(M) == IF M.bad = "" THEN M
              ELSE [M EXCEPT !.bad = "", !.who = {},
                             !.c = [cid \in DOMAIN @ |-> IF cid \in M.who THEN [@[cid] EXCEPT !.st = "x"] ELSE @[cid]]]

(* What the implementation-shaped bookkeeping must be as a function of the monitor state, at every *)
(* step (not only at quiescence): used for the drift check (MODE=impl) and as an invariant of      *)
(* TcpTransportMC.                                                                                  *)
BkExact(M, bk) ==
  \* QUIC (after the repair of negotiate()) keeps the address of a connection being negotiated in pending_dials too
  /\ IdsIn(M, {"dialing"}) \subseteq ToSetS(bk.pending_dials)
  /\ ToSetS(bk.pending_dials) \subseteq IdsIn(M, {"dialing", "negotiating"})
  /\ ToSetS(bk.opened) = IdsIn(M, {"opened"})
  /\ ToSetS(bk.pending_open) = IdsIn(M, {"announced"})
  /\ ToSetS(bk.pending_inbound) = IdsIn(M, {"pin"})
  /\ IdsIn(M, {"opening"}) \subseteq ToSetS(bk.cancel_futures)
  /\ ToSetS(bk.cancel_futures) \subseteq IdsIn(M, {"opening", "cancelled"})
=============================================================================
