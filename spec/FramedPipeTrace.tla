---------------------------- MODULE FramedPipeTrace ----------------------------
(* Trace validation for C04: every event recorded from the real `Substream` pair  *)
(* (sender calls / results, receiver results, injected prefixes, quiescence) must *)
(* be allowed by the Prop layer in FramedPipe.tla.                                *)
EXTENDS FramedPipe, TLC, Json, IOUtils

Rec == ndJsonDeserialize(IOEnv.TRACE)

VARIABLES l, cfg, m
tvars == <<l, cfg, m>>

TInit == l = 1 /\ cfg = [codec |-> "uv", n |-> -1] /\ m = PropInit

TReset == /\ Rec[l].e = "reset"
          /\ cfg' = [codec |-> Rec[l].codec, n |-> Rec[l].n]
          /\ m' = PropInit

TEvent == /\ Rec[l].e # "reset"
          /\ OkEvent(cfg, m, Rec[l])
          /\ m' = UpdEvent(cfg, m, Rec[l])
          /\ cfg' = cfg

TNext == /\ l <= Len(Rec)
         /\ l' = l + 1
         /\ (TReset \/ TEvent)

TSpec == TInit /\ [][TNext]_tvars

Accepted ==
  LET d == TLCGet("stats").diameter IN
  IF d - 1 = Len(Rec) THEN PrintT(<<"TRACE_OK", Len(Rec)>>)
  ELSE PrintT(<<"TRACE_REJECTED_AT", d>>) /\ FALSE
=============================================================================
