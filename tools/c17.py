"""C17 - DHT record / provider store bounds and freshness (KadStore.tla)."""
import json
from vlib import *

ASSUME = [
    "logical time is realised with real sleeps (period 60 ms, op window 20 ms, provider TTL 30 ms); "
    "behaviours whose ops missed their window are re-run, never judged",
    "provider distances: only their order matters; ranks are recomputed by the harness with its own SHA-256/XOR",
    "per-key provider bound >= 1 as in the property statement",
    "TLC results hold for the stated small constants; the real store is driven only through its public methods",
]

BASE = {"Keys": {"k0", "k1"}, "Provs": {"p0", "p1", "p2"}, "Sizes": {1, 3}, "Exps": "<- ExpsDef",
        "NAddrs": {0, 2}, "CMaxSize": 2, "CMaxAddrs": 1}


def cfgs(ctx):
    """(name, constants) for the exhaustive runs of this tier."""
    if ctx.quick():
        return [("a", dict(BASE, MaxNow=2, MaxOps=5, CMaxRecords=1, CMaxProvKeys=1, CMaxProvPerKey=2))]
    return [
        ("a", dict(BASE, MaxNow=2, MaxOps=6, CMaxRecords=1, CMaxProvKeys=1, CMaxProvPerKey=2)),
        ("b", dict(BASE, MaxNow=2, MaxOps=5, CMaxRecords=2, CMaxProvKeys=2, CMaxProvPerKey=1)),
        ("c", dict(BASE, MaxNow=1, MaxOps=5, CMaxRecords=0, CMaxProvKeys=0, CMaxProvPerKey=1, CMaxSize=0, CMaxAddrs=0)),
        ("d", dict(BASE, MaxNow=2, MaxOps=5, CMaxRecords=2, CMaxProvKeys=2, CMaxProvPerKey=3)),
    ]


MC_LINES = ["SPECIFICATION Spec", "INVARIANTS StateInv", "PROPERTIES StepOK", "VIEW View", "CHECK_DEADLOCK FALSE"]
GEN_LINES = ["SPECIFICATION Spec", "VIEW View", "ACTION_CONSTRAINT Emit", "CHECK_DEADLOCK FALSE"]


def classify(seg, idx):
    ev = json.loads(seg[idx - 1])
    op = ev.get("o", {}).get("op", ev.get("e"))
    return "store-%s" % op


def check(ctx):
    mc = []
    for name, consts in cfgs(ctx):
        r = tlc_mc(ctx, "KadStoreMC.tla", write_cfg(ctx, "mc_%s.cfg" % name, consts, MC_LINES))
        if not r["ok"]:
            raise ToolError("the Impl layer of KadStore violates the Prop layer in config %s "
                            "(model error, not a code verdict):\n%s" % (name, r.get("error", r["out"][-2000:])))
        mc.append({k: r[k] for k in ("cfg", "transitions", "distinct", "depth", "wall_s") if k in r})
        log("MC %s: %s" % (name, mc[-1]))
    # behaviours: one per transition of a bounded graph
    gen_consts = dict(BASE, MaxNow=1, MaxOps=3 if ctx.quick() else 4, CMaxRecords=1, CMaxProvKeys=1, CMaxProvPerKey=2)
    behs, gstats = tlc_generate(ctx, "KadStoreMC.tla", write_cfg(ctx, "gen.cfg", gen_consts, GEN_LINES))
    # provider-ordering focus: one key, three remote providers + local, per-key bound 3 and 2
    for bound in (3, 2):
        bp, gp = tlc_generate(ctx, "KadStoreMC.tla", write_cfg(
            ctx, "genp%d.cfg" % bound, dict(BASE, Keys={"k1"}, Sizes={1}, Exps="<- ExpsNever", NAddrs={0}, MaxNow=1,
                                            MaxOps=4 if ctx.quick() else 5, CMaxRecords=1, CMaxProvKeys=1, CMaxProvPerKey=bound), GEN_LINES))
        behs += bp
        gstats["behaviours"] += gp["behaviours"]
    if not ctx.quick():
        b2, g2 = tlc_generate(ctx, "KadStoreMC.tla", write_cfg(
            ctx, "gen2.cfg", dict(BASE, MaxNow=2, MaxOps=3, CMaxRecords=2, CMaxProvKeys=2, CMaxProvPerKey=1), GEN_LINES))
        behs += b2
        gstats["behaviours"] += g2["behaviours"]
    log("GEN: %s" % gstats)
    write_jsonl(ctx.path("behs.jsonl"), behs)
    build_s = cargo_build(ctx, ["store"])
    nrand, rlen = (400, 60) if ctx.quick() else (6000, 80)
    summ, _ = harness(ctx, "store", ["--behaviours", ctx.path("behs.jsonl"), "--random", nrand, "--len", rlen,
                                     "--seed", ctx.seed, "--threads", 12, "--out", ctx.path("trace.ndjson")])
    log("HARNESS: %s (build %ss)" % (summ, build_s))
    lines = read_lines(ctx.path("trace.ndjson"))
    # a panic of the code under test is data, not a tool failure: the executions that panicked are reported as
    # violations and taken out of the traces TLC validates (their recorded state is not a store state)
    violations = []
    kept = []
    for seg in split_segments(lines, lambda ln: '"e":"reset"' in ln):
        # (remove_local_provider's debug_assert for an already expired / evicted local record is part of the pinned
        # behaviour: the Impl layer predicts it and the Prop layer does not judge it - those lines stay in the trace)
        hit = next((i for i, ln in enumerate(seg) if '"ret":"panic"' in ln and '"op":"remove_local"' not in ln), None)
        if hit is None:
            kept.extend(seg)
            continue
        op = json.loads(seg[hit]).get("o", {}).get("op", "?")
        violations.append({"sig": "store-%s-panic" % op, "what": "the real MemoryStore panicked in %s" % seg[hit][:600],
                           "replay_obj": {"property": "C17", "rejected_event_index": hit + 1, "segment": [json.loads(x) for x in seg[:hit + 1]]}})
    if violations:
        log("%d executions panicked inside the store" % len(violations))
    lines = kept
    nseg, nev, rejects = validate_segments(ctx, "KadStoreTrace.tla", "KadStoreTrace.cfg", lines, mode="prop")
    for seg, idx in rejects:
        violations.append({"sig": classify(seg, idx),
                           "what": "real MemoryStore step not allowed by KadStore!PropStep: %s" % seg[idx - 1][:600],
                           "replay_obj": {"property": "C17", "rejected_event_index": idx, "segment": [json.loads(x) for x in seg[:idx]]}})
    # drift detector: exact Impl-layer conformance (never a verdict)
    _, _, drift = validate_segments(ctx, "KadStoreTrace.tla", "KadStoreTrace.cfg", lines, mode="impl", max_rejects=5, tag="d")
    for seg, idx in drift:
        log("NOTE drift: real store deviates from the Impl layer at %s" % seg[idx - 1][:300])
    distinct = len({"\n".join(json.dumps(json.loads(x).get("o")) for x in s[1:]) for s in split_segments(lines, lambda ln: '"e":"reset"' in ln)})
    ops_seen = {}
    for ln in lines:
        if '"e":"op"' in ln:
            o = json.loads(ln)["o"]["op"]
            ops_seen[o] = ops_seen.get(o, 0) + 1
    sample = [json.loads(x) for x in lines[:4]]
    cov = {
        "states": sum(m["distinct"] for m in mc),
        "transitions": sum(m["transitions"] for m in mc),
        "traces_validated_against_impl": nseg,
        "events_validated": nev,
        "samples": sample,
        "evaluations": nseg,
        "distinct_nontrivial": distinct,
        "rule": "a case is one operation history executed on the real MemoryStore (TLC-generated: BFS prefix + one "
                "transition of the bounded graph; random: seeded histories with random small bounds); distinct = "
                "distinct operation sequences",
        "model_runs": mc,
        "generation": gstats,
        "harness": summ,
        "ops_exercised": ops_seen,
        "impl_divergences": len(drift),
        "exhaustive": False,
    }
    return conclude(ctx, "model_checking", cov, violations, ASSUME)


def selftest(ctx):
    """Binding demonstration + negative model: corrupted traces must be rejected, a weakened
    model must violate the property."""
    cargo_build(ctx, ["store"])
    summ, _ = harness(ctx, "store", ["--random", 30, "--len", 40, "--seed", ctx.seed, "--out", ctx.path("t.ndjson")])
    lines = read_lines(ctx.path("t.ndjson"))
    ok = True
    import random
    rnd = random.Random(ctx.seed)
    tried = 0
    for _ in range(40):
        i = rnd.randrange(len(lines))
        ev = json.loads(lines[i])
        if ev.get("e") != "op":
            continue
        st = ev["st"]
        mut = None
        if st["recs"]:
            st["recs"][0]["size"] += 7
            mut = "record size"
        elif any(st["provs"][k] for k in st["provs"]):
            k = [k for k in st["provs"] if st["provs"][k]][0]
            st["provs"][k] = st["provs"][k] + [dict(st["provs"][k][0], p="zz")]
            mut = "duplicate-rank provider"
        if not mut:
            continue
        tried += 1
        bad = lines[:i] + [json.dumps(ev, separators=(",", ":"))] + lines[i + 1:]
        p = ctx.path("mut.ndjson")
        open(p, "w").write("\n".join(bad) + "\n")
        r = tlc_trace(ctx, "KadStoreTrace.tla", "KadStoreTrace.cfg", p)
        log("selftest corrupt %s at line %d -> %s" % (mut, i + 1, "rejected at %s" % r if r else "ACCEPTED"))
        ok &= r is not None
        if tried >= 3:
            break
    # negative models: one guard of the transcription removed must break the Prop layer
    import shutil
    src = open(os.path.join(SPEC, "KadStore.tla")).read()
    negs = [("records-bound-off-by-one", "IF Cardinality(S.recs) >= C.maxRecords", "IF Cardinality(S.recs) > C.maxRecords"),
            ("earlier-expiry-replaces", "IF old.exp # Never /\\ exp # Never /\\ old.exp > exp", "IF old.exp # Never /\\ exp # Never /\\ old.exp < exp"),
            ("expired-returned", "IF HasRec(S, k) /\\ ExpiredAt(TheRec(S, k).exp, S.now)", "IF HasRec(S, k) /\\ FALSE"),
            ("addresses-not-truncated", "naddr |-> Min(naddr, C.maxAddrs)]", "naddr |-> naddr]"),
            ("furthest-not-evicted", "LET L2 == IF Len(L) = C.maxProvPerKey THEN SubSeq(L, 1, Len(L) - 1) ELSE L IN", "LET L2 == IF Len(L) = C.maxProvPerKey THEN SubSeq(L, 2, Len(L)) ELSE L IN")]
    for name, a, b in negs:
        a = a.replace("\\\\", "\\"); b = b.replace("\\\\", "\\")
        if a not in src:
            log("selftest negative %s: pattern not found" % name)
            ok = False
            continue
        d = ctx.path("neg_" + name)
        os.makedirs(d, exist_ok=True)
        open(os.path.join(d, "KadStore.tla"), "w").write(src.replace(a, b))
        shutil.copy(os.path.join(SPEC, "KadStoreMC.tla"), d)
        cfg = write_cfg(ctx, "neg_%s.cfg" % name, dict(BASE, MaxNow=2, MaxOps=5, CMaxRecords=1, CMaxProvKeys=1, CMaxProvPerKey=2), MC_LINES)
        r = tlc_mc(ctx, os.path.join(d, "KadStoreMC.tla"), cfg, workers=8, expect_violation=True)
        viol = "is violated" in r["out"] or "was violated" in r["out"]
        log("selftest negative %-28s -> %s" % (name, "violation found" if viol else "NO VIOLATION"))
        ok &= viol
    log("SELFTEST %s" % ("ok" if ok and tried else "FAILED"))
    return 0 if ok and tried else 2


def replay(ctx, path):
    obj = json.load(open(path))
    seg = [json.dumps(x, separators=(",", ":")) for x in obj["segment"]]
    nseg, nev, rej = validate_segments(ctx, "KadStoreTrace.tla", "KadStoreTrace.cfg", seg)
    log("replay: %s" % ("rejected at %d" % rej[0][1] if rej else "accepted"))
    return 1 if rej else 0
