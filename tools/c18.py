"""C18 - Peer ids are canonical, round-trip and match the libp2p reference
(PeerIdRules.tla, PeerIdRulesMC.tla, PeerIdRulesTrace.tla; harness bin `peerid`)."""
import json
import os
from vlib import *

ASSUME = [
    "PeerId::try_from_multiaddr has no counterpart in the reference crate any more; its oracle is litep2p's own documented "
    "semantics: Some(p) iff the LAST component of the address is /p2p/p (all layouts of 0..2 /p2p components at the end, "
    "before /p2p-circuit or before another protocol, same or different ids, in struct, binary and textual form), plus "
    "'append /p2p/p to any address and read back = p', through Protocol::P2p and through the library's own appender "
    "AddressRecord::new (kept iff the address ends with /p2p/X, else /p2p/peer appended; from_multiaddr accepts the result)",
    "the reference implementation is libp2p-identity 0.2.14 (and the multiaddr 0.18.2 crate built on it) as compiled "
    "into the harness; it shares the multihash / unsigned-varint / bs58 crates with litep2p, so a defect common to both "
    "sides in those crates is not visible to the differential check",
    "for-all-byte-strings is sampled: every abstract class of PeerIdRules.tla is concretised with seeded byte strings, "
    "every key-encoding length 0..100 is exercised, ed25519 keys are sampled from seeds plus the small-order and "
    "non-canonical point encodings",
    "SHA-256 (sha2 crate) is trusted; the expected multihash bytes are assembled by hand in the harness",
    "the serde binary form is exercised with a trivial non-human-readable serializer written in the harness; the "
    "human-readable form with serde_json",
]

GEN_LINES = ["SPECIFICATION Spec", "CONSTANTS", "  FirstP2p = FALSE", "  AppendIfNone = FALSE", "ACTION_CONSTRAINT Emit", "CHECK_DEADLOCK FALSE"]
MC_LINES = ["SPECIFICATION Spec", "CONSTANTS", "  FirstP2p = FALSE", "  AppendIfNone = FALSE", "INVARIANTS DerivedIdParses TableConsistent MaddrRule RecordNewRule", "CHECK_DEADLOCK FALSE"]
TRACE = ("PeerIdRulesTrace.tla", "PeerIdRulesTrace.cfg")


def is_reset(ln):
    return '"e":"reset"' in ln


def _expected_maddr(c):
    if c["n"] == 0:
        return "none"
    if c["n"] == 1:
        return "A" if c["f"] == "last" else "none"
    return ("A" if c["same"] else "B") if c["s"] == "last" else "none"


def classify(seg, idx):
    ev = json.loads(seg[idx - 1])
    c = ev.get("c", {})
    if ev.get("e") == "maddr":
        exp = _expected_maddr(c)
        if ev["got"] == exp and ev["append_rt"] and (ev.get("new_got") != (exp if exp != "none" else "P") or not ev.get("new_ok")):
            return "maddr-position:address-record-new"
        why = "panic" if ev["got"] == "panic" else ("append-round-trip" if ev["got"] == exp else "wrong-component")
        return "maddr-position:%s" % why      # the layout class is in the replay file / `what`
    if ev.get("e") == "derive":
        why = "panic" if ev["got"] == "panic" else ("wrong-hash-choice" if not ev["bytes_ok"] else
                                                    ("reference-differs" if not ev["ref_ok"] else "round-trip"))
        return "derive-%s-%s:%s" % (c.get("kind"), c.get("klen"), why)
    if ev.get("e") == "parse":
        if ev["real"] == "panic":
            why = "panic"
        elif ev["real"] != ev["ref"]:
            why = "litep2p-%s-reference-%s" % (ev["real"], ev["ref"])
        else:
            why = "different-id" if not ev["same"] else "round-trip"
        return "parse-%s-%s-%s-%s-%s-%s:%s" % (ev["via"], c.get("code"), c.get("dlen"), c.get("decl"), c.get("vform"), c.get("text"), why)
    return "unexplained-%s" % ev.get("e")


def validate(ctx, lines, mode, tag, max_rejects=8):
    return validate_segments(ctx, TRACE[0], TRACE[1], lines, mode=mode, tag=tag, max_rejects=max_rejects, is_reset=is_reset)


def write_cfg_noconst(ctx, name, lines):
    p = ctx.path(name)
    with open(p, "w") as f:
        f.write("\n".join(lines) + "\n")
    return p


def check(ctx):
    r = tlc_mc(ctx, "PeerIdRulesMC.tla", write_cfg_noconst(ctx, "mc.cfg", MC_LINES), workers=2)
    if not r["ok"]:
        raise ToolError("the decision tables of PeerIdRules are inconsistent (model error, not a code verdict):\n%s"
                        % r.get("error", r["out"][-2000:]))
    mc = {k: r[k] for k in ("transitions", "distinct", "depth", "wall_s") if k in r}
    log("MC: %s" % mc)
    classes, g = tlc_generate(ctx, "PeerIdRulesMC.tla", write_cfg_noconst(ctx, "gen.cfg", GEN_LINES))
    for i, c in enumerate(classes):
        c["ci"] = i
    log("GEN: %s" % g)
    write_jsonl(ctx.path("classes.jsonl"), classes)
    build_s = cargo_build(ctx, ["peerid"])
    per = 50 if ctx.quick() else 600
    summ, _ = harness(ctx, "peerid", ["--classes", ctx.path("classes.jsonl"), "--per-class", per, "--seed", ctx.seed,
                                      "--out", ctx.path("trace.ndjson")], timeout=1500)
    log("HARNESS: %s (build %ss)" % (summ, build_s))
    lines = read_lines(ctx.path("trace.ndjson"))
    nseg, nev, rejects = validate(ctx, lines, "prop", "p")
    violations = []
    for seg, idx in rejects:
        ev = json.loads(seg[idx - 1])
        violations.append({"sig": classify(seg, idx),
                           "what": "real PeerId behaviour not allowed by the Prop layer of PeerIdRules.tla: %s" % seg[idx - 1][:700],
                           "replay_obj": {"property": "C18", "seed": ctx.seed, "per_class": per, "class": json.loads(seg[0]), "event": ev,
                                          "classes_entry": classes[json.loads(seg[0])["ci"]]}})
    _, _, drift = validate(ctx, lines, "impl", "d", max_rejects=5)
    for seg, idx in drift:
        log("NOTE drift: real PeerId deviates from the transcription at %s" % seg[idx - 1][:400])
    vias, verdicts, distinct, panics = {}, {}, set(), 0
    nder = 0
    nmaddr = 0
    for ln in lines:
        if '"e":"parse"' in ln:
            ev = json.loads(ln)
            vias[ev["via"]] = vias.get(ev["via"], 0) + 1
            verdicts[ev["real"]] = verdicts.get(ev["real"], 0) + 1
            distinct.add(ev["via"] + ":" + ev["input"])
        elif '"e":"maddr"' in ln:
            ev = json.loads(ln)
            nmaddr += 1
            distinct.add("maddr:" + ev["form"] + ":" + ev["addr"])
        elif '"e":"derive"' in ln:
            ev = json.loads(ln)
            nder += 1
            distinct.add("derive:" + ev["enc"])
    need = {"bytes", "text", "multiaddr", "serde_text", "serde_bin"}
    if not need <= set(vias) or nder == 0 or nmaddr == 0 or verdicts.get("accept", 0) == 0 or verdicts.get("reject", 0) == 0:
        raise ToolError("C18 harness did not exercise every entry point / verdict: %s %s derive=%d" % (vias, verdicts, nder))
    sample = [json.loads(x) for x in lines[1:3]] + [json.loads(x) for x in lines if '"real":"accept"' in x][:2]
    cov = {
        "states": mc["distinct"],
        "transitions": mc["transitions"],
        "traces_validated_against_impl": nseg,
        "events_validated": nev,
        "samples": sample,
        "evaluations": nev,
        "distinct_nontrivial": len(distinct),
        "rule": "a case is one concrete input (key encoding for derivation; byte string / text / multiaddress / serde "
                "document for parsing) evaluated by the real litep2p PeerId next to libp2p-identity; distinct = distinct "
                "(entry point, input bytes); all listed round trips are run for every accepted id",
        "classes": len(classes),
        "per_class": per,
        "parse_events_by_entry_point": vias,
        "parse_verdicts": verdicts,
        "derive_events": nder,
        "multiaddress_position_events": nmaddr,
        "model_runs": [mc],
        "generation": g,
        "harness": summ,
        "impl_divergences": len(drift),
        "exhaustive": False,
    }
    return conclude(ctx, "exploration", cov, violations, ASSUME)


def selftest(ctx):
    ok = True
    classes, _ = tlc_generate(ctx, "PeerIdRulesMC.tla", write_cfg_noconst(ctx, "gen.cfg", GEN_LINES))
    for i, c in enumerate(classes):
        c["ci"] = i
    write_jsonl(ctx.path("classes.jsonl"), classes)
    cargo_build(ctx, ["peerid"])
    base = ["--classes", ctx.path("classes.jsonl"), "--per-class", 3, "--seed", ctx.seed]
    harness(ctx, "peerid", base + ["--out", ctx.path("good.ndjson")])
    good = read_lines(ctx.path("good.ndjson"))
    if tlc_trace(ctx, TRACE[0], TRACE[1], ctx.path("good.ndjson")) is not None:
        raise ToolError("selftest baseline trace rejected")

    def corrupt(pred, mut, name):
        for i, ln in enumerate(good):
            ev = json.loads(ln)
            if pred(ev):
                mut(ev)
                p = ctx.path("st.ndjson")
                with open(p, "w") as f:
                    f.write("\n".join(good[:i] + [json.dumps(ev, separators=(",", ":"))] + good[i + 1:]) + "\n")
                r = tlc_trace(ctx, TRACE[0], TRACE[1], p)
                log("selftest %s at line %d -> %s" % (name, i + 1, "rejected at line %s" % r if r else "ACCEPTED"))
                return r == i + 1
        log("selftest %s: no suitable event" % name)
        return False

    ok &= corrupt(lambda e: e["e"] == "parse" and e["real"] == "accept", lambda e: e.update(real="reject"), "accept->reject")
    ok &= corrupt(lambda e: e["e"] == "parse" and e["real"] == "reject" and e["c"]["code"] == "identity" and e["c"]["dlen"] == "43_64",
                  lambda e: e.update(real="accept", same=True, rt=True), "identity-43-accepted")
    ok &= corrupt(lambda e: e["e"] == "parse" and e["real"] == "accept", lambda e: e.update(rt=False), "round-trip-broken")
    ok &= corrupt(lambda e: e["e"] == "parse" and e["real"] == "reject", lambda e: e.update(real="panic"), "panic")
    ok &= corrupt(lambda e: e["e"] == "derive" and e["c"]["klen"] == "43", lambda e: e.update(got="identity"), "derive-43-identity")
    ok &= corrupt(lambda e: e["e"] == "derive" and e["c"]["klen"] == "42", lambda e: e.update(ref_ok=False), "derive-reference-differs")
    ok &= corrupt(lambda e: e["e"] == "maddr" and e["got"] == "none" and e["c"]["n"] >= 1, lambda e: e.update(got="A"), "maddr-first-component")
    r = tlc_mc(ctx, "PeerIdRulesMC.tla", write_cfg_noconst(ctx, "negm.cfg", [x.replace("FirstP2p = FALSE", "FirstP2p = TRUE") for x in MC_LINES]),
               workers=2, expect_violation=True)
    bad = "is violated" in r["out"]
    log("selftest negative model (first /p2p component) -> %s" % ("violated (as it must)" if bad else "NOT violated"))
    ok &= bad
    r = tlc_mc(ctx, "PeerIdRulesMC.tla", write_cfg_noconst(ctx, "negn.cfg", [x.replace("AppendIfNone = FALSE", "AppendIfNone = TRUE") for x in MC_LINES]),
               workers=2, expect_violation=True)
    bad = "is violated" in r["out"]
    log("selftest negative model (AddressRecord::new appends only if no /p2p anywhere) -> %s" % ("violated (as it must)" if bad else "NOT violated"))
    ok &= bad
    ok &= corrupt(lambda e: e["e"] == "maddr" and e["new_got"] == "P" and e["c"]["n"] >= 1, lambda e: e.update(new_got="none"), "record-new-not-appended")
    for fault in ("parse-flip", "derive-flip", "rt-break", "maddr-first"):
        harness(ctx, "peerid", base + ["--out", ctx.path("f.ndjson")], env={"VERIF_FAULT": fault})
        r = tlc_trace(ctx, TRACE[0], TRACE[1], ctx.path("f.ndjson"))
        log("selftest fault %s -> %s" % (fault, "rejected at line %s" % r if r else "ACCEPTED"))
        ok &= r is not None
    # negative models: a table with one guard changed must break a table invariant
    src = open(os.path.join(SPEC, "PeerIdRules.tla")).read()
    muts = [("derive boundary 42 -> 43", 'IF c.klen \\in {"0", "1_41", "42"} THEN "identity"', 'IF c.klen \\in {"0", "1_41", "42", "43"} THEN "identity"'),
            ("parser boundary 42 -> 41", 'c.code = "identity" /\\ c.dlen \\in {"0", "1_31", "32", "33_42"}', 'c.code = "identity" /\\ c.dlen \\in {"0", "1_31", "32"}'),
            ("trailing bytes accepted", '  /\\ c.decl = "eq"\n  /\\ c.dlen # "65plus"', '  /\\ c.decl \\in {"eq", "long"}\n  /\\ c.dlen # "65plus"')]
    for name, a, b in muts:
        m = src.replace(a, b)
        if m == src:
            raise ToolError("selftest mutation %r does not apply" % name)
        d = ctx.path("mut")
        os.makedirs(d, exist_ok=True)
        open(os.path.join(d, "PeerIdRules.tla"), "w").write(m)
        open(os.path.join(d, "PeerIdRulesMC.tla"), "w").write(open(os.path.join(SPEC, "PeerIdRulesMC.tla")).read())
        r = tlc_mc(ctx, os.path.join(d, "PeerIdRulesMC.tla"), write_cfg_noconst(ctx, "neg.cfg", MC_LINES), workers=2, expect_violation=True)
        bad = "is violated" in r["out"] or "Error:" in r["out"]
        log("selftest mutated table (%s) -> %s" % (name, "violated (as it must)" if bad else "NOT violated"))
        ok &= bad
    log("SELFTEST %s" % ("ok" if ok else "FAILED"))
    return 0 if ok else 2


def replay(ctx, path):
    obj = json.load(open(path))
    cargo_build(ctx, ["peerid"])
    write_jsonl(ctx.path("c.jsonl"), [obj["classes_entry"]])
    harness(ctx, "peerid", ["--classes", ctx.path("c.jsonl"), "--per-class", obj.get("per_class", 50), "--seed", obj.get("seed", 1),
                            "--out", ctx.path("r.ndjson")])
    lines = read_lines(ctx.path("r.ndjson"))
    _, _, rej = validate(ctx, lines, "prop", "r")
    for seg, idx in rej:
        log("replay: rejected [%s] %s" % (classify(seg, idx), seg[idx - 1][:600]))
    if not rej:
        log("replay: accepted (%d events)" % len(lines))
    return 1 if rej else 0
