------------------------------- MODULE KadQuery -------------------------------
(***************************************************************************)
(* Iterative Kademlia lookups (litep2p src/protocol/libp2p/kademlia/query/ *)
(* mod.rs `QueryEngine`, find_node.rs, get_record.rs, get_providers.rs,    *)
(* target_peers.rs).   Property C15.                                       *)
(*                                                                         *)
(* Peers are numbers: 0 is the local node, i >= 1 is the peer with the     *)
(* i-th smallest XOR distance to the lookup target (only the order of the  *)
(* distances matters to the engine; the harness binds ranks to real peer   *)
(* ids by sorting them with its own SHA-256/XOR arithmetic).               *)
(*                                                                         *)
(* Config C = [kind, alpha, repl, need, localrec, known, init]             *)
(*   kind     "find"  FIND_NODE / PUT_VALUE / ADD_PROVIDER lookup phase    *)
(*            "get"   GET_VALUE,  "prov" GET_PROVIDERS                      *)
(*            "track" PUT_VALUE / ADD_PROVIDER target-peer tracking         *)
(*   alpha    parallelism factor, repl replication factor                  *)
(*   need     records that meet the quorum (get) / successes needed (track)*)
(*   localrec 1 iff a local record was found before the lookup (get)       *)
(*   known    locally known providers (prov)                               *)
(*   init     initial candidates (find/get/prov) / tracked peers (track)   *)
(*                                                                         *)
(* Operations (the environment's moves, all on one query):                 *)
(*   [op |-> "next"]                      QueryEngine::next_action         *)
(*   [op |-> "resp", p, peers, rec, provs] register_response               *)
(*   [op |-> "fail", p]                   register_response_failure        *)
(*   [op |-> "sendok"|"sendfail", p]      register_send_success/failure    *)
(*   [op |-> "stale", ps]   the requests to ps are older than the peer     *)
(*                          timeout (no call; time passed)                 *)
(*   [op |-> "quiesce"]     nothing is outstanding and next_action is None *)
(* Results of "next": R(a, p, peers, provs), a in none/send/partial/ok/failed *)
(***************************************************************************)
EXTENDS Naturals, Integers, Sequences, FiniteSets

MinOf(S) == CHOOSE x \in S : \A y \in S : x <= y
MaxOf(S) == CHOOSE x \in S : \A y \in S : x >= y
RangeOf(s) == {s[i] : i \in 1..Len(s)}
RECURSIVE Asc(_)
Asc(S) == IF S = {} THEN <<>> ELSE LET m == MinOf(S) IN <<m>> \o Asc(S \ {m})

R(a, p, peers, provs) == [a |-> a, p |-> p, peers |-> peers, provs |-> provs]
None == R("none", 0, <<>>, <<>>)
Failed == R("failed", 0, <<>>, <<>>)
Send(p) == R("send", p, <<>>, <<>>)
Partial(p) == R("partial", p, <<>>, <<>>)
Ok(peers, provs) == R("ok", 0, peers, provs)

-----------------------------------------------------------------------------
(* Impl layer: the contexts as the code has them                            *)
(* s = [cand, pend, qd, resp, pr, found, recq, provs, done, tsucc, stale]   *)
(* stale = pending requests older than the peer timeout ("stale" operation) *)

ImplInit(C) ==
  [cand |-> IF C.kind = "track" THEN {} ELSE C.init,
   pend |-> IF C.kind = "track" THEN C.init ELSE {},      \* track: pending_peers
   qd |-> {}, resp |-> {}, pr |-> 0,
   found |-> C.localrec,                                  \* found_records starts at 1 with a local record
   recq |-> <<>>, provs |-> {}, done |-> FALSE, tsucc |-> 0, stale |-> {}]

Finish(s, r) == [ret |-> r, st |-> [s EXCEPT !.done = TRUE]]
Stay(s) == [ret |-> None, st |-> s]

\* schedule_next_peer: closest candidate, or None when there is none
Schedule(s) ==
  IF s.cand = {} THEN Stay(s)
  ELSE LET p == MinOf(s.cand) IN
       [ret |-> Send(p), st |-> [s EXCEPT !.cand = @ \ {p}, !.pend = @ \cup {p}, !.pr = @ + 1]]

\* FindNodeContext::next_action: requests older than the peer timeout do not count towards
\* the parallelism factor - pending_responses is recomputed as the number of fresh ones
NextFind(C, s0) ==
  IF s0.pend = {} /\ s0.cand = {}
    THEN Finish(s0, IF s0.resp = {} THEN Failed ELSE Ok(Asc(s0.resp), <<>>))
  ELSE LET s == [s0 EXCEPT !.pr = Cardinality(s0.pend \ s0.stale)] IN
  IF s.pr = C.alpha THEN Stay(s)
  ELSE IF Cardinality(s.resp) < C.repl THEN Schedule(s)
  ELSE IF s.cand # {} /\ s.resp # {} /\ MinOf(s.cand) < MaxOf(s.resp) THEN Schedule(s)
  ELSE Finish(s, Ok(Asc(s.resp), <<>>))

\* GetRecordContext::next_action
NextGet(C, s) ==
  IF s.recq # <<>> THEN [ret |-> Partial(Head(s.recq)), st |-> [s EXCEPT !.recq = Tail(@)]]
  ELSE IF s.pend = {} /\ s.cand = {}
    THEN Finish(s, IF C.localrec + s.found = 0 THEN Failed ELSE Ok(<<>>, <<>>))
  ELSE IF C.localrec + s.found >= C.need THEN Finish(s, Ok(<<>>, <<>>))
  ELSE IF Cardinality(s.pend) = C.alpha THEN Stay(s)
  ELSE Schedule(s)

\* GetProvidersContext::next_action
NextProv(C, s) ==
  IF s.pend = {} /\ s.cand = {}
    THEN Finish(s, IF s.provs = {} THEN Failed ELSE Ok(<<>>, Asc(C.known \cup s.provs)))
  ELSE IF Cardinality(s.pend) = C.alpha THEN Stay(s)
  ELSE Schedule(s)

\* PutToTargetPeersContext::next_action
NextTrack(C, s) ==
  IF s.pend = {} THEN Finish(s, IF s.tsucc >= C.need THEN Ok(<<>>, <<>>) ELSE Failed)
  ELSE Stay(s)

ImplNext(C, s) ==
  IF s.done THEN Stay(s)                      \* the query has been removed from the engine
  ELSE CASE C.kind = "find"  -> NextFind(C, s)
         [] C.kind = "get"   -> NextGet(C, s)
         [] C.kind = "prov"  -> NextProv(C, s)
         [] C.kind = "track" -> NextTrack(C, s)

\* new candidates: not yet queried, not pending, not the local node
NewCands(s2, peers) == {q \in peers : q \notin s2.qd /\ q \notin s2.pend /\ q # 0}

ImplResp(C, s, o) ==
  IF s.done \/ C.kind = "track" \/ o.p \notin s.pend THEN s
  ELSE LET s1 == [s EXCEPT !.pend = @ \ {o.p}, !.qd = @ \cup {o.p}, !.stale = @ \ {o.p},
                           !.pr = IF @ > 0 THEN @ - 1 ELSE 0]
           s2 == CASE C.kind = "find" ->
                       IF Cardinality(s1.resp) < C.repl THEN [s1 EXCEPT !.resp = @ \cup {o.p}]
                       ELSE IF s1.resp # {} /\ o.p < MaxOf(s1.resp)
                         THEN [s1 EXCEPT !.resp = (@ \cup {o.p}) \ {MaxOf(@)}]
                         ELSE s1
                  [] C.kind = "get" ->
                       IF o.rec = 1 THEN [s1 EXCEPT !.recq = Append(@, o.p), !.found = @ + 1] ELSE s1
                  [] C.kind = "prov" -> [s1 EXCEPT !.provs = @ \cup o.provs]
       IN [s2 EXCEPT !.cand = @ \cup NewCands(s2, o.peers)]

ImplFail(C, s, o) ==
  IF s.done \/ C.kind = "track" \/ o.p \notin s.pend THEN s
  ELSE [s EXCEPT !.pend = @ \ {o.p}, !.qd = @ \cup {o.p}, !.stale = @ \ {o.p},
                 !.pr = IF @ > 0 THEN @ - 1 ELSE 0]

ImplSendResult(C, s, o) ==
  IF s.done \/ C.kind # "track" \/ o.p \notin s.pend THEN s
  ELSE [s EXCEPT !.pend = @ \ {o.p}, !.tsucc = IF o.op = "sendok" THEN @ + 1 ELSE @]

ImplStep(C, s, o) ==
  CASE o.op = "next"     -> ImplNext(C, s)
    [] o.op = "resp"     -> [ret |-> "ok", st |-> ImplResp(C, s, o)]
    [] o.op = "fail"     -> [ret |-> "ok", st |-> ImplFail(C, s, o)]
    [] o.op \in {"sendok", "sendfail"} -> [ret |-> "ok", st |-> ImplSendResult(C, s, o)]
    [] o.op = "stale"    -> [ret |-> "ok", st |-> IF s.done \/ C.kind = "track" THEN s
                                                  ELSE [s EXCEPT !.stale = @ \cup (o.ps \cap s.pend)]]
    [] OTHER             -> [ret |-> "ok", st |-> s]

-----------------------------------------------------------------------------
(* Prop layer: a monitor over what can be observed at the engine's API       *)
(* M = [learned, heard, contacted, inflight, stale, answered, term, recs,    *)
(*      reported, provs]                                                     *)

PropInit(C) ==
  [learned |-> IF C.kind = "track" THEN {} ELSE C.init, heard |-> C.init,
   contacted |-> IF C.kind = "track" THEN C.init ELSE {},
   inflight |-> IF C.kind = "track" THEN C.init ELSE {},
   stale |-> {}, answered |-> {}, term |-> FALSE,
   recs |-> {}, reported |-> <<>>, provs |-> {}]

NonDecreasing(s) == \A i \in 1..(Len(s) - 1) : s[i] <= s[i + 1]

\* is (o, ret) a step C15 allows in monitor state M ?
PropOK(C, M, o, ret) ==
  CASE o.op = "next" ->
      (CASE ret.a = "none" -> TRUE
         [] ret.a = "send" ->
              /\ ~M.term                                      \* nothing after the terminal result
              /\ C.kind # "track"
              /\ ret.p # 0                                    \* never the local node
              /\ ret.p \notin M.contacted                     \* never the same peer twice
              /\ ret.p \in M.heard                            \* only peers the lookup was told about
              /\ Cardinality(M.inflight \ M.stale) + 1 <= C.alpha   \* fresh unanswered requests
              /\ (C.kind = "get" => C.localrec + Cardinality(M.recs) < C.need)  \* stop at quorum
         [] ret.a = "partial" ->
              /\ ~M.term
              /\ C.kind = "get"
              /\ ret.p \in M.recs                             \* an item a peer returned ...
              /\ ret.p \notin RangeOf(M.reported)             \* ... reported once
         [] ret.a = "ok" ->
              /\ ~M.term                                      \* exactly one terminal result
              /\ C.kind = "find" =>
                   /\ RangeOf(ret.peers) \subseteq M.answered
                   /\ NonDecreasing(ret.peers)
                   /\ Len(ret.peers) <= C.repl
                   /\ ret.peers # <<>> =>
                        \A q \in M.learned : q < ret.peers[Len(ret.peers)] => q \in M.contacted
              /\ C.kind = "get" => RangeOf(M.reported) = M.recs
              /\ C.kind = "prov" =>                           \* every provider a peer returned, once
                   /\ M.provs \subseteq RangeOf(ret.provs)
                   /\ RangeOf(ret.provs) \subseteq M.provs \cup C.known
                   /\ Len(ret.provs) = Cardinality(RangeOf(ret.provs))
         [] ret.a = "failed" ->
              /\ ~M.term
              /\ C.kind = "get" => RangeOf(M.reported) = M.recs
              /\ C.kind = "prov" => M.provs = {})
    [] o.op = "quiesce" -> M.inflight = {} => M.term            \* it terminates
    [] OTHER -> TRUE

PropUpd(C, M, o, ret) ==
  CASE o.op = "next" ->
      (CASE ret.a = "send"    -> [M EXCEPT !.contacted = @ \cup {ret.p}, !.inflight = @ \cup {ret.p}]
         [] ret.a = "partial" -> [M EXCEPT !.reported = Append(@, ret.p)]
         [] ret.a \in {"ok", "failed"} -> [M EXCEPT !.term = TRUE]
         [] OTHER -> M)
    [] o.op = "resp" ->
       IF o.p \in M.inflight /\ ~M.term /\ C.kind # "track"
         THEN [M EXCEPT !.inflight = @ \ {o.p}, !.stale = @ \ {o.p}, !.answered = @ \cup {o.p},
                        !.learned = @ \cup (o.peers \ {0}), !.heard = @ \cup (o.peers \ {0}),
                        !.recs = IF o.rec = 1 THEN @ \cup {o.p} ELSE @,
                        !.provs = @ \cup o.provs]
         ELSE [M EXCEPT !.heard = @ \cup (o.peers \ {0}),      \* unsolicited / after the end: may be
                        !.inflight = @ \ {o.p}, !.stale = @ \ {o.p}]   \* used, need not be
    [] o.op = "fail" ->
       IF C.kind # "track" THEN [M EXCEPT !.inflight = @ \ {o.p}, !.stale = @ \ {o.p}] ELSE M
    [] o.op \in {"sendok", "sendfail"} ->
       IF C.kind = "track" THEN [M EXCEPT !.inflight = @ \ {o.p}] ELSE M
    [] o.op = "stale" -> [M EXCEPT !.stale = @ \cup (o.ps \cap M.inflight)]
    [] OTHER -> M
=============================================================================
