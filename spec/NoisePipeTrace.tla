--------------------------- MODULE NoisePipeTrace ---------------------------
(* Trace validation for C02: every event recorded from two real NoiseSockets *)
(* around the scripted carrier must be accepted by the Prop monitor          *)
(* (MODE=prop, decides C02) or be exactly what the Impl layer computes at    *)
(* real scale (MODE=impl, drift detector; only segments marked `light`).     *)
EXTENDS NoisePipe, TLC, Json, IOUtils

Rec == ndJsonDeserialize(IOEnv.TRACE)
Mode == IOEnv.MODE

VARIABLES l, P, I, C, light
tvars == <<l, P, I, C, light>>

NoPlan == [kind |-> "none", i |-> 0, x |-> 0, ea |-> 0, ef |-> 0]
C0 == [MSG |-> 65536, TAG |-> 16, R |-> 5, W |-> 2, CHUNK |-> 65519]

TInit == /\ l = 1
         /\ C = C0
         /\ P = InitProp(NoPlan)
         /\ I = InitImpl(C0, NoPlan)
         /\ light = FALSE

TReset == /\ Rec[l].e = "reset"
          /\ C' = Rec[l].cfg
          /\ P' = InitProp(Rec[l].plan)
          /\ I' = InitImpl(Rec[l].cfg, Rec[l].plan)
          /\ light' = Rec[l].light

\* Impl prediction equals the recorded event on the compared fields
Same(p, e) ==
  CASE e.e = "write" -> p.res = e.res /\ p.acc = e.acc /\ p.nf = e.nf /\ p.st = e.st /\ p.inner = e.inner
    [] e.e = "flush" -> p.res = e.res /\ p.nf = e.nf /\ p.st = e.st
    [] e.e = "read"  -> /\ p.res = e.res /\ p.inner = e.inner
                        /\ (e.res = "ok" => p.start = e.start /\ p.len = e.len)
                        /\ (e.res \in {"ok", "pending"} => p.st = e.st)
    [] OTHER -> TRUE

TEv == /\ Rec[l].e # "reset"
       /\ UNCHANGED <<C, light>>
       /\ LET e == Rec[l] IN
          IF Mode = "impl"
            THEN /\ P' = PropUpdate(C, P, e)
                 \* after the reader returned an error the code parses unauthenticated bytes as
                 \* lengths on a re-poll; that is not modelled (and not judged)
                 /\ IF light /\ ~P.rerr
                      THEN LET r == ImplApply(C, I, e) IN Same(r.ev, e) /\ I' = r.I
                      ELSE I' = I
            ELSE /\ I' = I
                 /\ PropAccepts(C, P, e)
                 /\ P' = PropUpdate(C, P, e)
                 /\ PropInv(C, P')

TNext == /\ l <= Len(Rec)
         /\ l' = l + 1
         /\ (TReset \/ TEv)

TSpec == TInit /\ [][TNext]_tvars

Accepted ==
  LET d == TLCGet("stats").diameter IN
  IF d - 1 = Len(Rec) THEN PrintT(<<"TRACE_OK", Len(Rec)>>)
  ELSE PrintT(<<"TRACE_REJECTED_AT", d>>) /\ FALSE
=============================================================================
