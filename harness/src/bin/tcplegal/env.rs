//! Remote endpoints the driver controls (shared by all executions of one run).
use litep2p::{
    config::ConfigBuilder,
    crypto::ed25519::Keypair,
    transport::{quic::config::Config as QuicConfig, tcp::config::Config as TcpConfig, websocket::config::Config as WsConfig},
    Litep2p,
};
use multiaddr::{Multiaddr, Protocol};
use std::{net::SocketAddr, time::Duration};
use tokio::{io::AsyncWriteExt, sync::mpsc};

/// Which transport an address belongs to.
pub fn transport_of(a: &Multiaddr) -> &'static str {
    if a.iter().any(|p| matches!(p, Protocol::QuicV1)) {
        "quic"
    } else if a.iter().any(|p| matches!(p, Protocol::Ws(_) | Protocol::Wss(_))) {
        "ws"
    } else {
        "tcp"
    }
}

pub struct Env {
    /// Full addresses (`<socket part>/p2p/<peer>`) of healthy remote nodes, one per transport.
    healthy: Vec<Vec<Multiaddr>>,
    /// A bound UDP socket nobody reads (QUIC dead endpoint) and one that answers every datagram with junk.
    pub udp_dead: Multiaddr,
    pub udp_garbage: Multiaddr,
    _udp_dead_socket: std::net::UdpSocket,
    /// Command channels of the nodes that dial the transport under test.
    dialers: Vec<mpsc::UnboundedSender<Multiaddr>>,
    pub refused: Multiaddr,
    pub blackhole: Multiaddr,
    pub garbage: Vec<Multiaddr>,
    _refused_socket: tokio::net::TcpSocket,
}

pub fn socket_of(a: &Multiaddr) -> SocketAddr {
    let mut it = a.iter();
    match (it.next(), it.next()) {
        (Some(Protocol::Ip4(ip)), Some(Protocol::Tcp(port))) | (Some(Protocol::Ip4(ip)), Some(Protocol::Udp(port))) =>
            SocketAddr::new(ip.into(), port),
        _ => panic!("socket address {a}"),
    }
}

fn node() -> Litep2p {
    let cfg = ConfigBuilder::new()
        .with_keypair(Keypair::generate())
        .with_tcp(TcpConfig {
            listen_addresses: vec!["/ip4/127.0.0.1/tcp/0".parse().unwrap()],
            reuse_port: false,
            ..Default::default()
        })
        .with_websocket(WsConfig {
            listen_addresses: vec!["/ip4/127.0.0.1/tcp/0/ws".parse().unwrap()],
            reuse_port: false,
            ..Default::default()
        })
        .with_quic(QuicConfig {
            listen_addresses: vec!["/ip4/127.0.0.1/udp/0/quic-v1".parse().unwrap()],
            ..Default::default()
        })
        .with_keep_alive_timeout(Duration::from_secs(2))
        .build();
    Litep2p::new(cfg).expect("remote node")
}

async fn listener() -> (tokio::net::TcpListener, Multiaddr) {
    let l = tokio::net::TcpListener::bind("127.0.0.1:0").await.unwrap();
    let port = l.local_addr().unwrap().port();
    (l, format!("/ip4/127.0.0.1/tcp/{port}").parse().unwrap())
}

impl Env {
    pub async fn new(n_healthy: usize, n_dialers: usize) -> Self {
        let mut healthy = vec![];
        for _ in 0..n_healthy {
            let mut n = node();
            healthy.push(n.listen_addresses().cloned().collect::<Vec<_>>());
            tokio::spawn(async move { while n.next_event().await.is_some() {} });
        }
        let mut dialers = vec![];
        for _ in 0..n_dialers {
            let mut n = node();
            let (tx, mut rx) = mpsc::unbounded_channel::<Multiaddr>();
            dialers.push(tx);
            tokio::spawn(async move {
                loop {
                    tokio::select! {
                        cmd = rx.recv() => match cmd {
                            Some(a) => { let _ = n.dial_address(a).await; }
                            None => break,
                        },
                        ev = n.next_event() => if ev.is_none() { break },
                    }
                }
            });
        }
        // refused: bound, never listening (the port stays reserved for the whole run)
        let sock = tokio::net::TcpSocket::new_v4().unwrap();
        sock.bind("127.0.0.1:0".parse().unwrap()).unwrap();
        let refused: Multiaddr = format!("/ip4/127.0.0.1/tcp/{}", sock.local_addr().unwrap().port()).parse().unwrap();
        // blackhole: accept, keep the socket for a while, never answer
        let (l, blackhole) = listener().await;
        tokio::spawn(async move {
            loop {
                if let Ok((s, _)) = l.accept().await {
                    tokio::spawn(async move {
                        tokio::time::sleep(Duration::from_secs(15)).await;
                        drop(s);
                    });
                }
            }
        });
        let mut garbage = vec![];
        for variant in 0..3 {
            let (l, a) = listener().await;
            garbage.push(a);
            tokio::spawn(async move {
                loop {
                    if let Ok((mut s, _)) = l.accept().await {
                        tokio::spawn(async move {
                            match variant {
                                0 => {}
                                1 => {
                                    let _ = s.write_all(b"\x13/multistream/1.0.0\n\x07/nope\n\xff\xff\xff garbage").await;
                                }
                                _ => {
                                    // agree on /noise, then junk instead of a handshake message
                                    let _ = s.write_all(b"\x13/multistream/1.0.0\n\x07/noise\n").await;
                                    tokio::time::sleep(Duration::from_millis(30)).await;
                                    let _ = s.write_all(&[0x00, 0x20, 1, 2, 3, 4, 5, 6, 7, 8, 9, 10, 11, 12, 13, 14, 15, 16, 17, 18, 19, 20, 21, 22, 23, 24, 25, 26, 27, 28, 29, 30, 31, 32]).await;
                                    tokio::time::sleep(Duration::from_millis(100)).await;
                                }
                            }
                        });
                    }
                }
            });
        }
        let dead = std::net::UdpSocket::bind("127.0.0.1:0").unwrap();
        let udp_dead: Multiaddr = format!("/ip4/127.0.0.1/udp/{}/quic-v1", dead.local_addr().unwrap().port()).parse().unwrap();
        let junk = tokio::net::UdpSocket::bind("127.0.0.1:0").await.unwrap();
        let udp_garbage: Multiaddr = format!("/ip4/127.0.0.1/udp/{}/quic-v1", junk.local_addr().unwrap().port()).parse().unwrap();
        tokio::spawn(async move {
            let mut buf = [0u8; 2048];
            while let Ok((_, from)) = junk.recv_from(&mut buf).await {
                let _ = junk.send_to(b"\xc0\x00\x00\x00\x01 not a quic packet at all", from).await;
            }
        });
        Env { healthy, dialers, refused, blackhole, garbage, _refused_socket: sock, udp_dead, udp_garbage, _udp_dead_socket: dead }
    }

    pub fn healthy_addr(&self, transport: &str, n: usize) -> Multiaddr {
        self.healthy[n % self.healthy.len()]
            .iter()
            .find(|a| transport_of(a) == transport)
            .unwrap_or_else(|| panic!("healthy node without a {transport} listener"))
            .clone()
    }

    pub fn dialer_dial(&self, n: usize, target: Multiaddr) {
        let _ = self.dialers[n % self.dialers.len()].send(target);
    }
}
