//! C19: feed remote-chosen bytes to the real litep2p decoders.
//! Inputs are the concretisations of the classes / byte-class sequences TLC enumerates from
//! `Decoders.tla` plus systematic damage (truncation at every offset, length-prefix
//! extremes, wrong wire types, duplicated / dropped fields, splices, flips, noise,
//! amplification) of valid encodings produced by the library's own encoders.
//! Recorded per input: outcome (value / error / panic), the largest single allocation made
//! while decoding (counting global allocator) and the configured limit.  A watchdog turns a
//! decoder that stops making progress into a `hang` observation.
#[path = "../wire_common/mod.rs"]
mod wire;

use bytes::{Bytes, BytesMut};
use futures::{AsyncRead, Stream, StreamExt};
use litep2p::{
    crypto::{ed25519::Keypair, PublicKey, RemotePublicKey},
    types::protocol::ProtocolName,
    verif::{bitswap as bs, decoders as dc},
    PeerId,
};
use multiaddr::{Multiaddr, Protocol};
use rand::{rngs::StdRng, seq::SliceRandom, Rng};
use serde_json::{json, Value};
use std::{
    alloc::{GlobalAlloc, Layout, System},
    cell::Cell,
    pin::Pin,
    sync::{
        atomic::{AtomicU64, Ordering},
        Arc, Mutex,
    },
    task::{Context, Poll},
    time::{Duration, Instant},
};
use tokio::io::AsyncWriteExt;
use vharness::*;
use wire::*;

// ---------------------------------------------------------------- counting allocator
struct Counting;
thread_local! {
    static ARMED: Cell<bool> = const { Cell::new(false) };
    static MAX_ALLOC: Cell<usize> = const { Cell::new(0) };
}
fn note(n: usize) {
    let _ = ARMED.try_with(|a| {
        if a.get() {
            let _ = MAX_ALLOC.try_with(|m| {
                if n > m.get() {
                    m.set(n)
                }
            });
        }
    });
}
unsafe impl GlobalAlloc for Counting {
    unsafe fn alloc(&self, l: Layout) -> *mut u8 {
        note(l.size());
        System.alloc(l)
    }
    unsafe fn alloc_zeroed(&self, l: Layout) -> *mut u8 {
        note(l.size());
        System.alloc_zeroed(l)
    }
    unsafe fn dealloc(&self, p: *mut u8, l: Layout) {
        System.dealloc(p, l)
    }
    unsafe fn realloc(&self, p: *mut u8, l: Layout, n: usize) -> *mut u8 {
        note(n);
        System.realloc(p, l, n)
    }
}
#[global_allocator]
static GLOBAL: Counting = Counting;

fn arm() {
    ARMED.with(|a| a.set(true));
}
fn disarm() {
    ARMED.with(|a| a.set(false));
}
fn reset_max() {
    MAX_ALLOC.with(|m| m.set(0));
}
fn max_alloc() -> i64 {
    MAX_ALLOC.with(|m| m.get()).min(2_000_000_000) as i64
}
/// Run a synchronous decoder call: panics are data, the largest single allocation is measured.
fn measured<T>(f: impl FnOnce() -> T) -> (Result<T, String>, i64) {
    reset_max();
    arm();
    let r = catch(f);
    disarm();
    (r, max_alloc())
}

fn fault(name: &str) -> bool {
    std::env::var("VERIF_FAULT").map(|f| f == name).unwrap_or(false)
}

// ---------------------------------------------------------------- progress / watchdog
struct Progress {
    done: AtomicU64,
    current: Mutex<String>,
}
static PROGRESS: std::sync::OnceLock<Arc<Progress>> = std::sync::OnceLock::new();
fn tick(what: impl FnOnce() -> String) {
    if let Some(p) = PROGRESS.get() {
        let n = p.done.fetch_add(1, Ordering::Relaxed);
        if n % 64 == 0 {
            *p.current.lock().unwrap() = what();
        }
    }
}

struct Out {
    lines: Vec<String>,
    counts: std::collections::BTreeMap<String, u64>,
    last_dec: String,
}
impl Out {
    fn push(&mut self, v: Value) {
        let key = format!("{}:{}", v["e"].as_str().unwrap_or("?"), v.get("dec").or(v.get("kind")).and_then(|x| x.as_str()).unwrap_or(""));
        *self.counts.entry(key).or_default() += 1;
        // candidates of recorded findings get a segment of their own
        let own = v["op"] == "amplify";
        // one segment per decoder run of the plan: a rejection in one does not hide the others
        let dec = v.get("dec").and_then(|d| d.as_str()).unwrap_or("").to_string();
        if v["e"] == "pb" && !own && dec != self.last_dec && v.get("src").is_none() {
            self.lines.push(jline(json!({"e": "reset", "i": "plan", "dec": dec})));
        }
        if v.get("src").is_none() {
            self.last_dec = dec;
        }
        if own {
            self.lines.push(jline(json!({"e": "reset", "i": "amplify"})));
        }
        self.lines.push(jline(v));
        if own {
            self.lines.push(jline(json!({"e": "reset", "i": "plan"})));
        }
    }
}

// ---------------------------------------------------------------- A. LengthDelimited
/// A reader that hands out the data in the given chunk sizes, returning `Pending` (with an
/// immediate wake-up) between chunks.
struct Chunked {
    data: Vec<u8>,
    pos: usize,
    plan: Vec<usize>,
    step: usize,
    pending_next: bool,
}
impl AsyncRead for Chunked {
    fn poll_read(mut self: Pin<&mut Self>, cx: &mut Context<'_>, buf: &mut [u8]) -> Poll<std::io::Result<usize>> {
        if self.pending_next {
            self.pending_next = false;
            cx.waker().wake_by_ref();
            return Poll::Pending;
        }
        let left = self.data.len() - self.pos;
        let chunk = if self.plan.is_empty() { left } else { self.plan[self.step % self.plan.len()] };
        let n = left.min(chunk.max(1)).min(buf.len());
        let pos = self.pos;
        buf[..n].copy_from_slice(&self.data[pos..pos + n]);
        self.pos += n;
        self.step += 1;
        self.pending_next = !self.plan.is_empty();
        Poll::Ready(Ok(n))
    }
}

fn ld_bytes(toks: &[String], rng: &mut StdRng) -> Vec<u8> {
    toks.iter()
        .map(|t| match t.as_str() {
            "00" => 0x00,
            "01" => 0x01,
            "02" => 0x02,
            "03" => 0x03,
            "0a" => 0x0a,
            "2f" => 0x2f,
            "80" => 0x80,
            "hi" => rng.gen_range(0x81..=0xffu8),
            "lo" => loop {
                let b = rng.gen_range(0x06..=0x7fu8);
                if b != 0x0a && b != 0x2f {
                    break b;
                }
            },
            other => panic!("token {other}"),
        })
        .collect()
}

fn run_ld(toks: &[String], chunk: &str, rng: &mut StdRng, out: &mut Out) {
    let data = ld_bytes(toks, rng);
    let plan = match chunk {
        "all" => vec![],
        "bytewise" => vec![1],
        _ => (0..4).map(|_| rng.gen_range(1..4)).collect(),
    };
    let reader = Chunked { data: data.clone(), pos: 0, plan, step: 0, pending_next: false };
    let (r, alloc) = measured(|| {
        let mut io = dc::LengthDelimited::new(reader);
        let mut lens: Vec<usize> = vec![];
        let mut frames: Vec<u8> = vec![];
        let fin = futures::executor::block_on(async {
            for _ in 0..data.len() + 2 {
                match io.next().await {
                    None => return "end".to_string(),
                    Some(Ok(f)) => {
                        lens.push(f.len());
                        frames.extend_from_slice(&f);
                    }
                    Some(Err(e)) => {
                        return match (e.kind(), e.to_string()) {
                            (std::io::ErrorKind::UnexpectedEof, _) => "eof".to_string(),
                            (_, m) if m.contains("invalid length prefix") => "invalid".to_string(),
                            (_, m) if m.contains("Maximum frame length") => "maxlen".to_string(),
                            (_, m) => format!("error:{m}"),
                        }
                    }
                }
            }
            "hang".to_string()
        });
        (lens, fin)
    });
    let (lens, fin) = match r {
        Ok(x) => x,
        Err(p) => (vec![], if p.is_empty() { "panic".into() } else { "panic".to_string() }),
    };
    let fin = if fault("ld-panic") && toks.len() == 3 && toks[0] == "80" { "panic".to_string() } else { fin };
    out.push(json!({"e": "ld", "toks": toks, "chunk": chunk, "lens": lens, "final": fin, "alloc": alloc,
                    "limit": dc::MSS_MAX_FRAME_SIZE, "bytes": hex::encode(&data)}));
    // the same bytes through the message layer on top of the framing
    let reader = Chunked { data: data.clone(), pos: 0, plan: vec![], step: 0, pending_next: false };
    let (r, alloc) = measured(|| {
        let mut io = dc::MessageIO::new(reader);
        futures::executor::block_on(async {
            for _ in 0..data.len() + 2 {
                match io.next().await {
                    None => return "ok",
                    Some(Ok(_)) => {}
                    Some(Err(_)) => return "err",
                }
            }
            "hang"
        })
    });
    out.push(json!({"e": "pb", "dec": "mss_message", "op": "noise", "out": r.unwrap_or("panic"), "alloc": alloc,
                    "limit": dc::MSS_MAX_FRAME_SIZE, "len": data.len(), "src": "ld"}));
}

impl futures::AsyncWrite for Chunked {
    fn poll_write(self: Pin<&mut Self>, _: &mut Context<'_>, buf: &[u8]) -> Poll<std::io::Result<usize>> {
        Poll::Ready(Ok(buf.len()))
    }
    fn poll_flush(self: Pin<&mut Self>, _: &mut Context<'_>) -> Poll<std::io::Result<()>> {
        Poll::Ready(Ok(()))
    }
    fn poll_close(self: Pin<&mut Self>, _: &mut Context<'_>) -> Poll<std::io::Result<()>> {
        Poll::Ready(Ok(()))
    }
}

// ---------------------------------------------------------------- B. substream length prefix
fn prefix_of_class(c: &Value, rng: &mut StdRng) -> Vec<u8> {
    let k = c["k"].as_u64().unwrap() as usize;
    let mut v: Vec<u8> = (0..k)
        .map(|_| if c["flavour"] == "zeros" { 0x80 } else if rng.gen_range(0..3) == 0 { rng.gen_range(0x81..=0xff) } else { 0xff })
        .collect();
    match c["term"].as_str().unwrap() {
        "00" => v.push(0x00),
        "lo" => v.push(rng.gen_range(0x01..=0x7f)),
        _ => {}
    }
    v
}

fn run_rps(c: &Value, rng: &mut StdRng, out: &mut Out) {
    let b = prefix_of_class(c, rng);
    let (r, alloc) = measured(|| dc::read_payload_size(&b));
    let (o, detail) = match &r {
        Err(_) => ("panic", json!("")),
        Ok(Ok((size, used))) => {
            // independent value: low 64 bits of the little-endian base-128 number
            let expect = read_uvarint(&b).map(|(v, n)| (v as usize, n));
            ("ok", json!({"size": size.to_string(), "used": used, "agrees": expect == Some((*size, *used))}))
        }
        Ok(Err(e)) => (*e, json!("")),
    };
    out.push(json!({"e": "cls", "kind": "rps", "c": c, "out": o, "alloc": alloc, "limit": 16, "bytes": hex::encode(&b), "detail": detail}));
}

enum SubOutcome {
    Frame(usize),
    Error,
    End,
    Panic(String),
}

/// Real substream with `codec`, the raw end writes `wire` and closes; the substream is polled
/// once for a frame. Allocation is measured only while the substream itself is being polled.
async fn poll_substream(codec: dc::ProtocolCodec, wire: Vec<u8>) -> (SubOutcome, i64) {
    let (mut substream, mut raw, guard) = dc::substream_over_yamux(codec, false).await;
    let writer = tokio::spawn(async move {
        let _ = raw.write_all(&wire).await;
        let _ = raw.flush().await;
        let _ = raw.shutdown().await;
        raw
    });
    reset_max();
    let r = futures::future::poll_fn(|cx| {
        arm();
        let r = catch(|| Pin::new(&mut substream).poll_next(cx));
        disarm();
        match r {
            Err(p) => Poll::Ready(SubOutcome::Panic(p)),
            Ok(Poll::Pending) => Poll::Pending,
            Ok(Poll::Ready(None)) => Poll::Ready(SubOutcome::End),
            Ok(Poll::Ready(Some(Ok(f)))) => Poll::Ready(SubOutcome::Frame(f.len())),
            Ok(Poll::Ready(Some(Err(_)))) => Poll::Ready(SubOutcome::Error),
        }
    })
    .await;
    let alloc = max_alloc();
    drop(substream);
    let _ = writer.await;
    drop(guard);
    (r, alloc)
}

const REALISABLE: usize = 6 * 1024 * 1024;

async fn run_sub(c: &Value, rng: &mut StdRng, out: &mut Out) -> bool {
    let prefix = prefix_of_class(c, rng);
    let accepted = matches!(dc::read_payload_size(&prefix), Ok(_)) && c["term"] != "none" && (c["k"].as_u64().unwrap() < 10);
    let size = read_uvarint(&prefix).map(|(v, _)| v).unwrap_or(0);
    let rel = c["rel"].as_str().unwrap();
    // choose the configured maximum relative to the announced size
    let max: u64 = match rel {
        "eq" => size,
        "le" => size.saturating_add(*[1u64, 7, 4096, 1 << 20].choose(rng).unwrap()),
        _ => {
            if size == 0 {
                return false; // nothing is larger than a maximum of ... nothing: class not realisable
            }
            *[size - 1, size / 2, 0, (size - 1).min(1024)].choose(rng).unwrap()
        }
    };
    if accepted && rel != "gt" && size as usize > REALISABLE {
        return false; // a limit that large cannot be exercised: class not realisable here
    }
    let max = max.min(REALISABLE as u64 * 2) as usize;
    let mut wire = prefix.clone();
    if accepted && rel != "gt" {
        wire.extend(rand_bytes(rng, size as usize));
    } else if c["term"] != "none" {
        wire.extend(rand_bytes(rng, 8)); // a few bytes of whatever follows
    }
    let (r, alloc) = poll_substream(dc::ProtocolCodec::UnsignedVarint(Some(max)), wire).await;
    let o = match r {
        SubOutcome::Frame(n) if n as u64 == size => "frame".to_string(),
        SubOutcome::Frame(n) => format!("frame-of-{n}-for-{size}"),
        SubOutcome::Error => "error".into(),
        SubOutcome::End => "end".into(),
        SubOutcome::Panic(_) => "panic".into(),
    };
    let alloc = if fault("sub-overalloc") && rel == "gt" { max as i64 + 70_000 } else { alloc };
    out.push(json!({"e": "cls", "kind": "sub", "c": c, "out": o, "alloc": alloc, "limit": max, "prefix": hex::encode(&prefix), "size": size.to_string()}));
    true
}

/// Probe of a substream without a configured maximum, in this (child) process.
fn probe_nomax(prefix_hex: &str) {
    let prefix = hex::decode(prefix_hex).expect("hex");
    let rt = tokio::runtime::Builder::new_current_thread().enable_all().build().unwrap();
    let (r, alloc) = rt.block_on(async {
        let mut wire = prefix.clone();
        wire.extend_from_slice(&[0u8; 8]);
        poll_substream(dc::ProtocolCodec::UnsignedVarint(None), wire).await
    });
    let o = match r {
        SubOutcome::Frame(_) => "frame",
        SubOutcome::Error => "error",
        SubOutcome::End => "end",
        SubOutcome::Panic(_) => "panic",
    };
    println!("PROBE out={o} alloc={alloc}");
}

fn run_nomax(out: &mut Out) {
    // announced sizes: small, large but allocatable, beyond memory, beyond isize
    let sizes: Vec<u64> = vec![0, 1, 4096, 1 << 20, 1 << 28, 1 << 33, 1 << 40, 1 << 47, 1 << 62, (1 << 63) - 1, 1 << 63, u64::MAX];
    for size in sizes {
        let prefix = uvarint(size);
        tick(|| format!("nomax size {size}"));
        let exe = std::env::current_exe().unwrap();
        let mut child = std::process::Command::new(exe)
            .args(["--probe-nomax", &hex::encode(&prefix)])
            .stdout(std::process::Stdio::piped())
            .stderr(std::process::Stdio::null())
            .spawn()
            .expect("spawn probe");
        let t0 = Instant::now();
        let status = loop {
            match child.try_wait().expect("wait") {
                Some(s) => break Some(s),
                None if t0.elapsed() > Duration::from_secs(100) => {
                    let _ = child.kill();
                    let _ = child.wait();
                    break None;
                }
                None => {
                    // waiting for the probe is progress of its own (the probe has its own deadline)
                    tick(|| format!("nomax size {size} (waiting)"));
                    std::thread::sleep(Duration::from_millis(20))
                }
            }
        };
        let mut text = String::new();
        if let Some(mut so) = child.stdout.take() {
            use std::io::Read;
            let _ = so.read_to_string(&mut text);
        }
        let (o, alloc) = match status {
            None => ("hang".to_string(), 0i64),
            Some(s) if s.success() => {
                let line = text.lines().find(|l| l.starts_with("PROBE ")).unwrap_or("PROBE out=error alloc=0").to_string();
                let o = line.split("out=").nth(1).and_then(|x| x.split(' ').next()).unwrap_or("error").to_string();
                let a = line.split("alloc=").nth(1).and_then(|x| x.trim().parse().ok()).unwrap_or(0);
                (o, a)
            }
            // killed by a signal (allocation failure aborts the process) or a non-zero exit
            Some(_) => ("abort".to_string(), 0),
        };
        out.push(json!({"e": "reset", "i": "nomax"}));
        out.push(json!({"e": "nomax", "out": o, "alloc": alloc, "size": size.to_string(), "prefix": hex::encode(&prefix)}));
    }
}

// ---------------------------------------------------------------- C. Message::decode
fn framed(content: &[u8]) -> Vec<u8> {
    let mut v = uvarint(content.len() as u64);
    v.extend_from_slice(content);
    v
}

fn msg_bytes(c: &Value, rng: &mut StdRng) -> Vec<u8> {
    let name = |rng: &mut StdRng| -> Vec<u8> {
        let n = rng.gen_range(0..12);
        let mut v = vec![b'/'];
        v.extend((0..n).map(|_| *b"abcxyz019/-._".choose(rng).unwrap()));
        v
    };
    match c["shape"].as_str().unwrap() {
        "header" => b"/multistream/1.0.0\n".to_vec(),
        "na" => b"na\n".to_vec(),
        "ls" => b"ls\n".to_vec(),
        "proto" => {
            let mut v = name(rng);
            v.push(b'\n');
            v
        }
        "proto_inner_nl" => {
            let mut v = name(rng);
            v.push(b'\n');
            v.extend(name(rng));
            v.push(b'\n');
            v
        }
        "proto_no_nl" => {
            let mut v = name(rng);
            v.push(b'x');
            v
        }
        "empty" => vec![],
        "list" => {
            let n: usize = c["entries"].as_str().unwrap().parse().unwrap();
            let mut v = vec![];
            for i in 0..n {
                let mut e = if n > 10 { b"/a".to_vec() } else { name(rng) };
                e.push(b'\n');
                let bad = if i + 1 == n { c["bad"].as_str().unwrap() } else { "none" };
                match bad {
                    "none" => v.extend(framed(&e)),
                    "len0" => v.push(0x00),
                    "len_gt_tail" => {
                        // (never 47: a leading '/' would make it a protocol line)
                        let l = e.len() as u64 + 40;
                        v.extend(uvarint(if l == 47 { 48 } else { l }));
                        v.extend(&e)
                    }
                    "no_nl" => {
                        e.pop();
                        e.push(b'x');
                        v.extend(framed(&e))
                    }
                    "no_slash" => {
                        e[0] = b'x';
                        v.extend(framed(&e))
                    }
                    "varint_nonminimal" => {
                        v.extend(uvarint_padded(e.len() as u64, rng.gen_range(1..4)));
                        v.extend(&e)
                    }
                    "varint_toolong" => {
                        v.extend(std::iter::repeat(0x81).take(10 + rng.gen_range(0..3)));
                        v.push(0x01);
                        v.extend(&e)
                    }
                    other => panic!("bad {other}"),
                }
            }
            match c["tail"].as_str().unwrap() {
                "nl" => v.push(b'\n'),
                "missing" => {}
                _ => v.extend_from_slice(&[b'\n', 0x00]),
            }
            v
        }
        other => panic!("shape {other}"),
    }
}

fn msg_outcome(r: Result<Result<dc::Message, dc::ProtocolError>, String>) -> &'static str {
    match r {
        Err(_) => "panic",
        Ok(Err(_)) => "error",
        Ok(Ok(dc::Message::Header(_))) => "header",
        Ok(Ok(dc::Message::NotAvailable)) => "na",
        Ok(Ok(dc::Message::ListProtocols)) => "ls",
        Ok(Ok(dc::Message::Protocol(_))) => "protocol",
        Ok(Ok(dc::Message::Protocols(_))) => "protocols",
    }
}

fn run_msg(c: &Value, rng: &mut StdRng, out: &mut Out) {
    let b = msg_bytes(c, rng);
    let (r, alloc) = measured(|| dc::Message::decode(Bytes::from(b.clone())));
    out.push(json!({"e": "cls", "kind": "msg", "c": c, "out": msg_outcome(r), "alloc": alloc, "limit": dc::MSS_MAX_FRAME_SIZE, "len": b.len()}));
}

// ---------------------------------------------------------------- D. webrtc negotiation payloads
const SUP: &str = "/sup/1";
fn neg_message(m: &str, rng: &mut StdRng) -> Vec<u8> {
    match m {
        "header" => framed(b"/multistream/1.0.0\n"),
        "proto_sup" => framed(b"/sup/1\n"),
        "proto_unsup" => framed(b"/unsup/1\n"),
        "na" => framed(b"na\n"),
        "ls" => framed(b"ls\n"),
        "list" => framed(b"\x03/x\n\x03/y\n\n"),
        "invalid" => framed(*[&b"xyz"[..], b"\xff\xff", b"/a\nb", b"abc\n"].choose(rng).unwrap()),
        "truncated" => {
            let content = b"/sup/1\n";
            let mut v = uvarint(content.len() as u64 + rng.gen_range(1..40));
            v.extend_from_slice(content);
            v
        }
        "badvarint" => {
            if rng.gen() {
                let mut v = uvarint_padded(7, rng.gen_range(1..4));
                v.extend_from_slice(b"/sup/1\n");
                v
            } else {
                let mut v = vec![0x87u8; 10 + rng.gen_range(0..3)];
                v.push(0x01);
                v.extend_from_slice(b"/sup/1\n");
                v
            }
        }
        "none" => vec![],
        other => panic!("neg message {other}"),
    }
}

fn neg_payload(c: &Value, rng: &mut StdRng) -> Vec<u8> {
    let mut v = neg_message(c["first"].as_str().unwrap(), rng);
    v.extend(neg_message(c["second"].as_str().unwrap(), rng));
    if c["trailing"].as_bool().unwrap() {
        v.extend(rand_bytes_in(rng, 1, 6));
    }
    v
}

fn run_lis(c: &Value, rng: &mut StdRng, out: &mut Out) {
    let p = neg_payload(c, rng);
    let hr = c["hr"].as_bool().unwrap();
    let (r, alloc) = measured(|| dc::webrtc_listener_negotiate(vec![ProtocolName::from(SUP)], Bytes::from(p.clone()), hr));
    let o = match r {
        Err(_) => "panic",
        Ok(Err(_)) => "error",
        Ok(Ok(dc::ListenerSelectResult::Accepted { .. })) => "accepted",
        Ok(Ok(dc::ListenerSelectResult::Rejected { .. })) => "rejected",
        Ok(Ok(dc::ListenerSelectResult::PendingProtocol { .. })) => "pending",
    };
    out.push(json!({"e": "cls", "kind": "lis", "c": c, "out": o, "alloc": alloc, "limit": 16384, "payload": hex::encode(&p)}));
}

fn run_dia(c: &Value, rng: &mut StdRng, out: &mut Out) {
    let p = neg_payload(c, rng);
    let (r, alloc) = measured(|| {
        let (mut st, _) = dc::WebRtcDialerState::propose(ProtocolName::from(SUP), vec![]).expect("propose");
        st.register_response(p.clone())
    });
    let o = match r {
        Err(_) => "panic",
        Ok(Err(_)) => "error",
        Ok(Ok(dc::HandshakeResult::NotReady)) => "not-ready",
        Ok(Ok(dc::HandshakeResult::Succeeded(_))) => "succeeded",
        Ok(Ok(dc::HandshakeResult::Rejected)) => "rejected",
    };
    out.push(json!({"e": "cls", "kind": "dia", "c": c, "out": o, "alloc": alloc, "limit": 16384, "payload": hex::encode(&p)}));
}

// ---------------------------------------------------------------- E. protobuf decoders
const KAD_LIMIT: usize = 70 * 1024;
const NOISE_LIMIT: usize = 65535;

fn rand_addr(rng: &mut StdRng, with_peer: Option<PeerId>) -> Multiaddr {
    let mut a = match rng.gen_range(0..4) {
        0 => Multiaddr::empty().with(Protocol::Ip4(rng.gen::<[u8; 4]>().into())).with(Protocol::Tcp(rng.gen())),
        1 => Multiaddr::empty().with(Protocol::Ip6(rng.gen::<[u8; 16]>().into())).with(Protocol::Tcp(rng.gen())),
        2 => Multiaddr::empty().with(Protocol::Dns("node.example.org".into())).with(Protocol::Tcp(rng.gen())).with(Protocol::Ws("/".into())),
        _ => Multiaddr::empty().with(Protocol::Ip4(rng.gen::<[u8; 4]>().into())).with(Protocol::Udp(rng.gen())).with(Protocol::QuicV1),
    };
    if let Some(p) = with_peer {
        a = a.with(Protocol::P2p(p.into()));
    }
    a
}

fn rand_kad_peer(rng: &mut StdRng, naddr: usize) -> dc::KademliaPeer {
    let peer = PeerId::random();
    let addrs: Vec<Multiaddr> = (0..naddr)
        .map(|_| {
            let with = rng.gen::<bool>().then_some(peer);
            rand_addr(rng, with)
        })
        .collect();
    let ct = *[dc::ConnectionType::NotConnected, dc::ConnectionType::Connected, dc::ConnectionType::CanConnect, dc::ConnectionType::CannotConnect]
        .choose(rng)
        .unwrap();
    dc::KademliaPeer::new(peer, addrs, ct)
}

fn rand_record(rng: &mut StdRng, keylen: usize, kind: &str) -> dc::Record {
    dc::Record {
        key: dc::RecordKey::from(rand_bytes(rng, keylen)),
        value: rand_bytes_in(rng, 0, 40),
        publisher: (kind == "publisher").then(PeerId::random),
        expires: (kind == "ttl").then(|| Instant::now() + Duration::from_secs(rng.gen_range(5..100_000))),
    }
}

/// Valid encodings of every Kademlia message kind, produced by the library's encoders.
fn kad_valid(rng: &mut StdRng) -> Vec<Vec<u8>> {
    let key = dc::RecordKey::from(rand_bytes(rng, 32));
    let peers: Vec<dc::KademliaPeer> = (0..3).map(|_| rand_kad_peer(rng, 2)).collect();
    let provider = dc::ContentProvider { peer: PeerId::random(), addresses: vec![rand_addr(rng, None), rand_addr(rng, None)] };
    vec![
        dc::KademliaMessage::find_node(rand_bytes(rng, 32)).to_vec(),
        dc::KademliaMessage::put_value(rand_record(rng, 32, "publisher")).to_vec(),
        dc::KademliaMessage::put_value(rand_record(rng, 8, "ttl")).to_vec(),
        dc::KademliaMessage::get_record(key.clone()).to_vec(),
        dc::KademliaMessage::find_node_response(&key, peers.clone()),
        dc::KademliaMessage::put_value_response(key.clone(), rand_bytes(rng, 20)).to_vec(),
        dc::KademliaMessage::get_value_response(key.clone(), peers.clone(), Some(rand_record(rng, 32, "publisher"))),
        dc::KademliaMessage::add_provider(key.clone(), provider.clone()).to_vec(),
        dc::KademliaMessage::get_providers_request(key.clone()).to_vec(),
        dc::KademliaMessage::get_providers_response(vec![provider], &peers),
    ]
}

fn real_cid(data: &[u8]) -> cid::Cid {
    cid::Cid::new_v1(0x55, multihash::Multihash::<64>::wrap(0x12, &sha256(data)).unwrap())
}

fn bitswap_valid(rng: &mut StdRng) -> Vec<Vec<u8>> {
    let blocks: Vec<(cid::Cid, Vec<u8>)> = (0..3)
        .map(|_| {
            let d = rand_bytes_in(rng, 0, 200);
            (real_cid(&d), d)
        })
        .collect();
    let pres: Vec<(cid::Cid, bs::BlockPresenceType)> =
        (0..2).map(|i| (real_cid(&[i as u8]), if i == 0 { bs::BlockPresenceType::Have } else { bs::BlockPresenceType::DontHave })).collect();
    // a request: wantlist with entries (block = CID bytes, priority, wantType, sendDontHave)
    let mut wl = vec![];
    for i in 0..3u8 {
        let mut e = pb_bytes(1, &real_cid(&[i, 7]).to_bytes());
        e.extend(pb_varint(2, 1));
        e.extend(pb_varint(4, (i % 2) as u64));
        wl.extend(pb_bytes(1, &e));
    }
    vec![
        bs::blocks_message(blocks).unwrap().0.to_vec(),
        bs::presences_message(pres).unwrap().0.to_vec(),
        pb_bytes(1, &wl),
    ]
}

fn bitswap_decode(h: &mut bs::BitswapHarness, handle: &mut bs::BitswapHandle, m: &[u8]) -> (&'static str, i64, Vec<bs::BitswapEvent>) {
    let peer = PeerId::random();
    let (r, alloc) = measured(|| futures::executor::block_on(h.on_message_received(peer, m)));
    let mut evs = vec![];
    while let Some(Some(ev)) = futures::FutureExt::now_or_never(handle.next()) {
        evs.push(ev);
    }
    (match r { Err(_) => "panic", Ok(Err(_)) => "err", Ok(Ok(())) => "ok" }, alloc, evs)
}

struct IdentifyRig {
    rt: tokio::runtime::Runtime,
}
impl IdentifyRig {
    /// Feed `payload` as the remote's identify message to a real `Identify` instance.
    fn decode(&self, payload: &[u8], sender: PeerId) -> (Result<dc::IdentifyInfo, String>, i64, bool) {
        self.rt.block_on(async {
            let mut h = dc::IdentifyHarness::new(vec![]);
            let (substream, mut raw, guard) =
                dc::substream_over_yamux(dc::ProtocolCodec::UnsignedVarint(Some(dc::IDENTIFY_PAYLOAD_SIZE)), false).await;
            let wire = framed(payload);
            let writer = tokio::spawn(async move {
                let _ = raw.write_all(&wire).await;
                let _ = raw.flush().await;
                let _ = raw.shutdown().await;
                raw
            });
            reset_max();
            let mut fut = Box::pin(h.outbound(sender, substream));
            let r = futures::future::poll_fn(|cx| {
                arm();
                let r = catch(|| fut.as_mut().poll(cx));
                disarm();
                match r {
                    Err(p) => Poll::Ready(Err(p)),
                    Ok(Poll::Pending) => Poll::Pending,
                    Ok(Poll::Ready(x)) => Poll::Ready(Ok(x)),
                }
            })
            .await;
            let alloc = max_alloc();
            drop(fut);
            let _ = writer.await;
            drop(guard);
            match r {
                Err(_) => (Err("panic".to_string()), alloc, true),
                Ok(x) => (x, alloc, false),
            }
        })
    }
    /// The identify message a real instance sends (its own encoder), with what it advertised.
    fn encode(&self, protocols: Vec<String>, listen: Vec<Multiaddr>, observed: Option<Multiaddr>) -> (Vec<u8>, PeerId) {
        use tokio::io::AsyncReadExt;
        self.rt.block_on(async {
            let mut h = dc::IdentifyHarness::new(protocols.into_iter().map(ProtocolName::from).collect());
            for a in listen {
                h.add_public_address(a);
            }
            let peer = PeerId::random();
            if let Some(o) = observed {
                h.set_endpoint(peer, o);
            }
            let (substream, mut raw, guard) =
                dc::substream_over_yamux(dc::ProtocolCodec::UnsignedVarint(Some(dc::IDENTIFY_PAYLOAD_SIZE)), true).await;
            let reader = tokio::spawn(async move {
                let mut all = vec![];
                let _ = raw.read_to_end(&mut all).await;
                all
            });
            h.inbound(peer, substream).await;
            let all = reader.await.unwrap();
            drop(guard);
            let (len, n) = read_uvarint(&all).expect("identify frame");
            (all[n..n + len as usize].to_vec(), h.local_peer_id())
        })
    }
}

use std::future::Future;

// ---------------------------------------------------------------- usability oracle
// Every value a decoder returns is pushed through the library's own total conversions that
// consumers apply to it without further checks. A panic (or a broken round trip) there means
// bytes from the network produced a value outside the domain of a consumer: `unusable`.

fn usable_peer_id(p: &PeerId) -> Result<(), String> {
    let bytes = p.to_bytes();
    if PeerId::from_bytes(&bytes).ok().as_ref() != Some(p) {
        return Err("peer id: to_bytes/from_bytes does not round-trip".into());
    }
    let text = p.to_base58();
    if text != p.to_string() || text.parse::<PeerId>().ok().as_ref() != Some(p) {
        return Err("peer id: to_base58/Display/from_str does not round-trip".into());
    }
    let mh: multihash::Multihash<64> = (*p).into();
    if PeerId::from_multihash(mh).ok().as_ref() != Some(p) {
        return Err("peer id: Multihash conversion does not round-trip".into());
    }
    // the infallible conversion consumers use to build a /p2p component
    let mp: multiaddr::PeerId = (*p).into();
    let addr = Multiaddr::empty().with(Protocol::Ip4([192, 0, 2, 1].into())).with(Protocol::Tcp(30333)).with(Protocol::P2p(mp));
    if PeerId::try_from_multiaddr(&addr).as_ref() != Some(p) {
        return Err("peer id: /p2p component does not round-trip".into());
    }
    let again = Multiaddr::try_from(addr.to_vec()).map_err(|_| "peer id: multiaddress with /p2p does not re-parse".to_string())?;
    if PeerId::try_from_multiaddr(&again).as_ref() != Some(p) {
        return Err("peer id: binary multiaddress with /p2p does not round-trip".into());
    }
    Ok(())
}

fn usable_multiaddr(a: &Multiaddr) -> Result<(), String> {
    if Multiaddr::try_from(a.to_vec()).ok().as_ref() != Some(a) {
        return Err("multiaddress: to_vec/try_from does not round-trip".into());
    }
    if let Some(p) = PeerId::try_from_multiaddr(a) {
        usable_peer_id(&p)?;
    }
    let _ = a.to_string();
    Ok(())
}

/// What the Kademlia handler does with a decoded peer: the addresses get the peer id appended
/// where missing (`TransportService::add_known_address`, `RoutingTable::add_known_peer`) and
/// the peer goes into the real routing table.
fn usable_kad_peer(peer: &dc::KademliaPeer) -> Result<(), String> {
    use litep2p::verif::kad::{peer_info, peer_key, RoutingTable};
    let (id, _, connection, _) = peer_info(peer);
    usable_peer_id(&id)?;
    let addresses = peer.addresses();
    for a in &addresses {
        usable_multiaddr(a)?;
        let full = if matches!(a.iter().last(), Some(Protocol::P2p(_))) { a.clone() } else { a.clone().with(Protocol::P2p(id.into())) };
        usable_multiaddr(&full)?;
    }
    let mut table = RoutingTable::new(peer_key(PeerId::random()));
    table.add_known_peer(id, addresses, connection);
    let _ = table.closest(&peer_key(id), 20);
    // and back onto the wire, as a FIND_NODE response relaying the peer would
    let again = dc::KademliaMessage::find_node_response(&[1u8, 2, 3][..], vec![peer.clone()]);
    match dc::KademliaMessage::from_bytes(BytesMut::from(&again[..]), 20) {
        Some(dc::KademliaMessage::FindNode { peers, .. }) if peers.len() == 1 && peer_info(&peers[0]).0 == id => Ok(()),
        _ => Err("kademlia peer: re-encoded peer does not decode to itself".into()),
    }
}

fn usable_kad_message(m: &dc::KademliaMessage) -> Result<(), String> {
    let rec = |r: &dc::Record| r.publisher.as_ref().map(usable_peer_id).unwrap_or(Ok(()));
    match m {
        dc::KademliaMessage::FindNode { peers, .. } => peers.iter().try_for_each(usable_kad_peer),
        dc::KademliaMessage::PutValue { record } => rec(record),
        dc::KademliaMessage::GetRecord { record, peers, .. } => {
            record.as_ref().map(rec).unwrap_or(Ok(()))?;
            peers.iter().try_for_each(usable_kad_peer)
        }
        dc::KademliaMessage::AddProvider { providers, .. } => providers.iter().try_for_each(usable_kad_peer),
        dc::KademliaMessage::GetProviders { peers, providers, .. } => peers.iter().chain(providers).try_for_each(usable_kad_peer),
    }
}

/// Run a usability check under `catch`; on failure the observation becomes `unusable` and
/// carries the input bytes.
fn judge_usable(mut ev: Value, input: &[u8], check: impl FnOnce() -> Result<(), String>) -> Value {
    let r = match catch(check) {
        Ok(Ok(())) => return ev,
        Ok(Err(why)) => why,
        Err(p) => format!("consumer conversion panicked: {p}"),
    };
    ev["out"] = json!("unusable");
    ev["note"] = json!(r);
    ev["input"] = json!(hex::encode(&input[..input.len().min(4096)]));
    ev
}

/// F. a peer id of class `c` carried inside a Kademlia message (or bare).
fn run_kadpid(c: &Value, rng: &mut StdRng, out: &mut Out) {
    let dlen = c["dlen"].as_u64().unwrap() as usize;
    let code: u64 = match c["code"].as_str().unwrap() {
        "identity" => 0x00,
        "sha2_256" => 0x12,
        _ => *[0x13u64, 0x16, 0x11, 0x1b, 0xb220].choose(rng).unwrap(),
    };
    let mut id = uvarint(code);
    id.extend(uvarint(dlen as u64));
    let mut digest = rand_bytes(rng, dlen);
    if dlen >= 4 && rng.gen() {
        digest[..4].copy_from_slice(&[0x08, 0x01, 0x12, (dlen - 4) as u8]); // shaped like an inlined key
    }
    id.extend(digest);
    // a Peer as it is usual on the wire: addresses without the /p2p suffix
    let peer_msg = |id: &[u8], rng: &mut StdRng| {
        let mut p = pb_bytes(1, id);
        p.extend(pb_bytes(2, &Multiaddr::empty().with(Protocol::Ip4(rng.gen::<[u8; 4]>().into())).with(Protocol::Tcp(30333)).to_vec()));
        p.extend(pb_bytes(2, &rand_addr(rng, None).to_vec()));
        p.extend(pb_varint(3, rng.gen_range(0..4)));
        p
    };
    let wher = c["where"].as_str().unwrap();
    let m: Vec<u8> = match wher {
        "closer_peer" => [pb_varint(1, 4), pb_bytes(2, &[1, 2, 3]), pb_bytes(8, &peer_msg(&id, rng)), pb_varint(10, 10)].concat(),
        "provider_peer" => [pb_varint(1, 3), pb_bytes(2, &[1, 2, 3]), pb_bytes(9, &peer_msg(&id, rng)), pb_varint(10, 10)].concat(),
        "record_publisher" => {
            let record = [pb_bytes(1, &[1, 2, 3]), pb_bytes(2, b"value"), pb_bytes(666, &id)].concat();
            [pb_varint(1, 0), pb_bytes(2, &[1, 2, 3]), pb_bytes(3, &record), pb_varint(10, 10)].concat()
        }
        _ => id.clone(),
    };
    let (o, alloc, note): (&str, i64, String) = if wher == "bare" {
        let (r, alloc) = measured(|| PeerId::from_bytes(&m));
        match r {
            Err(p) => ("panic", alloc, p),
            Ok(Err(_)) => ("dropped", alloc, String::new()),
            Ok(Ok(p)) => match catch(|| usable_peer_id(&p)) {
                Ok(Ok(())) => ("usable", alloc, String::new()),
                Ok(Err(w)) => ("unusable", alloc, w),
                Err(pn) => ("unusable", alloc, format!("consumer conversion panicked: {pn}")),
            },
        }
    } else {
        let (r, alloc) = measured(|| dc::KademliaMessage::from_bytes(BytesMut::from(&m[..]), 20));
        match r {
            Err(p) => ("panic", alloc, p),
            Ok(None) => ("dropped", alloc, String::new()),
            Ok(Some(msg)) => {
                let carried = match &msg {
                    dc::KademliaMessage::FindNode { peers, .. } => !peers.is_empty(),
                    dc::KademliaMessage::GetProviders { providers, .. } => !providers.is_empty(),
                    dc::KademliaMessage::PutValue { record } => record.publisher.is_some(),
                    _ => false,
                };
                match catch(|| usable_kad_message(&msg)) {
                    Ok(Ok(())) => (if carried { "usable" } else { "dropped" }, alloc, String::new()),
                    Ok(Err(w)) => ("unusable", alloc, w),
                    Err(pn) => ("unusable", alloc, format!("consumer conversion panicked: {pn}")),
                }
            }
        }
    };
    let o = if fault("unusable") && o == "usable" && c["dlen"] == 42 { "unusable" } else { o };
    out.push(json!({"e": "cls", "kind": "kadpid", "c": c, "out": o, "alloc": alloc, "limit": KAD_LIMIT, "input": hex::encode(&m), "note": note}));
}

/// G. a Bitswap payload block of class `c`, through `block_to_response` and, inside a whole
/// wire message, through `Bitswap::on_message_received`.
fn run_bsblk(c: &Value, rng: &mut StdRng, h: &mut bs::BitswapHarness, handle: &mut bs::BitswapHandle, out: &mut Out) {
    let f = |k: &str| c[k].as_str().unwrap();
    let (code, size): (u64, u64) = match f("hash") {
        "sha2_256" => (0x12, 32),
        "sha2_512" => (0x13, 64),
        "sha3_256" => (0x16, 32),
        "sha3_384" => (0x15, 48),
        "keccak_256" => (0x1b, 32),
        "blake2b_256" => (0xb220, 32),
        "blake2b_512" => (0xb240, 64),
        "identity" => (0x00, 32),
        _ => (*[0x11u64, 0x1e, 0x7777, 0xb250, u64::MAX].choose(rng).unwrap(), 32),
    };
    let version: u64 = match f("ver") {
        "v0" => 0,
        "v1" => 1,
        _ => *[2u64, 3, 127, 128, u64::MAX].choose(rng).unwrap(),
    };
    let codec: u64 = match f("codec") {
        "dagpb" => 0x70,
        "raw" => 0x55,
        _ => *[0x71u64, 0x0129, 0x00, u64::MAX].choose(rng).unwrap(),
    };
    let mhlen: u64 = match f("mhlen") {
        "0" => 0,
        "1" => 1,
        "size_m1" => size - 1,
        "size" => size,
        "size_p1" => size + 1,
        "64" => 64,
        "65" => 65,
        "127" => 127,
        "255" => 255,
        _ => *[256u64, 300, 16384, 1 << 32, u64::MAX].choose(rng).unwrap(),
    };
    let four = [uvarint(version), uvarint(codec), uvarint(code), uvarint(mhlen)];
    let prefix: Vec<u8> = match f("shape") {
        "ok" => four.concat(),
        "three" => four[..3].concat(),
        "five" => [four.concat(), uvarint(rng.gen_range(0..300))].concat(),
        "trailing" => [four.concat(), vec![*[0x80u8, 0xff, 0x81].choose(rng).unwrap()]].concat(),
        _ => {
            let k = rng.gen_range(0..4);
            let mut e = four.to_vec();
            e[k] = [vec![0x81u8; 10 + rng.gen_range(0..3)], vec![0x01]].concat();
            e.concat()
        }
    };
    let data = match f("plen") {
        "0" => vec![],
        "1" => vec![rng.gen()],
        _ => rand_bytes_in(rng, 2, 300),
    };
    let peer = PeerId::random();
    let usable = |cid: &cid::Cid| -> Result<(), String> {
        let b = cid.to_bytes();
        (cid::Cid::read_bytes(&b[..]).ok().as_ref() == Some(cid) && cid.to_string().parse::<cid::Cid>().ok().as_ref() == Some(cid))
            .then_some(())
            .ok_or_else(|| "cid: to_bytes/read_bytes or text form does not round-trip".to_string())
    };
    // function level
    let (r, alloc) = measured(|| bs::block_to_response(&peer, prefix.clone(), data.clone()));
    let o = match &r {
        Err(_) => "panic",
        Ok(None) => "dropped",
        Ok(Some(bs::ResponseType::Block { cid, block })) if block == &data => match catch(|| usable(cid)) {
            Ok(Ok(())) => "value",
            _ => "unusable",
        },
        Ok(Some(_)) => "unusable",
    };
    let o = if fault("bsblk-panic") && c["mhlen"] == "size_p1" && c["hash"] == "sha2_256" { "panic" } else { o };
    out.push(json!({"e": "cls", "kind": "bsblk", "via": "fn", "c": c, "out": o, "alloc": alloc, "limit": bs::MAX_MESSAGE_SIZE,
                    "prefix": hex::encode(&prefix), "plen": data.len()}));
    // message level: optional wantlist, a presence, the block
    let mut msg = vec![];
    if rng.gen() {
        msg.extend(pb_bytes(1, &[]));
    }
    let mut blk = pb_bytes(1, &prefix);
    blk.extend(pb_bytes(2, &data));
    msg.extend(pb_bytes(3, &blk));
    if rng.gen() {
        msg.extend(pb_bytes(4, &pb_bytes(1, &real_cid(b"p").to_bytes())));
    }
    let (o, alloc, evs) = bitswap_decode(h, handle, &msg);
    let delivered = evs.iter().any(|ev| matches!(ev, bs::BitswapEvent::Response { responses, .. }
        if responses.iter().any(|r| matches!(r, bs::ResponseType::Block { block, .. } if block == &data))));
    let o = match o {
        "panic" => "panic",
        "err" => "undecodable-message", // the hand-written message itself must decode
        _ if delivered => "value",
        _ => "dropped",
    };
    out.push(json!({"e": "cls", "kind": "bsblk", "via": "msg", "c": c, "out": o, "alloc": alloc, "limit": bs::MAX_MESSAGE_SIZE,
                    "message": hex::encode(&msg[..msg.len().min(600)]), "plen": data.len()}));
}

fn pb_event(dec: &str, op: &str, o: &str, alloc: i64, limit: usize, len: usize) -> Value {
    json!({"e": "pb", "dec": dec, "op": op, "out": o, "alloc": alloc, "limit": limit, "len": len})
}

/// Repeat `unit` until `limit` bytes: the cheapest way to make a decoder build many elements.
fn amplified(unit: &[u8], limit: usize) -> Vec<u8> {
    let n = limit / unit.len();
    unit.repeat(n)
}

fn run_pb(seed: u64, rounds: u64, extra: usize, out: &mut Out) {
    let id_rig = IdentifyRig { rt: tokio::runtime::Builder::new_current_thread().enable_all().build().unwrap() };
    let (mut bsh, mut bshandle) = bs::BitswapHarness::new();
    for round in 0..rounds {
        let mut rng = rng_for(seed, 500_000 + round);
        // ---- kademlia
        let valid = kad_valid(&mut rng);
        for (i, v) in valid.iter().enumerate() {
            let other = &valid[(i + 1) % valid.len()];
            for (op, m) in mutations(v, other, &mut rng, extra).into_iter().chain(mutations_deep(v, 3)) {
                if m.len() > KAD_LIMIT {
                    continue;
                }
                tick(|| format!("kademlia {op} {}", hex::encode(&m[..m.len().min(64)])));
                let (r, alloc) = measured(|| dc::KademliaMessage::from_bytes(BytesMut::from(&m[..]), 20));
                let o = match &r { Err(_) => "panic", Ok(None) => "err", Ok(Some(_)) => "ok" };
                let ev = pb_event("kademlia", &op, o, alloc, KAD_LIMIT, m.len());
                out.push(match r { Ok(Some(msg)) => judge_usable(ev, &m, || usable_kad_message(&msg)), _ => ev });
            }
        }
        // ---- bitswap messages (and the CIDs / prefixes inside them)
        let valid = bitswap_valid(&mut rng);
        for (i, v) in valid.iter().enumerate() {
            let other = &valid[(i + 1) % valid.len()];
            for (op, m) in mutations(v, other, &mut rng, extra).into_iter().chain(mutations_deep(v, 3)) {
                tick(|| format!("bitswap {op}"));
                let (o, alloc, _) = bitswap_decode(&mut bsh, &mut bshandle, &m);
                out.push(pb_event("bitswap", &op, o, alloc, bs::MAX_MESSAGE_SIZE, m.len()));
            }
        }
        let cidb = real_cid(&rand_bytes(&mut rng, 9)).to_bytes();
        for (op, m) in mutations(&cidb, &real_cid(b"x").to_bytes(), &mut rng, extra) {
            let mut e = pb_bytes(1, &m);
            e.extend(pb_varint(4, 1));
            let msg = pb_bytes(1, &pb_bytes(1, &e));
            let (o, alloc, _) = bitswap_decode(&mut bsh, &mut bshandle, &msg);
            out.push(pb_event("cid", &op, o, alloc, bs::MAX_MESSAGE_SIZE, msg.len()));
            let pres = pb_bytes(4, &pb_bytes(1, &m));
            let (o, alloc, _) = bitswap_decode(&mut bsh, &mut bshandle, &pres);
            out.push(pb_event("cid", &op, o, alloc, bs::MAX_MESSAGE_SIZE, pres.len()));
        }
        let pfx = bs::prefix_of(&real_cid(b"prefix"));
        for (op, m) in mutations(&pfx, &[0x00, 0x70, 0x12, 0x20], &mut rng, extra) {
            let (r, alloc) = measured(|| bs::prefix_from_bytes(&m));
            out.push(pb_event("bitswap_prefix", &op, match r { Err(_) => "panic", Ok(None) => "err", Ok(Some(_)) => "ok" }, alloc, 64, m.len()));
        }
        // ---- noise handshake payload, public keys, peer ids
        let kp = Keypair::generate();
        let (payload, dh) = dc::noise_payload::local_payload(&kp, dc::Role::Dialer).expect("payload");
        let (payload2, _) = dc::noise_payload::local_payload(&Keypair::generate(), dc::Role::Listener).expect("payload");
        for (op, m) in mutations(&payload, &payload2, &mut rng, extra).into_iter().chain(mutations_deep(&payload, 2)) {
            tick(|| format!("noise {op}"));
            let (r, alloc) = measured(|| dc::noise_payload::parse_payload(&m, &dh));
            let ev = pb_event("noise_payload", &op, match &r { Err(_) => "panic", Ok(Err(_)) => "err", Ok(Ok(_)) => "ok" }, alloc, NOISE_LIMIT, m.len());
            out.push(match r { Ok(Ok(p)) => judge_usable(ev, &m, || usable_peer_id(&p)), _ => ev });
        }
        let pk = PublicKey::Ed25519(kp.public()).to_protobuf_encoding();
        let pk2 = PublicKey::Ed25519(Keypair::generate().public()).to_protobuf_encoding();
        for (op, m) in mutations(&pk, &pk2, &mut rng, extra).into_iter().chain(mutations_deep(&pk, 1)) {
            let (r, alloc) = measured(|| RemotePublicKey::from_protobuf_encoding(&m));
            out.push(pb_event("public_key", &op, match r { Err(_) => "panic", Ok(Err(_)) => "err", Ok(Ok(_)) => "ok" }, alloc, NOISE_LIMIT, m.len()));
        }
        let ids = [PeerId::random().to_bytes(), PeerId::from_public_key(&PublicKey::Ed25519(kp.public())).to_bytes(),
                   PeerId::from_public_key_protobuf(&rand_bytes(&mut rng, 60)).to_bytes()];
        for (i, v) in ids.iter().enumerate() {
            for (op, m) in mutations(v, &ids[(i + 1) % 3], &mut rng, extra).into_iter().chain(multihash_resized(v)) {
                let (r, alloc) = measured(|| PeerId::from_bytes(&m));
                let ev = pb_event("peer_id", &op, match &r { Err(_) => "panic", Ok(Err(_)) => "err", Ok(Ok(_)) => "ok" }, alloc, 4096, m.len());
                out.push(match r { Ok(Ok(p)) => judge_usable(ev, &m, || usable_peer_id(&p)), _ => ev });
            }
        }
        // ---- multiaddresses (as they arrive inside Kademlia / identify messages)
        let addrs = [rand_addr(&mut rng, Some(PeerId::random())).to_vec(), rand_addr(&mut rng, None).to_vec()];
        for (i, v) in addrs.iter().enumerate() {
            for (op, m) in mutations(v, &addrs[(i + 1) % 2], &mut rng, extra) {
                let (r, alloc) = measured(|| Multiaddr::try_from(m.clone()).ok());
                let ev = pb_event("multiaddr", &op, match &r { Err(_) => "panic", Ok(None) => "err", Ok(Some(_)) => "ok" }, alloc, 4096, m.len());
                out.push(match r { Ok(Some(a)) => judge_usable(ev, &m, || usable_multiaddr(&a)), _ => ev });
            }
        }
        // ---- multistream messages
        let protos: Vec<dc::Protocol> = ["/a", "/ipfs/kad/1.0.0", "/x/y/z"].iter().map(|p| dc::Protocol::try_from(p.as_bytes()).unwrap()).collect();
        let msgs = [dc::Message::Header(dc::HeaderLine::V1), dc::Message::NotAvailable, dc::Message::ListProtocols,
                    dc::Message::Protocol(protos[1].clone()), dc::Message::Protocols(protos.clone())];
        let enc: Vec<Vec<u8>> = msgs.iter().map(|m| { let mut b = BytesMut::new(); m.encode(&mut b).unwrap(); b.to_vec() }).collect();
        for (i, v) in enc.iter().enumerate() {
            for (op, m) in mutations(v, &enc[(i + 1) % enc.len()], &mut rng, extra) {
                let (r, alloc) = measured(|| dc::Message::decode(Bytes::from(m.clone())));
                out.push(pb_event("mss_message", &op, match r { Err(_) => "panic", Ok(Err(_)) => "err", Ok(Ok(_)) => "ok" }, alloc, dc::MSS_MAX_FRAME_SIZE, m.len()));
            }
        }
        // ---- identify through a real Identify instance and substream (costlier: fewer inputs)
        if round % 4 == 0 {
            let (a, sender) = id_rig.encode(vec!["/ipfs/ping/1.0.0".into(), "/ipfs/kad/1.0.0".into()], vec![rand_addr(&mut rng, None)], Some(rand_addr(&mut rng, None)));
            let (b, _) = id_rig.encode(vec![], vec![], None);
            for (op, m) in mutations(&a, &b, &mut rng, extra.min(4)).into_iter().chain(mutations_deep(&a, 1)) {
                if m.len() > dc::IDENTIFY_PAYLOAD_SIZE {
                    continue;
                }
                tick(|| format!("identify {op}"));
                let (r, alloc, panicked) = id_rig.decode(&m, sender);
                out.push(pb_event("identify", &op, if panicked { "panic" } else if r.is_ok() { "ok" } else { "err" }, alloc, dc::IDENTIFY_PAYLOAD_SIZE, m.len()));
            }
        }
    }
    // ---- amplification: as many elements as the configured limit admits (one segment each)
    let mut rng = rng_for(seed, 900_000);
    let peer_entry = pb_bytes(8, &[]); // closer_peers: an empty Peer
    let prov_entry = pb_bytes(9, &[]);
    let addr_peer = pb_bytes(8, &[pb_bytes(1, &PeerId::random().to_bytes()), pb_bytes(2, &[]).repeat(30)].concat());
    for (name, unit, ty) in [("closer-peers", peer_entry, 4u64), ("provider-peers", prov_entry, 3), ("peer-addrs", addr_peer, 4)] {
        let mut m = pb_varint(1, ty);
        m.extend(amplified(&unit, KAD_LIMIT - 16));
        tick(|| format!("kademlia amplify {name}"));
        let (r, alloc) = measured(|| dc::KademliaMessage::from_bytes(BytesMut::from(&m[..]), 20));
        let mut ev = pb_event("kademlia", "amplify", match r { Err(_) => "panic", Ok(None) => "err", Ok(Some(_)) => "ok" }, alloc, KAD_LIMIT, m.len());
        ev["what"] = json!(name);
        out.push(ev);
    }
    for (name, unit) in [("wantlist-entries", pb_bytes(1, &amplified(&pb_bytes(1, &[]), bs::MAX_MESSAGE_SIZE - 64))),
                         ("payload-blocks", amplified(&pb_bytes(3, &[]), bs::MAX_MESSAGE_SIZE - 64)),
                         ("legacy-blocks", amplified(&pb_bytes(2, &[]), bs::MAX_MESSAGE_SIZE - 64)),
                         ("block-presences", amplified(&pb_bytes(4, &[]), bs::MAX_MESSAGE_SIZE - 64))] {
        tick(|| format!("bitswap amplify {name}"));
        let (o, alloc, _) = bitswap_decode(&mut bsh, &mut bshandle, &unit);
        let mut ev = pb_event("bitswap", "amplify", o, alloc, bs::MAX_MESSAGE_SIZE, unit.len());
        ev["what"] = json!(name);
        out.push(ev);
    }
    for (name, unit) in [("protocols", pb_bytes(3, &[])), ("listen-addrs", pb_bytes(2, &[]))] {
        let m = amplified(&unit, dc::IDENTIFY_PAYLOAD_SIZE - 8);
        let (r, alloc, panicked) = id_rig.decode(&m, PeerId::random());
        let mut ev = pb_event("identify", "amplify", if panicked { "panic" } else if r.is_ok() { "ok" } else { "err" }, alloc, dc::IDENTIFY_PAYLOAD_SIZE, m.len());
        ev["what"] = json!(name);
        out.push(ev);
    }
    {
        let m = [framed(b"/a\n").repeat(1000), b"\n".to_vec()].concat();
        let (r, alloc) = measured(|| dc::Message::decode(Bytes::from(m.clone())));
        out.push(pb_event("mss_message", "amplify", match r { Err(_) => "panic", Ok(Err(_)) => "err", Ok(Ok(_)) => "ok" }, alloc, dc::MSS_MAX_FRAME_SIZE, m.len()));
        let m = amplified(&[0x00], NOISE_LIMIT);
        let (r, alloc) = measured(|| dc::noise_payload::parse_payload(&m, &[0u8; 32]));
        out.push(pb_event("noise_payload", "amplify", match r { Err(_) => "panic", Ok(Err(_)) => "err", Ok(Ok(_)) => "ok" }, alloc, NOISE_LIMIT, m.len()));
        let _ = &mut rng;
    }
}

// ---------------------------------------------------------------- round trips of small values
fn peers_eq(a: &[dc::KademliaPeer], b: &[dc::KademliaPeer]) -> bool {
    use litep2p::verif::kad::peer_info;
    a.len() == b.len()
        && a.iter().zip(b).all(|(x, y)| {
            let (px, _, cx, _) = peer_info(x);
            let (py, _, cy, _) = peer_info(y);
            let (mut ax, mut ay) = (x.addresses(), y.addresses());
            ax.sort();
            ay.sort();
            px == py && ax == ay && std::mem::discriminant(&cx) == std::mem::discriminant(&cy)
        })
}

fn record_eq(a: &dc::Record, b: &dc::Record) -> bool {
    let exp_ok = match (a.expires, b.expires) {
        (None, None) => true,
        (Some(x), Some(y)) => (if x > y { x - y } else { y - x }) < Duration::from_secs(60),
        _ => false,
    };
    a.key == b.key && a.value == b.value && a.publisher == b.publisher && exp_ok
}

fn run_rt_kad(v: &Value, rng: &mut StdRng, out: &mut Out) {
    let kind = v["kind"].as_str().unwrap();
    let keylen = v["keylen"].as_u64().unwrap() as usize;
    let key = dc::RecordKey::from(rand_bytes(rng, keylen));
    let peers: Vec<dc::KademliaPeer> = (0..v["peers"].as_u64().unwrap()).map(|_| rand_kad_peer(rng, v["addrs"].as_u64().unwrap() as usize)).collect();
    let rec = (v["rec"] != "none").then(|| {
        let mut r = rand_record(rng, keylen, v["rec"].as_str().unwrap());
        r.key = key.clone();
        r
    });
    let keyb = |k: &Option<dc::RecordKey>| k.as_ref().map(|k| k.to_vec()).unwrap_or_default();
    let r = catch(|| -> Option<bool> {
        let dec = |b: &[u8]| dc::KademliaMessage::from_bytes(BytesMut::from(b), 20);
        Some(match kind {
            "find_node_req" => matches!(dec(&dc::KademliaMessage::find_node(key.to_vec()))?, dc::KademliaMessage::FindNode { target, peers } if target == key.to_vec() && peers.is_empty()),
            "get_record_req" => matches!(dec(&dc::KademliaMessage::get_record(key.clone()))?, dc::KademliaMessage::GetRecord { key: k, record: None, peers } if keyb(&k) == key.to_vec() && peers.is_empty()),
            "get_providers_req" => matches!(dec(&dc::KademliaMessage::get_providers_request(key.clone()))?, dc::KademliaMessage::GetProviders { key: k, peers, providers } if keyb(&k) == key.to_vec() && peers.is_empty() && providers.is_empty()),
            "find_node_resp" => matches!(dec(&dc::KademliaMessage::find_node_response(&key, peers.clone()))?, dc::KademliaMessage::FindNode { target, peers: p } if target == key.to_vec() && peers_eq(&p, &peers)),
            "get_providers_resp" => {
                let provs: Vec<dc::ContentProvider> = peers.iter().map(|p| dc::ContentProvider { peer: litep2p::verif::kad::peer_info(p).0, addresses: p.addresses() }).collect();
                match dec(&dc::KademliaMessage::get_providers_response(provs.clone(), &peers))? {
                    dc::KademliaMessage::GetProviders { key: None, peers: p, providers } => {
                        peers_eq(&p, &peers)
                            && providers.len() == provs.len()
                            && providers.iter().zip(&provs).all(|(x, y)| {
                                let (mut a, mut b) = (x.addresses(), y.addresses.clone());
                                a.sort();
                                b.sort();
                                litep2p::verif::kad::peer_info(x).0 == y.peer && a == b
                            })
                    }
                    _ => false,
                }
            }
            "get_value_resp" => matches!(dec(&dc::KademliaMessage::get_value_response(key.clone(), peers.clone(), rec.clone()))?, dc::KademliaMessage::GetRecord { key: k, record, peers: p }
                if keyb(&k) == key.to_vec() && peers_eq(&p, &peers) && match (&record, &rec) { (None, None) => true, (Some(a), Some(b)) => record_eq(a, b), _ => false }),
            "put_value" => matches!(dec(&dc::KademliaMessage::put_value(rec.clone()?))?, dc::KademliaMessage::PutValue { record } if record_eq(&record, rec.as_ref()?)),
            "put_value_resp" => {
                let r = rec.clone()?;
                matches!(dec(&dc::KademliaMessage::put_value_response(key.clone(), r.value.clone()))?, dc::KademliaMessage::PutValue { record } if record.key == key && record.value == r.value)
            }
            "add_provider" => {
                let p = &peers[0];
                let cp = dc::ContentProvider { peer: litep2p::verif::kad::peer_info(p).0, addresses: p.addresses() };
                match dec(&dc::KademliaMessage::add_provider(key.clone(), cp.clone()))? {
                    dc::KademliaMessage::AddProvider { key: k, providers } => {
                        let (mut a, mut b) = (providers.first().map(|x| x.addresses()).unwrap_or_default(), cp.addresses.clone());
                        a.sort();
                        b.sort();
                        k == key && providers.len() == 1 && litep2p::verif::kad::peer_info(&providers[0]).0 == cp.peer && a == b
                    }
                    _ => false,
                }
            }
            other => panic!("kad value kind {other}"),
        })
    });
    let (o, same) = match r {
        Err(_) => ("panic", false),
        Ok(None) => ("err", false),
        Ok(Some(s)) => ("ok", s),
    };
    out.push(json!({"e": "rt", "dec": "kademlia", "v": v, "out": o, "same": same && !fault("rt-break")}));
}

fn run_rt_bitswap(v: &Value, rng: &mut StdRng, rt: &tokio::runtime::Runtime, out: &mut Out) {
    let n = |k: &str| v[k].as_u64().unwrap() as usize;
    let blocks: Vec<(cid::Cid, Vec<u8>)> = (0..n("blocks")).map(|i| { let mut d = rand_bytes_in(rng, 0, 64); d.push(i as u8); (real_cid(&d), d) }).collect();
    let pres: Vec<(cid::Cid, bs::BlockPresenceType)> = (0..n("presences")).map(|i| (real_cid(&[i as u8, 1]), if i % 2 == 0 { bs::BlockPresenceType::Have } else { bs::BlockPresenceType::DontHave })).collect();
    let wants: Vec<(cid::Cid, bs::WantType)> = (0..n("wants")).map(|i| (real_cid(&[i as u8, 2]), if i % 2 == 0 { bs::WantType::Block } else { bs::WantType::Have })).collect();
    let (mut h, mut handle) = bs::BitswapHarness::new();
    let mut same = true;
    let mut o = "ok";
    let mut check = |msg: Option<Vec<u8>>, expect_blocks: &[(cid::Cid, Vec<u8>)], expect_pres: &[(cid::Cid, bs::BlockPresenceType)], expect_wants: &[(cid::Cid, bs::WantType)]| {
        let Some(msg) = msg else { return };
        let (r, _, evs) = bitswap_decode(&mut h, &mut handle, &msg);
        if r != "ok" {
            o = if r == "panic" { "panic" } else { "err" };
        }
        let (mut gb, mut gp, mut gw) = (vec![], vec![], vec![]);
        for ev in evs {
            match ev {
                bs::BitswapEvent::Response { responses, .. } => {
                    for r in responses {
                        match r {
                            bs::ResponseType::Block { cid, block } => gb.push((cid, block)),
                            bs::ResponseType::Presence { cid, presence } => gp.push((cid, presence as i32)),
                        }
                    }
                }
                bs::BitswapEvent::Request { cids, .. } => gw.extend(cids.into_iter().map(|(c, w)| (c, w as i32))),
            }
        }
        same &= gb == expect_blocks
            && gp == expect_pres.iter().map(|(c, p)| (*c, *p as i32)).collect::<Vec<_>>()
            && gw == expect_wants.iter().map(|(c, w)| (*c, *w as i32)).collect::<Vec<_>>();
    };
    check(bs::blocks_message(blocks.clone()).map(|m| m.0.to_vec()), &blocks, &[], &[]);
    check(bs::presences_message(pres.clone()).map(|m| m.0.to_vec()), &[], &pres, &[]);
    if !wants.is_empty() {
        // the request encoder only exists as `send_request` on a substream
        use tokio::io::AsyncReadExt;
        let w2 = wants.clone();
        let frame = rt.block_on(async move {
            let (mut substream, mut raw, guard) = dc::substream_over_yamux(dc::ProtocolCodec::UnsignedVarint(Some(bs::MAX_MESSAGE_SIZE)), true).await;
            let reader = tokio::spawn(async move {
                let mut all = vec![];
                let _ = raw.read_to_end(&mut all).await;
                all
            });
            let _ = bs::send_request(&mut substream, w2).await;
            substream.close().await;
            let all = reader.await.unwrap();
            drop(guard);
            let (len, k) = read_uvarint(&all).expect("frame");
            all[k..k + len as usize].to_vec()
        });
        check(Some(frame), &[], &[], &wants);
    }
    out.push(json!({"e": "rt", "dec": "bitswap", "v": v, "out": o, "same": same}));
}

fn run_rt_mss(v: &Value, rng: &mut StdRng, out: &mut Out) {
    let n = v["n"].as_u64().unwrap() as usize;
    let proto = |rng: &mut StdRng| dc::Protocol::try_from(format!("/p{}/{}", rng.gen::<u16>(), "x".repeat(rng.gen_range(0..20))).as_bytes()).unwrap();
    let m = match v["kind"].as_str().unwrap() {
        "header" => dc::Message::Header(dc::HeaderLine::V1),
        "na" => dc::Message::NotAvailable,
        "ls" => dc::Message::ListProtocols,
        "protocol" => dc::Message::Protocol(proto(rng)),
        _ => dc::Message::Protocols((0..n).map(|_| proto(rng)).collect()),
    };
    let r = catch(|| {
        let mut b = BytesMut::new();
        m.encode(&mut b).ok()?;
        let direct = dc::Message::decode(b.clone().freeze()).ok()?;
        // and through the webrtc encoder / the length-delimited framing
        let framed = dc::webrtc_encode_multistream_message(m.clone(), false).ok()?;
        let reader = Chunked { data: framed.to_vec(), pos: 0, plan: vec![2], step: 0, pending_next: false };
        let mut io = dc::MessageIO::new(reader);
        let via_io = futures::executor::block_on(io.next())?.ok()?;
        Some(direct == m && via_io == m)
    });
    let (o, same) = match r { Err(_) => ("panic", false), Ok(None) => ("err", false), Ok(Some(s)) => ("ok", s) };
    out.push(json!({"e": "rt", "dec": "mss_message", "v": v, "out": o, "same": same}));
}

/// Own-encoder sweep around the varint boundaries: `encoded_len() == encode().len()` (== the
/// length the spec computes), decode(encode(m)) == m, and the webrtc framing announces
/// exactly the body it carries (or refuses what does not fit one frame).
fn run_rt_mss_sweep(v: &Value, aux: &Value, out: &mut Out) {
    let (len, n) = (v["len"].as_u64().unwrap() as usize, v["n"].as_u64().unwrap() as usize);
    let name = |i: usize| {
        let mut b = vec![b'/'];
        b.extend(std::iter::repeat(b'a' + i as u8).take(len - 1));
        dc::Protocol::try_from(&b[..]).unwrap()
    };
    let m = if v["kind"] == "protocol" { dc::Message::Protocol(name(0)) } else { dc::Message::Protocols((0..n).map(name).collect()) };
    let (enclen, fits) = (aux["enclen"].as_u64().unwrap() as usize, aux["fits"].as_bool().unwrap());
    let r = catch(|| -> Result<(), String> {
        let mut b = BytesMut::new();
        m.encode(&mut b).map_err(|_| "encode failed".to_string())?;
        if b.len() != enclen || m.encoded_len() != b.len() {
            return Err(format!("encoded_len {} / encode().len() {} / spec {}", m.encoded_len(), b.len(), enclen));
        }
        if dc::Message::decode(b.clone().freeze()).ok().as_ref() != Some(&m) {
            return Err("decode(encode(m)) differs".into());
        }
        for header in [false, true] {
            match dc::webrtc_encode_multistream_message(m.clone(), header) {
                Err(_) if !fits || header => {} // does not fit one frame (with the header even less)
                Err(_) => return Err("webrtc encoder refused a message that fits a frame".into()),
                Ok(framed) => {
                    let frames = frames_of(&framed);
                    let want = if header { 2 } else { 1 };
                    let (off, pl, announced) = *frames.last().ok_or("no frame")?;
                    if frames.len() != want || off + pl + announced as usize != framed.len() || announced as usize != enclen {
                        return Err(format!("frame announces {announced} for a body of {} ({} frames)", framed.len().saturating_sub(off + pl), frames.len()));
                    }
                    if dc::Message::decode(Bytes::copy_from_slice(&framed[off + pl..])).ok().as_ref() != Some(&m) {
                        return Err("framed body does not decode to the message".into());
                    }
                    if fits {
                        let reader = Chunked { data: framed.to_vec(), pos: 0, plan: vec![3], step: 0, pending_next: false };
                        let mut io = dc::MessageIO::new(reader);
                        let msgs: Vec<_> = futures::executor::block_on(async {
                            let mut v = vec![];
                            while let Some(x) = io.next().await {
                                v.push(x.ok());
                            }
                            v
                        });
                        if msgs.last() != Some(&Some(m.clone())) || msgs.len() != want {
                            return Err("MessageIO does not yield the message back".into());
                        }
                    }
                }
            }
        }
        Ok(())
    });
    let (o, same, note) = match r {
        Err(p) => ("panic", false, p),
        Ok(Err(w)) => ("ok", false, w),
        Ok(Ok(())) => ("ok", true, String::new()),
    };
    out.push(json!({"e": "rt", "dec": "mss_sweep", "v": v, "out": o, "same": same, "note": note}));
}

fn run_rt_identify(v: &Value, rng: &mut StdRng, rig: &IdentifyRig, out: &mut Out) {
    let protocols: Vec<String> = (0..v["protocols"].as_u64().unwrap()).map(|i| format!("/proto/{i}/{}", rng.gen::<u16>())).collect();
    let listen: Vec<Multiaddr> = (0..v["listen"].as_u64().unwrap()).map(|_| rand_addr(rng, None)).collect();
    let observed = v["observed"].as_bool().unwrap().then(|| rand_addr(rng, None));
    let (enc, sender) = rig.encode(protocols.clone(), listen.clone(), observed.clone());
    let (r, _, panicked) = rig.decode(&enc, sender);
    let (o, same) = match r {
        _ if panicked => ("panic", false),
        Err(_) => ("err", false),
        Ok(info) => {
            let mut p = protocols.clone();
            p.sort();
            // the advertised listen addresses carry the sender's peer id; the receiver drops
            // those whose peer id is not the sender's as it knows it: compare without /p2p
            let strip = |a: &Multiaddr| -> Multiaddr { a.iter().filter(|x| !matches!(x, Protocol::P2p(_))).collect() };
            let mut got: Vec<Multiaddr> = info.listen_addresses.iter().map(strip).collect();
            let mut want: Vec<Multiaddr> = listen.iter().map(strip).collect();
            got.sort();
            want.sort();
            let listen_ok = got == want;
            ("ok", info.supported_protocols == p && info.protocol_version.as_deref() == Some("/ipfs/1.0.0") && info.observed_address == observed && listen_ok)
        }
    };
    out.push(json!({"e": "rt", "dec": "identify", "v": v, "out": o, "same": same}));
}

// ---------------------------------------------------------------- systematic truncation
/// Not sampled: for a fixed catalogue of valid inputs of the cheap stateless decoders every
/// prefix (cut at every offset) and every "announced length = available + 1 / + 2 / + prefix
/// size" variant is run, in every tier and for every seed.
fn run_truncations(rt: &tokio::runtime::Runtime, out: &mut Out) {
    let long = |n: usize| -> Vec<u8> {
        let mut v = b"/long/".to_vec();
        v.extend(std::iter::repeat(b'x').take(n - 7));
        v.push(b'\n');
        v
    };
    let header = b"/multistream/1.0.0\n".to_vec();
    let contents: Vec<Vec<u8>> = vec![
        header.clone(), b"na\n".to_vec(), b"ls\n".to_vec(), b"/sup/1\n".to_vec(), b"/unsup/1\n".to_vec(), b"/\n".to_vec(),
        long(126), long(127), long(128), long(129), long(300),
        b"\n".to_vec(), b"\x03/x\n\n".to_vec(), b"\x03/x\n\x07/sup/1\n\x03/y\n\n".to_vec(),
        [uvarint(200), long(200), uvarint(128), long(128), b"\n".to_vec()].concat(),
    ];
    // ---- Message::decode: every prefix, and every list entry announcing more than follows
    for c in &contents {
        for (op, m) in truncations_framed(c).into_iter().chain((0..c.len()).map(|k| ("truncate".to_string(), c[..k].to_vec()))) {
            let (r, alloc) = measured(|| dc::Message::decode(Bytes::from(m.clone())));
            out.push(pb_event("mss_message", &op, match r { Err(_) => "panic", Ok(Err(_)) => "err", Ok(Ok(_)) => "ok" }, alloc, dc::MSS_MAX_FRAME_SIZE, m.len()));
        }
    }
    // ---- negotiation payloads: one, two and three framed messages
    let f = |c: &[u8]| framed(c);
    let sup = b"/sup/1\n".to_vec();
    let mut payloads: Vec<Vec<u8>> = vec![
        f(&header), f(&sup), f(b"/unsup/1\n"), f(b"na\n"), f(b"ls\n"),
        [f(&header), f(&sup)].concat(), [f(&header), f(b"/unsup/1\n")].concat(), [f(&header), f(b"na\n")].concat(),
        [f(&header), f(b"ls\n")].concat(), [f(&header), f(&header)].concat(), [f(&sup), f(&sup)].concat(),
        [f(&header), f(&sup), f(b"/unsup/1\n")].concat(), [f(&header), f(b"\x03/x\n\x03/y\n\n")].concat(),
    ];
    for n in [126usize, 127, 128, 129, 300] {
        payloads.push(f(&long(n)));
        payloads.push([f(&header), f(&long(n))].concat());
        payloads.push([f(&long(n)), f(&sup)].concat());
    }
    let long_name = |n: usize| String::from_utf8(long(n)[..n - 1].to_vec()).unwrap();
    let supported: Vec<ProtocolName> =
        [SUP.to_string(), long_name(127), long_name(128), long_name(300)].into_iter().map(ProtocolName::from).collect();
    // one decoder after the other: the observations of a decoder form one trace segment
    let cases: Vec<(String, Vec<u8>)> = payloads.iter().flat_map(|p| truncations_framed(p)).collect();
    for (op, m) in &cases {
        for hr in [false, true] {
            let (r, alloc) = measured(|| dc::webrtc_listener_negotiate(supported.clone(), Bytes::from(m.clone()), hr));
            out.push(pb_event("mss_listener", op, match r { Err(_) => "panic", Ok(Err(_)) => "err", Ok(Ok(_)) => "ok" }, alloc, 16384, m.len()));
        }
    }
    for (op, m) in &cases {
        for proposed in [SUP.to_string(), long_name(128)] {
            let (r, alloc) = measured(|| {
                let (mut st, _) = dc::WebRtcDialerState::propose(ProtocolName::from(proposed.clone()), vec![]).expect("propose");
                st.register_response(m.clone())
            });
            out.push(pb_event("mss_dialer", op, match r { Err(_) => "panic", Ok(Err(_)) => "err", Ok(Ok(_)) => "ok" }, alloc, 16384, m.len()));
        }
    }
    // the same bytes as a stream of frames through LengthDelimited / MessageIO
    for (op, m) in &cases {
        for plan in [vec![], vec![1usize]] {
            let reader = Chunked { data: m.clone(), pos: 0, plan, step: 0, pending_next: false };
            let (r, alloc) = measured(|| {
                let mut io = dc::MessageIO::new(reader);
                futures::executor::block_on(async {
                    for _ in 0..m.len() + 2 {
                        match io.next().await {
                            None => return "ok",
                            Some(Ok(_)) => {}
                            Some(Err(_)) => return "err",
                        }
                    }
                    "hang"
                })
            });
            out.push(pb_event("length_delimited", op, r.unwrap_or("panic"), alloc, dc::MSS_MAX_FRAME_SIZE, m.len()));
        }
    }
    // ---- substream length prefix: read_payload_size on every prefix of every varint shape,
    //      and a real substream cut at every offset of (prefix + payload)
    for v in [0u64, 1, 127, 128, 300, 16383, 16384, 1 << 21, 1 << 28, 1 << 35, 1 << 56, (1 << 63) - 1, 1 << 63, u64::MAX] {
        let enc = [uvarint(v), vec![0xaa, 0xbb]].concat();
        for k in 0..=enc.len() {
            let (r, alloc) = measured(|| dc::read_payload_size(&enc[..k]));
            out.push(pb_event("payload_size", "truncate", match r { Err(_) => "panic", Ok(Err(_)) => "err", Ok(Ok(_)) => "ok" }, alloc, 16, k));
        }
    }
    for size in [0usize, 1, 5, 127, 128, 130] {
        let wire = [uvarint(size as u64), (0..size).map(|i| i as u8).collect()].concat();
        for (op, m) in truncations_framed(&wire) {
            tick(|| format!("substream truncation {size}"));
            let (r, alloc) = rt.block_on(poll_substream(dc::ProtocolCodec::UnsignedVarint(Some(256)), m.clone()));
            let o = match r { SubOutcome::Panic(_) => "panic", SubOutcome::Error => "err", _ => "ok" };
            out.push(pb_event("substream", &op, o, alloc, 256, m.len()));
        }
    }
}

// ---------------------------------------------------------------- noise handshake frames
/// Raw bytes to the real `handshake()` in both roles: the frame length reader and whatever
/// follows must end in an error, never a panic, allocating at most one 64 KiB frame.
fn run_noise_frames(seed: u64, n: u64, rt: &tokio::runtime::Runtime, out: &mut Out) {
    use tokio_util::compat::TokioAsyncReadCompatExt;
    for i in 0..n {
        let mut rng = rng_for(seed, 700_000 + i);
        let len: u16 = *[0u16, 1, 31, 32, 33, 48, 96, 255, 4096, 65535, rng.gen()].choose(&mut rng).unwrap();
        let supplied = match rng.gen_range(0..4) {
            0 => len as usize,
            1 => rng.gen_range(0..=len as usize),
            _ => (len as usize).min(rng.gen_range(0..200)),
        };
        let mut wire = len.to_be_bytes().to_vec();
        wire.extend(rand_bytes(&mut rng, supplied));
        if rng.gen() {
            wire.extend(rand_bytes(&mut rng, 70)); // a second frame of noise for the next read
        }
        let role = if i % 2 == 0 { dc::Role::Listener } else { dc::Role::Dialer };
        tick(|| format!("noise frame len {len} supplied {supplied}"));
        let (o, alloc) = rt.block_on(async {
            let (ours, mut theirs) = tokio::io::duplex(1 << 17);
            let kp = Keypair::generate();
            let w = tokio::spawn(async move {
                let _ = theirs.write_all(&wire).await;
                let _ = theirs.shutdown().await;
                // keep reading what the handshake writes so that it never blocks on a full pipe
                let mut sink = vec![];
                let _ = tokio::io::AsyncReadExt::read_to_end(&mut theirs, &mut sink).await;
            });
            reset_max();
            let mut fut = Box::pin(dc::noise_handshake(ours.compat(), &kp, role, 5, 2, Duration::from_secs(120), dc::HandshakeTransport::Tcp));
            let r = futures::future::poll_fn(|cx| {
                arm();
                let r = catch(|| fut.as_mut().poll(cx));
                disarm();
                match r {
                    Err(_) => Poll::Ready("panic"),
                    Ok(Poll::Pending) => Poll::Pending,
                    Ok(Poll::Ready(Ok(_))) => Poll::Ready("ok"),
                    Ok(Poll::Ready(Err(_))) => Poll::Ready("err"),
                }
            })
            .await;
            let a = max_alloc();
            drop(fut);
            let _ = w.await;
            (r, a)
        });
        out.push(pb_event("noise_payload", if supplied < len as usize { "truncate" } else { "noise" }, o, alloc, NOISE_LIMIT, supplied + 2));
    }
}

fn work(args: &Args, out: &mut Out) {
    let seed = args.u64("seed", 1);
    let per = args.u64("per-class", 8) as usize;
    let rt = tokio::runtime::Builder::new_current_thread().enable_all().build().unwrap();
    let id_rig = IdentifyRig { rt: tokio::runtime::Builder::new_current_thread().enable_all().build().unwrap() };
    let mut unrealisable = 0u64;
    let (mut bsh, mut bshandle) = bs::BitswapHarness::new();
    for (i, b) in args.get("behaviours").map(read_jsonl).unwrap_or_default().iter().enumerate() {
        let mut rng = rng_for(seed, i as u64);
        let kind = b["kind"].as_str().unwrap();
        tick(|| format!("{kind} {}", b));
        if i % 512 == 0 {
            out.push(json!({"e": "reset", "i": i}));
        }
        match kind {
            "ld" => {
                let toks: Vec<String> = b["toks"].as_array().unwrap().iter().map(|t| t.as_str().unwrap().to_string()).collect();
                for chunk in ["all", "bytewise", "random"] {
                    run_ld(&toks, chunk, &mut rng, out);
                }
            }
            "rps" => (0..per).for_each(|_| run_rps(&b["c"], &mut rng, out)),
            "sub" => {
                for _ in 0..per.min(4) {
                    if !rt.block_on(run_sub(&b["c"], &mut rng, out)) {
                        unrealisable += 1;
                    }
                }
            }
            "msg" => (0..per).for_each(|_| run_msg(&b["c"], &mut rng, out)),
            "lis" => (0..per).for_each(|_| run_lis(&b["c"], &mut rng, out)),
            "dia" => (0..per).for_each(|_| run_dia(&b["c"], &mut rng, out)),
            "kadpid" => (0..per).for_each(|_| run_kadpid(&b["c"], &mut rng, out)),
            "bsblk" => (0..per.min(3)).for_each(|_| run_bsblk(&b["c"], &mut rng, &mut bsh, &mut bshandle, out)),
            "pb" => {} // the plan is executed as a whole below
            "rt_kad" => (0..per.min(4)).for_each(|_| run_rt_kad(&b["c"], &mut rng, out)),
            "rt_bitswap" => run_rt_bitswap(&b["c"], &mut rng, &rt, out),
            "rt_mss_sweep" => run_rt_mss_sweep(&b["c"], &b["aux"], out),
            "rt_mss" => (0..per.min(4)).for_each(|_| run_rt_mss(&b["c"], &mut rng, out)),
            "rt_identify" => run_rt_identify(&b["c"], &mut rng, &id_rig, out),
            other => panic!("behaviour kind {other}"),
        }
    }
    out.push(json!({"e": "reset", "i": "plan"}));
    run_pb(seed, args.u64("pb-rounds", 2), args.u64("pb-extra", 8) as usize, out);
    run_noise_frames(seed, args.u64("noise-frames", 40), &rt, out);
    run_truncations(&rt, out);
    if args.get("nomax").is_some() {
        out.push(json!({"e": "reset", "i": "nomax"}));
        run_nomax(out);
    }
    out.counts.insert("unrealisable_sub_classes".into(), unrealisable);
}

fn main() {
    quiet_panics();
    let args = Args::parse();
    if let Some(p) = args.get("probe-nomax") {
        probe_nomax(p);
        return;
    }
    let progress = Arc::new(Progress { done: AtomicU64::new(0), current: Mutex::new(String::new()) });
    let _ = PROGRESS.set(progress.clone());
    let outp = args.str("out", "trace.ndjson");
    let shared: Arc<Mutex<Option<Out>>> = Arc::new(Mutex::new(None));
    let sh2 = shared.clone();
    let worker = std::thread::Builder::new()
        .stack_size(64 << 20)
        .spawn(move || {
            let mut out = Out { lines: vec![], counts: Default::default(), last_dec: String::new() };
            work(&args, &mut out);
            *sh2.lock().unwrap() = Some(out);
        })
        .unwrap();
    // watchdog: a decoder that makes no progress for two minutes (inputs take milliseconds)
    let stall_limit = Duration::from_secs(120);
    let (mut last, mut since) = (0u64, Instant::now());
    loop {
        std::thread::sleep(Duration::from_millis(50));
        if worker.is_finished() {
            break;
        }
        let d = progress.done.load(Ordering::Relaxed);
        if d != last {
            last = d;
            since = Instant::now();
        } else if since.elapsed() > stall_limit {
            let cur = progress.current.lock().unwrap().clone();
            write_lines(&outp, &[jline(json!({"e": "reset", "i": "hang"})), jline(json!({"e": "pb", "dec": "kademlia", "op": "noise", "out": "hang", "alloc": 0, "limit": 0, "near": cur}))]);
            println!("SUMMARY {}", json!({"events": 2, "hang_near": cur}));
            std::process::exit(0);
        }
    }
    if worker.join().is_err() {
        eprintln!("harness worker panicked outside of a decoder call");
        std::process::exit(3);
    }
    let out = shared.lock().unwrap().take().expect("worker output");
    write_lines(&outp, &out.lines);
    println!("SUMMARY {}", json!({"events": out.lines.len(), "counts": out.counts}));
}
