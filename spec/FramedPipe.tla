------------------------------ MODULE FramedPipe ------------------------------
(***************************************************************************)
(* Property C04, Prop layer: what an observer of a framed message pipe     *)
(* (sender API calls and their results, receiver results, quiescence of    *)
(* the carrier) may see.                                                   *)
(*                                                                         *)
(*   cfg = [codec : "id" | "uv",  n : Int]                                 *)
(*         "id": fixed-size frames of exactly n bytes                      *)
(*         "uv": length-prefixed frames of at most n bytes (n < 0: no max) *)
(*   msg = [len, h]   length and content digest                            *)
(* Events (one per line of a recorded trace):                              *)
(*   call(api, msg)  the sender starts send / feed / flush / framed / raw  *)
(*   ret(api, r)     it returned: "ok" | "refused" | "err" | "panic"       *)
(*   recv(r, msg)    the receiver's next() returned a message / "err" /    *)
(*                   "eof" / "panic"                                       *)
(*   inject          a malformed or oversized length prefix was written    *)
(*                   onto the wire behind everything sent so far           *)
(*   quiesce         the carrier and the receiver ran until nothing moves, *)
(*                   WITHOUT the sender being polled                       *)
(* Monitor: sent (messages accepted, in order), flushed (how many of them  *)
(* are covered by a send/flush that was reported complete), rcvd (count of *)
(* messages received; they must be sent[1..rcvd]).                         *)
(***************************************************************************)
EXTENDS Naturals, Integers, Sequences

Valid(cfg, len) == IF cfg.codec = "id" THEN len = cfg.n ELSE (cfg.n < 0 \/ len <= cfg.n)
Carries == {"send", "feed", "framed", "raw"}     \* calls that carry a message
Completes == {"send", "framed", "flush", "raw"}  \* calls whose Ok means "handed to the transport"
NoCall == [api |-> "none", len |-> 0, h |-> 0]

PropInit == [sent |-> <<>>, flushed |-> 0, rcvd |-> 0, inj |-> FALSE, dead |-> FALSE, cur |-> NoCall]

OkCall(cfg, m, api, len, h) == m.cur.api = "none" /\ api \in Carries \cup {"flush"}
UpdCall(cfg, m, api, len, h) ==
  [m EXCEPT !.cur = [api |-> api, len |-> len, h |-> h],
            !.sent = IF api \in Carries /\ Valid(cfg, len) THEN Append(@, [len |-> len, h |-> h]) ELSE @]

\* SeqEq needs every acceptable message to be accepted; RefuseOversize every other one refused.
OkRet(cfg, m, api, r) ==
  /\ m.cur.api = api
  /\ IF api \in Carries
       THEN IF Valid(cfg, m.cur.len) THEN r = "ok" ELSE r = "refused"
       ELSE r = "ok"
UpdRet(cfg, m, api, r) ==
  [m EXCEPT !.cur = NoCall,
            !.flushed = IF r = "ok" /\ api \in Completes THEN Len(m.sent) ELSE @]

OkRecv(cfg, m, r, len, h) ==
  /\ ~m.dead
  /\ CASE r = "msg" -> m.rcvd < Len(m.sent) /\ m.sent[m.rcvd + 1] = [len |-> len, h |-> h]
       [] r = "err" -> m.inj /\ m.rcvd = Len(m.sent)      \* BadLengthIsError, after everything before it
       [] OTHER -> FALSE                                  \* eof / panic are never allowed
UpdRecv(cfg, m, r, len, h) ==
  IF r = "msg" THEN [m EXCEPT !.rcvd = @ + 1] ELSE [m EXCEPT !.dead = TRUE]

OkInject(cfg, m) == m.cur.api = "none" /\ ~m.inj
UpdInject(cfg, m) == [m EXCEPT !.inj = TRUE]

\* FlushMeansHandedOver + BadLengthIsError at quiescence
OkQuiesce(cfg, m) == m.rcvd >= m.flushed /\ (m.inj => m.dead)

OkEvent(cfg, m, ev) ==
  CASE ev.e = "call" -> OkCall(cfg, m, ev.api, ev.len, ev.h)
    [] ev.e = "ret" -> OkRet(cfg, m, ev.api, ev.r)
    [] ev.e = "recv" -> OkRecv(cfg, m, ev.r, ev.len, ev.h)
    [] ev.e = "inject" -> OkInject(cfg, m)
    [] ev.e = "quiesce" -> OkQuiesce(cfg, m)
    [] OTHER -> FALSE
UpdEvent(cfg, m, ev) ==
  CASE ev.e = "call" -> UpdCall(cfg, m, ev.api, ev.len, ev.h)
    [] ev.e = "ret" -> UpdRet(cfg, m, ev.api, ev.r)
    [] ev.e = "recv" -> UpdRecv(cfg, m, ev.r, ev.len, ev.h)
    [] ev.e = "inject" -> UpdInject(cfg, m)
    [] OTHER -> m

\* a sequence of events produced by one step: all allowed, in order
RECURSIVE OkEvents(_, _, _)
OkEvents(cfg, m, evs) ==
  IF evs = <<>> THEN TRUE
  ELSE OkEvent(cfg, m, Head(evs)) /\ OkEvents(cfg, UpdEvent(cfg, m, Head(evs)), Tail(evs))
RECURSIVE UpdEvents(_, _, _)
UpdEvents(cfg, m, evs) ==
  IF evs = <<>> THEN m ELSE UpdEvents(cfg, UpdEvent(cfg, m, Head(evs)), Tail(evs))
=============================================================================
