//! C16 conformance harness: small networks of real litep2p nodes over loopback TCP, driven through
//! the public Kademlia API only, with fault nodes placed among the targets.  Every scenario is an
//! independent network (own nodes, OS-assigned ports); many run concurrently in this process.
//!
//! Input  : --scenarios <jsonl> (written by tools/c16.py)
//! Output : --out <ndjson> trace for KadOpsTrace.tla (reset / cmd / recv / maybe / term / quiesce),
//!          --diag <jsonl> one line per scenario (timings, call-site markers, discard flag).
mod logcap;
mod node;

use litep2p::PeerId;
use multiaddr::{Multiaddr, Protocol};
use node::{Ctl, Log, NodeCfg, NodeHandle, OpReq, Role};
use serde::Deserialize;
use serde_json::{json, Value};
use std::collections::{HashMap, HashSet};
use std::sync::Arc;
use std::time::{Duration, Instant};
use tokio::sync::{oneshot, Semaphore};
use vharness::{write_lines, Args};

#[derive(Deserialize, Clone, Debug)]
struct NodeSpec {
    /// kad | silent | silentput | nokad | undialable | refusing | noaddr
    role: String,
    /// never | before | conn | recv
    #[serde(default = "never")]
    drop: String,
    /// the local node is told about this node before the warm-up
    #[serde(default)]
    known: bool,
    /// the local node is told about this node after the warm-up
    #[serde(default)]
    late_known: bool,
    /// the other Kademlia nodes are told about this node (so lookups discover it)
    #[serde(default)]
    learn: bool,
    /// a real node that everybody else knows only under an address no transport can dial
    #[serde(default)]
    hidden: bool,
    /// the node is told the local node's address and looks it up itself before the operations
    /// start (so the local node is connected to it by an inbound connection)
    #[serde(default)]
    dials_local: bool,
    /// a live node whose routing entries also carry dead addresses: in a `mix` network one live address plus a
    /// refused tcp / ws and an unanswered quic address of the other transports, otherwise one more dead address
    #[serde(default)]
    decoy: bool,
    /// the others reach this (real) node only through a TCP proxy of the harness that holds every new connection
    /// until all operations have been issued (tcp / ws / mix networks; the node is dialed directly over quic)
    #[serde(default)]
    gated: bool,
}
fn never() -> String {
    "never".into()
}

#[derive(Deserialize, Clone, Debug)]
struct OpSpec {
    kind: String,
    #[serde(default = "one")]
    quorum: String,
    #[serde(default)]
    n: usize,
    /// node indices (1-based, 0 = local) for put_to
    #[serde(default)]
    targets: Vec<usize>,
    /// nodes that hold the record / announce themselves as providers beforehand (get / get_providers)
    #[serde(default)]
    holders: Vec<usize>,
}
fn one() -> String {
    "one".into()
}

#[derive(Deserialize, Clone, Debug)]
struct Scenario {
    id: u64,
    name: String,
    nodes: Vec<NodeSpec>,
    #[serde(default)]
    limit: Option<usize>,
    #[serde(default)]
    warm: bool,
    ops: Vec<OpSpec>,
    #[serde(default)]
    seq: bool,
    deadline_ms: u64,
    settle_ms: u64,
    #[serde(default)]
    after_drop_ms: u64,
    /// "tcp" | "ws" | "quic" | "mix" (every node listens on all three; routing entries carry different subsets)
    #[serde(default = "tcp")]
    transport: String,
    /// the local node's runtime handles its events in bursts for this long after the operations were issued
    #[serde(default)]
    jitter_ms: u64,
}
fn tcp() -> String {
    "tcp".into()
}

enum Fake {
    /// bound, never listening: connect() is refused by the kernel
    Bound(#[allow(dead_code)] tokio::net::TcpSocket),
    /// bound UDP socket nobody reads: a QUIC handshake towards it times out
    BoundUdp(#[allow(dead_code)] tokio::net::UdpSocket),
    /// accepts TCP connections and drops them at once
    Refusing(tokio::task::JoinHandle<()>),
    /// a real node that answers under another identity than the dialed one (the handshake is refused)
    WrongId(NodeHandle),
    /// TCP proxy in front of a real node
    Proxy(tokio::task::JoinHandle<()>),
    NoAddr,
}

struct Slot {
    peer: PeerId,
    addrs: Vec<Multiaddr>,
    real: Option<NodeHandle>,
    fakes: Vec<Fake>,
}

fn role_of(s: &str) -> Option<Role> {
    match s {
        "kad" => Some(Role::Kad),
        "silent" => Some(Role::Silent),
        "silentput" => Some(Role::SilentPut),
        "dieonreq" => Some(Role::DieOnReq),
        "dropafterconnect" => Some(Role::DropAfterConnect),
        "nokad" => Some(Role::NoKad),
        _ => None,
    }
}

fn key_for(sc: u64, op: usize) -> Vec<u8> {
    let mut k = format!("c16/{sc}/{op}/").into_bytes();
    while k.len() < 24 {
        k.push(b'.');
    }
    k
}

fn with_peer(a: &str, peer: PeerId) -> Multiaddr {
    let a: Multiaddr = a.parse().unwrap();
    a.with(Protocol::P2p(peer.into()))
}

/// An address that is well-formed but that no transport enabled in a network of kind `tr` can dial: it stays in
/// the Kademlia routing table while the transport manager knows no address for the peer.
fn undialable_form(tr: &str, peer: PeerId) -> Multiaddr {
    match tr {
        "quic" => with_peer("/ip4/127.0.0.1/tcp/4001", peer),
        "mix" => with_peer("/ip4/127.0.0.1/udp/4001", peer),
        _ => with_peer("/ip4/127.0.0.1/udp/4001/quic-v1", peer),
    }
}

/// the single transports a network of kind `tr` uses
fn transports(tr: &str) -> Vec<&'static str> {
    match tr {
        "ws" => vec!["ws"],
        "quic" => vec!["quic"],
        "mix" => vec!["tcp", "ws", "quic"],
        _ => vec!["tcp"],
    }
}

async fn make_fake(role: &str, tr: &str, net: u64, idx: u32, log: &Log) -> Result<(PeerId, Vec<Multiaddr>, Vec<Fake>), String> {
    let peer = PeerId::random();
    let mut addrs = Vec::new();
    let mut fakes = Vec::new();
    if role == "noaddr" {
        return Ok((peer, vec![undialable_form(tr, peer)], vec![Fake::NoAddr]));
    }
    for t in transports(tr) {
        let sfx = if t == "ws" { "/ws" } else { "" };
        match (role, t) {
            ("undialable", "quic") => {
                let s = tokio::net::UdpSocket::bind("127.0.0.1:0").await.map_err(|e| e.to_string())?;
                let port = s.local_addr().map_err(|e| e.to_string())?.port();
                addrs.push(with_peer(&format!("/ip4/127.0.0.1/udp/{port}/quic-v1"), peer));
                fakes.push(Fake::BoundUdp(s));
            }
            ("undialable", _) => {
                let s = tokio::net::TcpSocket::new_v4().map_err(|e| e.to_string())?;
                s.bind("127.0.0.1:0".parse().unwrap()).map_err(|e| e.to_string())?;
                let port = s.local_addr().map_err(|e| e.to_string())?.port();
                addrs.push(with_peer(&format!("/ip4/127.0.0.1/tcp/{port}{sfx}"), peer));
                fakes.push(Fake::Bound(s));
            }
            ("refusing", "quic") => {
                // a QUIC endpoint cannot "accept and drop" below the handshake: a real node with another identity
                // refuses the dialed peer id during the handshake instead
                let h = node::spawn(NodeCfg { net, idx: 1000 + idx, role: Role::NoKad, max_outgoing: None, transport: "quic".into() }, log.clone()).await?;
                for a in &h.addrs {
                    let bare: Multiaddr = a.iter().filter(|p| !matches!(p, Protocol::P2p(_))).collect();
                    addrs.push(bare.with(Protocol::P2p(peer.into())));
                }
                fakes.push(Fake::WrongId(h));
            }
            ("refusing", _) => {
                let l = tokio::net::TcpListener::bind("127.0.0.1:0").await.map_err(|e| e.to_string())?;
                let port = l.local_addr().map_err(|e| e.to_string())?.port();
                let h = tokio::spawn(async move {
                    loop {
                        if let Ok((s, _)) = l.accept().await {
                            drop(s);
                        }
                    }
                });
                addrs.push(with_peer(&format!("/ip4/127.0.0.1/tcp/{port}{sfx}"), peer));
                fakes.push(Fake::Refusing(h));
            }
            (other, _) => return Err(format!("unknown role {other}")),
        }
    }
    Ok((peer, addrs, fakes))
}

/// In a `mix` network every node listens on tcp, ws and quic; the addresses the others are told differ per node,
/// so routing entries carry addresses of one, two or all three transports.
fn advertised(tr: &str, sc: u64, idx: u32, all: &[Multiaddr]) -> Vec<Multiaddr> {
    if tr != "mix" {
        return all.to_vec();
    }
    let is = |a: &Multiaddr, t: &str| match t {
        "ws" => a.iter().any(|p| matches!(p, Protocol::Ws(_))),
        "quic" => a.iter().any(|p| matches!(p, Protocol::QuicV1)),
        _ => !a.iter().any(|p| matches!(p, Protocol::Ws(_) | Protocol::QuicV1)),
    };
    let sets: [&[&str]; 6] = [&["tcp", "ws", "quic"], &["ws"], &["quic"], &["tcp"], &["ws", "quic"], &["quic", "tcp"]];
    let pick = sets[((sc + idx as u64) % 6) as usize];
    let v: Vec<Multiaddr> = all.iter().filter(|a| pick.iter().any(|t| is(a, t))).cloned().collect();
    if v.is_empty() { all.to_vec() } else { v }
}

struct Outcome {
    trace: Vec<String>,
    diag: Value,
}

fn qid(node: u64, q: u64) -> u64 {
    node * 1_000_000 + q
}

async fn run_scenario(sc: Scenario, fault: String) -> Result<Outcome, String> {
    let log = Log::new();
    let t_start = Instant::now();
    let mut slots: Vec<Slot> = Vec::new();
    // node 0: the local node
    let tr = sc.transport.clone();
    let (gate_tx, gate_rx) = tokio::sync::watch::channel(false);
    let local = node::spawn(NodeCfg { net: sc.id, idx: 0, role: Role::Kad, max_outgoing: sc.limit, transport: tr.clone() }, log.clone()).await?;
    slots.push(Slot { peer: local.peer, addrs: local.addrs.clone(), real: Some(local), fakes: vec![] });
    for (i, ns) in sc.nodes.iter().enumerate() {
        let idx = (i + 1) as u32;
        if let Some(role) = role_of(&ns.role) {
            let h = node::spawn(NodeCfg { net: sc.id, idx, role, max_outgoing: None, transport: tr.clone() }, log.clone()).await?;
            let mut addrs = if ns.hidden { vec![undialable_form(&tr, h.peer)] } else { advertised(&tr, sc.id, idx, &h.addrs) };
            let mut fakes = Vec::new();
            if ns.decoy {
                let kind = |a: &Multiaddr| {
                    if a.iter().any(|p| matches!(p, Protocol::Ws(_))) { "ws" } else if a.iter().any(|p| matches!(p, Protocol::QuicV1)) { "quic" } else { "tcp" }
                };
                if tr == "mix" {
                    // keep one live address, the other transports get dead ones
                    let live = h.addrs[((sc.id + idx as u64) % h.addrs.len() as u64) as usize].clone();
                    addrs = vec![];
                    let (_, dead, f) = make_fake("undialable", "mix", sc.id, idx, &log).await?;
                    for d in dead {
                        if kind(&d) != kind(&live) {
                            let bare: Multiaddr = d.iter().filter(|p| !matches!(p, Protocol::P2p(_))).collect();
                            addrs.push(bare.with(Protocol::P2p(h.peer.into())));
                        }
                    }
                    // the live address goes last / first alternately
                    if (sc.id + idx as u64) % 2 == 0 { addrs.push(live) } else { addrs.insert(0, live) }
                    fakes = f;
                } else {
                    let (_, dead, f) = make_fake("undialable", &tr, sc.id, idx, &log).await?;
                    for d in dead {
                        let bare: Multiaddr = d.iter().filter(|p| !matches!(p, Protocol::P2p(_))).collect();
                        addrs.insert(0, bare.with(Protocol::P2p(h.peer.into())));
                    }
                    fakes = f;
                }
            }
            if ns.gated && tr == "quic" {
                // UDP relay: datagrams are dropped until the gate opens (the dialer retransmits its Initial)
                let port = h.addrs[0].iter().find_map(|p| if let Protocol::Udp(x) = p { Some(x) } else { None }).unwrap_or(0);
                let sock = std::sync::Arc::new(tokio::net::UdpSocket::bind("127.0.0.1:0").await.map_err(|e| e.to_string())?);
                let pport = sock.local_addr().map_err(|e| e.to_string())?.port();
                let gate = gate_rx.clone();
                let jh = tokio::spawn(async move {
                    let mut ups: HashMap<std::net::SocketAddr, std::sync::Arc<tokio::net::UdpSocket>> = HashMap::new();
                    let mut buf = vec![0u8; 65536];
                    loop {
                        let Ok((n, from)) = sock.recv_from(&mut buf).await else { continue };
                        if !*gate.borrow() {
                            continue;
                        }
                        let up = match ups.get(&from) {
                            Some(u) => u.clone(),
                            None => {
                                let Ok(u) = tokio::net::UdpSocket::bind("127.0.0.1:0").await else { continue };
                                if u.connect(("127.0.0.1", port)).await.is_err() {
                                    continue;
                                }
                                let u = std::sync::Arc::new(u);
                                ups.insert(from, u.clone());
                                let (u2, s2) = (u.clone(), sock.clone());
                                tokio::spawn(async move {
                                    let mut b = vec![0u8; 65536];
                                    while let Ok(n) = u2.recv(&mut b).await {
                                        let _ = s2.send_to(&b[..n], from).await;
                                    }
                                });
                                u
                            }
                        };
                        let _ = up.send(&buf[..n]).await;
                    }
                });
                addrs = vec![with_peer(&format!("/ip4/127.0.0.1/udp/{pport}/quic-v1"), h.peer)];
                fakes.push(Fake::Proxy(jh));
            }
            if ns.gated && tr != "quic" {
                // the first tcp-based listen address of the node (plain tcp, or ws)
                let target = h.addrs.iter().find(|a| !a.iter().any(|p| matches!(p, Protocol::QuicV1))).cloned();
                if let Some(target) = target {
                    let port = target.iter().find_map(|p| if let Protocol::Tcp(x) = p { Some(x) } else { None }).unwrap_or(0);
                    let ws = target.iter().any(|p| matches!(p, Protocol::Ws(_)));
                    let l = tokio::net::TcpListener::bind("127.0.0.1:0").await.map_err(|e| e.to_string())?;
                    let pport = l.local_addr().map_err(|e| e.to_string())?.port();
                    let gate0 = gate_rx.clone();
                    let jh = tokio::spawn(async move {
                        loop {
                            let Ok((mut inc, _)) = l.accept().await else { continue };
                            let mut gate = gate0.clone();
                            tokio::spawn(async move {
                                while !*gate.borrow() {
                                    if gate.changed().await.is_err() {
                                        return;
                                    }
                                }
                                if let Ok(mut out) = tokio::net::TcpStream::connect(("127.0.0.1", port)).await {
                                    let _ = tokio::io::copy_bidirectional(&mut inc, &mut out).await;
                                }
                            });
                        }
                    });
                    addrs = vec![with_peer(&format!("/ip4/127.0.0.1/tcp/{pport}{}", if ws { "/ws" } else { "" }), h.peer)];
                    fakes.push(Fake::Proxy(jh));
                }
            }
            slots.push(Slot { peer: h.peer, addrs, real: Some(h), fakes });
        } else {
            let (peer, addrs, fakes) = make_fake(&ns.role, &tr, sc.id, idx, &log).await?;
            slots.push(Slot { peer, addrs, real: None, fakes });
        }
    }
    let spec = |i: usize| -> &NodeSpec { &sc.nodes[i - 1] };
    let send = |slots: &Vec<Slot>, i: usize, c: Ctl| {
        if let Some(r) = slots[i].real.as_ref() {
            let _ = r.ctl.send(c);
        }
    };

    // issued operations: (node, q) by op index; keys by op index
    let mut issued: Vec<(u64, u64, OpSpec, Vec<u8>)> = Vec::new();
    let mut holder_ops: Vec<(u64, u64)> = Vec::new();

    // 1. holders (before anybody knows anybody: a provider announcement then finds no peer, fails
    //    at once and leaves the local provider record behind)
    for (oi, op) in sc.ops.iter().enumerate() {
        let key = key_for(sc.id, oi);
        for &h in &op.holders {
            // holder 0 is the local node itself (a record / provider it already has locally)
            if h != 0 && spec(h).role != "kad" {
                continue;
            }
            match op.kind.as_str() {
                "get" => send(&slots, h, Ctl::Store(key.clone(), b"held".to_vec())),
                "get_providers" => {
                    let (tx, rx) = oneshot::channel();
                    send(&slots, h, Ctl::Op(OpReq { kind: "provide".into(), quorum: "one".into(), n: 1, key: key.clone(), value: vec![], peers: vec![], target: PeerId::random() }, tx));
                    if let Ok(Ok(q)) = tokio::time::timeout(Duration::from_secs(30), rx).await {
                        holder_ops.push((h as u64, q as u64));
                    }
                }
                _ => {}
            }
        }
    }
    // 2. teach the ordinary nodes about the discoverable ones
    for i in 1..slots.len() {
        if spec(i).role != "kad" {
            continue;
        }
        for j in 1..slots.len() {
            if i != j && spec(j).learn {
                send(&slots, i, Ctl::AddKnown(slots[j].peer, slots[j].addrs.clone()));
            }
        }
    }
    // 3. the local node's initial routing entries
    for j in 1..slots.len() {
        if spec(j).known {
            send(&slots, 0, Ctl::AddKnown(slots[j].peer, slots[j].addrs.clone()));
        }
    }
    // 3b. nodes that connect to the local node themselves
    for j in 1..slots.len() {
        if spec(j).dials_local && spec(j).role == "kad" {
            send(&slots, j, Ctl::AddKnown(slots[0].peer, slots[0].addrs.clone()));
            let (tx, rx) = oneshot::channel();
            send(&slots, j, Ctl::Op(OpReq { kind: "find_node".into(), quorum: "one".into(), n: 1, key: vec![], value: vec![], peers: vec![], target: slots[0].peer }, tx));
            if let Ok(Ok(q)) = tokio::time::timeout(Duration::from_secs(30), rx).await {
                holder_ops.push((j as u64, q as u64));
            }
            // wait until the local node reports the connection
            let pj = slots[j].peer.to_string();
            let t = Instant::now();
            while t.elapsed() < Duration::from_secs(20)
                && !log.ev.lock().unwrap().iter().any(|e| e["k"] == "conn" && e["node"] == 0 && e["up"] == true && e["peer"] == pj.as_str())
            {
                tokio::time::sleep(Duration::from_millis(10)).await;
            }
        }
    }
    let wait_term = |log: &Log, node: u64, q: u64| -> bool {
        log.ev.lock().unwrap().iter().any(|e| e["k"] == "term" && e["node"] == node && e["q"] == q)
    };
    let mut max_oversleep = 0u64;
    // 4. warm-up: one node lookup connects the local node to whoever is reachable
    let mut warm_op: Option<(u64, u64)> = None;
    if sc.warm {
        let (tx, rx) = oneshot::channel();
        send(&slots, 0, Ctl::Op(OpReq { kind: "find_node".into(), quorum: "one".into(), n: 1, key: vec![], value: vec![], peers: vec![], target: PeerId::random() }, tx));
        if let Ok(Ok(q)) = tokio::time::timeout(Duration::from_secs(30), rx).await {
            warm_op = Some((0, q as u64));
            let t = Instant::now();
            while !wait_term(&log, 0, q as u64) && t.elapsed() < Duration::from_millis(sc.deadline_ms) {
                tokio::time::sleep(Duration::from_millis(20)).await;
            }
        }
    }
    for j in 1..slots.len() {
        if spec(j).late_known {
            send(&slots, 0, Ctl::AddKnown(slots[j].peer, slots[j].addrs.clone()));
        }
    }
    // 5. faults placed before the request
    let mut dropped_before = false;
    for j in 1..slots.len() {
        if spec(j).drop == "before" {
            if let Some(r) = slots[j].real.as_mut() {
                r.kill().await;
                dropped_before = true;
            }
        }
    }
    if dropped_before && sc.after_drop_ms > 0 {
        tokio::time::sleep(Duration::from_millis(sc.after_drop_ms)).await;
    }
    let local_peer = slots[0].peer;
    for j in 1..slots.len() {
        match spec(j).drop.as_str() {
            "conn" => send(&slots, j, Ctl::DropOn(1, local_peer)),
            "recv" => send(&slots, j, Ctl::DropOn(2, local_peer)),
            _ => {}
        }
    }
    // 6. the operations
    if sc.jitter_ms > 0 {
        send(&slots, 0, Ctl::Jitter(sc.jitter_ms));
    }
    // every operation gets the full deadline, counted from the moment it was issued
    let mut t_ops = Instant::now();
    for (oi, op) in sc.ops.iter().enumerate() {
        let key = key_for(sc.id, oi);
        let (tx, rx) = oneshot::channel();
        let peers = op.targets.iter().map(|&t| slots[t].peer).collect();
        send(&slots, 0, Ctl::Op(OpReq { kind: op.kind.clone(), quorum: op.quorum.clone(), n: op.n, key: key.clone(), value: format!("v{}", oi).into_bytes(), peers, target: PeerId::random() }, tx));
        match tokio::time::timeout(Duration::from_secs(30), rx).await {
            Ok(Ok(q)) => {
                issued.push((0, q as u64, op.clone(), key));
                t_ops = Instant::now();
                if sc.seq {
                    while !wait_term(&log, 0, q as u64) && t_ops.elapsed() < Duration::from_millis(sc.deadline_ms) {
                        tokio::time::sleep(Duration::from_millis(20)).await;
                    }
                }
            }
            _ => return Err(format!("scenario {}: local node did not accept op {}", sc.id, oi)),
        }
    }
    // connections held by the gating proxies go through now
    let _ = gate_tx.send(true);
    // 7. wait: every operation terminal and nothing new for `settle`, or the deadline
    let need_recv = |op: &OpSpec| -> usize {
        // what a reported success needs at least (mirrors KadOps!Need); only used to wait longer
        if !matches!(op.kind.as_str(), "put" | "put_to" | "provide") {
            return 0;
        }
        let t = if op.kind == "put_to" { op.targets.len().max(1) } else { 1 };
        match op.quorum.as_str() {
            "one" => 1,
            "all" => t,
            _ => op.n.max(1).min(t),
        }
    };
    let mut all: Vec<(u64, u64)> = issued.iter().map(|x| (x.0, x.1)).collect();
    all.extend(holder_ops.iter().cloned());
    if let Some(w) = warm_op {
        all.push(w);
    }
    let mut grace_until: Option<Instant> = None;
    loop {
        let t_sleep = Instant::now();
        tokio::time::sleep(Duration::from_millis(50)).await;
        let over = (t_sleep.elapsed().as_millis() as u64).saturating_sub(50);
        max_oversleep = max_oversleep.max(over);
        if t_ops.elapsed() >= Duration::from_millis(sc.deadline_ms) {
            break;
        }
        let snap = log.snapshot();
        let terminal = all.iter().all(|(n, q)| snap.iter().any(|e| e["k"] == "term" && e["node"] == *n && e["q"] == *q));
        if !terminal {
            continue;
        }
        let last_t = snap.iter().filter(|e| e["k"] == "term" || e["k"] == "recv").map(|e| e["t"].as_u64().unwrap_or(0)).max().unwrap_or(0);
        let now = log.t0.elapsed().as_millis() as u64;
        if now < last_t + sc.settle_ms {
            continue;
        }
        // lenient side only: a success whose receipts are still short gets more time to show them
        let short = issued.iter().any(|(n, q, op, key)| {
            let ok = snap.iter().any(|e| e["k"] == "term" && e["node"] == *n && e["q"] == *q && e["ok"] == true);
            let hexk = hex::encode(key);
            let got: HashSet<u64> = snap.iter().filter(|e| e["k"] == "recv" && e["key"] == hexk.as_str()).map(|e| e["node"].as_u64().unwrap()).collect();
            let maybe = (1..slots.len()).filter(|&j| (matches!(spec(j).drop.as_str(), "conn" | "recv") || spec(j).role == "dieonreq") && !got.contains(&(j as u64))).count();
            ok && got.len() + maybe < need_recv(op)
        });
        if short {
            let g = *grace_until.get_or_insert(Instant::now() + Duration::from_secs(15));
            if Instant::now() < g {
                continue;
            }
        }
        break;
    }
    let t_end_ms = log.t0.elapsed().as_millis() as u64;
    let snap = log.snapshot();
    // 8. tear down
    let mut late: u64 = max_oversleep;
    for s in slots.iter_mut() {
        if let Some(r) = s.real.as_mut() {
            late = late.max(*r.late.lock().unwrap());
            r.kill().await;
        }
        for f in s.fakes.iter_mut() {
            match f {
                Fake::Refusing(h) | Fake::Proxy(h) => h.abort(),
                Fake::WrongId(h) => h.kill().await,
                _ => {}
            }
        }
    }
    let markers = logcap::take(sc.id);

    // 9. the trace for the monitor
    let mut key_to_q: HashMap<String, u64> = HashMap::new();
    let mut meta: HashMap<u64, &OpSpec> = HashMap::new();
    for (n, q, op, key) in &issued {
        key_to_q.insert(hex::encode(key), qid(*n, *q));
        meta.insert(qid(*n, *q), op);
    }
    let mut trace: Vec<String> = Vec::new();
    trace.push(json!({"e": "reset", "id": sc.id, "name": sc.name, "tr": sc.transport}).to_string());
    let mut seen_cmd: HashSet<u64> = HashSet::new();
    let mut early: Vec<Value> = Vec::new();
    let mut recvd: HashMap<u64, HashSet<u64>> = HashMap::new();
    let mut dup_done = false;
    let mut drop_done = false;
    for e in &snap {
        match e["k"].as_str().unwrap_or("") {
            "cmd" => {
                let q = qid(e["node"].as_u64().unwrap(), e["q"].as_u64().unwrap());
                let (kind, quorum, n, t): (String, String, usize, i64) = match meta.get(&q) {
                    Some(op) => (op.kind.clone(), op.quorum.clone(), op.n, if op.kind == "put_to" { op.targets.len() as i64 } else { -1 }),
                    // warm-up / holder operations
                    None => (e["kind"].as_str().unwrap_or("?").to_string(), "one".into(), 1, -1),
                };
                let quorum = if quorum == "one" || quorum == "all" { quorum } else { "n".to_string() };
                trace.push(json!({"e": "cmd", "q": q, "kind": kind, "quorum": quorum, "n": n.max(1), "T": t}).to_string());
                seen_cmd.insert(q);
                let (now, later): (Vec<Value>, Vec<Value>) = early.drain(..).partition(|r| r["q"] == q);
                early = later;
                for r in now {
                    trace.push(r.to_string());
                }
            }
            "recv" => {
                if fault == "drop_recv" {
                    continue;
                }
                if let Some(&q) = key_to_q.get(e["key"].as_str().unwrap_or("")) {
                    let at = e["node"].as_u64().unwrap();
                    recvd.entry(q).or_default().insert(at);
                    let r = json!({"e": "recv", "q": q, "at": at});
                    if seen_cmd.contains(&q) {
                        trace.push(r.to_string());
                    } else {
                        early.push(r);
                    }
                }
            }
            "term" => {
                let q = qid(e["node"].as_u64().unwrap(), e["q"].as_u64().unwrap());
                if fault == "drop_term" && !drop_done && meta.contains_key(&q) {
                    drop_done = true;
                    continue;
                }
                let t = json!({"e": "term", "q": q, "ok": e["ok"], "v": e["v"]}).to_string();
                trace.push(t.clone());
                if fault == "dup_term" && !dup_done && meta.contains_key(&q) {
                    dup_done = true;
                    trace.push(t);
                }
            }
            _ => {}
        }
    }
    // receipts that cannot be ruled out: a node that was killed in the middle of the operations may
    // have received the data without living long enough to report it
    for (n, q, op, _) in &issued {
        if !matches!(op.kind.as_str(), "put" | "put_to" | "provide") {
            continue;
        }
        let q = qid(*n, *q);
        for j in 1..slots.len() {
            if (matches!(spec(j).drop.as_str(), "conn" | "recv") || spec(j).role == "dieonreq") && !recvd.get(&q).map(|s| s.contains(&(j as u64))).unwrap_or(false) {
                trace.push(json!({"e": "maybe", "q": q, "at": j}).to_string());
            }
        }
    }
    trace.push(json!({"e": "quiesce"}).to_string());

    let ops_diag: Vec<Value> = issued
        .iter()
        .map(|(n, q, op, key)| {
            let term: Vec<&Value> = snap.iter().filter(|e| e["k"] == "term" && e["node"] == *n && e["q"] == *q).collect();
            let cmd_t = snap.iter().find(|e| e["k"] == "cmd" && e["node"] == *n && e["q"] == *q).map(|e| e["t"].as_u64().unwrap_or(0)).unwrap_or(0);
            let hexk = hex::encode(key);
            let got: Vec<u64> = snap.iter().filter(|e| e["k"] == "recv" && e["key"] == hexk.as_str()).map(|e| e["node"].as_u64().unwrap()).collect();
            json!({"q": qid(*n, *q), "kind": op.kind, "quorum": op.quorum, "n": op.n, "targets": op.targets,
                   "terms": term.iter().map(|t| json!({"ok": t["ok"], "v": t["v"], "after_ms": t["t"].as_u64().unwrap_or(0).saturating_sub(cmd_t)})).collect::<Vec<_>>(),
                   "recv_at": got})
        })
        .collect();
    let mk: HashMap<String, Value> = markers.into_iter().map(|(n, m)| (n.to_string(), json!(m))).collect();
    let diag = json!({
        "id": sc.id, "name": sc.name, "transport": sc.transport, "wall_ms": t_start.elapsed().as_millis() as u64, "ops_window_ms": t_end_ms,
        "late_ms": late, "discarded": late > 2000, "ops": ops_diag, "markers": mk,
        "dead": snap.iter().filter(|e| e["k"] == "dead" && e["why"] != "kill").map(|e| json!({"node": e["node"], "why": e["why"], "t": e["t"]})).collect::<Vec<_>>(),
        "conns_local": snap.iter().filter(|e| e["k"] == "conn" && e["node"] == 0).count(),
        "dialfail_local": snap.iter().filter(|e| e["k"] == "dialfail" && e["node"] == 0).count(),
    });
    let mut diag = diag;
    if std::env::var("VERIF_RAW").is_ok() {
        diag["raw"] = json!(snap);
    }
    Ok(Outcome { trace, diag })
}

fn main() {
    let args = Args::parse();
    let scen_path = args.str("scenarios", "");
    let out = args.str("out", "trace.ndjson");
    let diag_out = args.str("diag", "diag.jsonl");
    let parallel = args.u64("parallel", 24) as usize;
    let fault = std::env::var("VERIF_FAULT").unwrap_or_default();
    logcap::install();
    let scenarios: Vec<Scenario> = vharness::read_jsonl(&scen_path)
        .into_iter()
        .map(|v| serde_json::from_value(v).expect("scenario"))
        .collect();
    let rt = tokio::runtime::Builder::new_multi_thread().worker_threads(4).enable_all().build().unwrap();
    let t0 = Instant::now();
    let results: Vec<Result<Outcome, String>> = rt.block_on(async {
        let sem = Arc::new(Semaphore::new(parallel));
        let mut hs = Vec::new();
        for (i, sc) in scenarios.into_iter().enumerate() {
            let sem = sem.clone();
            let fault = fault.clone();
            hs.push(tokio::spawn(async move {
                // the first wave does not start all its nodes in the same instant
                if i < parallel {
                    tokio::time::sleep(Duration::from_millis(40 * i as u64)).await;
                }
                let _p = sem.acquire_owned().await.unwrap();
                run_scenario(sc, fault).await
            }));
        }
        let mut out = Vec::new();
        for h in hs {
            out.push(h.await.unwrap_or_else(|e| Err(format!("scenario task: {e}"))));
        }
        out
    });
    let mut trace = Vec::new();
    let mut diag = Vec::new();
    let (mut ran, mut discarded, mut errors, mut ops, mut events) = (0u64, 0u64, 0u64, 0u64, 0u64);
    let mut errs = Vec::new();
    for r in results {
        match r {
            Ok(o) => {
                ran += 1;
                if o.diag["discarded"] == true {
                    discarded += 1;
                } else {
                    ops += o.trace.iter().filter(|l| l.contains("\"e\":\"cmd\"")).count() as u64;
                    events += o.trace.len() as u64 - 1;
                    trace.extend(o.trace);
                }
                diag.push(o.diag.to_string());
            }
            Err(e) => {
                errors += 1;
                errs.push(e);
            }
        }
    }
    write_lines(&out, &trace);
    write_lines(&diag_out, &diag);
    println!(
        "SUMMARY {}",
        json!({"scenarios": ran, "discarded": discarded, "setup_errors": errors, "errors": errs.iter().take(3).collect::<Vec<_>>(),
               "operations": ops, "events": events, "wall_s": t0.elapsed().as_secs()})
    );
}
