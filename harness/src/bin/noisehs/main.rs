//! C01: concretise the symbolic handshake scenarios enumerated by TLC (NoiseHS.tla) against the
//! real `crypto::noise::handshake`: in-memory duplex with a scripted MITM; the other side is the
//! real handshake (honest), `libp2p-noise` (second honest implementation) or a rogue built on
//! `snow` with forged identity payloads.  Dialed-peer expectations run through real `Litep2p`
//! nodes over loopback TCP (the comparison lives in `negotiate_connection`).
mod pipe;
mod rogue;

use futures::{future::BoxFuture, FutureExt};
use libp2p_core::upgrade::{InboundConnectionUpgrade, OutboundConnectionUpgrade};
use litep2p::{crypto::ed25519::Keypair, verif::noise::*};
use pipe::{pair, Move};
use rand::{rngs::StdRng, seq::SliceRandom, Rng, SeedableRng};
use serde_json::{json, Value};
use std::{
    sync::{Arc, Mutex},
    task::{Context, Poll},
    time::Duration,
};
use vharness::*;

#[derive(Clone, Debug)]
struct Outcome {
    ok: bool,
    peer: Vec<u8>,
    kind: String,
}

struct Keys {
    a: Keypair, // dialer-side honest identity
    b: Keypair, // listener-side honest identity
    r: Keypair, // rogue identity
    w: Vec<u8>, // peer id bytes of the advertised small-order key (weakKey scenarios), else empty
}

/// canonical peer id bytes computed with libp2p-identity (independent of the code under test)
fn ref_peer_id(kp: &Keypair) -> Vec<u8> {
    let pk = libp2p_identity::ed25519::PublicKey::try_from_bytes(&kp.public().to_bytes()).unwrap();
    libp2p_identity::PeerId::from_public_key(&libp2p_identity::PublicKey::from(pk)).to_bytes()
}

fn lp_keypair(kp: &Keypair) -> libp2p_identity::Keypair {
    let mut sk = kp.secret().to_bytes();
    libp2p_identity::Keypair::ed25519_from_bytes(&mut sk).unwrap()
}

fn dalek(kp: &Keypair) -> ed25519_dalek::SigningKey {
    ed25519_dalek::SigningKey::from_bytes(&kp.secret().to_bytes())
}

fn name_of(peer: &[u8], keys: &Keys) -> &'static str {
    if peer == ref_peer_id(&keys.a) {
        "A"
    } else if peer == ref_peer_id(&keys.b) {
        "B"
    } else if peer == ref_peer_id(&keys.r) {
        "R"
    } else if !keys.w.is_empty() && peer == keys.w {
        "W"
    } else {
        "X"
    }
}

type Fut = BoxFuture<'static, Outcome>;

fn litep2p_side(end: pipe::End, kp: Keypair, role: Role) -> Fut {
    async move {
        match handshake(end, &kp, role, MAX_READ_AHEAD_FACTOR, MAX_WRITE_BUFFER_SIZE, Duration::from_secs(300), HandshakeTransport::Tcp).await {
            Ok((_sock, peer)) => Outcome { ok: true, peer: peer.to_bytes(), kind: String::new() },
            Err(e) => Outcome { ok: false, peer: vec![], kind: format!("{e:?}") },
        }
    }
    .boxed()
}

fn libp2p_side(end: pipe::End, kp: &Keypair, dialer: bool) -> Fut {
    let cfg = libp2p_noise::Config::new(&lp_keypair(kp)).expect("libp2p noise config");
    async move {
        let r = if dialer { cfg.upgrade_outbound(end, "/noise").await } else { cfg.upgrade_inbound(end, "/noise").await };
        match r {
            Ok((peer, _out)) => Outcome { ok: true, peer: peer.to_bytes(), kind: String::new() },
            Err(e) => Outcome { ok: false, peer: vec![], kind: format!("{e:?}") },
        }
    }
    .boxed()
}

fn rogue_side(end: pipe::End, dialer: bool, pv: &str, conc: usize, keys: &Keys, victim: &Keypair, seed: u64) -> Fut {
    let ids = rogue::Ids { rogue: dalek(&keys.r), victim: dalek(victim) };
    let pv = pv.to_string();
    async move {
        match rogue::run(end, dialer, pv, conc, ids, seed).await {
            Ok(_) => Outcome { ok: true, peer: vec![], kind: "rogue-done".into() },
            Err(e) => Outcome { ok: false, peer: vec![], kind: e },
        }
    }
    .boxed()
}

/// State of one history (a sequence of handshakes against the same victim process): the honest
/// peer H keeps its static DH key for all its sessions, like rust-libp2p / go-libp2p do, so its
/// identity payload is the same bytes every time and can be observed by anybody who dials it.
struct HistCtx {
    h_static: [u8; 32],
    /// H's identity payload as observed by a third party
    h_payload: Vec<u8>,
    /// H as a libp2p-noise endpoint (the Config owns the static key)
    lp_cfg: Option<libp2p_noise::Config>,
}

fn snow_side(end: pipe::End, dialer: bool, spec: rogue::Spec, seed: u64) -> Fut {
    async move {
        let mut end = end;
        match rogue::handshake_snow(&mut end, dialer, spec, seed).await {
            Ok(_) => Outcome { ok: true, peer: vec![], kind: "snow-done".into() },
            Err(e) => Outcome { ok: false, peer: vec![], kind: e },
        }
    }
    .boxed()
}

fn libp2p_cfg_side(end: pipe::End, cfg: libp2p_noise::Config, dialer: bool) -> Fut {
    async move {
        let r = if dialer { cfg.upgrade_outbound(end, "/noise").await } else { cfg.upgrade_inbound(end, "/noise").await };
        match r {
            Ok((peer, _out)) => Outcome { ok: true, peer: peer.to_bytes(), kind: String::new() },
            Err(e) => Outcome { ok: false, peer: vec![], kind: format!("{e:?}") },
        }
    }
    .boxed()
}

/// flip one bit inside the identity_sig field (protobuf field 2) of an identity payload
fn corrupt_sig(payload: &[u8], rng: &mut StdRng) -> Vec<u8> {
    let mut p = payload.to_vec();
    let mut i = 0;
    while i + 2 <= p.len() {
        let (tag, len) = (p[i], p[i + 1] as usize); // all lengths here are < 128
        if tag == 0x12 && len > 0 {
            let o = i + 2 + rng.gen_range(0..len.min(p.len() - i - 2));
            p[o] ^= 1 << rng.gen_range(0..8);
            return p;
        }
        i += 2 + len;
    }
    panic!("identity payload without signature field");
}

/// the spec of the snow-based peer for a history step: honest H (fixed static key) or a rogue
/// that replays H's payload inside its own session
fn hist_peer_spec(sc: &Value, h: &Keypair, hctx: &HistCtx, rng: &mut StdRng) -> rogue::Spec {
    match (sc["peer"].as_str().unwrap(), sc["pv"].as_str().unwrap()) {
        ("honest", _) => rogue::Spec { static_priv: Some(hctx.h_static), pl: rogue::Pl::HonestFor(dalek(h)) },
        (_, "replayH") => rogue::Spec { static_priv: None, pl: rogue::Pl::Fixed(hctx.h_payload.clone()) },
        (_, "replayHBadSig") => rogue::Spec { static_priv: None, pl: rogue::Pl::Fixed(corrupt_sig(&hctx.h_payload, rng)) },
        other => panic!("no snow peer for {other:?}"),
    }
}

/// Poll both sides by hand until both finished. Deadlocks (both sides waiting for bytes that will
/// never come because of the MITM move) are resolved by closing the pipe, never by a timer.
fn drive(mut fd: Fut, mut fl: Fut, sh: &Arc<Mutex<pipe::Shared>>) -> (Outcome, Outcome, bool) {
    let waker = futures::task::noop_waker();
    let mut cx = Context::from_waker(&waker);
    let (mut rd, mut rl): (Option<Outcome>, Option<Outcome>) = (None, None);
    let mut closed_all = false;
    let mut hang = false;
    let mut iters = 0u64;
    loop {
        let before = sh.lock().unwrap().progress;
        let mut completed = false;
        if rd.is_none() {
            match catch(|| fd.poll_unpin(&mut cx)) {
                Ok(Poll::Ready(o)) => {
                    rd = Some(o);
                    sh.lock().unwrap().d2l.closed = true;
                    completed = true;
                }
                Ok(Poll::Pending) => {}
                Err(p) => {
                    rd = Some(Outcome { ok: false, peer: vec![], kind: format!("PANIC {p}") });
                    sh.lock().unwrap().d2l.closed = true;
                    completed = true;
                }
            }
        }
        if rl.is_none() {
            match catch(|| fl.poll_unpin(&mut cx)) {
                Ok(Poll::Ready(o)) => {
                    rl = Some(o);
                    sh.lock().unwrap().l2d.closed = true;
                    completed = true;
                }
                Ok(Poll::Pending) => {}
                Err(p) => {
                    rl = Some(Outcome { ok: false, peer: vec![], kind: format!("PANIC {p}") });
                    sh.lock().unwrap().l2d.closed = true;
                    completed = true;
                }
            }
        }
        if rd.is_some() && rl.is_some() {
            break;
        }
        let after = sh.lock().unwrap().progress;
        iters += 1;
        if after == before && !completed {
            if !closed_all {
                let mut g = sh.lock().unwrap();
                g.d2l.closed = true;
                g.l2d.closed = true;
                closed_all = true;
            } else {
                hang = true;
                break;
            }
        }
        if iters > 2_000_000 {
            hang = true;
            break;
        }
    }
    let h = Outcome { ok: false, peer: vec![], kind: "HANG".into() };
    (rd.unwrap_or(h.clone()), rl.unwrap_or(h), hang)
}

struct Lens {
    m: [usize; 4], // wire length (incl. 2 length bytes) of m1..m3, index 1..3
    msgs: Vec<Vec<u8>>, // m1, m2, m3 of a reference session (for Substitute)
}

/// One concrete execution. Returns (dialer outcome, listener outcome, hang, move applied, observed lens)
#[allow(clippy::too_many_arguments)]
fn execute(sc: &Value, mv: Move, conc: usize, keys: &Keys, rt: &tokio::runtime::Runtime, seed: u64) -> (Outcome, Outcome, bool, bool, Lens) {
    execute_h(sc, mv, conc, keys, rt, seed, None)
}

fn execute_h(sc: &Value, mv: Move, conc: usize, keys: &Keys, rt: &tokio::runtime::Runtime, seed: u64, hctx: Option<&HistCtx>) -> (Outcome, Outcome, bool, bool, Lens) {
    let _g = rt.enter();
    let mut hrng = StdRng::seed_from_u64(seed ^ 0x5eed);
    let chunk = sc["chunk"].as_str().unwrap();
    let (ed, el, sh) = pair(mv, chunk, StdRng::seed_from_u64(seed));
    let peer = sc["peer"].as_str().unwrap();
    let imp = sc["impl"].as_str().unwrap();
    let trole = sc["trole"].as_str().unwrap();
    let pv = sc["pv"].as_str().unwrap();
    let (fd, fl): (Fut, Fut) = match (peer, trole) {
        // history steps: the victim is the real handshake, the peer is H (fixed static key) or a replaying rogue
        ("honest", "dialer") if imp == "libp2pfixed" =>
            (litep2p_side(ed, keys.a.clone(), Role::Dialer), libp2p_cfg_side(el, hctx.unwrap().lp_cfg.clone().unwrap(), false)),
        ("honest", "listener") if imp == "libp2pfixed" =>
            (libp2p_cfg_side(ed, hctx.unwrap().lp_cfg.clone().unwrap(), true), litep2p_side(el, keys.b.clone(), Role::Listener)),
        (_, "dialer") if imp == "snowfixed" || pv.starts_with("replayH") =>
            (litep2p_side(ed, keys.a.clone(), Role::Dialer), snow_side(el, false, hist_peer_spec(sc, &keys.b, hctx.unwrap(), &mut hrng), seed)),
        (_, "listener") if imp == "snowfixed" || pv.starts_with("replayH") =>
            (snow_side(ed, true, hist_peer_spec(sc, &keys.a, hctx.unwrap(), &mut hrng), seed), litep2p_side(el, keys.b.clone(), Role::Listener)),
        ("honest", "both") => (litep2p_side(ed, keys.a.clone(), Role::Dialer), litep2p_side(el, keys.b.clone(), Role::Listener)),
        ("honest", "dialer") => (litep2p_side(ed, keys.a.clone(), Role::Dialer), libp2p_side(el, &keys.b, false)),
        ("honest", "listener") => (libp2p_side(ed, &keys.a, true), litep2p_side(el, keys.b.clone(), Role::Listener)),
        ("rogue", "dialer") if imp == "ref-libp2p" => (libp2p_side(ed, &keys.a, true), rogue_side(el, false, pv, conc, keys, &keys.b, seed)),
        ("rogue", "listener") if imp == "ref-libp2p" => (rogue_side(ed, true, pv, conc, keys, &keys.a, seed), libp2p_side(el, &keys.b, false)),
        ("rogue", "dialer") => (litep2p_side(ed, keys.a.clone(), Role::Dialer), rogue_side(el, false, pv, conc, keys, &keys.b, seed)),
        ("rogue", "listener") => (rogue_side(ed, true, pv, conc, keys, &keys.a, seed), litep2p_side(el, keys.b.clone(), Role::Listener)),
        other => panic!("bad scenario {other:?} / {imp}"),
    };
    let (od, ol, hang) = drive(fd, fl, &sh);
    let g = sh.lock().unwrap();
    let mut lens = Lens { m: [0; 4], msgs: vec![] };
    if let Some(m1) = g.d2l.seen.first() {
        lens.m[1] = m1.len();
        lens.msgs.push(m1.clone());
    }
    if let Some(m2) = g.l2d.seen.first() {
        lens.m[2] = m2.len();
        lens.msgs.push(m2.clone());
    }
    if let Some(m3) = g.d2l.seen.get(1) {
        lens.m[3] = m3.len();
        lens.msgs.push(m3.clone());
    }
    (od, ol, hang, g.applied, lens)
}

/// byte range of a field within wire message k of total length len
fn field_range(k: usize, field: &str, len: usize) -> (usize, usize) {
    let (es, ee) = if k == 3 { (2, 50) } else { (34, 82) };
    match field {
        "len" => (0, 2),
        "e" => (2, 34),
        "encS" => (es, ee),
        "encPayload" => (ee, len - 16),
        "tag" => (len - 16, len),
        f => panic!("field {f}"),
    }
}

fn fresh_keys() -> Keys {
    Keys { a: Keypair::generate(), b: Keypair::generate(), r: Keypair::generate(), w: vec![] }
}

fn run_scenario(b: &Value, thorough: bool, rng: &mut StdRng, rt: &tokio::runtime::Runtime, out: &mut Vec<String>, stats: &mut Value) {
    let sc = &b["sc"];
    let mitm = &sc["mitm"];
    let msg = mitm["msg"].as_u64().unwrap() as usize;
    let mv_kind = mitm["move"].as_str().unwrap();
    let field = mitm["field"].as_str().unwrap();
    let peer = sc["peer"].as_str().unwrap();
    // reference session with the same implementations: message lengths + messages of "another session"
    let pass = Move::default();
    let mut concs: Vec<(Move, usize, Value)> = vec![];
    let fault = std::env::var("VERIF_FAULT").unwrap_or_default();
    if msg == 0 {
        let n = if sc["pv"] == "weakKey" {
            rogue::small_order_keys().len() * if thorough { 4 } else { 1 }
        } else if peer == "rogue" {
            if thorough { 24 } else { 4 }
        } else if thorough {
            6
        } else {
            1
        };
        for c in 0..n {
            concs.push((pass.clone(), c, json!({"conc": c})));
        }
    } else {
        let keys0 = fresh_keys();
        let (_, _, _, _, lens) = execute(sc, pass.clone(), 0, &keys0, rt, rng.gen());
        let len = lens.m[msg];
        assert!(len > 0 && lens.msgs.len() == 3, "reference session incomplete");
        match mv_kind {
            "corrupt" => {
                let (s, e) = field_range(msg, field, len);
                let mut offs: Vec<usize> = (s..e).collect();
                if !thorough && offs.len() > 12 {
                    offs.shuffle(rng);
                    offs.truncate(12);
                    offs.sort();
                }
                // thorough: every byte offset of the field; with unfragmented delivery every single-bit flip of
                // every byte, with the other fragmentations one random bit per byte
                let all_bits = thorough && sc["chunk"] == "whole";
                for o in offs {
                    let bits: Vec<u8> = if all_bits { (0..8).collect() } else { vec![rng.gen_range(0..8)] };
                    for bit in bits {
                        concs.push((Move { msg, kind: "corrupt".into(), off: o, bit, ..Default::default() }, 0, json!({"off": o, "bit": bit})));
                    }
                }
            }
            "truncadj" | "truncraw" => {
                let body = len - 2;
                let mut ns = vec![1, 16, 17, body / 2, body];
                if mv_kind == "truncraw" {
                    ns.push(body + 1);
                }
                if thorough {
                    ns.extend([2, 15, 32, 33, 48, body - 1]);
                }
                ns.retain(|n| *n >= 1 && *n <= body + 1);
                ns.sort();
                ns.dedup();
                for n in ns {
                    concs.push((Move { msg, kind: mv_kind.into(), n, ..Default::default() }, 0, json!({"n": n})));
                }
            }
            "extend" => {
                for n in if thorough { vec![1, 2, 16, 17, 100, 1000] } else { vec![1, 16] } {
                    concs.push((Move { msg, kind: "extend".into(), n, ..Default::default() }, 0, json!({"n": n})));
                }
            }
            "substitute" => {
                // the corresponding message of another session between the very same identities
                concs.push((Move { msg, kind: "substitute".into(), with: vec![], ..Default::default() }, 0, json!({"from": "other-session"})));
            }
            "replay" => concs.push((Move { msg, kind: "replay".into(), ..Default::default() }, 0, json!({"with": "m1"}))),
            "drop" => concs.push((Move { msg, kind: "drop".into(), ..Default::default() }, 0, json!({}))),
            m => panic!("move {m}"),
        }
    }
    for (mut mv, conc, cj) in concs {
        let mut keys = fresh_keys();
        if sc["pv"] == "weakKey" {
            // inline peer id of the advertised small-order key
            let ks = rogue::small_order_keys();
            let mut id = vec![0x00, 0x24];
            id.extend(rogue::key_pb(&ks[conc % ks.len()]));
            keys.w = id;
            // reference: the same rogue against libp2p-noise (recorded, not judged)
            let mut rsc = sc.clone();
            rsc["impl"] = json!("ref-libp2p");
            let (rd, rl, _, _, _) = execute(&rsc, mv.clone(), conc, &keys, rt, rng.gen());
            let r = if sc["trole"] == "dialer" { &rd } else { &rl };
            let rname = if r.ok { name_of(&r.peer, &keys) } else { "" };
            let k = format!("k{:02}_{}_ref_{}{}", conc % ks.len(), sc["trole"].as_str().unwrap(), if r.ok { "ok" } else { "err" }, rname);
            stats["weak"][&k] = json!(stats["weak"][&k].as_u64().unwrap_or(0) + 1);
        }
        if mv.kind == "substitute" {
            let (_, _, _, _, other) = execute(sc, pass.clone(), 0, &keys, rt, rng.gen());
            mv.with = other.msgs[msg - 1].clone();
        }
        if mv.kind == "replay" {
            // m1 of this very session is only known while it runs: the pipe substitutes it (see below)
            mv.with = vec![];
        }
        let mut attempt = 0;
        loop {
            let (od, ol, hang, applied, _) = execute_replay_aware(sc, mv.clone(), conc, &keys, rt, rng.gen());
            let timed_out = od.kind.contains("Timeout") || ol.kind.contains("Timeout");
            if timed_out && attempt < 3 {
                attempt += 1; // a 300 s handshake timer fired: machine stalled, not a verdict; run again
                continue;
            }
            if msg != 0 && !applied {
                // the targeted message never passed the MITM (cannot happen for honest peers)
                stats["not_applied"] = json!(stats["not_applied"].as_u64().unwrap_or(0) + 1);
            }
            let trole = sc["trole"].as_str().unwrap();
            for (role, o) in [("dialer", &od), ("listener", &ol)] {
                if trole != "both" && trole != role {
                    continue;
                }
                let mut outcome = if o.ok { "ok" } else { "err" };
                let mut pname = if o.ok { name_of(&o.peer, &keys) } else { "" };
                if hang || o.kind == "HANG" {
                    outcome = "hang";
                }
                if o.kind.starts_with("PANIC") {
                    outcome = "panic";
                }
                // harness-level fault injection (self-test only)
                match fault.as_str() {
                    "accept_all" if outcome == "err" => {
                        outcome = "ok";
                        pname = if role == "dialer" { "B" } else { "A" };
                    }
                    "wrong_peer" if outcome == "ok" => pname = "X",
                    "reject_all" if outcome == "ok" => {
                        outcome = "err";
                        pname = "";
                    }
                    _ => {}
                }
                let k = format!("{}_{}", outcome, if sc["peer"] == "rogue" { sc["pv"].as_str().unwrap() } else { mv_kind });
                stats["outcomes"][&k] = json!(stats["outcomes"][&k].as_u64().unwrap_or(0) + 1);
                if sc["pv"] == "weakKey" {
                    let k = format!("k{:02}_{}_litep2p_{}{}", conc % rogue::small_order_keys().len(), role, outcome, pname);
                    stats["weak"][&k] = json!(stats["weak"][&k].as_u64().unwrap_or(0) + 1);
                }
                out.push(json!({"e": "hs", "sc": sc, "conc": cj, "role": role, "outcome": outcome, "peer": pname,
                    "kind": o.kind.chars().take(80).collect::<String>(), "exp": b["exp"][role]}).to_string());
            }
            break;
        }
    }
}

fn execute_replay_aware(sc: &Value, mv: Move, conc: usize, keys: &Keys, rt: &tokio::runtime::Runtime, seed: u64) -> (Outcome, Outcome, bool, bool, Lens) {
    execute(sc, mv, conc, keys, rt, seed)
}

// ------------------------------------------------------------------ histories

/// One history step through the real `negotiate_connection` (TCP hook) against a snow-based peer
/// that also speaks multistream-select and the Noise transport. None: inconclusive (stalled machine).
async fn negotiate_step(sc: &Value, keys: &Keys, hctx: &HistCtx, seed: u64) -> Option<Outcome> {
    use tokio_util::compat::TokioAsyncReadCompatExt;
    let victim_dials = sc["trole"] == "dialer";
    let (victim, h) = if victim_dials { (keys.a.clone(), &keys.b) } else { (keys.b.clone(), &keys.a) };
    let spec = hist_peer_spec(sc, h, hctx, &mut StdRng::seed_from_u64(seed));
    let listener = tokio::net::TcpListener::bind("127.0.0.1:0").await.ok()?;
    let addr = listener.local_addr().ok()?;
    let (c, s) = tokio::join!(tokio::net::TcpStream::connect(addr), listener.accept());
    let (c, (s, from)) = (c.ok()?, s.ok()?);
    let t = Duration::from_secs(60);
    // a dialing victim expects H (it believes it is talking to H in every step)
    let expected = litep2p::PeerId::from_public_key(&h.public().into());
    let both = async {
        if victim_dials {
            tokio::join!(tcp_negotiate_connection(c, Some(expected), victim, Role::Dialer, addr, t), rogue::negotiate_snow(s.compat(), false, spec, seed))
        } else {
            tokio::join!(tcp_negotiate_connection(s, None, victim, Role::Listener, from, t), rogue::negotiate_snow(c.compat(), true, spec, seed))
        }
    };
    let (rv, _peer) = tokio::time::timeout(Duration::from_secs(150), both).await.ok()?;
    Some(match rv {
        Ok(peer) => Outcome { ok: true, peer: peer.to_bytes(), kind: String::new() },
        Err(NegotiationError::Timeout) => return None,
        Err(e) => Outcome { ok: false, peer: vec![], kind: format!("{e:?}") },
    })
}

/// Run a history: all its handshakes in this process, against the same library state, with the same
/// identities; H keeps its static key (and therefore its payload bytes) across its sessions.
#[allow(clippy::too_many_arguments)]
fn run_history(idx: usize, b: &Value, thorough: bool, rng: &mut StdRng, rt: &tokio::runtime::Runtime, out: &mut Vec<String>, stats: &mut Value) {
    let steps = b["steps"].as_array().unwrap();
    let route = b["route"].as_str().unwrap();
    if steps.len() == 1 && route == "mem" {
        return run_scenario(&json!({"sc": steps[0], "exp": b["exp"][0]}), thorough, rng, rt, out, stats);
    }
    let fault = std::env::var("VERIF_FAULT").unwrap_or_default();
    let trole = steps[0]["trole"].as_str().unwrap();
    for rep in 0..if thorough { 8 } else { 2 } {
        let keys = fresh_keys();
        let h = if trole == "dialer" { &keys.b } else { &keys.a };
        let mut h_static = [0u8; 32];
        rng.fill(&mut h_static);
        let mut hctx = HistCtx { h_static, h_payload: rogue::honest_payload(&dalek(h), &rogue::static_public(&h_static)), lp_cfg: None };
        if steps.iter().any(|s| s["impl"] == "libp2pfixed") {
            // H is a libp2p-noise endpoint; a third party dials it once and keeps the payload it is shown
            let cfg = libp2p_noise::Config::new(&lp_keypair(h)).expect("libp2p noise config");
            let _g = rt.enter();
            let (ed, el, sh) = pair(Move::default(), "whole", StdRng::seed_from_u64(rng.gen()));
            let seen = Arc::new(Mutex::new(None));
            let seen2 = seen.clone();
            let ids = rogue::Ids { rogue: dalek(&keys.r), victim: dalek(h) };
            let spy: Fut = async move {
                let mut ed = ed;
                let r = rogue::handshake_snow(&mut ed, true, rogue::Spec { static_priv: None, pl: rogue::Pl::Variant("asR".into(), 0, ids) }, 7).await;
                let ok = r.is_ok();
                *seen2.lock().unwrap() = r.ok().map(|x| x.0);
                Outcome { ok, peer: vec![], kind: String::new() }
            }
            .boxed();
            let _ = drive(spy, libp2p_cfg_side(el, cfg.clone(), false), &sh);
            hctx.h_payload = seen.lock().unwrap().clone().expect("payload of the libp2p-noise peer H observed");
            hctx.lp_cfg = Some(cfg);
        }
        for (i, sc) in steps.iter().enumerate() {
            let seed: u64 = rng.gen();
            let victim_outcome = if route == "negotiate" {
                let rt_io = tokio::runtime::Builder::new_current_thread().enable_all().build().unwrap();
                let r = match catch(|| rt_io.block_on(negotiate_step(sc, &keys, &hctx, seed))) {
                    Ok(r) => r,
                    Err(p) => Some(Outcome { ok: false, peer: vec![], kind: format!("PANIC {p}") }),
                };
                let Some(o) = r else {
                    stats["hist_inconclusive"] = json!(stats["hist_inconclusive"].as_u64().unwrap_or(0) + 1);
                    break; // the rest of this history would run on a different past: start over next rep
                };
                o
            } else {
                let mv = if sc["mitm"]["msg"].as_u64().unwrap() == 0 {
                    Move::default()
                } else {
                    Move { msg: sc["mitm"]["msg"].as_u64().unwrap() as usize, kind: "corrupttail".into(), off: rng.gen_range(0..16), bit: rng.gen_range(0..8), ..Default::default() }
                };
                let (od, ol, hang, _, _) = execute_h(sc, mv, 0, &keys, rt, seed, Some(&hctx));
                let mut o = if trole == "dialer" { od } else { ol };
                if hang {
                    o.kind = "HANG".into();
                }
                o
            };
            let mut outcome = if victim_outcome.ok { "ok" } else { "err" };
            let mut pname = if victim_outcome.ok { name_of(&victim_outcome.peer, &keys) } else { "" };
            if victim_outcome.kind == "HANG" {
                outcome = "hang";
            }
            if victim_outcome.kind.starts_with("PANIC") {
                outcome = "panic";
            }
            if fault == "accept_all" && outcome == "err" {
                outcome = "ok";
                pname = if trole == "dialer" { "B" } else { "A" };
            }
            let what = if sc["peer"] == "rogue" { sc["pv"].as_str().unwrap() } else if sc["mitm"]["msg"].as_u64().unwrap() != 0 { "Hbad" } else { sc["impl"].as_str().unwrap() };
            let k = format!("{outcome}_hist_{what}_{route}");
            stats["outcomes"][&k] = json!(stats["outcomes"][&k].as_u64().unwrap_or(0) + 1);
            out.push(json!({"e": "hs", "sc": sc, "conc": {"hist": idx, "step": i + 1, "of": steps.len(), "route": route, "rep": rep},
                "role": trole, "outcome": outcome, "peer": pname, "kind": victim_outcome.kind.chars().take(80).collect::<String>(),
                "exp": b["exp"][i][trole]}).to_string());
        }
    }
}

// ------------------------------------------------------------------ dialed-peer expectation over TCP

async fn node(kp: Keypair, ws: bool, v6: bool) -> litep2p::Litep2p {
    let (ping, _events) = litep2p::protocol::libp2p::ping::Config::default();
    let builder = litep2p::config::ConfigBuilder::new().with_keypair(kp).with_libp2p_ping(ping);
    let builder = if ws {
        builder.with_websocket(litep2p::transport::websocket::config::Config {
            listen_addresses: vec!["/ip4/127.0.0.1/tcp/0/ws".parse().unwrap()],
            ..Default::default()
        })
    } else {
        builder.with_tcp(litep2p::transport::tcp::config::Config {
            listen_addresses: vec![if v6 { "/ip6/::1/tcp/0" } else { "/ip4/127.0.0.1/tcp/0" }.parse().unwrap()],
            ..Default::default()
        })
    };
    std::mem::forget(_events);
    litep2p::Litep2p::new(builder.build()).expect("litep2p node")
}

/// peer id of `kp` in the given multihash form: "inline" (identity code, canonical for Ed25519)
/// or "sha256" (SHA-256 multihash of the protobuf-encoded key: a valid but different peer id)
fn peer_id_in_form(kp: &Keypair, form: &str) -> litep2p::PeerId {
    let canonical = litep2p::PeerId::from_public_key(&kp.public().into());
    if form != "sha256" {
        return canonical;
    }
    let enc = rogue::key_pb(&kp.public().to_bytes());
    let mut bytes = vec![0x12, 0x20];
    bytes.extend_from_slice(&sha256(&enc));
    litep2p::PeerId::from_bytes(&bytes).expect("sha2-256 multihash is a valid peer id")
}

type TcpResult = ((String, String, String), Option<String>);

/// dialer A dials node B's address with `/p2p/<expected>`, the expectation being the id of key
/// `dialed` ("B": the listener's key, else another key) in multihash form `form`. The comparison
/// is done by the real `negotiate_connection`. Returns the dialer's (outcome, peer name, detail)
/// and, if it reported one, the peer the listener node saw; None if inconclusive.
async fn tcp_case(dialed: &str, form: &str, ws: bool, af: &str) -> Option<TcpResult> {
    use litep2p::Litep2pEvent;
    let (ka, kb, kc) = (Keypair::generate(), Keypair::generate(), Keypair::generate());
    let keys = Keys { a: ka.clone(), b: kb.clone(), r: kc.clone(), w: vec![] };
    let v6 = !ws && (af == "ip6" || af == "dns6");
    let mut a = node(ka, ws, v6).await;
    let mut b = node(kb.clone(), ws, v6).await;
    let addr = b.listen_addresses().next().cloned()?;
    let expected = peer_id_in_form(if dialed == "B" { &kb } else { &kc }, form);
    // strip a trailing /p2p/.. of the listen address, then add the expectation
    // the dialed address form: the listen address itself, or the same socket named through /dns, /dns4, /dns6
    let base: multiaddr::Multiaddr = addr
        .iter()
        .filter(|p| !matches!(p, multiaddr::Protocol::P2p(_)))
        .map(|p| match (&p, af) {
            (multiaddr::Protocol::Ip4(_) | multiaddr::Protocol::Ip6(_), "dns") => multiaddr::Protocol::Dns("localhost".into()),
            (multiaddr::Protocol::Ip4(_), "dns4") => multiaddr::Protocol::Dns4("localhost".into()),
            (multiaddr::Protocol::Ip6(_), "dns6") => multiaddr::Protocol::Dns6("localhost".into()),
            _ => p,
        })
        .collect();
    let target = base.with(multiaddr::Protocol::P2p(expected.into()));
    let (ltx, mut lrx) = tokio::sync::mpsc::unbounded_channel::<Vec<u8>>();
    tokio::spawn(async move {
        while let Some(ev) = b.next_event().await {
            if let Litep2pEvent::ConnectionEstablished { peer, .. } = ev {
                let _ = ltx.send(peer.to_bytes());
            }
        }
    });
    if a.dial_address(target).await.is_err() {
        return None;
    }
    let mut result: Option<(String, String, String)> = None;
    let deadline = tokio::time::Instant::now() + Duration::from_secs(30);
    loop {
        let wait = if result.is_some() { Duration::from_millis(300) } else { deadline.saturating_duration_since(tokio::time::Instant::now()) };
        match tokio::time::timeout(wait, a.next_event()).await {
            Ok(Some(Litep2pEvent::ConnectionEstablished { peer, .. })) => {
                // an established connection always wins over an earlier failure report
                result = Some(("ok".into(), name_of(&peer.to_bytes(), &keys).to_string(), String::new()));
                break;
            }
            Ok(Some(Litep2pEvent::DialFailure { error, .. })) => result = Some(("err".into(), String::new(), format!("{error:?}").chars().take(80).collect())),
            Ok(Some(Litep2pEvent::ListDialFailures { errors })) => result = Some(("err".into(), String::new(), format!("{errors:?}").chars().take(80).collect())),
            Ok(Some(_)) => {}
            Ok(None) => break,
            Err(_) => break, // quiet period after a failure over, or nothing at all within 30 s (inconclusive)
        }
    }
    let result = result?;
    // the listener side runs the same negotiate_connection without an expectation
    let mut listener = None;
    if result.0 == "ok" {
        if let Ok(Some(p)) = tokio::time::timeout(Duration::from_secs(10), lrx.recv()).await {
            listener = Some(name_of(&p, &keys).to_string());
        }
    }
    Some((result, listener))
}

/// The same expectation evaluated by calling the real `negotiate_connection` directly on both ends
/// of a loopback TCP connection (dialer with `Some(expected)`, listener with `None`): observes the
/// comparison itself, independent of what the connection manager does with the result.
async fn negotiate_case(dialed: &str, form: &str, ws: bool, af: &str) -> Option<TcpResult> {
    let (ka, kb, kc) = (Keypair::generate(), Keypair::generate(), Keypair::generate());
    let keys = Keys { a: ka.clone(), b: kb.clone(), r: kc.clone(), w: vec![] };
    let expected = peer_id_in_form(if dialed == "B" { &kb } else { &kc }, form);
    let listener = tokio::net::TcpListener::bind(if af == "ip6" || af == "dns6" { "[::1]:0" } else { "127.0.0.1:0" }).await.ok()?;
    let addr = listener.local_addr().ok()?;
    let (c, s) = tokio::join!(tokio::net::TcpStream::connect(addr), listener.accept());
    let (c, (s, from)) = (c.ok()?, s.ok()?);
    let t = Duration::from_secs(60);
    let (rd, rl) = if !ws && af != "ip4" {
        // the dialer's negotiate_connection is told the form of the address it dialed
        tokio::join!(
            tcp_negotiate_connection_at(c, Some(expected), ka, Role::Dialer, af, "localhost", addr, t),
            tcp_negotiate_connection(s, None, kb, Role::Listener, from, t)
        )
    } else if ws {
        tokio::join!(
            ws_negotiate_connection(c, Some(expected), ka, Role::Dialer, addr, t),
            ws_negotiate_connection(s, None, kb, Role::Listener, from, t)
        )
    } else {
        tokio::join!(
            tcp_negotiate_connection(c, Some(expected), ka, Role::Dialer, addr, t),
            tcp_negotiate_connection(s, None, kb, Role::Listener, from, t)
        )
    };
    let d = match rd {
        Ok(peer) => ("ok".to_string(), name_of(&peer.to_bytes(), &keys).to_string(), String::new()),
        Err(NegotiationError::Timeout) => return None, // machine stalled: not a verdict
        Err(e) => ("err".to_string(), String::new(), format!("{e:?}").chars().take(80).collect()),
    };
    Some((d, rl.ok().map(|p| name_of(&p.to_bytes(), &keys).to_string())))
}

fn main() {
    let args = Args::parse();
    quiet_panics();
    let seed = args.u64("seed", 1);
    let out_path = args.str("out", "trace.ndjson");
    let threads = args.u64("threads", 8) as usize;
    let thorough = args.get("thorough").is_some();
    let behs = args.get("behaviours").map(read_jsonl).unwrap_or_default();
    // a behaviour is a history: {route, steps: [scenario..], exp: [{dialer, listener}..]}
    let (mem, tcp): (Vec<Value>, Vec<Value>) = behs.into_iter().partition(|b| b["steps"][0]["dialed"] == "none");
    let tcp: Vec<Value> = tcp.into_iter().map(|b| json!({"sc": b["steps"][0], "exp": b["exp"][0]})).collect();
    let jobs = Arc::new(Mutex::new(mem.into_iter().enumerate().rev().collect::<Vec<_>>()));
    let results = Arc::new(Mutex::new(Vec::<(usize, Vec<String>, Value)>::new()));
    let mut hs = vec![];
    for t in 0..threads {
        let (jobs, results) = (jobs.clone(), results.clone());
        hs.push(std::thread::spawn(move || {
            let rt = tokio::runtime::Builder::new_current_thread().enable_time().build().unwrap();
            let mut rng = StdRng::seed_from_u64(seed ^ (0xC01 + t as u64 * 7919));
            loop {
                let job = jobs.lock().unwrap().pop();
                let Some((i, b)) = job else { break };
                let mut lines = vec![];
                let mut stats = json!({"outcomes": {}, "weak": {}});
                run_history(i, &b, thorough, &mut rng, &rt, &mut lines, &mut stats);
                results.lock().unwrap().push((i, lines, stats));
            }
        }));
    }
    for h in hs {
        h.join().expect("worker");
    }
    let mut res = std::mem::take(&mut *results.lock().unwrap());
    res.sort_by_key(|(i, _, _)| *i);
    let mut lines = vec![];
    let mut outcomes = std::collections::BTreeMap::<String, u64>::new();
    let mut not_applied = 0;
    let mut weak = std::collections::BTreeMap::<String, u64>::new();
    for (_, l, s) in &res {
        lines.extend(l.iter().cloned());
        for (k, v) in s["outcomes"].as_object().unwrap() {
            *outcomes.entry(k.clone()).or_default() += v.as_u64().unwrap();
        }
        not_applied += s["not_applied"].as_u64().unwrap_or(0);
        for (k, v) in s["weak"].as_object().unwrap() {
            *weak.entry(k.clone()).or_default() += v.as_u64().unwrap();
        }
    }
    // dialed-peer scenarios through real nodes
    let reps = args.u64("tcp-reps", 4);
    let mut tcp_runs = 0;
    let mut tcp_inconclusive = 0;
    if !tcp.is_empty() {
        for b in &tcp {
            let dialed = b["sc"]["dialed"].as_str().unwrap().to_string();
            let form = b["sc"]["dialedForm"].as_str().unwrap().to_string();
            let af = b["sc"]["addrForm"].as_str().unwrap_or("ip4").to_string();
            // routes: two full Litep2p nodes / the bare negotiate_connection on both ends, over TCP and over
            // WebSocket; only the TCP negotiation distinguishes address forms (AddressType::Socket / Dns)
            let routes: &[&str] = if af == "ip4" { &["tcp", "negotiate", "ws", "wsnegotiate"] } else { &["tcp", "negotiate"] };
            let nreps = if af == "ip4" { reps } else { reps.div_ceil(2) };
            for rep in 0..routes.len() as u64 * nreps {
                let via = routes[(rep % routes.len() as u64) as usize];
                let mut got = None;
                for _attempt in 0..3 {
                    // a fresh runtime per case; a panic of the code under test (e.g. a debug assertion in the
                    // connection manager) is an outcome, not a harness crash
                    let rt = tokio::runtime::Builder::new_multi_thread().worker_threads(2).enable_all().build().unwrap();
                    let run = || match via {
                        "tcp" => rt.block_on(tcp_case(&dialed, &form, false, &af)),
                        "ws" => rt.block_on(tcp_case(&dialed, &form, true, &af)),
                        "negotiate" => rt.block_on(negotiate_case(&dialed, &form, false, &af)),
                        _ => rt.block_on(negotiate_case(&dialed, &form, true, &af)),
                    };
                    got = match catch(run) {
                        Ok(g) => g,
                        Err(p) => Some((("panic".to_string(), String::new(), p.chars().take(80).collect()), None)),
                    };
                    rt.shutdown_background();
                    if got.is_some() {
                        break;
                    }
                    tcp_inconclusive += 1;
                }
                let Some(((outcome, peer, kind), listener)) = got else { continue };
                tcp_runs += 1;
                let afs = if af == "ip4" { String::new() } else { format!("_{af}") };
                *outcomes.entry(format!("{outcome}_{via}_{dialed}_{form}{afs}")).or_default() += 1;
                lines.push(json!({"e": "hs", "sc": b["sc"], "conc": {"via": via}, "role": "dialer", "outcome": outcome, "peer": peer,
                    "kind": kind, "exp": b["exp"]["dialer"]}).to_string());
                if let Some(lp) = listener {
                    *outcomes.entry(format!("ok_{via}_listener{afs}")).or_default() += 1;
                    lines.push(json!({"e": "hs", "sc": b["sc"], "conc": {"via": via}, "role": "listener", "outcome": "ok", "peer": lp,
                        "kind": "", "exp": b["exp"]["listener"]}).to_string());
                }
            }
        }
    }
    write_lines(&out_path, &lines);
    println!("SUMMARY {}", json!({"scenarios": res.len() + tcp.len(), "runs": lines.len(), "outcomes": outcomes,
        "move_not_applied": not_applied, "weak_keys": weak, "tcp_runs": tcp_runs, "tcp_inconclusive": tcp_inconclusive}));
}
