------------------------------ MODULE SvcLifeMC ------------------------------
(***************************************************************************)
(* Implementation-shaped model of the protocol side of a litep2p           *)
(* connection, transcribed from                                            *)
(*   src/protocol/transport_service.rs  TransportService::{poll_next,      *)
(*        on_connection_established, on_connection_closed, open_substream, *)
(*        force_close}, ConnectionContext, KeepAliveTracker                *)
(*   src/protocol/connection.rs         ConnectionHandle (Active/Inactive  *)
(*        = strong/weak sender), Permit                                    *)
(*   src/protocol/protocol_set.rs       ProtocolSet::report_* and the      *)
(*        command stream                                                   *)
(* composed with scripted connections (the environment: establish, read a  *)
(* command, answer it, report an inbound substream, report closed, go      *)
(* away) and with the property monitor of SvcLife.tla.                     *)
(*                                                                         *)
(* A service does nothing until it is polled: its inbox `chan[q]` is the   *)
(* mpsc channel all connections write to, `Poll(q)` is one call of         *)
(* poll_next (consume inbox entries until one produces an event).          *)
(* A connection handle keeps the command channel of its connection open    *)
(* while it is Active; `Strong(c)` counts the strong senders (active       *)
(* handles, handles travelling in inboxes, permits).                       *)
(***************************************************************************)
EXTENDS SvcLife, SequencesExt, FiniteSetsExt, Json

CONSTANTS Peers,       \* e.g. {"p1", "p2"}
          Svc,         \* protocol indices, e.g. {0, 1}
          KAs,         \* set of functions q -> BOOL (SubstreamKeepAlive::Yes) to explore
          MaxCid,      \* connection ids 1..MaxCid are handed out in order
          MaxPerPeer,  \* connection ids per peer
          MaxOverlap,  \* connections per peer the manager admits at once (2 = in scope)
          MaxOpens, MaxInb, MaxFc, MaxExp,   \* bounds on open_substream / inbound / force_close / expiry
          Phases,      \* model the two phases of a connection-side open (stream slot, negotiation) separately
          MaxDropProto,\* protocols the user may drop
          MaxFull,     \* bound on substream results handed to a protocol whose inbox is full
          PCap,        \* capacity of a protocol inbox (DEFAULT_CHANNEL_SIZE = 4096)
          Eager,       \* services that are polled as soon as their inbox is non-empty
          EagerCmd,    \* connections read a queued command before anything else happens
          SplitClose,  \* explore the window between report_connection_closed and the task going away
          Clog,        \* emit the ordering probe variant of Close
          Bug          \* "none" or the name of a seeded defect (negative configurations)

VARIABLES cst,     \* c -> "live" | "closing" | "dead"   (DOMAIN = ids handed out)
          cpeer,   \* c -> peer
          cmdq,    \* c -> sequence of commands  [k |-> "open", q, id] | [k |-> "force"]
          pend,    \* c -> set of [q, id, ph]: requests read by the connection, not answered;
                   \*      ph = "slot": waiting for a stream of the multiplexer, "neg": negotiating
          chan,    \* q -> inbox (sequence of inner events)
          conns,   \* q -> p -> [pri, priA, sec, secA]   (pri = 0: no context)
          track,   \* q -> set of <<p, c>> keys of KeepAliveTracker.last_activity
          nextId,  \* shared substream id allocator
          dead,    \* a service panicked
          mgr,     \* connections whose closure the manager has been told of (Bug = "mgr_first")
          cnt,     \* [opens, inb, fc, exp, full] counters for the bounds
          deadq,   \* protocols the user dropped (TransportService gone; ProtocolSets keep their sender)
          blk,     \* c -> NoBlk or the event a suspended report_substream_open* call is waiting to send
          KA,      \* q -> BOOL: SubstreamKeepAlive::Yes (fixed in Init)
          mon, hist, out

mvars == <<cst, cpeer, cmdq, pend, chan, conns, track, nextId, dead, mgr, cnt, blk, deadq, KA>>
vars == <<mvars, mon, hist, out>>

KADef == {[q \in Svc |-> q = 0]}
KAAll == {[q \in Svc |-> TRUE]}
KANone == {[q \in Svc |-> FALSE]}
KAAny == [Svc -> BOOLEAN]
NoEager == {}
NoBlk == [k |-> "none"]
NoCtx == [pri |-> 0, priA |-> FALSE, sec |-> 0, secA |-> FALSE]
Dir(c) == IF c % 2 = 1 THEN "in" ELSE "out"
SvcSeq == SetToSortSeq(Svc, <)

Init ==
  /\ cst = <<>> /\ cpeer = <<>> /\ cmdq = <<>> /\ pend = <<>>
  /\ chan = [q \in Svc |-> <<>>]
  /\ conns = [q \in Svc |-> [p \in Peers |-> NoCtx]]
  /\ track = [q \in Svc |-> {}]
  /\ nextId = 0 /\ dead = FALSE /\ mgr = {}
  /\ cnt = [opens |-> 0, inb |-> 0, fc |-> 0, exp |-> 0, full |-> 0]
  /\ blk = <<>> /\ deadq = {}
  /\ KA \in KAs
  /\ mon = MonInit /\ hist = <<>> /\ out = [ret |-> [k |-> "none"], panic |-> FALSE]

Handle(stim, ret, panic) ==
  /\ mon' = MonStep(mon, stim, ret, panic)
  /\ hist' = Append(hist, stim)
  /\ out' = [ret |-> ret, panic |-> panic]
  /\ UNCHANGED KA

Alive(c) == c \in DOMAIN cst /\ cst[c] \in {"live", "closing"}
Count(seq, Test(_)) == Cardinality({i \in 1..Len(seq) : Test(seq[i])})

\* strong senders of the command channel of connection c
Strong(c) ==
  LET p == cpeer[c] IN
    Cardinality({q \in Svc : (conns[q][p].pri = c /\ conns[q][p].priA) \/ (conns[q][p].sec = c /\ conns[q][p].secA)})
  + FoldSet(LAMBDA q, acc : acc + Count(chan[q], LAMBDA e : e.k \in {"est", "opened"} /\ e.c = c), 0, Svc)
  + (IF Alive(c) THEN Count(cmdq[c], LAMBDA x : x.k = "open") + Cardinality(pend[c]) ELSE 0)
  + (IF c \in DOMAIN blk /\ blk[c].k \in {"opened", "est"} THEN 1 ELSE 0)

\* Inbox occupancy.  A `full` delivery is preceded by filler that takes every free slot; a run of
\* filler is one entry [k |-> "filler", n |-> run length] which the protocol skips silently.
PhysLen(q) == FoldLeft(LAMBDA acc, e : acc + (IF e.k = "filler" THEN e.n ELSE 1), 0, chan[q])
Waiting(q) == \E c \in DOMAIN blk : blk[c].k # "none" /\ blk[c].q = q
\* a new sender gets a slot at once: there is one and nobody is queued for it
\* (a send to a dropped protocol fails at once, it never waits)
Room(q) == q \in deadq \/ (PhysLen(q) < PCap /\ ~Waiting(q))
RoomAll == \A q \in Svc : Room(q)
LiveSvc == Svc \ deadq
LiveSeq == SetToSortSeq(LiveSvc, <)
Busy(c) == blk[c].k # "none"

-----------------------------------------------------------------------------
(* TransportService::poll_next, first loop: consume the inbox until an entry yields an event  *)

RECURSIVE Proc(_, _, _, _)
Proc(q, ch, cn, tr) ==
  IF ch = <<>> THEN [ch |-> ch, cn |-> cn, tr |-> tr, ev |-> [k |-> "pending"], panic |-> FALSE]
  ELSE
  LET e == Head(ch) rest == Tail(ch) IN
  CASE e.k = "est" ->
         \* on_connection_established
         IF cn[e.p].pri = 0 THEN
              [ch |-> rest, cn |-> [cn EXCEPT ![e.p] = [pri |-> e.c, priA |-> TRUE, sec |-> 0, secA |-> FALSE]],
               tr |-> tr \cup {<<e.p, e.c>>}, ev |-> [k |-> "est", p |-> e.p, c |-> e.c, dir |-> Dir(e.c)], panic |-> FALSE]
         ELSE IF cn[e.p].sec = 0 THEN
              IF Bug = "est_secondary" THEN
                   [ch |-> rest, cn |-> [cn EXCEPT ![e.p].sec = e.c, ![e.p].secA = TRUE], tr |-> tr \cup {<<e.p, e.c>>},
                    ev |-> [k |-> "est", p |-> e.p, c |-> e.c, dir |-> Dir(e.c)], panic |-> FALSE]
              ELSE Proc(q, rest, [cn EXCEPT ![e.p].sec = e.c, ![e.p].secA = TRUE], tr \cup {<<e.p, e.c>>})
         ELSE Proc(q, rest, cn, tr)           \* "ignoring third connection": the handle is dropped
    [] e.k = "closed" ->
         \* on_connection_closed
         LET tr1 == tr \ {<<e.p, e.c>>} x == cn[e.p] IN
         IF x.pri = 0 THEN [ch |-> rest, cn |-> cn, tr |-> tr1, ev |-> [k |-> "panic"], panic |-> TRUE]  \* debug_assert!(false)
         ELSE IF x.pri = e.c THEN
              IF x.sec = 0 \/ Bug = "no_promote" THEN
                   [ch |-> rest, cn |-> [cn EXCEPT ![e.p] = NoCtx], tr |-> tr1, ev |-> [k |-> "closed", p |-> e.p], panic |-> FALSE]
              ELSE Proc(q, rest, [cn EXCEPT ![e.p] = [pri |-> x.sec, priA |-> x.secA, sec |-> 0, secA |-> FALSE]], tr1)
         ELSE \* `context.secondary.take()`: the secondary is forgotten, whichever connection closed
              Proc(q, rest, [cn EXCEPT ![e.p].sec = 0, ![e.p].secA = FALSE], tr1)
    [] e.k = "opened" ->
         LET ka == e.q = q /\ KA[q]
             x == cn[e.p]
             cn1 == IF ka /\ x.pri = e.c THEN [cn EXCEPT ![e.p].priA = TRUE]
                    ELSE IF ka /\ x.pri # 0 /\ x.sec = e.c THEN [cn EXCEPT ![e.p].secA = TRUE]
                    ELSE cn IN
         [ch |-> rest, cn |-> cn1, tr |-> IF ka THEN tr \cup {<<e.p, e.c>>} ELSE tr,
          ev |-> [k |-> "opened", p |-> e.p, q |-> e.q, dirn |-> e.dirn, id |-> e.id], panic |-> FALSE]
    [] e.k = "filler" -> Proc(q, rest, cn, tr)
    [] e.k = "failed" ->
         IF Bug = "answer_lost" THEN Proc(q, rest, cn, tr)
         ELSE [ch |-> rest, cn |-> cn, tr |-> tr, ev |-> [k |-> "failed", id |-> e.id], panic |-> FALSE]

Poll(q) ==
  /\ q \in LiveSvc /\ chan[q] # <<>>
  /\ LET r == Proc(q, chan[q], conns[q], track[q]) IN
     /\ chan' = [chan EXCEPT ![q] = r.ch]
     /\ conns' = [conns EXCEPT ![q] = r.cn]
     /\ track' = [track EXCEPT ![q] = r.tr]
     /\ dead' = r.panic
     /\ UNCHANGED <<cst, cpeer, cmdq, pend, nextId, mgr, cnt, blk, deadq>>
     /\ Handle([a |-> "poll", q |-> q], r.ev, r.panic)

\* the keep-alive timeout of (p, c) elapses at service q.  poll_next reaches the keep-alive loop
\* only when the inbox is empty, so that is when the downgrade happens.
Expire(q, p, c) ==
  /\ q \in LiveSvc /\ chan[q] = <<>> /\ <<p, c>> \in track[q] /\ cnt.exp < MaxExp
  /\ track' = [track EXCEPT ![q] = @ \ {<<p, c>>}]
  /\ conns' = [conns EXCEPT ![q][p] =
        IF @.pri = c THEN [@ EXCEPT !.priA = FALSE] ELSE IF @.pri # 0 /\ @.sec = c THEN [@ EXCEPT !.secA = FALSE] ELSE @]
  /\ cnt' = [cnt EXCEPT !.exp = @ + 1]
  /\ UNCHANGED <<cst, cpeer, cmdq, pend, chan, nextId, dead, mgr, blk, deadq>>
  /\ Handle([a |-> "expire", q |-> q, p |-> p, c |-> c], [k |-> "ok", pev |-> [k |-> "pending"]], FALSE)

-----------------------------------------------------------------------------
(* TransportService::open_substream / force_close                            *)

Open(q, p) ==
  LET x == conns[q][p] c == x.pri stim == [a |-> "open", q |-> q, p |-> p] IN
  /\ q \in LiveSvc /\ cnt.opens < MaxOpens
  /\ cnt' = [cnt EXCEPT !.opens = @ + 1]
  /\ UNCHANGED <<cst, cpeer, pend, chan, dead, mgr, blk, deadq>>
  /\ IF c = 0 THEN
          UNCHANGED <<cmdq, conns, track, nextId>> /\ Handle(stim, [k |-> "err", err |-> "PeerDoesNotExist"], FALSE)
     ELSE IF ~(x.priA \/ Strong(c) > 0) THEN    \* try_get_permit: the weak sender cannot be upgraded
          UNCHANGED <<cmdq, conns, track, nextId>> /\ Handle(stim, [k |-> "err", err |-> "ConnectionClosed"], FALSE)
     ELSE
          /\ nextId' = IF Bug = "id_reuse" /\ q # 0 THEN nextId ELSE nextId + 1
          /\ track' = IF KA[q] THEN [track EXCEPT ![q] = @ \cup {<<p, c>>}] ELSE track
          /\ conns' = IF KA[q] THEN [conns EXCEPT ![q][p].priA = TRUE] ELSE conns      \* try_upgrade
          /\ IF Alive(c) THEN
                  /\ cmdq' = [cmdq EXCEPT ![c] = Append(@, [k |-> "open", q |-> q, id |-> nextId])]
                  /\ Handle(stim, [k |-> "ok", id |-> nextId], FALSE)
             ELSE \* the receiver is gone: try_send fails, the permit is dropped, the id is spent
                  /\ UNCHANGED cmdq
                  /\ Handle(stim, [k |-> "err", err |-> "ConnectionClosed"], FALSE)

CanSend(c, active) == (active \/ Strong(c) > 0) /\ Alive(c)

FClose(q, p) ==
  LET x == conns[q][p] IN
  /\ q \in LiveSvc /\ x.pri # 0 /\ cnt.fc < MaxFc
  /\ cnt' = [cnt EXCEPT !.fc = @ + 1]
  /\ LET q1 == IF x.sec # 0 /\ CanSend(x.sec, x.secA) THEN [cmdq EXCEPT ![x.sec] = Append(@, [k |-> "force"])] ELSE cmdq
         okp == CanSend(x.pri, x.priA) IN
     /\ cmdq' = IF okp THEN [q1 EXCEPT ![x.pri] = Append(@, [k |-> "force"])] ELSE q1
     /\ UNCHANGED <<cst, cpeer, pend, chan, conns, track, nextId, dead, mgr, blk, deadq>>
     /\ Handle([a |-> "fclose", q |-> q, p |-> p], [k |-> IF okp THEN "ok" ELSE "err"], FALSE)

-----------------------------------------------------------------------------
(* Scripted connections (the environment)                                    *)

NCid == Cardinality(DOMAIN cst)
Admitted(p) == {c \in DOMAIN cst : cpeer[c] = p /\ cst[c] = "live" /\ c \notin mgr}

\* A transport accepted a connection: ProtocolSet::report_connection_established.  Every send is
\* attempted; a send to a dropped protocol fails and is skipped (logged), the others complete.
\*  full = -1: every live inbox has room, the call returns at once.
\*  full = q : the inbox of live protocol q has just been filled: the other sends complete (or fail),
\*             the call stays suspended on q (Deliver) and the connection task does not start yet.
\* Seeded defect "est_break": the loop is left at the first failed send, which cancels the sends
\* that have not completed - any live protocol polled after the dropped one, and always the one
\* whose inbox is full.
Est(p, full) ==
  LET c == NCid + 1
      ev == [k |-> "est", p |-> p, c |-> c]
      stim == [a |-> "est", p |-> p, c |-> c, dir |-> Dir(c), full |-> full]
      others == LiveSvc \ {full} IN
  /\ c <= MaxCid
  /\ Cardinality({d \in DOMAIN cst : cpeer[d] = p}) < MaxPerPeer
  /\ Cardinality(Admitted(p)) < MaxOverlap
  /\ \A q \in others : Room(q)
  /\ (full # -1 => full \in LiveSvc /\ ~Waiting(full) /\ cnt.full < MaxFull)
  /\ cnt' = IF full # -1 THEN [cnt EXCEPT !.full = @ + 1] ELSE cnt
  /\ cst' = (c :> "live") @@ cst /\ cpeer' = (c :> p) @@ cpeer
  /\ cmdq' = (c :> <<>>) @@ cmdq /\ pend' = (c :> {}) @@ pend
  /\ UNCHANGED <<conns, track, nextId, dead, mgr, deadq>>
  /\ LET fill == IF full # -1 /\ PhysLen(full) < PCap
                   THEN [chan EXCEPT ![full] = Append(@, [k |-> "filler", n |-> PCap - PhysLen(full)])] ELSE chan IN
     IF Bug = "est_break" /\ deadq # {} THEN
          \E got \in SUBSET others :
             /\ chan' = [q \in Svc |-> IF q \in got THEN Append(fill[q], ev) ELSE fill[q]]
             /\ blk' = (c :> NoBlk) @@ blk
             /\ Handle(stim, [k |-> "ok"], FALSE)
     ELSE /\ chan' = [q \in Svc |-> IF q \in others THEN Append(fill[q], ev) ELSE fill[q]]
          /\ blk' = (c :> (IF full # -1 THEN ev @@ [q |-> full, dirn |-> "est", id |-> -1] ELSE NoBlk)) @@ blk
          /\ Handle(stim, [k |-> IF full # -1 THEN "blocked" ELSE "ok"], FALSE)

\* the user drops protocol q: its TransportService (inbox, connection handles, keep-alive tracker) is gone
DropProto(q) ==
  /\ q \in LiveSvc /\ Cardinality(deadq) < MaxDropProto /\ Cardinality(LiveSvc) > 1
  /\ deadq' = deadq \cup {q}
  /\ chan' = [chan EXCEPT ![q] = <<>>]
  /\ conns' = [conns EXCEPT ![q] = [p \in Peers |-> NoCtx]]
  /\ track' = [track EXCEPT ![q] = {}]
  /\ UNCHANGED <<cst, cpeer, cmdq, pend, nextId, dead, mgr, cnt, blk>>
  /\ Handle([a |-> "dropproto", q |-> q], [k |-> "ok"], FALSE)

\* ProtocolSet::report_connection_closed: every protocol, then the manager.
\* clog = q: the harness makes the call block on protocol q and looks at the manager channel
\* meanwhile (same transition, different observation).
Close(c, clog) ==
  /\ cst[c] = "live" /\ ~Busy(c) /\ RoomAll
  /\ (clog # -1 => Clog /\ clog \in LiveSvc /\ chan[clog] = <<>>)
  /\ cst' = [cst EXCEPT ![c] = "closing"]
  /\ chan' = [q \in Svc |-> IF q \in LiveSvc THEN Append(chan[q], [k |-> "closed", p |-> cpeer[c], c |-> c]) ELSE chan[q]]
  /\ mgr' = mgr \cup {c}
  /\ UNCHANGED <<cpeer, cmdq, pend, conns, track, nextId, dead, cnt, blk, deadq>>
  /\ Handle([a |-> "close", c |-> c, p |-> cpeer[c], clog |-> clog],
            [k |-> IF deadq = {} THEN "ok" ELSE "err", early |-> FALSE, mgr |-> 1, told |-> LiveSeq], FALSE)

\* seeded defect "mgr_first": the manager hears of the closure first and may admit a new connection
MgrTold(c) ==
  /\ Bug = "mgr_first" /\ cst[c] = "live" /\ c \notin mgr
  /\ mgr' = mgr \cup {c}
  /\ UNCHANGED <<cst, cpeer, cmdq, pend, chan, conns, track, nextId, dead, cnt, blk, deadq>>
  /\ Handle([a |-> "mgrtold", c |-> c], [k |-> "ok"], FALSE)

\* the connection task ends: ProtocolSet (command receiver, unanswered requests, permits) dropped
Drop(c) ==
  /\ cst[c] = "closing" /\ ~Busy(c)
  /\ cst' = [cst EXCEPT ![c] = "dead"]
  /\ cmdq' = [cmdq EXCEPT ![c] = <<>>] /\ pend' = [pend EXCEPT ![c] = {}]
  /\ UNCHANGED <<cpeer, chan, conns, track, nextId, dead, mgr, cnt, blk, deadq>>
  /\ LET opens == SelectSeq(cmdq[c], LAMBDA x : x.k = "open") IN
     Handle([a |-> "drop", c |-> c],
            [k |-> "ok", unread |-> [i \in 1..Len(opens) |-> [q |-> opens[i].q, id |-> opens[i].id]]], FALSE)

\* the connection polls its ProtocolSet once
Cmd(c) ==
  /\ cst[c] = "live" /\ ~Busy(c)
  /\ UNCHANGED <<cst, cpeer, chan, conns, track, nextId, dead, mgr, cnt, blk, deadq>>
  /\ IF cmdq[c] # <<>> THEN
          LET x == Head(cmdq[c]) IN
          /\ cmdq' = [cmdq EXCEPT ![c] = Tail(@)]
          /\ IF x.k = "open"
               THEN pend' = [pend EXCEPT ![c] = @ \cup {[q |-> x.q, id |-> x.id, ph |-> IF Phases THEN "slot" ELSE "neg"]}]
                    /\ Handle([a |-> "cmd", c |-> c], [k |-> "open", q |-> x.q, id |-> x.id, cc |-> c], FALSE)
               ELSE UNCHANGED pend /\ Handle([a |-> "cmd", c |-> c], [k |-> "force"], FALSE)
     ELSE /\ Strong(c) = 0       \* every sender is gone: the stream ends, the connection would close
          /\ UNCHANGED <<cmdq, pend>>
          /\ Handle([a |-> "cmd", c |-> c], [k |-> "none"], FALSE)

\* Hand event `ev` for protocol q to its inbox: ProtocolSet::report_substream_open /
\* report_substream_open_failure, i.e. `tx.send(event).await`.
\*  full = FALSE: there is room, the call returns at once.
\*  full = TRUE : every free slot of the inbox has just been taken (filler): the call is suspended
\*                inside the connection task until the protocol has consumed something (Deliver).
Send(c, q, ev, full, stim) ==
  IF q \in deadq THEN
       \* the receiver is gone: the send fails, the event is dropped
       /\ ~full
       /\ UNCHANGED <<chan, blk>>
       /\ cnt' = IF stim.a = "inbound" THEN [cnt EXCEPT !.inb = @ + 1] ELSE cnt
       /\ Handle(stim, [k |-> "err"], FALSE)
  ELSE IF ~full THEN
       /\ Room(q)
       /\ chan' = [chan EXCEPT ![q] = Append(@, ev)]
       /\ UNCHANGED blk
       /\ cnt' = IF stim.a = "inbound" THEN [cnt EXCEPT !.inb = @ + 1] ELSE cnt
       /\ Handle(stim, [k |-> "ok"], FALSE)
  ELSE /\ cnt.full < MaxFull /\ ~Waiting(q)
       /\ cnt' = IF stim.a = "inbound" THEN [cnt EXCEPT !.inb = @ + 1, !.full = @ + 1] ELSE [cnt EXCEPT !.full = @ + 1]
       /\ chan' = IF PhysLen(q) < PCap THEN [chan EXCEPT ![q] = Append(@, [k |-> "filler", n |-> PCap - PhysLen(q)])] ELSE chan
       /\ IF Bug = "drop_on_full"
            THEN \* seeded defect: try_send instead of send().await - the event is shed
                 UNCHANGED blk /\ Handle(stim, [k |-> "err"], FALSE)
            ELSE blk' = [blk EXCEPT ![c] = ev @@ [q |-> q]] /\ Handle(stim, [k |-> "blocked"], FALSE)

\* the suspended call of connection c gets its slot
Deliver(c) ==
  /\ Busy(c)
  /\ LET ev == blk[c] q == ev.q
         stim == [a |-> "deliver", c |-> c,
                  what |-> IF ev.k = "est" THEN "est" ELSE IF ev.dirn = "in" THEN "inbound" ELSE "reply",
                  id |-> ev.id, ok |-> ev.k \in {"opened", "est"}, q |-> q, p |-> cpeer[c]] IN
     /\ blk' = [blk EXCEPT ![c] = NoBlk]
     /\ UNCHANGED <<cst, cpeer, cmdq, pend, conns, track, nextId, dead, mgr, cnt, deadq>>
     /\ IF q \in deadq
          THEN \* the protocol was dropped meanwhile: the suspended send fails
               UNCHANGED chan /\ Handle(stim, [k |-> IF ev.k = "est" THEN "ok" ELSE "err"], FALSE)
          ELSE /\ PhysLen(q) < PCap
               /\ chan' = [chan EXCEPT ![q] = Append(@, ev)]
               /\ Handle(stim, [k |-> "ok"], FALSE)

\* the multiplexer handed out a stream for request x (yamux: fewer than 256 unacknowledged outbound
\* streams; quic: below the peer's stream limit): negotiation starts
Slot(c, x) ==
  /\ cst[c] = "live" /\ ~Busy(c) /\ x \in pend[c] /\ x.ph = "slot"
  /\ pend' = [pend EXCEPT ![c] = (@ \ {x}) \cup {[x EXCEPT !.ph = "neg"]}]
  /\ UNCHANGED <<cst, cpeer, cmdq, chan, conns, track, nextId, dead, mgr, cnt, blk, deadq>>
  /\ Handle([a |-> "slot", c |-> c, id |-> x.id], [k |-> "ok"], FALSE)

\* seeded defect "slot_silent": the open timeout firing while the request still waits for its stream
\* reports nothing (the timeout arm lost the protocol name and the substream id)
SilentTimeout(c, x) ==
  /\ Bug = "slot_silent" /\ cst[c] = "live" /\ ~Busy(c) /\ x \in pend[c] /\ x.ph = "slot"
  /\ pend' = [pend EXCEPT ![c] = @ \ {x}]
  /\ UNCHANGED <<cst, cpeer, cmdq, chan, conns, track, nextId, dead, mgr, cnt, blk, deadq>>
  /\ Handle([a |-> "reply", c |-> c, id |-> x.id, ok |-> FALSE, full |-> FALSE, q |-> x.q], [k |-> "silent"], FALSE)

\* report_substream_open / report_substream_open_failure: the open succeeded (only after negotiation),
\* failed, or timed out - in either phase, always with the id of the request
Reply(c, x, ok, full) ==
  /\ cst[c] = "live" /\ ~Busy(c) /\ x \in pend[c]
  /\ (ok => x.ph = "neg")
  /\ ~(Bug = "slot_silent" /\ ~ok /\ x.ph = "slot")
  /\ pend' = [pend EXCEPT ![c] = @ \ {x}]
  /\ UNCHANGED <<cst, cpeer, cmdq, conns, track, nextId, dead, mgr, deadq>>
  /\ Send(c, x.q, IF ok THEN [k |-> "opened", p |-> cpeer[c], c |-> c, q |-> x.q, dirn |-> "out", id |-> x.id]
                        ELSE [k |-> "failed", id |-> x.id, q |-> x.q, dirn |-> "out"],
          full, [a |-> "reply", c |-> c, id |-> x.id, ok |-> ok, full |-> full, q |-> x.q])

\* the remote opened a substream for protocol q
Inbound(c, q, full) ==
  /\ cst[c] = "live" /\ ~Busy(c) /\ cnt.inb < MaxInb
  /\ UNCHANGED <<cst, cpeer, cmdq, pend, conns, track, nextId, dead, mgr, deadq>>
  /\ IF Strong(c) > 0 THEN
          Send(c, q, [k |-> "opened", p |-> cpeer[c], c |-> c, q |-> q, dirn |-> "in", id |-> -1],
               full, [a |-> "inbound", c |-> c, q |-> q, p |-> cpeer[c], full |-> full])
     ELSE /\ UNCHANGED <<chan, blk>> /\ cnt' = [cnt EXCEPT !.inb = @ + 1]
          /\ Handle([a |-> "inbound", c |-> c, q |-> q, p |-> cpeer[c], full |-> full], [k |-> "nopermit"], FALSE)

Normal ==
  \/ \E p \in Peers : \E full \in {-1} \cup Svc : Est(p, full)
  \/ \E q \in Svc : DropProto(q)
  \/ \E c \in DOMAIN cst : Close(c, -1) \/ Drop(c) \/ Cmd(c) \/ MgrTold(c)
  \/ \E c \in DOMAIN cst : \E q \in Svc : Close(c, q) \/ Inbound(c, q, FALSE) \/ Inbound(c, q, TRUE)
  \/ \E c \in DOMAIN cst : \E x \in pend[c] : \E ok, full \in BOOLEAN : Reply(c, x, ok, full)
  \/ \E c \in DOMAIN cst : Deliver(c)
  \/ \E c \in DOMAIN cst : \E x \in pend[c] : Slot(c, x) \/ SilentTimeout(c, x)
  \/ \E q \in Svc : Poll(q)
  \/ \E q \in Svc : \E p \in Peers : Open(q, p) \/ FClose(q, p)
  \/ \E q \in Svc : \E k \in track[q] : Expire(q, k[1], k[2])

Next ==
  /\ ~dead
  /\ IF ~SplitClose /\ \E c \in DOMAIN cst : cst[c] = "closing"
       THEN \E c \in DOMAIN cst : Drop(c)
     ELSE IF \E q \in Eager : chan[q] # <<>>
       THEN \E q \in Eager : Poll(q)
     ELSE IF EagerCmd /\ \E c \in DOMAIN cst : cst[c] = "live" /\ cmdq[c] # <<>>
       THEN \E c \in DOMAIN cst : cmdq[c] # <<>> /\ Cmd(c)
     ELSE Normal

Spec == Init /\ [][Next]_vars

-----------------------------------------------------------------------------
Quiescent ==
  /\ \A q \in Svc : chan[q] = <<>>
  /\ \A c \in DOMAIN cst : cst[c] # "closing" /\ ~Busy(c) /\ (cst[c] = "live" => cmdq[c] = <<>> /\ pend[c] = {})

MonOK == mon.bad = ""
QuiesceOK == (Quiescent /\ ~dead) => MonQuiesce(mon).bad = ""
\* model-level sanity: the allocator is what makes R4 hold
IdsBelow == \A i \in mon.ids : i < nextId
\* in scope (two overlapping connections at most) a service never panics
NoPanicInScope == (MaxOverlap <= 2 /\ Bug = "none") => ~dead

View == <<mvars, mon>>
GenView == mvars
Emit == PrintT(<<"B", ToJson([ka |-> [i \in 1..Len(SvcSeq) |-> KA[SvcSeq[i]]], stims |-> hist'])>>)
=============================================================================
