//! Byte-level helpers shared by the bitswap / peerid / decoders harness binaries: an
//! unsigned-varint and protobuf wire reader/writer written independently of the code under
//! test, seeded generators, and the trace recorder.
#![allow(dead_code)]
use rand::{rngs::StdRng, Rng, SeedableRng};
use serde_json::Value;

pub fn rng_for(seed: u64, stream: u64) -> StdRng {
    StdRng::seed_from_u64(seed.wrapping_mul(0x9E37_79B9_7F4A_7C15).wrapping_add(stream))
}

pub fn rand_bytes(rng: &mut StdRng, n: usize) -> Vec<u8> {
    let mut v = vec![0u8; n];
    rng.fill(&mut v[..]);
    v
}

/// Minimal unsigned varint.
pub fn uvarint(mut v: u64) -> Vec<u8> {
    let mut out = vec![];
    loop {
        let b = (v & 0x7f) as u8;
        v >>= 7;
        if v == 0 {
            out.push(b);
            return out;
        }
        out.push(b | 0x80);
    }
}

/// Varint of `v` padded with `pad` redundant continuation groups (non-minimal encoding).
pub fn uvarint_padded(v: u64, pad: usize) -> Vec<u8> {
    let mut out = uvarint(v);
    if pad == 0 {
        return out;
    }
    let last = out.len() - 1;
    out[last] |= 0x80;
    for _ in 0..pad - 1 {
        out.push(0x80);
    }
    out.push(0x00);
    out
}

/// Read a varint without any minimality / width rule: `(value mod 2^64, bytes used)`;
/// `None` if the input ends inside the varint or it is longer than 10 bytes.
pub fn read_uvarint(b: &[u8]) -> Option<(u64, usize)> {
    let mut v: u64 = 0;
    for (i, x) in b.iter().enumerate().take(10) {
        v |= ((x & 0x7f) as u64).checked_shl(7 * i as u32).unwrap_or(0);
        if x & 0x80 == 0 {
            return Some((v, i + 1));
        }
    }
    None
}

// ---------------------------------------------------------------- protobuf wire format
#[derive(Debug, Clone, PartialEq)]
pub enum PbVal {
    Varint(u64),
    Fixed64([u8; 8]),
    Bytes(Vec<u8>),
    Fixed32([u8; 4]),
}

/// Parse a protobuf message into its top-level fields; `None` if it is not well formed.
pub fn pb_parse(mut b: &[u8]) -> Option<Vec<(u64, PbVal)>> {
    let mut out = vec![];
    while !b.is_empty() {
        let (key, n) = read_uvarint(b)?;
        b = &b[n..];
        let (field, wt) = (key >> 3, key & 7);
        let val = match wt {
            0 => {
                let (v, n) = read_uvarint(b)?;
                b = &b[n..];
                PbVal::Varint(v)
            }
            1 => {
                let x: [u8; 8] = b.get(..8)?.try_into().ok()?;
                b = &b[8..];
                PbVal::Fixed64(x)
            }
            2 => {
                let (len, n) = read_uvarint(b)?;
                b = &b[n..];
                let len = usize::try_from(len).ok()?;
                let x = b.get(..len)?.to_vec();
                b = &b[len..];
                PbVal::Bytes(x)
            }
            5 => {
                let x: [u8; 4] = b.get(..4)?.try_into().ok()?;
                b = &b[4..];
                PbVal::Fixed32(x)
            }
            _ => return None,
        };
        out.push((field, val));
    }
    Some(out)
}

pub fn pb_key(field: u64, wt: u64) -> Vec<u8> {
    uvarint(field << 3 | wt)
}
pub fn pb_bytes(field: u64, data: &[u8]) -> Vec<u8> {
    let mut out = pb_key(field, 2);
    out.extend(uvarint(data.len() as u64));
    out.extend_from_slice(data);
    out
}
pub fn pb_varint(field: u64, v: u64) -> Vec<u8> {
    let mut out = pb_key(field, 0);
    out.extend(uvarint(v));
    out
}
pub fn pb_emit(fields: &[(u64, PbVal)]) -> Vec<u8> {
    let mut out = vec![];
    for (f, v) in fields {
        match v {
            PbVal::Varint(x) => out.extend(pb_varint(*f, *x)),
            PbVal::Bytes(x) => out.extend(pb_bytes(*f, x)),
            PbVal::Fixed64(x) => {
                out.extend(pb_key(*f, 1));
                out.extend_from_slice(x)
            }
            PbVal::Fixed32(x) => {
                out.extend(pb_key(*f, 5));
                out.extend_from_slice(x)
            }
        }
    }
    out
}

// ---------------------------------------------------------------- mutation operators (C19 plan)
/// All the systematic damages of a valid encoding: truncation at every offset, length-prefix
/// extremes at every length-delimited field, wrong wire type, field duplication, splicing
/// with `other`, bit flips and random noise. Deterministic for a given rng.
pub fn mutations(valid: &[u8], other: &[u8], rng: &mut StdRng, random_extra: usize) -> Vec<(String, Vec<u8>)> {
    let mut out: Vec<(String, Vec<u8>)> = vec![("valid".into(), valid.to_vec())];
    for cut in 0..valid.len() {
        out.push(("truncate".into(), valid[..cut].to_vec()));
    }
    // walk top-level fields: replace each length prefix by extremes / change the wire type
    let mut off = 0usize;
    while off < valid.len() {
        let Some((key, kn)) = read_uvarint(&valid[off..]) else { break };
        let wt = key & 7;
        let body = off + kn;
        let next = match wt {
            0 => read_uvarint(&valid[body..]).map(|(_, n)| body + n),
            1 => Some(body + 8),
            5 => Some(body + 4),
            2 => read_uvarint(&valid[body..]).and_then(|(l, n)| usize::try_from(l).ok().map(|l| body + n + l)),
            _ => None,
        };
        let Some(next) = next.filter(|n| *n <= valid.len()) else { break };
        if wt == 2 {
            let (l, ln) = read_uvarint(&valid[body..]).unwrap();
            for ext in [0u64, 1, l.wrapping_sub(1), l.wrapping_sub(2), l + 1, l + 2, l + ln as u64, l + ln as u64 + 1, 127, 128, 0x3fff, 0x4000, 0xffff_ffff, 1 << 32, (1 << 63) - 1, 1 << 63, u64::MAX] {
                let mut m = valid[..body].to_vec();
                m.extend(uvarint(ext));
                m.extend_from_slice(&valid[body + ln..]);
                out.push(("len-extreme".into(), m));
            }
            let mut m = valid[..body].to_vec();
            m.extend(uvarint_padded(l, 1 + rng.gen_range(0..9)));
            m.extend_from_slice(&valid[body + ln..]);
            out.push(("len-nonminimal".into(), m));
        }
        for nwt in 0..8u64 {
            if nwt != wt {
                let mut m = valid[..off].to_vec();
                m.extend(uvarint((key & !7) | nwt));
                m.extend_from_slice(&valid[body..]);
                out.push(("wire-type".into(), m));
            }
        }
        // duplicate the field, drop the field
        let mut m = valid[..next].to_vec();
        m.extend_from_slice(&valid[off..]);
        out.push(("dup-field".into(), m));
        let mut m = valid[..off].to_vec();
        m.extend_from_slice(&valid[next..]);
        out.push(("drop-field".into(), m));
        off = next;
    }
    // splices with another valid encoding at a few cut points
    for _ in 0..8 {
        let a = rng.gen_range(0..=valid.len());
        let b = rng.gen_range(0..=other.len());
        let mut m = valid[..a].to_vec();
        m.extend_from_slice(&other[b..]);
        out.push(("splice".into(), m));
    }
    for _ in 0..random_extra {
        let mut m = valid.to_vec();
        if !m.is_empty() {
            for _ in 0..rng.gen_range(1..4) {
                let i = rng.gen_range(0..m.len());
                match rng.gen_range(0..4) {
                    0 => m[i] ^= 1 << rng.gen_range(0..8),
                    1 => m[i] = rng.gen(),
                    2 => m[i] = [0x00, 0x7f, 0x80, 0xff][rng.gen_range(0..4)],
                    _ => {
                        m.insert(i, rng.gen());
                    }
                }
            }
        }
        out.push(("flip".into(), m));
        let n = rng.gen_range(0..64);
        out.push(("noise".into(), rand_bytes(rng, n)));
    }
    out
}

/// Compress a list of ids into maximal runs `[lo, hi]` of consecutive values (in list order).
pub fn ranges(ids: &[i64]) -> Vec<[i64; 2]> {
    let mut out: Vec<[i64; 2]> = vec![];
    for &i in ids {
        match out.last_mut() {
            Some(r) if r[1] + 1 == i => r[1] = i,
            _ => out.push([i, i]),
        }
    }
    out
}

pub fn jline(v: Value) -> String {
    serde_json::to_string(&v).unwrap()
}

/// `rand_bytes` with a length drawn from `lo..hi`.
pub fn rand_bytes_in(rng: &mut StdRng, lo: usize, hi: usize) -> Vec<u8> {
    let n = rng.gen_range(lo..hi);
    rand_bytes(rng, n)
}

/// Damage inside the fields, recursively: every length-delimited field is replaced by damaged
/// variants of its content (`leaf`), and - when the content itself parses as a protobuf
/// message - by the same damage applied one level down with the enclosing lengths fixed up
/// (`nested`), so that identifiers, keys and addresses buried in sub-messages are reached.
pub fn mutations_deep(valid: &[u8], depth: usize) -> Vec<(String, Vec<u8>)> {
    let mut out = vec![];
    let Some(fields) = pb_parse(valid) else { return out };
    for (i, (_, val)) in fields.iter().enumerate() {
        let PbVal::Bytes(b) = val else { continue };
        let mut variants: Vec<(String, Vec<u8>)> = vec![("leaf".into(), vec![]), ("leaf".into(), [&b[..], &[0u8][..]].concat())];
        if !b.is_empty() {
            variants.push(("leaf".into(), b[..b.len() - 1].to_vec()));
            variants.push(("leaf".into(), b[1..].to_vec()));
            for pos in 0..b.len().min(3) {
                for x in [0x00u8, 0x01, 0x11, 0x12, 0x13, 0x20, 0x2a, 0x2b, 0x40, 0x41, 0x7f, 0x80, 0xff] {
                    if b[pos] != x {
                        let mut v = b.clone();
                        v[pos] = x;
                        variants.push(("leaf".into(), v));
                    }
                }
            }
            let mut v = b.clone();
            let last = v.len() - 1;
            v[last] ^= 0x80;
            variants.push(("leaf".into(), v));
        }
        for (_, v) in multihash_resized(b) {
            variants.push(("leaf".into(), v));
        }
        if depth > 0 && !b.is_empty() && pb_parse(b).map(|f| !f.is_empty()).unwrap_or(false) {
            for (_, nb) in mutations_deep(b, depth - 1) {
                variants.push(("nested".into(), nb));
            }
        }
        for (op, v) in variants {
            let mut f = fields.clone();
            f[i].1 = PbVal::Bytes(v);
            out.push((op, pb_emit(&f)));
        }
        // the field announced one / two bytes (or its own prefix size) longer or shorter than it is
        let l = b.len() as u64;
        let ln = uvarint(l).len() as u64;
        for announced in [l + 1, l + 2, l + ln, l + ln + 1, l.wrapping_sub(1), l.wrapping_sub(2)] {
            let mut m = pb_emit(&fields[..i]);
            m.extend(pb_key(fields[i].0, 2));
            m.extend(uvarint(announced));
            m.extend_from_slice(b);
            m.extend(pb_emit(&fields[i + 1..]));
            out.push(("len-extreme".into(), m));
        }
    }
    out
}

/// A varint-length-prefixed frame sequence read by hand: `(offset of prefix, prefix size, announced)`.
pub fn frames_of(b: &[u8]) -> Vec<(usize, usize, u64)> {
    let mut out = vec![];
    let mut off = 0;
    while off < b.len() {
        let Some((l, n)) = read_uvarint(&b[off..]) else { break };
        out.push((off, n, l));
        off = match (off + n).checked_add(l as usize) {
            Some(x) if x <= b.len() => x,
            _ => break,
        };
    }
    out
}

/// Systematic truncation of a sequence of length-prefixed frames: every proper prefix of the
/// bytes, and for every frame the announced length replaced by what is available after its
/// prefix plus 1 / 2 / the prefix size / the prefix size + 1, and minus 1 / 2.
pub fn truncations_framed(valid: &[u8]) -> Vec<(String, Vec<u8>)> {
    let mut out: Vec<(String, Vec<u8>)> = (0..valid.len()).map(|k| ("truncate".to_string(), valid[..k].to_vec())).collect();
    for (off, n, _) in frames_of(valid) {
        let avail = (valid.len() - off - n) as u64;
        for announced in [avail + 1, avail + 2, avail + n as u64, avail + n as u64 + 1, avail.wrapping_sub(1), avail.wrapping_sub(2),
                          valid.len() as u64, valid.len() as u64 + 1, (valid.len() - off) as u64, (valid.len() - off) as u64 + 1] {
            let mut m = valid[..off].to_vec();
            m.extend(uvarint(announced));
            m.extend_from_slice(&valid[off + n..]);
            out.push(("len-extreme".into(), m));
        }
    }
    out
}

/// When `b` is shaped like a small multihash (`code, len, len digest bytes`): the same
/// multihash with the length byte changed and the digest padded / cut to match, around the
/// inline-key boundary, and with the code byte swapped between identity and SHA2-256.
pub fn multihash_resized(b: &[u8]) -> Vec<(String, Vec<u8>)> {
    let mut out = vec![];
    if b.len() >= 2 && b[0] < 0x80 && b[1] < 0x80 && b.len() == 2 + b[1] as usize {
        for code in [b[0], if b[0] == 0x00 { 0x12 } else { 0x00 }] {
            for l in [0usize, 1, 31, 32, 33, 36, 41, 42, 43, 44, 63, 64, 65, 127] {
                if code == b[0] && l == b[1] as usize {
                    continue;
                }
                let mut v = vec![code, l as u8];
                v.extend((0..l).map(|i| b.get(2 + i).copied().unwrap_or(0xaa)));
                out.push(("leaf".to_string(), v));
            }
        }
    }
    out
}
