//! One execution: two real yamux connections over the in-memory pipe, one yamux stream wrapped
//! on both ends into the real `litep2p::substream::Substream` (or left raw on the sending end
//! for malformed-length injection), a sender program, a receiver, and a scheduler that decides
//! who is polled when.  No runtime, no timers: tasks are polled by hand, wake-ups are flags, and
//! quiescence is "no flag set".
use crate::pipe;
use bytes::Bytes;
use futures::{
    future::poll_fn,
    io::{AsyncReadExt, AsyncWriteExt},
    task::{waker, ArcWake},
    Future, SinkExt, StreamExt,
};
use litep2p::{codec::ProtocolCodec, error::SubstreamError, substream::Substream, verif::substream::substream_over_yamux};
use serde_json::{json, Value};
use std::{
    cell::{Cell, RefCell},
    pin::Pin,
    rc::Rc,
    sync::{
        atomic::{AtomicBool, Ordering},
        Arc,
    },
    task::{Context, Poll},
};

#[derive(Clone, Debug)]
pub enum SendOp {
    Send(usize),
    Feed(usize),
    Flush,
    Framed(usize),
    /// well-formed frame written by the harness' own encoder onto the raw yamux stream
    RawMsg(usize),
    /// malformed / oversized length prefix written onto the raw yamux stream
    Inject(String),
}

#[derive(Clone, Debug)]
pub enum Step {
    /// release the next sender op and poll the sender once
    Op,
    /// poll the sender once
    Ps,
    /// poll both connection drivers until idle
    Drv,
    /// allow the receiver k more messages and poll it once
    Pr(usize),
    /// drivers + receiver (unbounded) until quiescent, sender not polled; logs `quiesce`
    Settle,
}

#[derive(Clone, Debug)]
pub struct Job {
    pub codec: String, // "id" | "uv"
    pub n: i64,        // Identity size / varint maximum, -1 = no maximum
    pub group: String,
    pub sender_opens: bool,
    pub raw: bool,
    pub prog: Vec<SendOp>,
    pub sched: Vec<Step>,
    pub pipe_cap: usize,
    pub pipe_chunk: usize,
    pub seed: u64,
    pub fault: String,
    /// position in the job list (links a recorded execution to its job for replay)
    pub idx: usize,
}

impl Job {
    fn codec(&self) -> ProtocolCodec {
        match self.codec.as_str() {
            "id" => ProtocolCodec::Identity(self.n as usize),
            _ => ProtocolCodec::UnsignedVarint(if self.n < 0 { None } else { Some(self.n as usize) }),
        }
    }
}

pub struct Outcome {
    pub lines: Vec<String>,
    pub polls: u64,
}

struct Flag(AtomicBool);
impl ArcWake for Flag {
    fn wake_by_ref(a: &Arc<Self>) {
        a.0.store(true, Ordering::SeqCst);
    }
}

struct Task {
    fut: Option<Pin<Box<dyn Future<Output = ()>>>>,
    flag: Arc<Flag>,
}

impl Task {
    fn new(f: impl Future<Output = ()> + 'static) -> Self {
        Task { fut: Some(Box::pin(f)), flag: Arc::new(Flag(AtomicBool::new(true))) }
    }
    fn flagged(&self) -> bool {
        self.fut.is_some() && self.flag.0.load(Ordering::SeqCst)
    }
    /// Poll once. Err(msg) = the task panicked (it is dead afterwards).
    fn poll(&mut self, polls: &Cell<u64>) -> Result<(), String> {
        let Some(f) = self.fut.as_mut() else { return Ok(()) };
        self.flag.0.store(false, Ordering::SeqCst);
        let w = waker(self.flag.clone());
        let mut cx = Context::from_waker(&w);
        polls.set(polls.get() + 1);
        match vharness::catch(|| f.as_mut().poll(&mut cx)) {
            Ok(Poll::Ready(())) => {
                self.fut = None;
                Ok(())
            }
            Ok(Poll::Pending) => Ok(()),
            Err(m) => {
                // keep the (poisoned) future allocated: dropping a yamux stream resets it, which
                // would add events the property does not talk about
                std::mem::forget(self.fut.take());
                Err(m)
            }
        }
    }
}

/// Deterministic message content and its 31-bit digest (FNV-1a), independent of the code under test.
pub fn content(seed: u64, idx: usize, len: usize) -> Vec<u8> {
    let mut x = seed ^ (idx as u64).wrapping_mul(0x9E37_79B9_7F4A_7C15) ^ 0xD1B5_4A32_D192_ED03;
    (0..len)
        .map(|_| {
            x ^= x << 13;
            x ^= x >> 7;
            x ^= x << 17;
            (x >> 24) as u8
        })
        .collect()
}
pub fn digest(b: &[u8]) -> u32 {
    let mut h: u32 = 0x811C_9DC5;
    for x in b {
        h ^= *x as u32;
        h = h.wrapping_mul(0x0100_0193);
    }
    h & 0x7FFF_FFFF
}
fn varint(mut n: u64) -> Vec<u8> {
    let mut v = vec![];
    loop {
        let b = (n & 0x7f) as u8;
        n >>= 7;
        if n == 0 {
            v.push(b);
            return v;
        }
        v.push(b | 0x80);
    }
}

#[derive(Clone, Copy, PartialEq)]
enum SState {
    AtGate,
    InOp,
    Finished,
}

struct Ctl {
    log: RefCell<Vec<String>>,
    send_tokens: Cell<usize>,
    recv_tokens: Cell<usize>,
    sstate: Cell<SState>,
    cur_api: RefCell<String>,
    ops_done: Cell<usize>,
    fault: String,
}

impl Ctl {
    fn ev(&self, v: Value) {
        self.log.borrow_mut().push(v.to_string());
    }
}

async fn gate(tokens: &Cell<usize>) {
    poll_fn(|_| {
        if tokens.get() > 0 {
            tokens.set(tokens.get() - 1);
            Poll::Ready(())
        } else {
            Poll::Pending
        }
    })
    .await
}

fn classify_err(e: &SubstreamError) -> &'static str {
    match e {
        SubstreamError::IoError(std::io::ErrorKind::PermissionDenied) => "refused",
        _ => "err",
    }
}

async fn sender_task(mut s: Substream, job: Job, ctl: Rc<Ctl>) {
    for (i, op) in job.prog.iter().enumerate() {
        ctl.sstate.set(SState::AtGate);
        gate(&ctl.send_tokens).await;
        ctl.sstate.set(SState::InOp);
        let (api, len) = match op {
            SendOp::Send(l) => ("send", Some(*l)),
            SendOp::Feed(l) => ("feed", Some(*l)),
            SendOp::Flush => ("flush", None),
            SendOp::Framed(l) => ("framed", Some(*l)),
            _ => unreachable!("raw op on a wrapped substream"),
        };
        *ctl.cur_api.borrow_mut() = api.to_string();
        let data = len.map(|l| content(job.seed, i, l));
        match &data {
            Some(d) => ctl.ev(json!({"e": "call", "api": api, "len": d.len(), "h": digest(d)})),
            None => ctl.ev(json!({"e": "call", "api": api, "len": 0, "h": 0})),
        }
        let r = match op {
            SendOp::Send(_) => s.send(Bytes::from(data.unwrap())).await,
            SendOp::Feed(_) => s.feed(Bytes::from(data.unwrap())).await,
            SendOp::Flush => SinkExt::<Bytes>::flush(&mut s).await,
            SendOp::Framed(_) => s.send_framed(Bytes::from(data.unwrap())).await,
            _ => unreachable!(),
        };
        let (nq, cur, pob) = s.verif_pending_out();
        let mut r = match &r {
            Ok(()) => "ok",
            Err(e) => classify_err(e),
        };
        if ctl.fault == "acceptall" && r == "refused" {
            r = "ok";
        }
        ctl.ev(json!({"e": "ret", "api": api, "r": r, "pending": nq > 0 || cur, "pob": pob}));
        ctl.ops_done.set(ctl.ops_done.get() + 1);
    }
    ctl.sstate.set(SState::Finished);
    futures::future::pending::<()>().await;
    drop(s);
}

async fn raw_sender_task(mut s: yamux::Stream, job: Job, ctl: Rc<Ctl>) {
    let max = job.n;
    for (i, op) in job.prog.iter().enumerate() {
        ctl.sstate.set(SState::AtGate);
        gate(&ctl.send_tokens).await;
        ctl.sstate.set(SState::InOp);
        let bytes: Vec<u8> = match op {
            SendOp::RawMsg(l) => {
                let d = content(job.seed, i, *l);
                ctl.ev(json!({"e": "call", "api": "raw", "len": d.len(), "h": digest(&d)}));
                let mut v = if job.codec == "uv" { varint(*l as u64) } else { vec![] };
                v.extend_from_slice(&d);
                v
            }
            SendOp::Inject(class) => {
                ctl.ev(json!({"e": "inject", "class": class}));
                let mut v = match class.as_str() {
                    "overlong" => vec![0x80u8; 10],
                    "overflow10" => {
                        let mut v = vec![0xffu8; 9];
                        v.push(0x7f);
                        v
                    }
                    "nonminimal" => vec![0x81, 0x00],
                    "nonminimal3" => vec![0x85, 0x80, 0x00],
                    "oversize" => varint(max as u64 + 1),
                    "oversize2x" => varint(max as u64 * 2 + 7),
                    "huge62" => varint(1u64 << 62),
                    "huge63" => varint(1u64 << 63),
                    other => panic!("unknown injection class {other}"),
                };
                v.extend_from_slice(&[0x41; 16]);
                v
            }
            _ => unreachable!("sink op on a raw stream"),
        };
        let r = async {
            s.write_all(&bytes).await?;
            s.flush().await
        }
        .await;
        if let SendOp::RawMsg(_) = op {
            ctl.ev(json!({"e": "ret", "api": "raw", "r": if r.is_ok() { "ok" } else { "err" }, "pending": false, "pob": 0}));
        }
        ctl.ops_done.set(ctl.ops_done.get() + 1);
    }
    ctl.sstate.set(SState::Finished);
    futures::future::pending::<()>().await;
    drop(s);
}

async fn receiver_task(mut s: Substream, ctl: Rc<Ctl>) {
    loop {
        gate(&ctl.recv_tokens).await;
        match s.next().await {
            Some(Ok(b)) => {
                let mut h = digest(&b);
                if ctl.fault == "flipdigest" && b.len() > 2 {
                    h ^= 1;
                }
                ctl.ev(json!({"e": "recv", "r": "msg", "len": b.len(), "h": h}))
            }
            Some(Err(e)) => {
                ctl.ev(json!({"e": "recv", "r": "err", "len": 0, "h": 0, "err": format!("{e:?}")}));
                break;
            }
            None => {
                ctl.ev(json!({"e": "recv", "r": "eof", "len": 0, "h": 0}));
                break;
            }
        }
    }
    futures::future::pending::<()>().await;
    drop(s);
}

const MAX_POLLS: u64 = 5_000_000;

struct World {
    drv: [Task; 2],
    snd: Task,
    rcv: Task,
    ctl: Rc<Ctl>,
    polls: Rc<Cell<u64>>,
}

impl World {
    fn poll_sender(&mut self) {
        if let Err(m) = self.snd.poll(&self.polls) {
            let api = self.ctl.cur_api.borrow().clone();
            self.ctl.ev(json!({"e": "ret", "api": api, "r": "panic", "msg": m, "pending": false, "pob": 0}));
            self.ctl.sstate.set(SState::Finished);
        }
    }
    fn poll_receiver(&mut self) {
        if let Err(m) = self.rcv.poll(&self.polls) {
            self.ctl.ev(json!({"e": "recv", "r": "panic", "len": 0, "h": 0, "msg": m}));
        }
    }
    fn drivers(&mut self) {
        while (self.drv[0].flagged() || self.drv[1].flagged()) && self.polls.get() < MAX_POLLS {
            for d in self.drv.iter_mut() {
                if d.flagged() {
                    let _ = d.poll(&self.polls);
                }
            }
        }
    }
    /// drivers + receiver until nothing is flagged (sender excluded)
    fn settle(&mut self) {
        self.ctl.recv_tokens.set(usize::MAX / 2);
        // the receiver may be parked at its token gate (no waker there): poll it unconditionally once
        let mut force = true;
        loop {
            self.drivers();
            if (force || self.rcv.flagged()) && self.polls.get() < MAX_POLLS {
                force = false;
                self.poll_receiver();
            } else {
                break;
            }
        }
        self.ctl.recv_tokens.set(0);
    }
}

pub fn run(job: &Job) -> Outcome {
    if job.fault == "abort777" && job.idx == 777 {
        std::process::abort(); // pipeline self-test: the code under test kills the process
    }
    let polls = Rc::new(Cell::new(0u64));
    let ctl = Rc::new(Ctl {
        log: RefCell::new(vec![]),
        send_tokens: Cell::new(0),
        recv_tokens: Cell::new(0),
        sstate: Cell::new(SState::AtGate),
        cur_api: RefCell::new(String::new()),
        ops_done: Cell::new(0),
        fault: job.fault.clone(),
    });
    ctl.ev(json!({"e": "reset", "codec": job.codec, "n": job.n, "group": job.group, "raw": job.raw,
                  "sender_opens": job.sender_opens, "pipe": [job.pipe_cap, job.pipe_chunk], "seed": job.seed, "job": job.idx,
                  "prog": job.prog.iter().map(|o| format!("{o:?}")).collect::<Vec<_>>()}));
    // ---- set up the yamux pair and one stream, announce it with one byte (as the protocol
    // negotiation does in a real connection), then wrap the ends
    let (ea, eb) = pipe::pair(job.pipe_cap, job.pipe_chunk);
    let mut ca = yamux::Connection::new(ea, yamux::Config::default(), yamux::Mode::Client);
    let cb = yamux::Connection::new(eb, yamux::Config::default(), yamux::Mode::Server);
    let w = futures::task::noop_waker();
    let mut cx = Context::from_waker(&w);
    let Poll::Ready(Ok(mut sa)) = ca.poll_new_outbound(&mut cx) else { panic!("yamux: cannot open outbound stream") };
    let inbound: Rc<RefCell<Vec<yamux::Stream>>> = Rc::new(RefCell::new(vec![]));
    let drive = |mut c: yamux::Connection<pipe::PipeEnd>, sink: Option<Rc<RefCell<Vec<yamux::Stream>>>>| async move {
        while let Some(Ok(s)) = poll_fn(|cx| c.poll_next_inbound(cx)).await {
            if let Some(v) = &sink {
                v.borrow_mut().push(s);
            }
        }
    };
    let mut drv = [Task::new(drive(ca, None)), Task::new(drive(cb, Some(inbound.clone())))];
    drive_until(
        async {
            sa.write_all(&[0x55]).await.expect("announce write");
            sa.flush().await.expect("announce flush");
        },
        &mut drv,
        &polls,
    );
    drive_until(poll_fn(|_| if inbound.borrow().is_empty() { Poll::Pending } else { Poll::Ready(()) }), &mut drv, &polls);
    let mut sb = inbound.borrow_mut().pop().expect("inbound yamux stream");
    drive_until(
        async {
            let mut b = [0u8; 1];
            sb.read_exact(&mut b).await.expect("announce read");
        },
        &mut drv,
        &polls,
    );
    let (s_send, s_recv) = if job.sender_opens { (sa, sb) } else { (sb, sa) };
    let rcv = Task::new(receiver_task(substream_over_yamux(s_recv, job.codec(), 1), ctl.clone()));
    let snd = if job.raw {
        Task::new(raw_sender_task(s_send, job.clone(), ctl.clone()))
    } else {
        Task::new(sender_task(substream_over_yamux(s_send, job.codec(), 0), job.clone(), ctl.clone()))
    };
    let mut wd = World { drv, snd, rcv, ctl: ctl.clone(), polls: polls.clone() };
    // sender reaches its first gate
    wd.poll_sender();
    // ---- the schedule
    let nops = job.prog.len();
    let mut released = 0usize;
    for st in &job.sched {
        if polls.get() >= MAX_POLLS {
            break;
        }
        match st {
            Step::Op => {
                if released < nops && ctl.sstate.get() == SState::AtGate {
                    released += 1;
                    ctl.send_tokens.set(1);
                }
                wd.poll_sender();
            }
            Step::Ps => {
                if ctl.sstate.get() == SState::InOp {
                    wd.poll_sender();
                }
            }
            Step::Drv => wd.drivers(),
            Step::Pr(k) => {
                ctl.recv_tokens.set(*k);
                wd.poll_receiver();
                ctl.recv_tokens.set(0);
            }
            Step::Settle => {
                wd.settle();
                ctl.ev(json!({"e": "quiesce"}));
            }
        }
    }
    // ---- completion: run everything fairly until the program is through
    let mut stuck = false;
    loop {
        if polls.get() >= MAX_POLLS {
            stuck = true;
            break;
        }
        match ctl.sstate.get() {
            SState::Finished => break,
            SState::AtGate => {
                if released < nops {
                    released += 1;
                    ctl.send_tokens.set(1);
                    wd.poll_sender();
                } else {
                    wd.poll_sender();
                    if ctl.sstate.get() == SState::AtGate {
                        break; // cannot happen: gate without remaining ops
                    }
                }
            }
            SState::InOp => {
                wd.settle();
                if wd.snd.flagged() {
                    wd.poll_sender();
                } else {
                    // everything else is idle and nobody woke the sender: its op can never complete
                    stuck = true;
                    break;
                }
            }
        }
    }
    if stuck {
        ctl.ev(json!({"e": "stuck", "api": ctl.cur_api.borrow().clone(), "polls": polls.get()}));
    } else {
        wd.settle();
        ctl.ev(json!({"e": "quiesce"}));
    }
    let lines = std::mem::take(&mut *ctl.log.borrow_mut());
    // tear down without running destructors of poisoned tasks first
    drop(wd);
    Outcome { lines, polls: polls.get() }
}

/// Run a short-lived future to completion, driving the two yamux connections in between.
fn drive_until<F: Future>(fut: F, drv: &mut [Task; 2], polls: &Cell<u64>) -> F::Output {
    let mut fut = std::pin::pin!(fut);
    let flag = Arc::new(Flag(AtomicBool::new(true)));
    let w = waker(flag.clone());
    let mut cx = Context::from_waker(&w);
    for _ in 0..100_000 {
        while drv[0].flagged() || drv[1].flagged() {
            for d in drv.iter_mut() {
                if d.flagged() {
                    let _ = d.poll(polls);
                }
            }
        }
        if let Poll::Ready(v) = fut.as_mut().poll(&mut cx) {
            return v;
        }
    }
    panic!("harness: yamux stream set-up did not complete");
}
