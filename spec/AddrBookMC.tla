----------------------------- MODULE AddrBookMC -----------------------------
(* Bounded model of the address store: Impl refines Prop for every history,  *)
(* the filter table is consistent, and behaviours are generated for replay.   *)
EXTENDS AddrBook, Json

CONSTANTS Addrs, Scores, K, MaxOps, Globals   \* Globals \subseteq Addrs: public addresses

VARIABLES st, last, hist, n
vars == <<st, last, hist, n>>

ScoresDef == {MinScore, -100, 0, 100}

Init == st = <<>> /\ last = [op |-> "init"] /\ hist = <<>> /\ n = 0

Insert(a, sc) ==
  /\ \E T \in ImplInsert(K, st, a, sc, a \in Globals) :
       /\ st' = T
       /\ last' = [op |-> "insert", a |-> a, score |-> sc, global |-> a \in Globals, pre |-> st]
  /\ hist' = Append(hist, [op |-> "insert", a |-> a, score |-> sc, global |-> a \in Globals])

List(limit) ==
  \* the code sorts by score (stable order among equals is arbitrary): any sorted prefix
  /\ UNCHANGED st
  /\ last' = [op |-> "list", limit |-> limit, pre |-> st]
  /\ hist' = Append(hist, [op |-> "list", limit |-> limit])

Next == /\ n < MaxOps /\ n' = n + 1
        /\ \/ \E a \in Addrs, sc \in Scores : Insert(a, sc)
           \/ \E l \in {1, K} : List(l)

Spec == Init /\ [][Next]_vars

StepOK == [][last'.op = "insert" => PropInsert(K, st, last'.a, last'.score, last'.global, st')]_vars
Bounded == Cardinality(DOMAIN st) <= K

\* filter decision table: whatever the code remembers is allowed to be remembered
Firsts == {"ip4", "ip4_unspec", "ip4_loop", "ip6", "ip6_unspec", "ip6_loop", "dns", "dns4", "dns6", "other", "empty"}
Seconds == {"tcp", "udp", "none", "other"}
Tails == {"none", "own", "foreign", "localnode", "ws", "ws_own", "own_own", "own_foreign", "foreign_own", "own_extra", "extra"}
Locals == {"no", "exact", "sameport_ip", "unspec_listener_loopback", "loopback_loopback"}
Shapes == [first : Firsts, second : Seconds, tail : Tails, local : Locals]
FilterOK == \A sh \in Shapes : ImplRemembers(sh) => MayRemember(sh)
FilterInv == n >= 0 /\ FilterOK

View == <<st, n>>
Emit == PrintT(<<"B", ToJson([k |-> K, globals |-> Globals, ops |-> hist'])>>)
=============================================================================
