---------------------------- MODULE BitswapTrace ----------------------------
(* Trace validation for C20.  Segments start with a `reset` event:          *)
(*  kind "fn"   calls of the real extract_next_batch / blocks_message        *)
(*  kind "e2e"  messages the real send_response wrote to a real substream    *)
(*  kind "cert" verdicts of the real block_to_response / on_message_received *)
(* MODE=prop decides C20; MODE=impl is the exact transcription (drift).      *)
EXTENDS Bitswap, TLC, Json, IOUtils

Rec == ndJsonDeserialize(IOEnv.TRACE)
Mode == IOEnv.MODE

VARIABLES l, cfg, sizes, q, got, last, sent
tvars == <<l, cfg, sizes, q, got, last, sent>>
\* cfg   [B, M]            sizes  sizes of the response set (id = position)
\* q     queue of [id,size] (fn)   got  ids returned in batches so far (fn)
\* last  ids of the last batch (fn)   sent  id ranges <<lo,hi>> of the messages seen (e2e)

N == Len(sizes)
MkBlocks(sz) == [i \in 1..Len(sz) |-> [id |-> i, size |-> sz[i]]]
Blk(ids) == [i \in 1..Len(ids) |-> [id |-> ids[i], size |-> sizes[ids[i]]]]
ValidIds(ids) == \A i \in 1..Len(ids) : ids[i] >= 1 /\ ids[i] <= N

TInit == /\ l = 1 /\ cfg = [B |-> 0, M |-> 0] /\ sizes = <<>> /\ q = <<>>
         /\ got = <<>> /\ last = <<>> /\ sent = <<>>

TReset == /\ Rec[l].e = "reset"
          /\ cfg' = [B |-> Rec[l].B, M |-> Rec[l].M]
          /\ sizes' = Rec[l].sizes
          /\ q' = MkBlocks(Rec[l].sizes)
          /\ got' = <<>> /\ last' = <<>> /\ sent' = <<>>

\* ---- fn segments
TExtract ==
  /\ Rec[l].e = "extract"
  /\ LET ret == [some |-> Rec[l].some, batch |-> Rec[l].batch, rest |-> Rec[l].rest] IN
       /\ ValidIds(ret.batch) /\ ValidIds(ret.rest)
       /\ IF Mode = "impl"
            THEN LET r == ImplExtract(q, cfg.B) IN
                   r.some = ret.some /\ Ids(r.batch) = ret.batch /\ Ids(r.rest) = ret.rest
            ELSE PropExtract(cfg.B, q, ret)
       /\ q' = Blk(ret.rest)
       /\ got' = got \o ret.batch
       /\ last' = ret.batch
       \* when the real function reports that nothing is left, every fitting block has
       \* been handed out exactly once and in order
       /\ ~ret.some =>
            /\ StrictlyIncreasing(got)
            /\ \A i \in 1..N : sizes[i] <= cfg.B => \E j \in 1..Len(got) : got[j] = i
  /\ UNCHANGED <<cfg, sizes, sent>>

\* blocks_message(batch): the encoded message carries exactly the batch, in order
TEnc == /\ Rec[l].e = "enc"
        /\ Rec[l].ids = last
        /\ UNCHANGED <<cfg, sizes, q, got, last, sent>>

\* ---- e2e segments
RangesOK(rs) ==
  \A i \in 1..Len(rs) :
    /\ rs[i][1] >= 1 /\ rs[i][1] <= rs[i][2] /\ rs[i][2] <= N
    /\ (i > 1 => rs[i - 1][2] < rs[i][1])
Covered(rs, id) == \E i \in 1..Len(rs) : rs[i][1] <= id /\ id <= rs[i][2]

TMsg == /\ Rec[l].e = "msg"
        /\ Rec[l].len <= cfg.M                 \* NoMessageOverLimit
        /\ sent' = sent \o Rec[l].r
        /\ RangesOK(sent')                      \* InOrderAtMostOnce
        /\ UNCHANGED <<cfg, sizes, q, got, last>>

TDone == /\ Rec[l].e = "done"
         \* EveryFittingBlockSent (the Impl layer may skip a whole batch, see LostOnlyInSkipped)
         /\ (Mode = "impl" \/ \A i \in 1..N : sizes[i] <= cfg.B => Covered(sent, i))
         /\ UNCHANGED <<cfg, sizes, q, got, last, sent>>

\* ---- cert segments
TCert == /\ Rec[l].e = "cert"
         /\ IF Mode = "impl"
              THEN ImplCert(Rec[l].c, Rec[l].verdict, Rec[l].cid_ok, Rec[l].data_ok)
              ELSE PropCert(Rec[l].c, Rec[l].verdict, Rec[l].cid_ok, Rec[l].data_ok)
         /\ UNCHANGED <<cfg, sizes, q, got, last, sent>>

\* ---- certmsg segments: one inbound message of several blocks through on_message_received;
\* delivered[j] = [d, c]: whose bytes were delivered, whose own (prefix, bytes) the reported
\* CID equals when recomputed independently (0: nobody's)
TCertMsg == /\ Rec[l].e = "certmsg"
            /\ Rec[l].out = "ok"
            /\ PropMsg(Rec[l].kinds, Rec[l].delivered)
            /\ UNCHANGED <<cfg, sizes, q, got, last, sent>>

TNext == /\ l <= Len(Rec)
         /\ l' = l + 1
         /\ (TReset \/ TExtract \/ TEnc \/ TMsg \/ TDone \/ TCert \/ TCertMsg)

TSpec == TInit /\ [][TNext]_tvars

Accepted ==
  LET d == TLCGet("stats").diameter IN
  IF d - 1 = Len(Rec) THEN PrintT(<<"TRACE_OK", Len(Rec)>>)
  ELSE PrintT(<<"TRACE_REJECTED_AT", d>>) /\ FALSE
=============================================================================
