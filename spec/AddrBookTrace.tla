---------------------------- MODULE AddrBookTrace ----------------------------
(* Trace validation of the real AddressStore / add_known_address filter / dial *)
(* order against AddrBook.tla.  MODE=prop decides C10, MODE=impl is the drift   *)
(* check against the transcription.                                             *)
EXTENDS AddrBook, Json, IOUtils

Rec == ndJsonDeserialize(IOEnv.TRACE)
Mode == IOEnv.MODE

VARIABLES l, st, k
tvars == <<l, st, k>>

TInit == l = 1 /\ st = <<>> /\ k = 64

Report(ok, why) == IF ok THEN TRUE ELSE PrintT(<<"BAD", l, why>>)

TReset == Rec[l].e = "reset" /\ st' = <<>> /\ k' = Rec[l].k

TInsert ==
  LET r == Rec[l] T == r.post IN
  /\ r.e = "insert" /\ k' = k /\ st' = T
  /\ IF Mode = "impl" THEN T \in ImplInsert(k, st, r.a, r.score, r.global)
     ELSE Report(~r.panic /\ PropInsert(k, st, r.a, r.score, r.global, T), "store insert breaks the address-book rules")

TList ==
  LET r == Rec[l] IN
  /\ r.e = "list" /\ UNCHANGED <<st, k>>
  /\ IF r.panic THEN Report(FALSE, "panic in AddressStore addresses()")
     ELSE Report(r.fillers_first /\ PropList(st, r.limit, r.ret), "address list not the best ones in score order")

TAddKnown ==
  LET r == Rec[l] IN
  /\ r.e = "add_known" /\ UNCHANGED <<st, k>>
  /\ IF Mode = "impl" THEN r.stored = ImplRemembers(r.sh)
     ELSE /\ Report(~r.panic, "panic in add_known_address")
          /\ Report(r.stored => MayRemember(r.sh), "address remembered that must not be")
          /\ Report(r.stored => (r.names_peer /\ r.tcp_ok), "remembered address not attributable or not dialable")
          /\ Report(r.count <= 64, "more than 64 addresses for one peer")

TDialOrder ==
  LET r == Rec[l] S == r.scores n == Cardinality(DOMAIN S) IN
  /\ r.e = "dial_order" /\ UNCHANGED <<st, k>>
  /\ Report(r.ret = "ok" => PropList(S, IF r.cap = -1 THEN n ELSE r.cap, r.open), "dial does not try the best addresses in score order within capacity")

TRescore ==
  LET r == Rec[l] res == r.results IN
  /\ r.e = "rescore" /\ UNCHANGED <<st, k>>
  /\ Report(/\ DOMAIN r.post = DOMAIN r.pre
            /\ \A b \in DOMAIN r.pre :
                 IF \E i \in 1..Len(res) : res[i].a = b
                   THEN \E i \in 1..Len(res) : res[i].a = b /\ r.post[b] = res[i].score
                   ELSE r.post[b] = r.pre[b],
            "dial result did not re-score exactly the addresses used")

TRediscover ==
  LET r == Rec[l] IN
  /\ r.e = "rediscover" /\ UNCHANGED <<st, k>>
  /\ Report(r.post = r.pre, "rediscovery changed stored scores")

\* a panic of the code under test inside a manager-level round (dial by peer id, re-score, filter)
TPanic ==
  /\ Rec[l].e = "panic" /\ UNCHANGED <<st, k>>
  /\ Report(FALSE, "panic of the address book / manager in a dial round")

TNext == /\ l <= Len(Rec) /\ l' = l + 1
         /\ (TReset \/ TInsert \/ TList \/ TAddKnown \/ TDialOrder \/ TRescore \/ TRediscover \/ TPanic)

TSpec == TInit /\ [][TNext]_tvars

Accepted ==
  LET d == TLCGet("stats").diameter IN
  IF d - 1 = Len(Rec) THEN PrintT(<<"TRACE_OK", Len(Rec)>>)
  ELSE PrintT(<<"TRACE_REJECTED_AT", d>>) /\ FALSE
=============================================================================
