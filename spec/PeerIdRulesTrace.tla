--------------------------- MODULE PeerIdRulesTrace ---------------------------
(* Trace validation for C18: every observation of the real litep2p PeerId      *)
(* (next to the reference libp2p-identity) must be allowed by the Prop layer   *)
(* (MODE=prop decides C18) or equal the transcription (MODE=impl, drift).      *)
EXTENDS PeerIdRules, Sequences, TLC, Json, IOUtils

Rec == ndJsonDeserialize(IOEnv.TRACE)
Mode == IOEnv.MODE

VARIABLES l
tvars == <<l>>

TInit == l = 1

TReset == Rec[l].e = "reset"

TDerive == /\ Rec[l].e = "derive"
           /\ Rec[l].c \in DeriveClasses
           /\ PropDerive(Rec[l].c, Rec[l].got, Rec[l].bytes_ok, Rec[l].ref_ok, Rec[l].rt)

TParse == /\ Rec[l].e = "parse"
          /\ Rec[l].c \in ParseClasses
          /\ Rec[l].via \in Vias
          /\ IF Mode = "impl"
               THEN Rec[l].real = ImplVerdict(Rec[l].c, Rec[l].via)
               ELSE PropParse(Rec[l].real, Rec[l].ref, Rec[l].same, Rec[l].rt)

TMaddr == /\ Rec[l].e = "maddr"
          /\ Rec[l].c \in MaddrClasses
          /\ PropMaddr(Rec[l].c, Rec[l].got, Rec[l].append_rt)
          /\ PropRecordNew(Rec[l].c, Rec[l].new_got, Rec[l].new_ok)

TNext == /\ l <= Len(Rec)
         /\ l' = l + 1
         /\ (TReset \/ TDerive \/ TParse \/ TMaddr)

TSpec == TInit /\ [][TNext]_tvars

Accepted ==
  LET d == TLCGet("stats").diameter IN
  IF d - 1 = Len(Rec) THEN PrintT(<<"TRACE_OK", Len(Rec)>>)
  ELSE PrintT(<<"TRACE_REJECTED_AT", d>>) /\ FALSE
=============================================================================
