-------------------------- MODULE ConnLifeNetTrace --------------------------
(* Trace validation of executions of real two-node litep2p networks          *)
(* (harness bin `connlife`) against the property monitor of ConnLifeNet.tla. *)
(* Every line is consumed; a broken rule is printed as <<"BAD", line, rule>> *)
(* and forgiven (see ConnLifeNet!Forgive) so that validation continues.      *)
EXTENDS ConnLifeNet, Json, IOUtils

Rec == ndJsonDeserialize(IOEnv.TRACE)

VARIABLES l, mon
tvars == <<l, mon>>

NoProtos == [A |-> <<>>, B |-> <<>>]

TInit == l = 1 /\ mon = MonInit(NoProtos)

TNext ==
  /\ l <= Len(Rec)
  /\ l' = l + 1
  /\ LET r == Rec[l] IN
     IF r.e = "reset" THEN mon' = MonInit(r.protos)
     ELSE LET m == MonEv(mon, r) IN
          /\ mon' = Forgive(m)
          /\ (m.bad # "" => PrintT(<<"BAD", l, m.bad>>))

TSpec == TInit /\ [][TNext]_tvars

Accepted ==
  LET d == TLCGet("stats").diameter IN
  IF d - 1 = Len(Rec) THEN PrintT(<<"TRACE_OK", Len(Rec)>>)
  ELSE PrintT(<<"TRACE_REJECTED_AT", d>>) /\ FALSE
=============================================================================
