---------------------------- MODULE ReqRespTrace ----------------------------
(* Validation of executions recorded from networks of real litep2p nodes     *)
(* (harness bin `reqresp`) against the property monitor of ReqResp.tla.      *)
(* One NDJSON line per command given / event observed by a user task, in an   *)
(* order consistent with causality; `reset` starts a new network.  A broken   *)
(* rule is printed as <<"BAD", line, rule>>, forgiven, and validation goes on *)
(* so that every network is judged and one defect does not hide another.      *)
EXTENDS ReqResp, Json, IOUtils

Rec == ndJsonDeserialize(IOEnv.TRACE)

VARIABLES l, mon
tvars == <<l, mon>>

Feed(M, r) ==
  CASE r.e = "reset"   -> WithC04(MonInit(r.maxc), r.c04)
    [] r.e = "issue"   -> MonIssue(M, r.o, r.n, r.to, r.h)
    [] r.e = "issued"  -> MonIssued(M, r.o, r.n, r.rid, r.ok)
    [] r.e = "cancel"  -> MonCancel(M, r.o, r.rid)
    [] r.e = "resp"    -> MonResp(M, r.o, r.rid, r.h)
    [] r.e = "fail"    -> MonFailEv(M, r.o, r.rid)
    [] r.e = "recv"    -> MonRecv(M, r.o, r.from, r.irid, r.n, r.h)
    [] r.e = "answer"  -> MonAnswerFb(M, r.o, r.irid, r.h, r.fb)
    [] r.e = "sent"    -> MonSent(M, r.o, r.irid, r.ok)
    [] r.e = "reject"  -> MonReject(M, r.o, r.irid)
    [] r.e = "kill"    -> MonKill(M, r.o)
    [] r.e = "quiesce" -> MonQuiesce(M)
    [] OTHER           -> M      \* conn / cut / closed / panic lines are informational

TInit == l = 1 /\ mon = MonInit(<<>>)

TNext == /\ l <= Len(Rec)
         /\ l' = l + 1
         /\ LET m == Feed(mon, Rec[l]) IN
              /\ mon' = Forgive(m)
              /\ (m.bad # "" => PrintT(<<"BAD", l, m.bad>>))

TSpec == TInit /\ [][TNext]_tvars

Accepted ==
  LET d == TLCGet("stats").diameter IN
  IF d - 1 = Len(Rec) THEN PrintT(<<"TRACE_OK", Len(Rec)>>)
  ELSE PrintT(<<"TRACE_REJECTED_AT", d>>) /\ FALSE
=============================================================================
