------------------------------- MODULE ConnMgr -------------------------------
(***************************************************************************)
(* Connection manager of litep2p (src/transport/manager/{mod,peer_state,   *)
(* limits,handle}.rs) against a legal transport.                           *)
(*                                                                         *)
(* Part 1 (Mon operators): the property-level monitor for C05 (every dial attempt   *)
(* ends in exactly one outcome, no wedge, no panic) and C06 (connection    *)
(* caps), over observable things only: API calls and returns, calls the    *)
(* manager makes on the transport, events the manager reports.  It is the  *)
(* most liberal reading of the property statements.  The same operators    *)
(* drive the monitor inside the bounded model (ConnMgrMC) and the trace    *)
(* validation of executions of the real TransportManager (ConnMgrTrace).   *)
(*                                                                         *)
(* Part 2 (in ConnMgrMC): the implementation-shaped model, one action per  *)
(* handler of TransportManager::next()/dial()/dial_address().              *)
(***************************************************************************)
EXTENDS Naturals, Integers, Sequences, FiniteSets, TLC

NoLimit == -1

-----------------------------------------------------------------------------
(* Monitor state:
     att   : function cid -> [st, peer, addrs, by]   dial attempts
               st \in {"open","ok","failed","cancelled","superseded"}
     acc   : set of [cid, peer, dir]   connections the manager accepted and
             that have not closed (what C06 counts)
     cand  : function cid -> [peer, dir] connections announced by the
             transport as negotiated and not yet accepted/rejected
     annc  : set of cids reported to the user as established
     stim  : the stimulus being processed
     maxIn, maxOut
     bad   : "" or the rule that was broken                               *)

MonInit(maxIn, maxOut) ==
  [att |-> <<>>, acc |-> {}, cand |-> <<>>, annc |-> {}, pin |-> {}, stim |-> [a |-> "none"],
   newAtt |-> FALSE, accepted |-> FALSE, protoFail |-> FALSE, hf |-> {}, pf |-> {}, maxIn |-> maxIn, maxOut |-> maxOut, bad |-> "", taint |-> {}]

Fail(M, why) == IF M.bad = "" THEN [M EXCEPT !.bad = why] ELSE M
\* Trace validation keeps going after a broken rule: the rule is reported, `bad` is cleared and the
\* peers whose bookkeeping can no longer be trusted are tainted (no further dial rules for them),
\* so that one defect is reported once and does not hide independent ones.
Tainted(M, p) == p \in M.taint

AccOf(M, dir) == {x \in M.acc : x.dir = dir}
AccPeer(M, p) == {x \in M.acc : x.peer = p}
OpenAtt(M, p) == {c \in DOMAIN M.att : M.att[c].peer = p /\ M.att[c].st \in {"open", "cancelled"}}
Below(n, max) == max = NoLimit \/ n < max

\* a new stimulus (environment or API input)
MonStim(M, s) ==
  LET M1 == [M EXCEPT !.stim = s, !.newAtt = FALSE, !.accepted = FALSE, !.protoFail = FALSE, !.hf = {}, !.pf = {}] IN
  CASE s.a \in {"established", "in_est"} ->
         [M1 EXCEPT !.cand = (s.c :> [peer |-> s.p, dir |-> s.dir]) @@ @]
    [] s.a = "inbound" -> [M1 EXCEPT !.pin = @ \cup {s.c}]
    [] s.a \in {"closed", "accept_err"} ->
         \* a counted connection ends: capacity is released now
         [M1 EXCEPT !.acc = {x \in @ : x.cid # s.c}]
    [] OTHER -> M1

\* the transport a call was made on ("t" when the trace does not say)
CallTr(c) == IF "tr" \in DOMAIN c THEN c.tr ELSE "t"

\* a call the manager makes on the transport while handling the stimulus
MonCall(M, c) ==
  CASE c.c \in {"dial", "open"} ->
         \* a dial by peer id hands the same attempt to several transports: one open() per
         \* transport within the same request, each with its share of the addresses
         IF c.cid \in DOMAIN M.att THEN
              IF c.c = "open" /\ M.newAtt /\ M.att[c.cid].st = "open" /\ "p" \in DOMAIN M.stim /\ M.att[c.cid].peer = M.stim.p
                 /\ CallTr(c) \notin M.att[c.cid].trs
                THEN [M EXCEPT !.att[c.cid].addrs = @ \o c.addrs, !.att[c.cid].trs = @ \cup {CallTr(c)}]
                ELSE Fail(M, "attempt id reused")
         ELSE IF M.stim.a \notin {"dial", "dial_addr", "hdial", "hdial_addr", "probe"} THEN Fail(M, "dial without request")
         ELSE \* a fresh attempt for a tainted peer shows the peer is not wedged: trust it again,
              \* its already reported attempts are closed in the ledger
              LET p == M.stim.p
                  old == [d \in DOMAIN M.att |->
                            IF Tainted(M, p) /\ M.att[d].peer = p /\ M.att[d].st \in {"open", "cancelled"}
                              THEN [M.att[d] EXCEPT !.st = "reported"] ELSE M.att[d]] IN
              [M EXCEPT !.att = (c.cid :> [st |-> "open", peer |-> p, addrs |-> c.addrs, by |-> -1, trs |-> {CallTr(c)},
                                                     h |-> M.stim.a \in {"hdial", "hdial_addr"}]) @@ old,
                        !.newAtt = TRUE, !.taint = @ \ {p}]
    [] c.c = "cancel" ->
         IF c.cid \in DOMAIN M.att /\ M.att[c.cid].st = "open"
           THEN \* an opening attempt may only be abandoned in favour of a connection with that
                \* peer that is being accepted in this very step
                IF M.stim.a \in {"established", "in_est"} /\ M.stim.p = M.att[c.cid].peer
                  THEN [M EXCEPT !.att[c.cid].st = "cancelled", !.att[c.cid].by = M.stim.c]
                  ELSE IF M.stim.a = "opened" /\ M.stim.c = c.cid THEN M   \* cancel of the sibling transports, no-op
                  ELSE Fail(M, "attempt cancelled without a winning connection")
           ELSE M
    [] c.c = "accept" ->
         IF "ok" \in DOMAIN c /\ c.ok = FALSE THEN M      \* the transport refused the call: nothing is kept
         ELSE IF c.cid \notin DOMAIN M.cand THEN Fail(M, "accept of unknown connection")
         ELSE LET x == [cid |-> c.cid, peer |-> M.cand[c.cid].peer, dir |-> M.cand[c.cid].dir]
                  M1 == [M EXCEPT !.acc = @ \cup {x}, !.accepted = TRUE] IN
              \* C06 caps, evaluated on what the manager keeps
              IF Cardinality(AccPeer(M1, x.peer)) > 2 THEN Fail(M1, "more than two connections per peer")
              ELSE IF x.dir = "in" /\ ~(M.maxIn = NoLimit \/ Cardinality(AccOf(M1, "in")) <= M.maxIn)
                THEN Fail(M1, "incoming limit exceeded")
              ELSE IF x.dir = "out" /\ ~(M.maxOut = NoLimit \/ Cardinality(AccOf(M1, "out")) <= M.maxOut)
                THEN Fail(M1, "outgoing limit exceeded")
              ELSE M1
    [] c.c = "reject" -> M
    [] c.c = "accept_pending" -> [M EXCEPT !.pin = @ \ {c.cid}]
    [] c.c = "reject_pending" ->
         \* a pending inbound socket may only be refused when the incoming limit is reached
         IF Below(Cardinality(AccOf(M, "in")), M.maxIn)
           THEN Fail(M, "pending inbound refused below the incoming limit")
           ELSE [M EXCEPT !.pin = @ \ {c.cid}]
    [] OTHER -> M

\* an event the manager reports to the user (returned from next())
MonEvent(M, e) ==
  CASE e.k = "est" ->
         LET M1 == [M EXCEPT !.annc = @ \cup {e.cid}] IN
         LET M2 == IF e.cid \in DOMAIN M1.att
                     THEN IF M1.att[e.cid].st = "open" \/ Tainted(M1, M1.att[e.cid].peer) THEN [M1 EXCEPT !.att[e.cid].st = "ok"]
                          ELSE Fail(M1, "connection reported for an attempt that already had an outcome")
                     ELSE M1 IN
         \* attempts abandoned in favour of this connection are now settled
         [M2 EXCEPT !.att = [c \in DOMAIN @ |->
              IF @[c].st = "cancelled" /\ @[c].by = e.cid THEN [@[c] EXCEPT !.st = "superseded"] ELSE @[c]]]
    [] e.k \in {"dial_failure", "open_failure"} ->
         IF e.cid \notin DOMAIN M.att THEN Fail(M, "failure reported for unknown attempt")
         ELSE IF Tainted(M, M.att[e.cid].peer) THEN M
         ELSE IF M.att[e.cid].st # "open" THEN Fail(M, "second outcome for one attempt")
         ELSE IF ~(\A i \in 1..Len(e.addrs) : \E j \in 1..Len(M.att[e.cid].addrs) : e.addrs[i] = M.att[e.cid].addrs[j])
           THEN Fail(M, "failure names an address that was not dialed")
         ELSE IF e.k = "dial_failure" /\ Len(e.addrs) # 1 THEN Fail(M, "failure names no address")
         \* a failed attempt that a protocol asked for is owed to the protocols as a dial failure
         ELSE [M EXCEPT !.att[e.cid].st = "failed",
                        !.hf = IF M.att[e.cid].h THEN @ \cup {M.att[e.cid].peer} ELSE @]
    [] e.k = "closed" -> M
    \* the requesting protocol was told that the dial it asked for failed
    [] e.k = "proto_dial_failure" ->
         LET M1 == [M EXCEPT !.pf = @ \cup {e.peer}] IN
         IF "p" \in DOMAIN M.stim /\ e.peer = M.stim.p THEN [M1 EXCEPT !.protoFail = TRUE] ELSE M1
    [] OTHER -> M

\* end of the handling of one stimulus: `ret` is the API result ("ok", "err", "none"),
\* ncalls the number of dial/open calls made, panic whether the code panicked
MonEnd(M, ret, panic) ==
  LET s == M.stim IN
  IF panic THEN Fail(M, "panic")
  \* the failure of a dial that a protocol requested is reported to the protocols in the same handler,
  \* also when the protocol's inbox was full at that moment (the report waits for room)
  ELSE IF \E p \in M.hf : p \notin M.pf /\ ~Tainted(M, p)
    THEN Fail(M, "protocol not told that the dial it requested failed")
  ELSE IF s.a \in {"dial", "dial_addr", "hdial", "hdial_addr"} /\ ~Tainted(M, s.p) /\ ret = "ok" /\ OpenAtt(M, s.p) = {}
          /\ ~(\E c \in DOMAIN M.cand : M.cand[c].peer = s.p) /\ AccPeer(M, s.p) = {}
          \* a protocol-initiated request may also be answered at once by a dial failure
          /\ ~(s.a \in {"hdial", "hdial_addr"} /\ M.protoFail)
    THEN Fail(M, "dial accepted but nothing is being attempted")
  \* C06: the outgoing limit may only refuse a dial when it is actually reached
  ELSE IF s.a \in {"dial", "dial_addr", "probe"} /\ ret = "limit" /\ Below(Cardinality(AccOf(M, "out")), M.maxOut)
    THEN Fail(M, "dial refused by the outgoing limit although below it")
  \* wedge probe: issued only at quiescence for a peer without a connection, after a fresh
  \* address was added; it must really start an attempt unless the outgoing limit is reached
  ELSE IF s.a = "probe" /\ ~Tainted(M, s.p) /\ Below(Cardinality(AccOf(M, "out")), M.maxOut) /\ ~M.newAtt
    THEN Fail(M, "wedge: peer without connection cannot be dialed again")
  \* C06: below the limits a connection from a peer we are not connected to is accepted
  ELSE IF s.a \in {"established", "in_est"} /\ ~M.accepted /\ ~s.mismatch /\ ~("lost" \in DOMAIN s /\ s.lost)
          /\ AccPeer(M, s.p) = {}
          /\ (s.dir = "in" => Below(Cardinality(AccOf(M, "in")), M.maxIn))
          /\ (s.dir = "out" => Below(Cardinality(AccOf(M, "out")), M.maxOut))
    THEN Fail(M, "connection refused although below the limits")
  ELSE M

\* the environment has nothing outstanding and the manager is idle
MonQuiesce(M) ==
  IF \E c \in DOMAIN M.att : M.att[c].st \in {"open", "cancelled"} /\ ~Tainted(M, M.att[c].peer)
    THEN Fail(M, "silence: a dial attempt never got an outcome")
    ELSE M

\* peers involved in the rule that was just broken
Involved(M) ==
  IF M.bad = "silence: a dial attempt never got an outcome"
    THEN {M.att[c].peer : c \in {d \in DOMAIN M.att : M.att[d].st \in {"open", "cancelled"}}}
  ELSE IF M.bad = "dial accepted but nothing is being attempted" /\ M.stim.a \in {"hdial", "hdial_addr"} THEN {}
  ELSE IF "p" \in DOMAIN M.stim THEN {M.stim.p} ELSE {}
Forgive(M) == IF M.bad = "" THEN M ELSE [M EXCEPT !.bad = "", !.taint = @ \cup Involved(M)]
=============================================================================
