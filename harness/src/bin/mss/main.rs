//! C03 conformance harness: multistream-select negotiations of the real code (litep2p, and the
//! reference crate `multistream-select 0.13` as the peer) under scripted / seeded-random io
//! schedules; records the observable events as NDJSON for TLC trace validation
//! (`spec/MultistreamTrace.tla`).
//!
//!   mss --jobs <jsonl> [--random N] [--random-msg M] --seed S --threads T --out <ndjson>
mod duplex;
mod msg;
mod stream;

use duplex::Op;
use rand::{rngs::StdRng, seq::SliceRandom, Rng, SeedableRng};
use serde_json::{json, Value};
use vharness::*;

enum AnyJob {
    Stream(stream::Job),
    Msg(msg::MsgJob),
}

fn strs(v: &Value) -> Vec<String> {
    v.as_array().map(|a| a.iter().map(|x| x.as_str().unwrap().to_string()).collect()).unwrap_or_default()
}
fn bytes(v: &Value) -> Vec<u8> {
    v.as_array().map(|a| a.iter().map(|x| x.as_u64().unwrap() as u8).collect()).unwrap_or_default()
}

fn parse_job(v: &Value, fault: &str) -> Vec<AnyJob> {
    if v["variant"] == "msg" {
        return vec![AnyJob::Msg(msg::MsgJob {
            dlist: strs(&v["dlist"]),
            lset: strs(&v["lset"]),
            ops: v["ops"]
                .as_array()
                .map(|a| a.iter().map(|o| (o["a"].as_str().unwrap().to_string(), o["g"].as_u64().unwrap() as usize)).collect())
                .unwrap_or_default(),
            seed: v["seed"].as_u64().unwrap_or(0),
            fault: fault.to_string(),
        })];
    }
    // "pairs": ["lite-lite", "lite-ref", ...] expands one behaviour into one job per pairing
    let pairs: Vec<(String, String)> = match v["pairs"].as_array() {
        Some(a) => a
            .iter()
            .map(|x| {
                let (d, l) = x.as_str().unwrap().split_once('-').unwrap();
                (d.to_string(), l.to_string())
            })
            .collect(),
        None => vec![(v["dimpl"].as_str().unwrap_or("lite").to_string(), v["limpl"].as_str().unwrap_or("lite").to_string())],
    };
    pairs.into_iter().map(|(dimpl, limpl)| AnyJob::Stream(stream::Job {
        dlist: strs(&v["dlist"]),
        lset: strs(&v["lset"]),
        lazy: v["lazy"].as_bool().unwrap_or(false),
        dpay: bytes(&v["dpay"]),
        lpay: bytes(&v["lpay"]),
        // a buffering carrier only ever sits on a litep2p side
        dbuf: v["dbuf"].as_bool().unwrap_or(false) && dimpl == "lite",
        lbuf: v["lbuf"].as_bool().unwrap_or(false) && limpl == "lite",
        dimpl,
        limpl,
        ops: v["ops"]
            .as_array()
            .map(|a| {
                a.iter()
                    .map(|o| Op {
                        side: if o["s"] == "d" { 0 } else { 1 },
                        kind: if o["op"] == "rd" { duplex::RD } else if o["op"] == "wr" { duplex::WR } else { duplex::FL },
                        n: o["n"].as_u64().unwrap() as usize,
                    })
                    .collect()
            })
            .unwrap_or_default(),
        seed: v["seed"].as_u64().unwrap_or(0),
        cap: v["cap"].as_u64().unwrap_or(2) as usize,
        p_pend: v["p_pend"].as_f64().unwrap_or(0.0),
        fault: fault.to_string(),
    })).collect()
}

fn job_json(j: &AnyJob) -> Value {
    match j {
        AnyJob::Stream(j) => json!({"variant": "stream", "dlist": j.dlist, "lset": j.lset, "lazy": j.lazy, "dpay": j.dpay, "lpay": j.lpay,
            "dimpl": j.dimpl, "limpl": j.limpl, "dbuf": j.dbuf, "lbuf": j.lbuf, "seed": j.seed, "cap": j.cap, "p_pend": j.p_pend,
            "ops": j.ops.iter().map(|o| json!({"s": if o.side == 0 { "d" } else { "l" }, "op": (["rd", "wr", "fl"][o.kind as usize]), "n": o.n})).collect::<Vec<_>>()}),
        AnyJob::Msg(j) => json!({"variant": "msg", "dlist": j.dlist, "lset": j.lset, "seed": j.seed,
            "ops": j.ops.iter().map(|(a, g)| json!({"a": a, "g": g})).collect::<Vec<_>>()}),
    }
}

/// Name pool for the random runs: nested names, fallback-style versions, names whose frame
/// needs a two-byte length prefix (>= 127 bytes), names resembling the protocol's own
/// keywords, non-ASCII, and (rarely) the longest name that fits a frame.
fn name_pool(rng: &mut StdRng) -> Vec<String> {
    let mut v: Vec<String> = [
        "/a", "/a/b", "/a/b/c", "/b", "/proto/1.0.0", "/proto/2.0.0", "/proto/2", "/ipfs/kad/1.0.0", "/ipfs/id/1.0.0",
        "/ipfs/id/push/1.0.0", "/na", "/ls", "/multistream/1.0.1", "/multistream/1.0.0/x", "/", "//", "/\u{e9}t\u{e9}/1",
        "/dot/sync/2", "/dot/sync/1", "/noise", "/yamux/1.0.0",
    ]
    .iter()
    .map(|s| s.to_string())
    .collect();
    for n in [125usize, 126, 127, 128, 300] {
        v.push(format!("/{}", "x".repeat(n - 1)));
    }
    if rng.gen_range(0..50) == 0 {
        v.push(format!("/{}", "y".repeat(16381)));
    }
    v
}

fn random_payload(rng: &mut StdRng, safe: bool) -> Vec<u8> {
    let n = match rng.gen_range(0..6) {
        0 => 0,
        1 => 1,
        2 => rng.gen_range(2..8),
        3 => rng.gen_range(8..64),
        4 => rng.gen_range(64..400),
        _ => rng.gen_range(0..4),
    };
    if !safe && rng.gen_range(0..4) == 0 {
        // bytes that look like multistream frames
        let pick: [&[u8]; 5] = [b"\x03na\n", b"\x03ls\n", b"\x13/multistream/1.0.0\n", b"\x03/a\n", b"\x05/a/b\n"];
        let mut out = vec![];
        for _ in 0..rng.gen_range(1..4) {
            out.extend_from_slice(pick[rng.gen_range(0..pick.len())]);
        }
        return out;
    }
    (0..n)
        .map(|_| loop {
            let b: u8 = if rng.gen_bool(0.5) { rng.gen_range(0..8) } else { rng.gen() };
            if !safe || (b != b'/' && b != b'\n') {
                break b;
            }
        })
        .collect()
}

fn random_stream_job(rng: &mut StdRng, fault: &str) -> stream::Job {
    let pool = name_pool(rng);
    let dl = match rng.gen_range(0..10) {
        0 => 0,
        1..=3 => 1,
        4..=6 => 2,
        7..=8 => 3,
        _ => rng.gen_range(4..9),
    };
    let mut dlist: Vec<String> = (0..dl).map(|_| pool.choose(rng).unwrap().clone()).collect();
    if rng.gen_range(0..4) != 0 {
        dlist.dedup();
    }
    let ll = rng.gen_range(0..6);
    let mut lset: Vec<String> = (0..ll).map(|_| pool.choose(rng).unwrap().clone()).collect();
    // bias towards a non-first common name
    if !dlist.is_empty() && rng.gen_bool(0.5) {
        lset.push(dlist[rng.gen_range(0..dlist.len())].clone());
    }
    lset.shuffle(rng);
    let lazy = rng.gen_bool(0.4);
    let common = dlist.iter().any(|n| lset.contains(n));
    let (dimpl, limpl) = match rng.gen_range(0..5) {
        0 | 1 => ("lite", "lite"),
        2 => ("lite", "ref"),
        3 => ("ref", "lite"),
        _ => ("lite", "lite"),
    };
    stream::Job {
        dpay: random_payload(rng, lazy && !common),
        lpay: random_payload(rng, false),
        dlist,
        lset,
        lazy,
        // carrier flush semantics: write-through, or buffers-until-flush on a litep2p side
        dbuf: dimpl == "lite" && rng.gen_bool(0.5),
        lbuf: limpl == "lite" && rng.gen_bool(0.5),
        dimpl: dimpl.into(),
        limpl: limpl.into(),
        ops: vec![],
        seed: rng.gen(),
        cap: *[1usize, 2, 3, 16, 64, 1024].choose(rng).unwrap(),
        p_pend: *[0.0, 0.1, 0.3, 0.6].choose(rng).unwrap(),
        fault: fault.to_string(),
    }
}

fn random_msg_job(rng: &mut StdRng, fault: &str) -> msg::MsgJob {
    // header + proposal travel in one message that must fit MAX_FRAME_SIZE: no 16 KiB name here
    let pool: Vec<String> = name_pool(rng).into_iter().filter(|n| n.len() < 16000).collect();
    let dl = rng.gen_range(1..5);
    let mut dlist: Vec<String> = (0..dl).map(|_| pool.choose(rng).unwrap().clone()).collect();
    dlist.dedup();
    let ll = rng.gen_range(0..5);
    let mut lset: Vec<String> = (0..ll).map(|_| pool.choose(rng).unwrap().clone()).collect();
    if rng.gen_bool(0.5) {
        lset.push(dlist[rng.gen_range(0..dlist.len())].clone());
    }
    lset.shuffle(rng);
    msg::MsgJob { dlist, lset, ops: vec![], seed: rng.gen(), fault: fault.to_string() }
}

struct Done {
    lines: Vec<String>,
    drift: Option<String>,
    kind: String,
    scripted: bool,
    script_done: usize,
    script_len: usize,
    io_ops: u64,
    polls: u64,
}

fn exec(j: &AnyJob) -> Done {
    match j {
        AnyJob::Stream(job) => {
            let o = stream::run(job);
            Done {
                lines: o.lines,
                drift: o.drift,
                kind: format!(
                    "stream:{}-{}{}{}",
                    job.dimpl,
                    job.limpl,
                    if job.lazy { ":lazy" } else { "" },
                    match (job.dbuf, job.lbuf) {
                        (false, false) => "",
                        (true, false) => ":buf-d",
                        (false, true) => ":buf-l",
                        (true, true) => ":buf-dl",
                    }
                ),
                scripted: !job.ops.is_empty(),
                script_done: o.script_done,
                script_len: o.script_len,
                io_ops: o.io_ops,
                polls: o.polls,
            }
        }
        AnyJob::Msg(job) => {
            let o = msg::run(job);
            Done {
                lines: o.lines,
                drift: o.drift,
                kind: "msg:lite-lite".into(),
                scripted: !job.ops.is_empty(),
                script_done: job.ops.len(),
                script_len: job.ops.len(),
                io_ops: o.steps,
                polls: o.steps,
            }
        }
    }
}

fn main() {
    let args = Args::parse();
    quiet_panics();
    let fault = std::env::var("VERIF_FAULT").unwrap_or_default();
    let seed = args.u64("seed", 1);
    let mut jobs: Vec<AnyJob> = vec![];
    if let Some(p) = args.get("jobs") {
        for v in read_jsonl(p) {
            jobs.extend(parse_job(&v, &fault));
        }
    }
    let mut rng = StdRng::seed_from_u64(seed ^ 0xC03);
    for _ in 0..args.u64("random", 0) {
        jobs.push(AnyJob::Stream(random_stream_job(&mut rng, &fault)));
    }
    for _ in 0..args.u64("random-msg", 0) {
        jobs.push(AnyJob::Msg(random_msg_job(&mut rng, &fault)));
    }
    if let Some(p) = args.get("jobs-out") {
        write_lines(p, &jobs.iter().map(|j| job_json(j).to_string()).collect::<Vec<_>>());
    }
    let threads = args.u64("threads", 8).max(1) as usize;
    let n = jobs.len();
    let chunk = n.div_ceil(threads).max(1);
    let mut results: Vec<Vec<Done>> = vec![];
    std::thread::scope(|sc| {
        let hs: Vec<_> = jobs
            .chunks(chunk)
            .map(|c| {
                std::thread::Builder::new()
                    .stack_size(16 << 20)
                    .spawn_scoped(sc, move || {
                        c.iter().map(exec).collect::<Vec<_>>()
                    })
                    .unwrap()
            })
            .collect();
        for h in hs {
            results.push(h.join().expect("worker"));
        }
    });
    let mut lines = vec![];
    let mut by_kind: std::collections::BTreeMap<String, (u64, u64, u64)> = Default::default();
    let mut drift_examples = vec![];
    let (mut events, mut io_ops, mut polls, mut script_ops) = (0u64, 0u64, 0u64, 0u64);
    for d in results.into_iter().flatten() {
        let e = by_kind.entry(d.kind.clone()).or_default();
        e.0 += 1;
        if d.scripted {
            e.1 += 1;
            script_ops += d.script_done as u64;
            if let Some(w) = &d.drift {
                e.2 += 1;
                if drift_examples.len() < 5 {
                    drift_examples.push(json!({"kind": d.kind, "why": w, "script_len": d.script_len, "cfg": serde_json::from_str::<Value>(&d.lines[0]).unwrap()}));
                }
            }
        }
        events += d.lines.len() as u64 - 1;
        io_ops += d.io_ops;
        polls += d.polls;
        lines.extend(d.lines);
    }
    write_lines(&args.str("out", "trace.ndjson"), &lines);
    let kinds: Value = by_kind
        .iter()
        .map(|(k, (n, s, d))| (k.clone(), json!({"executions": n, "scripted": s, "drifted": d})))
        .collect::<serde_json::Map<_, _>>()
        .into();
    println!(
        "SUMMARY {}",
        json!({"executions": n, "events": events, "io_ops": io_ops, "polls": polls, "script_ops_in_lockstep": script_ops,
               "by_kind": kinds, "drift_examples": drift_examples})
    );
}
