----------------------------- MODULE NotifStream -----------------------------
(***************************************************************************)
(* C12 - data plane of a notification stream, one direction (sender ->      *)
(* receiver), both sending modes.  Property-level ledger: what the sender's  *)
(* user got accepted (per mode, in sending order, tagged with the open       *)
(* period of the sender), what the receiver's user was handed.               *)
(*                                                                         *)
(*   AtMostOnce / InOrderPerMode : the deliveries of one mode are a          *)
(*        subsequence of the accepted sequence of that mode (each accepted   *)
(*        notification at most once, in sending order);                     *)
(*   NoGapWithinPeriod : when a notification of period p is delivered, no    *)
(*        earlier accepted notification of the same mode and period p was    *)
(*        skipped (what a period delivers is a contiguous prefix of what it  *)
(*        accepted; a closed stream may lose a tail, never the middle);      *)
(*   OversizeNeverDelivered : nothing longer than max_notification_size;     *)
(*   SyncNeverBlocks : the synchronous send returns at once; it reports      *)
(*        ChannelClogged only if the channel can be full (at least           *)
(*        `sync capacity` notifications accepted in this period);            *)
(*   AsyncWaits : an asynchronous send fails only when the stream ended;     *)
(*        having returned Ok it was queued (so it falls under NoGap);        *)
(*   NoLoss : a stream still open on both sides at (stable) quiescence has   *)
(*        delivered everything it accepted.                                 *)
(* The operators are used by the bounded model (NotifStreamMC) and by the    *)
(* validation of logs of real nodes (NotifStreamTrace).                      *)
(***************************************************************************)
EXTENDS Naturals, Sequences, FiniteSets, TLC

Modes == {"s", "a"}

DInit(syncCap, asyncCap, max) ==
  [acc |-> [m \in Modes |-> <<>>],      \* accepted, deliverable: <<per, n>>
   last |-> [m \in Modes |-> 0],        \* index in acc[m] of the last delivery of mode m
   ndlv |-> 0,
   accTiny |-> 0, dlvTiny |-> 0,        \* notifications too short to carry an identity (length 0 or 1): they stand in
   dlvA |-> [l \in {0, 1} |-> 0],       \* acc[m] as anonymous tokens <<per, 0, len>>; deliveries are counted per length
   inPer |-> 0,                         \* synchronous notifications accepted in the sender's current period
   holdGen |-> 0, okHold |-> 0,         \* synchronous notifications accepted during the current hold of the sender's
                                        \* Connection tasks (an adversarial scheduler: no consumer of the channel runs)
   per |-> 0, sopen |-> FALSE,          \* sender's current period
   asyncErr |-> FALSE,                  \* an asynchronous send failed in the current period
   syncCap |-> syncCap, asyncCap |-> asyncCap, max |-> max, bad |-> ""]

Fail(D, why) == IF D.bad = "" THEN [D EXCEPT !.bad = why] ELSE D

\* sender's user: stream opened / closed in its view
POpened(D, per) == [D EXCEPT !.per = per, !.sopen = TRUE, !.inPer = 0, !.asyncErr = FALSE, !.okHold = 0]
PClosed(D) == [D EXCEPT !.sopen = FALSE, !.asyncErr = FALSE]

\* one send call with its result; w = milliseconds the call took; len = payload length;
\* idn = TRUE when the payload carries (mode, period, n)
PSend(D, m, per, n, len, r, w, idn) ==
  LET D1 == IF m = "s" /\ w > 10000 THEN Fail(D, "synchronous send blocked") ELSE D IN
  IF r = "ok" THEN
       IF len > D.max THEN [D1 EXCEPT !.inPer = IF m = "s" THEN @ + 1 ELSE @]   \* accepted into the channel, must never arrive
       ELSE IF ~idn THEN [D1 EXCEPT !.accTiny = @ + 1, !.inPer = IF m = "s" THEN @ + 1 ELSE @, !.acc[m] = Append(@, <<per, 0, len>>)]
       ELSE [D1 EXCEPT !.acc[m] = Append(@, <<per, n>>), !.inPer = IF m = "s" THEN @ + 1 ELSE @]
  ELSE IF r = "clogged" THEN
       IF m # "s" THEN Fail(D1, "asynchronous send reported a clogged channel")
       ELSE IF D.sopen /\ per = D.per /\ D.inPer < D.syncCap THEN Fail(D1, "clogged although the synchronous channel cannot be full")
       ELSE D1
  ELSE IF m = "a" /\ r = "err" THEN [D1 EXCEPT !.asyncErr = TRUE]
  ELSE D1

\* hg = generation of the hold of the sender's Connection tasks the call was made in (0 = not held): while a
\* hold lasts nothing is taken out of the synchronous channel, so it cannot accept more than its capacity - a
\* synchronous send that returns Ok beyond that was not queued (Sync clause: "reports a clogged channel instead")
PSendH(D0, m, per, n, len, r, w, idn, hg) ==
  LET D == IF m = "s" /\ hg # D0.holdGen THEN [D0 EXCEPT !.holdGen = hg, !.okHold = 0] ELSE D0
      DH == IF m = "s" /\ r = "ok" /\ hg # 0 THEN
                 IF D.okHold >= D.syncCap THEN Fail(D, "synchronous send accepted although the full channel had no consumer")
                 ELSE [D EXCEPT !.okHold = @ + 1]
            ELSE D IN
  PSend(DH, m, per, n, len, r, w, idn)

\* index of the first occurrence of x in s after position k (0 if none)
FindAfter(s, x, k) == IF \E i \in (k + 1)..Len(s) : s[i] = x THEN CHOOSE i \in (k + 1)..Len(s) : s[i] = x /\ \A j \in (k + 1)..(i - 1) : s[j] # x ELSE 0

\* the receiver's user is handed a notification
PDeliver(D, m, per, n, len, intact, idn) ==
  IF len > D.max THEN Fail(D, "notification larger than the maximum delivered")
  ELSE IF ~idn THEN
       IF D.dlvTiny + 1 > D.accTiny \/ len > 1 THEN Fail(D, "delivered a notification that was never accepted")
       ELSE [D EXCEPT !.dlvTiny = @ + 1, !.ndlv = @ + 1, !.dlvA[len] = @ + 1]
  ELSE IF ~intact THEN Fail(D, "delivered a corrupted notification")
  ELSE LET i == FindAfter(D.acc[m], <<per, n>>, D.last[m]) IN
       IF i = 0 THEN
            IF \E j \in 1..D.last[m] : D.acc[m][j] = <<per, n>>
              THEN (IF D.acc[m][D.last[m]] = <<per, n>> THEN Fail(D, "notification delivered twice") ELSE Fail(D, "notifications delivered out of order"))
              ELSE Fail(D, "delivered a notification that was never accepted")
       ELSE IF \E j \in (D.last[m] + 1)..(i - 1) : D.acc[m][j][1] = per /\ D.acc[m][j][2] # 0
              THEN Fail([D EXCEPT !.last[m] = i], "notification skipped within an open period")
       \* anonymous (empty / one-byte) notifications accepted earlier in this mode and period must have been delivered
       \* before: deliveries of one mode are in order, so at least that many of that length were handed over so far
       ELSE IF \E l \in {0, 1} : Cardinality({j \in 1..(i - 1) : D.acc[m][j] = <<per, 0, l>>}) > D.dlvA[l]
              THEN Fail([D EXCEPT !.last[m] = i], "empty notification skipped within an open period")
       ELSE [D EXCEPT !.last[m] = i, !.ndlv = @ + 1]

\* end of the run; bothOpen = the stream of the sender's current period is still open on both
\* sides, the receiver drained its handle, and timing assumptions held
PEnd(D, bothOpen) ==
  IF ~bothOpen THEN D
  ELSE IF \E m \in Modes : \E j \in (D.last[m] + 1)..Len(D.acc[m]) : D.acc[m][j][1] = D.per /\ D.acc[m][j][2] # 0
         THEN Fail(D, "accepted notification lost although the stream stayed open")
  ELSE IF \E l \in {0, 1} : Cardinality({<<m, j>> \in Modes \X (1..(Len(D.acc["s"]) + Len(D.acc["a"]))) :
                                            j <= Len(D.acc[m]) /\ D.acc[m][j] = <<D.per, 0, l>>}) > D.dlvA[l]
         THEN Fail(D, "accepted empty notification lost although the stream stayed open")
  ELSE IF D.asyncErr THEN Fail(D, "asynchronous send failed although the stream stayed open")
  ELSE D
=============================================================================
