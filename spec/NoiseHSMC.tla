----------------------------- MODULE NoiseHSMC -----------------------------
(* The finite scenario product of NoiseHS, explored completely by TLC: for  *)
(* every scenario the symbolic handshake is executed step by step and the    *)
(* outcome is checked against the Prop layer; one behaviour per scenario is  *)
(* emitted for the conformance harness.                                      *)
EXTENDS NoiseHS, TLC, Json

CONSTANTS Chunks, RoguePayloads,
          AddrForms   \* forms of the dialed address: "ip4", "ip6", "dns", "dns4", "dns6"

Fields(k) == CASE k = 1 -> {"len", "e"}
               [] k = 2 -> {"len", "e", "encS", "encPayload", "tag"}
               [] k = 3 -> {"len", "encS", "encPayload", "tag"}
Pass == [msg |-> 0, move |-> "pass", field |-> "none"]
Moves == {Pass}
  \cup {[msg |-> k, move |-> "corrupt", field |-> f] : k \in 1..3, f \in {"len", "e", "encS", "encPayload", "tag"}}
  \cup {[msg |-> k, move |-> mv, field |-> "none"] : k \in 1..3, mv \in {"truncadj", "truncraw", "extend", "substitute", "drop"}}
  \cup {[msg |-> 3, move |-> "replay", field |-> "none"]}
ValidMove(m) == m.move = "corrupt" => m.field \in Fields(m.msg)

Scenarios ==
  {[peer |-> "honest", impl |-> "litep2p", trole |-> "both", pv |-> "none", mitm |-> m, dialed |-> "none", dialedForm |-> "none", addrForm |-> "none", chunk |-> c] :
      m \in {x \in Moves : ValidMove(x)}, c \in Chunks}
  \cup {[peer |-> "honest", impl |-> "libp2p", trole |-> r, pv |-> "none", mitm |-> m, dialed |-> "none", dialedForm |-> "none", addrForm |-> "none", chunk |-> c] :
      r \in {"dialer", "listener"}, m \in {x \in Moves : ValidMove(x)}, c \in Chunks}
  \* dialed-peer expectations: the right key / another key, each as inline and as SHA-256-form peer id,
  \* and the form of the dialed address (the acceptance rule does not depend on it: NoiseHS!Allowed never
  \* looks at addrForm -- that independence is what the conformance run checks)
  \cup {[peer |-> "honest", impl |-> "litep2p", trole |-> "dialer", pv |-> "none", mitm |-> Pass, dialed |-> dl, dialedForm |-> f, addrForm |-> af, chunk |-> "whole"] :
      dl \in {"B", "C"}, f \in {"inline", "sha256"}, af \in AddrForms}
  \cup {[peer |-> "rogue", impl |-> "snow", trole |-> r, pv |-> pv, mitm |-> Pass, dialed |-> "none", dialedForm |-> "none", addrForm |-> "none", chunk |-> c] :
      r \in {"dialer", "listener"}, pv \in RoguePayloads, c \in Chunks}

\* ---- histories: short sequences of handshakes against the same process (victim) state
HStep(r, imp, m) == [peer |-> "honest", impl |-> imp, trole |-> r, pv |-> "none", mitm |-> m, dialed |-> "none", dialedForm |-> "none", addrForm |-> "none", chunk |-> "whole"]
RStep(r, pv) == [peer |-> "rogue", impl |-> "snow", trole |-> r, pv |-> pv, mitm |-> Pass, dialed |-> "none", dialedForm |-> "none", addrForm |-> "none", chunk |-> "whole"]
\* the message that carries H's payload to the victim
PayloadMsg(r) == IF r = "dialer" THEN 2 ELSE 3
Sequences(r, imp) ==
  LET H == HStep(r, imp, Pass)
      Hbad == HStep(r, imp, [msg |-> PayloadMsg(r), move |-> "corrupt", field |-> "tag"])
      replay == RStep(r, "replayH")  bad == RStep(r, "replayHBadSig") IN
  { <<H, replay>>, <<H, H>>, <<H, bad>>, <<replay, H, replay>>, <<H, replay, H>>,
    <<H, RStep(r, "asR"), replay>>, <<Hbad, replay>>, <<H, Hbad, replay>> }
NegotiateSequences(r) ==
  LET H == HStep(r, "snowfixed", Pass)  replay == RStep(r, "replayH") IN
  { <<H, replay>>, <<H, H>>, <<replay, H, replay>>, <<H, RStep(r, "replayHBadSig"), H>> }
Histories ==
  {[route |-> "mem", steps |-> <<x>>] : x \in Scenarios}
  \cup {[route |-> "mem", steps |-> q] : q \in UNION {Sequences(r, imp) : r \in {"dialer", "listener"}, imp \in {"snowfixed", "libp2pfixed"}}}
  \cup {[route |-> "negotiate", steps |-> q] : q \in UNION {NegotiateSequences(r) : r \in {"dialer", "listener"}}}

\* memo: what the process carries from one handshake to the next (the code: nothing, see NoiseHS!MemoAfter)
VARIABLES hs, k, pc, d, l, wire, m1, memo, res
vars == <<hs, k, pc, d, l, wire, m1, memo, res>>
sc == hs.steps[k]

Init == /\ hs \in Histories
        /\ k = 1 /\ memo = {} /\ res = <<>>
        /\ pc = 0 /\ d = Ep0 /\ l = Ep0 /\ wire = NoMsg /\ m1 = NoMsg

Honest(side) == Kind(sc, side) = "honest"
\* a rogue endpoint completes Noise but verifies nothing
Finish(side, ep) == IF ep.st # "run" THEN ep ELSE IF Honest(side) THEN Verify(sc, side, ep, memo) ELSE [ep EXCEPT !.st = "ok"]
Remember(side, ep) == IF Honest(side) THEN MemoAfter(memo, ep) ELSE memo

Step ==
  \/ /\ pc = 0
     /\ LET w == Write1(sc, d) IN d' = w.ep /\ wire' = Mitm(sc, 1, w.m, w.m) /\ m1' = w.m
     /\ UNCHANGED <<l, memo, res>>
  \/ /\ pc = 1
     /\ l' = IF wire.len = "none" THEN Fail(l) ELSE Read1(sc, l, wire)
     /\ UNCHANGED <<d, wire, m1, memo, res>>
  \/ /\ pc = 2
     /\ IF l.st = "run" THEN LET w == Write2(sc, l) IN l' = w.ep /\ wire' = Mitm(sc, 2, w.m, m1)
                        ELSE l' = l /\ wire' = NoMsg
     /\ UNCHANGED <<d, m1, memo, res>>
  \/ /\ pc = 3
     /\ d' = IF wire.len = "none" THEN Fail(d) ELSE Read2(sc, d, wire)
     /\ UNCHANGED <<l, wire, m1, memo, res>>
  \/ /\ pc = 4    \* the dialer sends its payload, then verifies the listener's
     /\ IF d.st = "run" THEN LET w == Write3(sc, d) IN d' = Finish("d", w.ep) /\ wire' = Mitm(sc, 3, w.m, m1)
                        ELSE d' = d /\ wire' = NoMsg
     /\ memo' = Remember("d", d')
     /\ UNCHANGED <<l, m1, res>>
  \/ /\ pc = 5
     /\ l' = IF l.st # "run" THEN l
             ELSE IF wire.len = "none" THEN Fail(l) ELSE Finish("l", Read3(sc, l, wire))
     /\ memo' = Remember("l", l')
     /\ res' = Append(res, [dialer |-> Outcome(d), listener |-> Outcome(l')])
     /\ UNCHANGED <<d, wire, m1>>

Next == \/ pc < 6 /\ Step /\ pc' = pc + 1 /\ UNCHANGED <<hs, k>>
        \* next handshake of the history: fresh endpoints, same process state
        \/ /\ pc = 6 /\ k < Len(hs.steps)
           /\ k' = k + 1 /\ pc' = 0 /\ d' = Ep0 /\ l' = Ep0 /\ wire' = NoMsg /\ m1' = NoMsg
           /\ UNCHANGED <<hs, memo, res>>
Spec == Init /\ [][Next]_vars

Done == pc = 6
Ep(side) == IF side = "d" THEN d ELSE l
RoleOf(side) == IF side = "d" THEN "dialer" ELSE "listener"

\* the Impl layer produces only outcomes the Prop layer permits
Refines == Done => \A side \in {"d", "l"} : Honest(side) => Outcome(Ep(side)) \in Allowed(sc, RoleOf(side))

\* C01 stated directly over the symbolic state
Auth == Done => \A side \in {"d", "l"} : (Honest(side) /\ Ep(side).st = "ok") =>
  LET ep == Ep(side)  o == Other(side) IN
  /\ ep.peer = IdOf(sc, o)                                   \* the remote holds the identity key of P
  /\ ep.pl.sig.by = IdOf(sc, o)                               \* ... and signed ...
  /\ ep.pl.sig.over = <<"prefix", StaticOf(sc, o)>>           \* ... the static key of this very session
  /\ ep.rs = StaticOf(sc, o)
  /\ (side = "d" /\ sc.dialed # "none" => sc.dialed = ep.peer /\ sc.dialedForm = "inline")   \* the dialed id is the proven id
  /\ (sc.mitm.msg = 0 \/ (side = "d" /\ sc.mitm.msg = 3))    \* no altered byte it could have seen
NoHang == Done => \A side \in {"d", "l"} : Ep(side).st # "run"
Agreement == Done /\ d.st = "ok" /\ l.st = "ok" => d.ss = l.ss

\* one behaviour per history, emitted when its last handshake ends
Emit == (pc' = 6 /\ k = Len(hs.steps)) => PrintT(<<"B", ToJson([route |-> hs.route, steps |-> hs.steps, exp |-> res'])>>)
=============================================================================
