--------------------------- MODULE QuicTransportMC ---------------------------
(***************************************************************************)
(* Implementation-shaped model of QuicTransport (src/transport/quic/mod.rs)*)
(* against the SAME interface monitor as the TCP transport                 *)
(* (TransportIface.tla is transport-agnostic).  Structure of the code:     *)
(*   dial()      needs /p2p (Err(PeerIdMissing) before any bookkeeping);   *)
(*               pending_dials.insert, pending_connections.push(lookup +   *)
(*               quinn connect + certificate -> peer id)                   *)
(*   open()      one such future per address in a FuturesUnordered, first  *)
(*               success wins (no stage between socket and negotiation:    *)
(*               the QUIC/TLS handshake is the negotiation), abortable,    *)
(*               cancel_futures.insert                                     *)
(*   negotiate() opened_raw.remove, a ready future into pending_connections*)
(*   poll_next() listener -> pending_inbound_connections; raw results ->   *)
(*               opened_raw / OpenFailure / nothing when aborted;          *)
(*               pending_connections -> on_connection_established(), which *)
(*               tells dialer from listener ONLY by whether pending_dials  *)
(*               has the id.                                               *)
(* Mutant = "negotiate-forgets-dialer" is the pinned code before the       *)
(* repair: negotiate() did not put the id back into pending_dials, so a    *)
(* connection made by open()+negotiate() was announced with a *listener*   *)
(* endpoint (the manager then counts it against the incoming limit).       *)
(***************************************************************************)
EXTENDS TransportIface, Integers, SequencesExt, FiniteSetsExt, Json

CONSTANTS Addrs, Peers, MaxCid, MaxOpenLen, Mutant

VARIABLES pd,      \* pending_dials (keys)
          pin,     \* pending_inbound_connections (keys)
          pconn,   \* pending_connections: futures [c, k] with k in dial | neg | in
          praw,    \* pending_raw_connections: ids
          opened,  \* opened_raw (keys)
          popen,   \* pending_open (keys)
          cf,      \* cancel_futures: id -> aborted?
          req, auth, next, nconn, mon, warn,
          dconn,   \* futures of pending_connections whose work is finished but that were not polled since: [f, res, p]
          draw,    \* the same for pending_raw_connections: [c, res, a, errs]
          awake,   \* the task polling the stream has been woken (or has just issued a command)
          hist

vars == <<pd, pin, pconn, praw, opened, popen, cf, req, auth, next, nconn, mon, warn, dconn, draw, awake, hist>>

WantOf(a) == IF a = "a3" THEN "" ELSE "P1"
SockOf(a) == "s" \o a
Addrs2 == {"a1", "a2"}
Addrs3 == {"a1", "a2", "a3"}
Addrs13 == {"a1", "a3"}
Addrs1 == {"a1"}
PeersDef == {"P1", "P2"}

Init ==
  /\ pd = {} /\ pin = {} /\ pconn = {} /\ praw = {} /\ opened = {} /\ popen = {} /\ cf = <<>>
  /\ req = <<>> /\ auth = <<>> /\ next = 0 /\ nconn = 0
  /\ mon = MonInit /\ warn = FALSE /\ hist = <<>>
  /\ dconn = {} /\ draw = {} /\ awake = TRUE

Ids == 0..(next - 1)
Seq1(S) == {<<a>> : a \in S}
Seq2(S) == {<<a, b>> : a \in S, b \in S} \ {<<a, a>> : a \in S}
OpenArgs == IF MaxOpenLen >= 2 THEN Seq1(Addrs) \cup Seq2(Addrs) ELSE Seq1(Addrs)
Map(f(_), s) == [i \in 1..Len(s) |-> f(s[i])]
Without(f, c) == [x \in DOMAIN f \ {c} |-> f[x]]

Feed(m, h) == /\ mon' = m /\ hist' = Append(hist, h)
Call(k, h) == Feed(MonCall(mon, k), h) /\ awake' = TRUE /\ UNCHANGED <<dconn, draw>>
Polled == UNCHANGED awake
Event(e, h) == Feed(MonEvent(mon, e), h)

-----------------------------------------------------------------------------
CDial(a) ==
  /\ next < MaxCid
  /\ next' = next + 1
  /\ req' = (next :> [addrs |-> <<a>>]) @@ req
  /\ UNCHANGED <<pin, praw, opened, popen, cf, auth, nconn, warn>>
  /\ IF WantOf(a) = ""
       THEN /\ UNCHANGED <<pd, pconn>>
            /\ Call([c |-> "dial", cid |-> next, ret |-> "err", addrs |-> <<a>>, socks |-> <<SockOf(a)>>, wants |-> <<"">>],
                    [a |-> "dial", c |-> next, addr |-> a])
       ELSE /\ pd' = pd \cup {next}
            /\ pconn' = pconn \cup {[c |-> next, k |-> "dial"]}
            /\ Call([c |-> "dial", cid |-> next, ret |-> "ok", addrs |-> <<a>>, socks |-> <<SockOf(a)>>, wants |-> <<WantOf(a)>>],
                    [a |-> "dial", c |-> next, addr |-> a])

CDialBad ==
  /\ next < MaxCid
  /\ next' = next + 1
  /\ req' = (next :> [addrs |-> <<"bad">>]) @@ req
  /\ UNCHANGED <<pd, pin, pconn, praw, opened, popen, cf, auth, nconn, warn>>
  /\ Call([c |-> "dial", cid |-> next, ret |-> "err", addrs |-> <<"bad">>, socks |-> <<"bad">>, wants |-> <<"">>],
          [a |-> "dial_bad", c |-> next])

COpen(as) ==
  /\ next < MaxCid
  /\ next' = next + 1
  /\ praw' = praw \cup {next}
  /\ cf' = (next :> FALSE) @@ cf
  /\ req' = (next :> [addrs |-> as]) @@ req
  /\ UNCHANGED <<pd, pin, pconn, opened, popen, auth, nconn, warn>>
  /\ Call([c |-> "open", cid |-> next, ret |-> "ok", addrs |-> as, socks |-> Map(SockOf, as), wants |-> Map(WantOf, as)],
          [a |-> "open", c |-> next, addrs |-> as])

CCancel(c) ==
  /\ cf' = IF c \in DOMAIN cf THEN [cf EXCEPT ![c] = TRUE] ELSE cf
  /\ UNCHANGED <<pd, pin, pconn, praw, opened, popen, req, auth, next, nconn, warn>>
  /\ Call([c |-> "cancel", cid |-> c, ret |-> "ok"], [a |-> "cancel", c |-> c])

CNegotiate(c) ==
  /\ IF c \in opened
       THEN /\ opened' = opened \ {c}
            /\ pconn' = pconn \cup {[c |-> c, k |-> "neg"]}
            \* repaired code: the address goes back into pending_dials, which is how on_connection_established()
            \* recognises a connection this node dialed
            /\ pd' = IF Mutant = "negotiate-forgets-dialer" THEN pd ELSE pd \cup {c}
       ELSE UNCHANGED <<opened, pconn, pd>>
  /\ UNCHANGED <<pin, praw, popen, cf, req, auth, next, nconn, warn>>
  /\ Call([c |-> "negotiate", cid |-> c, ret |-> IF c \in opened THEN "ok" ELSE "err"], [a |-> "negotiate", c |-> c])

CDecide(c, what) ==
  /\ popen' = popen \ {c}
  /\ UNCHANGED <<pd, pin, pconn, praw, opened, cf, req, auth, next, nconn, warn>>
  /\ Call([c |-> what, cid |-> c, ret |-> IF c \in popen THEN "ok" ELSE "err"], [a |-> what, c |-> c])

CAcceptPending(c) ==
  /\ pin' = pin \ {c}
  /\ pconn' = IF c \in pin THEN pconn \cup {[c |-> c, k |-> "in"]} ELSE pconn
  /\ UNCHANGED <<pd, praw, opened, popen, cf, req, auth, next, nconn, warn>>
  /\ Call([c |-> "accept_pending", cid |-> c, ret |-> IF c \in pin THEN "ok" ELSE "err"], [a |-> "accept_pending", c |-> c])

CRejectPending(c) ==
  /\ pin' = pin \ {c}
  /\ UNCHANGED <<pd, pconn, praw, opened, popen, cf, req, auth, next, nconn, warn>>
  /\ Call([c |-> "reject_pending", cid |-> c, ret |-> IF c \in pin THEN "ok" ELSE "err"], [a |-> "reject_pending", c |-> c])

RemoteConnect ==
  /\ nconn + next < MaxCid
  /\ nconn' = nconn + 1
  /\ awake' = TRUE
  /\ UNCHANGED <<pd, pin, pconn, praw, opened, popen, cf, req, auth, next, warn, dconn, draw>>
  /\ Feed(MonConnect(mon), [a |-> "connect"])

\* the work of a future finishes while nobody polls (see TcpTransportMC)
DoneConn(f) ==
  /\ f \in pconn /\ ~\E d \in dconn : d.f = f
  /\ \E res \in {"ok", "err"} : \E p \in Peers :
       /\ (f.k = "neg" => res = "ok" /\ p = auth[f.c].p)
       /\ (f.k = "dial" /\ res = "ok" => p = WantOf(req[f.c].addrs[1]))   \* the TLS verifier only accepts the named peer
       /\ (res = "err" => p = "P1")
       /\ dconn' = dconn \cup {[f |-> f, res |-> res, p |-> p]}
       /\ hist' = Append(hist, [a |-> "done", c |-> f.c, k |-> f.k, res |-> res])
  /\ awake' = TRUE
  /\ UNCHANGED <<pd, pin, pconn, praw, opened, popen, cf, req, auth, next, nconn, mon, warn, draw>>

DoneRaw(c) ==
  /\ c \in praw /\ ~\E d \in draw : d.c = c
  /\ \/ \E i \in 1..Len(req[c].addrs) : \E errset \in SUBSET (ToSetS(req[c].addrs) \ {req[c].addrs[i]}) :
          LET a == req[c].addrs[i] IN
          /\ WantOf(a) # ""     \* PeerIdMissing otherwise
          /\ draw' = draw \cup {[c |-> c, res |-> "connected", a |-> a, errs |-> SetToSeq(errset)]}
          /\ hist' = Append(hist, [a |-> "done", c |-> c, k |-> "raw", res |-> "connected"])
     \/ \* no deadline in QUIC's open(): Failed carries an error for every address
        /\ draw' = draw \cup {[c |-> c, res |-> "failed", a |-> "", errs |-> req[c].addrs]}
        /\ hist' = Append(hist, [a |-> "done", c |-> c, k |-> "raw", res |-> "failed"])
  /\ awake' = TRUE
  /\ UNCHANGED <<pd, pin, pconn, praw, opened, popen, cf, req, auth, next, nconn, mon, warn, dconn>>

-----------------------------------------------------------------------------
PListener ==
  /\ awake /\ nconn > 0 /\ next < MaxCid
  /\ next' = next + 1 /\ nconn' = nconn - 1
  /\ pin' = pin \cup {next}
  /\ req' = (next :> [addrs |-> <<>>]) @@ req
  /\ UNCHANGED <<pd, pconn, praw, opened, popen, cf, auth, warn, dconn, draw>> /\ Polled
  /\ Event([k |-> "pending_inbound", cid |-> next], [a |-> "p_listener", c |-> next])

PRawCanceled(c) ==
  /\ awake /\ c \in praw /\ c \in DOMAIN cf /\ cf[c]
  /\ praw' = praw \ {c}
  /\ draw' = {d \in draw : d.c # c}
  /\ cf' = Without(cf, c)
  /\ UNCHANGED <<pd, pin, pconn, opened, popen, req, auth, next, nconn, warn, dconn>> /\ Polled
  /\ Feed(mon, [a |-> "p_raw", c |-> c, res |-> "canceled"])

PRawTake(d) ==
  /\ awake /\ d \in draw /\ (d.c \in DOMAIN cf => ~cf[d.c])
  /\ LET c == d.c IN
     /\ praw' = praw \ {c}
     /\ draw' = draw \ {d}
     /\ UNCHANGED <<pd, pin, pconn, popen, req, next, nconn, dconn>> /\ Polled
     /\ IF c \notin DOMAIN cf
          THEN /\ warn' = TRUE /\ UNCHANGED <<cf, opened, auth>>
               /\ Feed(mon, [a |-> "p_raw", c |-> c, res |-> "lost"])
          ELSE /\ cf' = Without(cf, c) /\ warn' = warn
               /\ IF d.res = "connected"
                    THEN /\ opened' = opened \cup {c}
                         /\ auth' = (c :> [p |-> WantOf(d.a), a |-> d.a]) @@ auth
                         /\ Event([k |-> "opened", cid |-> c, addr |-> d.a, errs |-> d.errs],
                                  [a |-> "p_raw", c |-> c, res |-> "connected", addr |-> d.a, errs |-> d.errs])
                    ELSE /\ UNCHANGED <<opened, auth>>
                         /\ Event([k |-> "open_failure", cid |-> c, errs |-> d.errs],
                                  [a |-> "p_raw", c |-> c, res |-> "failed", errs |-> d.errs])

\* on_connection_established(id, result)
PConnTake(d) ==
  /\ awake /\ d \in dconn
  /\ pconn' = pconn \ {d.f}
  /\ dconn' = dconn \ {d}
  /\ LET c == d.f.c k == d.f.k dialed == c \in pd IN
     /\ pd' = pd \ {c}
     /\ UNCHANGED <<pin, praw, opened, cf, req, auth, next, nconn, warn, draw>>
     /\ IF d.res = "ok"
          THEN /\ popen' = popen \cup {c}
               /\ Polled
               /\ LET a == IF k = "dial" THEN req[c].addrs[1] ELSE IF k = "neg" THEN auth[c].a ELSE "remote" IN
                  Event([k |-> "est", cid |-> c, dir |-> IF dialed THEN "out" ELSE "in", peer |-> d.p, addr |-> IF dialed THEN a ELSE "remote"],
                        [a |-> "p_conn", c |-> c, res |-> "ok", peer |-> d.p])
          ELSE /\ UNCHANGED popen
               /\ IF dialed
                    THEN /\ Polled
                         /\ Event([k |-> "dial_failure", cid |-> c, addr |-> req[c].addrs[1]], [a |-> "p_conn", c |-> c, res |-> "err"])
                    ELSE /\ awake' = (Mutant # "inbound-failure-ends-poll")
                         /\ Feed(mon, [a |-> "p_conn", c |-> c, res |-> "err"])

NothingReady == dconn = {} /\ nconn = 0 /\ draw = {} /\ \A c \in praw : ~(c \in DOMAIN cf /\ cf[c])
PollIdle ==
  /\ awake /\ NothingReady
  /\ awake' = FALSE
  /\ UNCHANGED <<pd, pin, pconn, praw, opened, popen, cf, req, auth, next, nconn, mon, warn, dconn, draw, hist>>

Next ==
  \/ \E a \in Addrs : CDial(a)
  \/ CDialBad
  \/ \E as \in OpenArgs : COpen(as)
  \/ \E c \in Ids : \/ CCancel(c) \/ CNegotiate(c) \/ CDecide(c, "accept") \/ CDecide(c, "reject")
                    \/ CAcceptPending(c) \/ CRejectPending(c)
                    \/ PRawCanceled(c) \/ DoneRaw(c)
  \/ RemoteConnect \/ PListener \/ PollIdle
  \/ \E f \in pconn : DoneConn(f)
  \/ \E d \in dconn : PConnTake(d)
  \/ \E d \in draw : PRawTake(d)

Spec == Init /\ [][Next]_vars

-----------------------------------------------------------------------------
Bk == [pending_dials |-> SetToSeq(pd), pending_inbound |-> SetToSeq(pin), opened |-> SetToSeq(opened),
       pending_open |-> SetToSeq(popen), cancel_futures |-> SetToSeq(DOMAIN cf),
       pending_connections |-> Cardinality(pconn), pending_raw_connections |-> Cardinality(praw)]

LegalTransport == mon.bad = ""
HandlesExact == ~warn /\ DOMAIN cf = praw
BookkeepingExact == /\ BkExact(mon, Bk)
                    /\ (Mutant = "" => pd = IdsIn(mon, {"dialing", "negotiating"}))
                    /\ IdsIn(mon, {"dialing", "negotiating"}) \subseteq {f.c : f \in pconn}
                    /\ {f.c : f \in pconn} \subseteq IdsIn(mon, {"dialing", "negotiating", "in_neg"})
NoLostWakeup == ~awake => NothingReady
Quiescent == ~awake /\ nconn = 0 /\ (\A f \in pconn : \E d \in dconn : d.f = f) /\ (\A c \in praw : \E d \in draw : d.c = c)
LeakFree == Quiescent => MonQuiesce(mon, Bk).bad = ""
CancelledNeverOpened == \A c \in DOMAIN cf : cf[c] => c \notin opened

View == <<pd, pin, pconn, praw, opened, popen, cf, req, auth, next, nconn, mon, warn, dconn, draw, awake>>
GenView == <<pd, pin, pconn, praw, opened, popen, cf, req, auth, next, nconn, dconn, draw, awake>>
Emit == PrintT(<<"B", ToJson([steps |-> hist'])>>)
=============================================================================
